#!/bin/bash
# Offline setup after a fresh restore: build the Lean project (theorems, drivers) and the Go harness.
set -e
cd "$(dirname "$0")"
export GOFLAGS=-mod=mod GOPROXY=off GOSUMDB=off GOTOOLCHAIN=local
mkdir -p .build evidence replays
(cd harness && go build -o ../.build/extract ./cmd/extract)
./.build/extract -repo /repo -out lean/Generated/Tables.lean -facts .build/facts.json
(cd lean && lake build && for d in $(grep -o 'name = "drv_[a-z0-9_]*"' lakefile.toml | cut -d'"' -f2); do r=$(grep -A1 "name = \"$d\"" lakefile.toml | grep root | cut -d'"' -f2 | tr . /); if [ -f "$r.lean" ]; then lake build $d; fi; done)
for d in harness/cmd/*/; do n=$(basename $d); [ "$n" = extract ] && continue; (cd harness && go build -tags verif -o ../.build/$n ./cmd/$n); done
echo setup-ok
