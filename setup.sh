#!/bin/bash
# Offline setup after a fresh restore: regenerate tables, build the Lean targets (theorems, drivers) and
# the Go harness of every claimed property. Failures are reported but do not stop the setup: each check
# rebuilds what it needs itself and reports a broken build as CHECK-ERROR / broken obligation.
cd "$(dirname "$0")"
export GOFLAGS=-mod=mod GOPROXY=off GOSUMDB=off GOTOOLCHAIN=local
mkdir -p .build evidence replays
(cd harness && go build -o ../.build/extract ./cmd/extract) || echo "setup: extractor build failed"
./.build/extract -repo /repo -out lean/Generated/Tables.lean -facts .build/facts.json || echo "setup: extractor failed"
python3 - <<'PY'
import json, os, subprocess
root = os.getcwd()
man = json.load(open("MANIFEST.json"))
env = dict(os.environ)
for c in man["checks"]:
    pid = c["property_id"]
    cfg = json.load(open(f"checks.d/{pid}.json"))
    mods = cfg.get("props_modules") or [cfg.get("props_module", pid)]
    units = cfg.get("units") or [{"driver": cfg.get("driver"), "harness": cfg.get("harness"), "race": cfg.get("race", False)}]
    targets = [f"Props.{m}" for m in mods] + ["Audit.Common"] + sorted({u["driver"] for u in units if u.get("driver")})
    r = subprocess.run(["lake", "build"] + targets, cwd="lean", stdout=subprocess.PIPE, stderr=subprocess.STDOUT, text=True)
    print(f"setup: lean {pid}: {'ok' if r.returncode == 0 else 'FAILED'}")
    if r.returncode != 0:
        print(r.stdout[-1500:])
    for u in units:
        if u.get("harness"):
            cmd = ["go", "build", "-tags", "verif"] + (["-race"] if u.get("race") else []) + ["-o", f"../.build/{u['harness']}", f"./cmd/{u['harness']}"]
            r = subprocess.run(cmd, cwd="harness", stdout=subprocess.PIPE, stderr=subprocess.STDOUT, text=True, env=env)
            print(f"setup: go {pid}/{u['harness']}: {'ok' if r.returncode == 0 else 'FAILED'}")
            if r.returncode != 0:
                print(r.stdout[-1500:])
PY
echo setup-ok
