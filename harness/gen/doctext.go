// Package gen holds the input generators shared by the property harnesses.
package gen

import (
	"fmt"
	"strings"

	"verif/harness/hx"
)

// DocText produces a syntactically valid GraphQL document (executable and/or type-system
// definitions) of unbounded shape; `size` biases depth and breadth. It is grammar-directed, not
// schema-directed: names are drawn from a small pool so that fragments/variables sometimes match.
type DocGen struct {
	R          *hx.Rng
	Size       int
	TypeSystem bool // allow type-system definitions
	Exec       bool // allow executable definitions
	Exotic     bool // exotic strings, block strings, comments, commas
}

var names = []string{"a", "b", "c", "foo", "bar", "id", "name", "x1", "_y", "Query", "T", "on2", "type", "query", "fragment", "true1", "input", "enum"}
var typeNames = []string{"Int", "String", "Boolean", "Float", "ID", "T", "U", "Query", "Node"}

func (g *DocGen) name() string     { return g.R.Pick(names) }
func (g *DocGen) typeName() string { return g.R.Pick(typeNames) }

func (g *DocGen) Document() string {
	var b strings.Builder
	n := g.R.Range(1, 1+g.Size/2)
	for i := 0; i < n; i++ {
		if i > 0 {
			b.WriteString(g.sep())
		}
		b.WriteString(g.definition())
	}
	return b.String()
}

func (g *DocGen) sep() string {
	if g.Exotic {
		switch g.R.Intn(6) {
		case 0:
			return "\n# comment\n"
		case 1:
			return " , "
		case 2:
			return "\r\n"
		case 3:
			return "\t\n"
		}
	}
	return "\n"
}

func (g *DocGen) sp() string {
	if g.Exotic && g.R.Chance(1, 8) {
		return g.R.Pick([]string{"  ", "\n", ",", " ,", "\t", " #c\n"})
	}
	return " "
}

func (g *DocGen) definition() string {
	exec := g.Exec || !g.TypeSystem
	if exec && g.TypeSystem {
		exec = g.R.Chance(1, 2)
	}
	if exec {
		switch g.R.Intn(5) {
		case 0:
			return g.selectionSet(g.Size)
		case 1:
			return "fragment " + g.fragName() + " on " + g.typeName() + g.directives(false) + " " + g.selectionSet(g.Size)
		default:
			op := g.R.Pick([]string{"query", "mutation", "subscription"})
			s := op
			if g.R.Chance(2, 3) {
				s += " " + g.name()
			}
			if g.R.Chance(1, 2) {
				s += g.varDefs()
			}
			s += g.directives(false)
			return s + " " + g.selectionSet(g.Size)
		}
	}
	return g.typeSystemDef()
}

func (g *DocGen) fragName() string {
	for {
		n := g.name()
		if n != "on" {
			return n
		}
	}
}

func (g *DocGen) varDefs() string {
	n := g.R.Range(1, 3)
	parts := []string{}
	for i := 0; i < n; i++ {
		s := "$" + g.name() + ":" + g.sp() + g.typeRef(2)
		if g.R.Chance(1, 3) {
			s += " = " + g.value(2, true)
		}
		parts = append(parts, s)
	}
	return "(" + strings.Join(parts, ","+g.sp()) + ")"
}

func (g *DocGen) typeRef(d int) string {
	var s string
	if d > 0 && g.R.Chance(1, 3) {
		s = "[" + g.typeRef(d-1) + "]"
	} else {
		s = g.typeName()
	}
	if g.R.Chance(1, 3) {
		s += "!"
	}
	return s
}

func (g *DocGen) selectionSet(d int) string {
	n := g.R.Range(1, 3)
	parts := []string{}
	for i := 0; i < n; i++ {
		parts = append(parts, g.selection(d-1))
	}
	return "{" + g.sp() + strings.Join(parts, g.sp()) + g.sp() + "}"
}

func (g *DocGen) selection(d int) string {
	switch g.R.Intn(6) {
	case 0:
		return "..." + g.fragName() + g.directives(false)
	case 1:
		s := "..."
		if g.R.Chance(2, 3) {
			s += " on " + g.typeName()
		}
		s += g.directives(false)
		if d <= 0 {
			return s + " { " + g.name() + " }"
		}
		return s + " " + g.selectionSet(d)
	default:
		s := ""
		if g.R.Chance(1, 4) {
			s = g.name() + ":" + g.sp()
		}
		s += g.name()
		if g.R.Chance(1, 3) {
			s += g.arguments(false)
		}
		s += g.directives(false)
		if d > 0 && g.R.Chance(1, 2) {
			s += " " + g.selectionSet(d)
		}
		return s
	}
}

func (g *DocGen) arguments(isConst bool) string {
	n := g.R.Range(1, 3)
	parts := []string{}
	for i := 0; i < n; i++ {
		parts = append(parts, g.name()+":"+g.sp()+g.value(2, isConst))
	}
	return "(" + strings.Join(parts, ","+g.sp()) + ")"
}

func (g *DocGen) directives(isConst bool) string {
	if !g.R.Chance(1, 4) {
		return ""
	}
	n := g.R.Range(1, 2)
	s := ""
	for i := 0; i < n; i++ {
		s += " @" + g.R.Pick([]string{"skip", "include", "dir", "a"})
		if g.R.Chance(1, 2) {
			s += g.arguments(isConst)
		}
	}
	return s
}

// Value produces a value literal; isConst forbids variables.
func (g *DocGen) Value(d int, isConst bool) string { return g.value(d, isConst) }

func (g *DocGen) value(d int, isConst bool) string {
	k := g.R.Intn(10)
	if d <= 0 && k >= 8 {
		k = g.R.Intn(8)
	}
	switch k {
	case 0:
		if isConst {
			return "1"
		}
		return "$" + g.name()
	case 1:
		return g.R.Pick([]string{"0", "-0", "7", "-12", "2147483647", "123456789012", "10"})
	case 2:
		return g.R.Pick([]string{"1.5", "-0.0", "0.0e-0", "1e3", "2E+2", "3.25e-1", "6.0221413e23"})
	case 3:
		return g.stringLit()
	case 4:
		return g.R.Pick([]string{"true", "false"})
	case 5:
		if g.R.Chance(1, 12) {
			return "null" // rejected by this edition of the grammar
		}
		return g.R.Pick([]string{"RED", "GREEN", "A_b", "on"})
	case 6:
		if g.Exotic && g.R.Chance(1, 2) {
			return g.blockString()
		}
		return g.stringLit()
	case 7:
		return g.R.Pick([]string{"[]", "{}"})
	case 8:
		n := g.R.Range(1, 3)
		parts := []string{}
		for i := 0; i < n; i++ {
			parts = append(parts, g.value(d-1, isConst))
		}
		return "[" + strings.Join(parts, ","+g.sp()) + "]"
	default:
		n := g.R.Range(1, 3)
		parts := []string{}
		for i := 0; i < n; i++ {
			parts = append(parts, g.name()+":"+g.sp()+g.value(d-1, isConst))
		}
		return "{" + strings.Join(parts, ","+g.sp()) + "}"
	}
}

var strPieces = []string{"a", "hello", " ", "\\n", "\\\"", "\\\\", "\\/", "\\b", "\\f", "\\r", "\\t", "\\u0041", "\\u00e9", "é", "😀", "#", ",", "{", "\\u0007", "\x7f", "日本"}

func (g *DocGen) stringLit() string {
	n := g.R.Intn(4)
	s := ""
	for i := 0; i < n; i++ {
		if g.Exotic {
			s += g.R.Pick(strPieces)
		} else {
			s += g.R.Pick(strPieces[:5])
		}
	}
	return "\"" + s + "\""
}

var blockPieces = []string{"a", " ", "  ", "\n", "\r\n", "\r", "\t", "\"", "\"\"", "\\\"\"\"", "\\n", "x y", "é", "\\"}

func (g *DocGen) blockString() string {
	n := g.R.Intn(6)
	s := ""
	for i := 0; i < n; i++ {
		s += g.R.Pick(blockPieces)
	}
	// a block string body may not end in an unescaped quote run that merges with the terminator
	for strings.HasSuffix(s, "\"") {
		s = s[:len(s)-1]
	}
	s = strings.ReplaceAll(s, "\"\"\"", "\"\"")
	return "\"\"\"" + s + "\"\"\""
}

func (g *DocGen) description() string {
	if !g.R.Chance(1, 4) {
		return ""
	}
	if g.Exotic && g.R.Chance(1, 2) {
		return g.blockString() + "\n"
	}
	return g.stringLit() + "\n"
}

func (g *DocGen) fieldDefs() string {
	n := g.R.Range(0, 3)
	parts := []string{}
	for i := 0; i < n; i++ {
		s := g.description() + g.name()
		if g.R.Chance(1, 3) {
			s += g.argDefs()
		}
		s += ": " + g.typeRef(2) + g.directives(true)
		parts = append(parts, s)
	}
	return "{" + g.sp() + strings.Join(parts, g.sep()) + g.sp() + "}"
}

func (g *DocGen) argDefs() string {
	n := g.R.Range(1, 2)
	parts := []string{}
	for i := 0; i < n; i++ {
		parts = append(parts, g.inputValueDef())
	}
	return "(" + strings.Join(parts, ", ") + ")"
}

func (g *DocGen) inputValueDef() string {
	s := g.description() + g.name() + ": " + g.typeRef(2)
	if g.R.Chance(1, 3) {
		s += " = " + g.value(2, true)
	}
	return s + g.directives(true)
}

func (g *DocGen) typeSystemDef() string {
	switch g.R.Intn(9) {
	case 0:
		ops := []string{}
		for _, o := range []string{"query", "mutation", "subscription"} {
			if g.R.Chance(1, 2) || len(ops) == 0 && o == "subscription" {
				ops = append(ops, o+": "+g.typeName())
			}
		}
		return "schema" + g.directives(true) + " { " + strings.Join(ops, " ") + " }"
	case 1:
		return g.description() + "scalar " + g.typeName() + g.directives(true)
	case 2:
		s := g.description() + "type " + g.typeName()
		if g.R.Chance(1, 2) {
			s += " implements " + g.typeName()
			if g.R.Chance(1, 3) {
				s += " & " + g.typeName()
			}
		}
		return s + g.directives(true) + " " + g.fieldDefs()
	case 3:
		return g.description() + "interface " + g.typeName() + g.directives(true) + " " + g.fieldDefs()
	case 4:
		s := g.description() + "union " + g.typeName() + g.directives(true) + " = "
		if g.R.Chance(1, 4) {
			s += "| "
		}
		s += g.typeName()
		for g.R.Chance(1, 2) {
			s += " | " + g.typeName()
		}
		return s
	case 5:
		n := g.R.Range(0, 3)
		parts := []string{}
		for i := 0; i < n; i++ {
			parts = append(parts, g.description()+g.R.Pick([]string{"RED", "GREEN", "B_1", "on"})+g.directives(true))
		}
		return g.description() + "enum " + g.typeName() + g.directives(true) + " { " + strings.Join(parts, " ") + " }"
	case 6:
		n := g.R.Range(0, 3)
		parts := []string{}
		for i := 0; i < n; i++ {
			parts = append(parts, g.inputValueDef())
		}
		return g.description() + "input " + g.typeName() + g.directives(true) + " { " + strings.Join(parts, " ") + " }"
	case 7:
		return "extend type " + g.typeName() + g.directives(true) + " " + g.fieldDefs()
	default:
		s := g.description() + "directive @" + g.name()
		if g.R.Chance(1, 2) {
			s += g.argDefs()
		}
		locs := []string{"FIELD", "QUERY", "FRAGMENT_SPREAD", "OBJECT", "ENUM_VALUE", "SCHEMA"}
		s += " on "
		if g.R.Chance(1, 4) {
			s += "| "
		}
		s += g.R.Pick(locs)
		for g.R.Chance(1, 3) {
			s += " | " + g.R.Pick(locs)
		}
		return s
	}
}

// Describe is a short rendering for samples.
func Describe(s string) string {
	if len(s) > 200 {
		return fmt.Sprintf("%s…(%d bytes)", s[:200], len(s))
	}
	return s
}
