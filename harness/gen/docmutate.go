package gen

// Typed mutations of a valid document IR (validdoc.go), each aimed at one validation rule (some necessarily
// trip a second rule too, e.g. an added unused variable of a non-input type). Mutate applies one mutation in
// place and reports whether it was applicable to this document / schema.

import (
	"fmt"
	"sort"
	"strings"

	"verif/harness/gq"
	"verif/harness/hx"
)

// MutationKinds lists every mutation with the rule it aims at.
var MutationKinds = []struct{ Kind, Rule string }{
	{"unknownField", "FieldsOnCorrectType"},
	{"fieldOfOtherType", "FieldsOnCorrectType"},
	{"typenameLikeUnknown", "FieldsOnCorrectType"},
	{"unknownArg", "KnownArgumentNames"},
	{"unknownDirectiveArg", "KnownArgumentNames"},
	{"unknownType", "KnownTypeNames"},
	{"unknownDirective", "KnownDirectives"},
	{"unknownDirectiveFieldArg", "ArgumentsOfCorrectType"},
	{"misplacedDirective", "KnownDirectives"},
	{"unknownFragment", "KnownFragmentNames"},
	{"wrongLiteral", "ArgumentsOfCorrectType"},
	{"wrongDirectiveLiteral", "ArgumentsOfCorrectType"},
	{"wrongDefault", "DefaultValuesOfCorrectType"},
	{"nonNullDefault", "DefaultValuesOfCorrectType"},
	{"missingRequiredArg", "ProvidedNonNullArguments"},
	{"missingDirectiveArg", "ProvidedNonNullArguments"},
	{"undefinedVariable", "NoUndefinedVariables"},
	{"unusedVariable", "NoUnusedVariables"},
	{"duplicateVariable", "UniqueVariableNames"},
	{"variableWrongPosition", "VariablesInAllowedPosition"},
	{"nonInputVariable", "VariablesAreInputTypes"},
	{"fragmentCycle", "NoFragmentCycles"},
	{"unusedFragment", "NoUnusedFragments"},
	{"duplicateFragment", "UniqueFragmentNames"},
	{"impossibleSpread", "PossibleFragmentSpreads"},
	{"fragmentOnNonComposite", "FragmentsOnCompositeTypes"},
	{"leafWithSelection", "ScalarLeafs"},
	{"compositeWithoutSelection", "ScalarLeafs"},
	{"duplicateArg", "UniqueArgumentNames"},
	{"duplicateInputField", "UniqueInputFieldNames"},
	{"nestedDuplicateInputField", "UniqueInputFieldNames"},
	{"duplicateOperationName", "UniqueOperationNames"},
	{"loneAnonymous", "LoneAnonymousOperation"},
	{"twoAnonymous", "LoneAnonymousOperation"},
	{"overlapName", "OverlappingFieldsCanBeMerged"},
	{"overlapArgs", "OverlappingFieldsCanBeMerged"},
	{"overlapShape", "OverlappingFieldsCanBeMerged"},
	{"bareInlineUnderWrapped", "PossibleFragmentSpreads"},
	{"nestedBadVariable", "VariablesInAllowedPosition"},
	{"nestedGoodVariable", "VariablesInAllowedPosition"},
	{"nestedWrongLiteral", "ArgumentsOfCorrectType"},
	{"listAtNonListPosition", "ArgumentsOfCorrectType"},
	{"multiFaultLiteral", "VariablesInAllowedPosition"},
	{"directiveEverywhere", "KnownDirectives"},
	{"operationWithoutRoot", "FieldsOnCorrectType"},
	{"changeOperationKind", "KnownDirectives"},
}

// SelList is one selection list of the document with the type context of its members.
type SelList struct {
	List    *[]*VSel
	Parent  string // parent type of the members ("" when a field's type is not composite)
	Wrapped bool   // TypeInfo.Type() at this point is a list / non-null type
	OpRoot  bool
}

func (d *VDoc) SelLists() []SelList {
	var out []SelList
	var walk func(l *[]*VSel, parent string, wrapped bool, root bool)
	walk = func(l *[]*VSel, parent string, wrapped bool, root bool) {
		out = append(out, SelList{List: l, Parent: parent, Wrapped: wrapped, OpRoot: root})
		for _, s := range *l {
			switch s.Kind {
			case "field":
				if s.HasSel {
					n := NamedOf(s.Type)
					walk(&s.Sel, n, n != s.Type, false)
				}
			case "inline":
				if s.On != "" {
					walk(&s.Sel, s.On, false, false)
				} else {
					walk(&s.Sel, parent, wrapped, false)
				}
			}
		}
	}
	for _, o := range d.Ops {
		walk(&o.Sel, o.Root, false, true)
	}
	for _, f := range d.Frags {
		walk(&f.Sel, f.On, false, false)
	}
	return out
}

func (d *VDoc) AllSels(kind string) []*VSel {
	var out []*VSel
	for _, l := range d.SelLists() {
		for _, s := range *l.List {
			if s.Kind == kind {
				out = append(out, s)
			}
		}
	}
	return out
}

type mut struct {
	r  *hx.Rng
	v  *SchemaView
	d  *VDoc
	lg *vgen // literal generator without variables
}

func pickSel(r *hx.Rng, xs []*VSel) *VSel {
	if len(xs) == 0 {
		return nil
	}
	return xs[r.Intn(len(xs))]
}

func (m *mut) userComposites() []string {
	var out []string
	for _, t := range m.v.Composites() {
		if !strings.HasPrefix(t, "__") {
			out = append(out, t)
		}
	}
	return out
}

// WrongLiteral returns a literal that is NOT valid for the input type `typ`.
func (m *mut) wrongLiteral(typ string) string {
	r := m.r
	te, err := gq.ParseType(typ)
	if err != nil {
		return `"x"`
	}
	for te.Kind == "nonNull" {
		te = te.Of
	}
	if te.Kind == "list" {
		inner := m.wrongLiteral(te.Of.String())
		switch r.Intn(3) {
		case 0:
			return inner // list of one with a wrong element
		case 1:
			return "[" + m.lg.literal(te.Of.String(), 1, false) + ", " + inner + "]"
		}
		return "[" + inner + "]"
	}
	switch te.Name {
	case "Int":
		return r.Pick([]string{`"x"`, "1.5", "2147483648", "-2147483649", "true", "RED", "[1, true]", "{a: 1}"})
	case "Float":
		return r.Pick([]string{`"1.5"`, "true", "RED", "{a: 1}"})
	case "String":
		return r.Pick([]string{"1", "1.5", "true", "RED", "{a: 1}"})
	case "Boolean":
		return r.Pick([]string{"1", `"true"`, "0.5", "RED"})
	case "ID":
		return r.Pick([]string{"1.5", "true", "RED", "{a: 1}"})
	}
	td := m.v.Type(te.Name)
	if td == nil {
		return `"x"`
	}
	switch td.Kind {
	case "ENUM":
		return r.Pick([]string{"NOPE", `"` + td.Values[0].Name + `"`, "1", "true"})
	case "SCALAR":
		return r.Pick([]string{"2", `"x"`, "1.5", "true", "RED", "[2]"})
	case "INPUT_OBJECT":
		switch r.Intn(4) {
		case 0:
			return "1"
		case 1:
			return `"x"`
		case 2:
			// unknown field next to the required ones
			lit := m.lg.literal(te.Name, 1, false)
			if lit == "{}" {
				return "{nope: 1}"
			}
			return strings.TrimSuffix(lit, "}") + ", nope: 1}"
		}
		// a wrong value for the first field
		f := td.InputFields[0]
		return "{" + f.Name + ": " + m.wrongLiteral(f.Type) + "}"
	}
	return `"x"`
}

func (m *mut) fieldsWithArgDefs() (sels []*VSel, defs [][]gq.ArgDesc) {
	for _, s := range m.d.AllSels("field") {
		if fd := m.v.Field(s.Parent, s.Name); fd != nil && len(fd.Args) > 0 {
			sels = append(sels, s)
			defs = append(defs, fd.Args)
		}
	}
	return
}

func setArg(s *VSel, name, value, typ string) {
	for _, a := range s.Args {
		if a.Name == name {
			a.Value = value
			return
		}
	}
	s.Args = append(s.Args, &VArg{Name: name, Value: value, Type: typ})
}

func (m *mut) ensureTwoOps() {
	if len(m.d.Ops) >= 2 {
		return
	}
	o := m.d.Ops[0]
	if o.Name == "" {
		o.Name = "Op0"
	}
	c := *o
	c.Name = "OpX"
	m.d.AddOp(&c)
}

func (m *mut) queryOp() *VOp {
	for _, o := range m.d.Ops {
		if o.Kind == "query" {
			return o
		}
	}
	return nil
}

func typenameSel(parent string) *VSel {
	return &VSel{Kind: "field", Name: "__typename", Parent: parent, Type: "String!"}
}

// chain puts `leaf` under `depth` levels of fresh fragments on type `on` and returns the selection to insert.
func (m *mut) chain(prefix string, on string, depth int, leaf *VSel) *VSel {
	if depth == 0 {
		return leaf
	}
	cur := leaf
	for i := depth; i >= 1; i-- {
		name := fmt.Sprintf("%s%d", prefix, i)
		m.d.AddFrag(&VFrag{Name: name, On: on, Sel: []*VSel{cur}})
		cur = &VSel{Kind: "spread", Name: name, Parent: on}
	}
	return cur
}

// Mutate applies mutation `kind` to the document; false when it does not apply.
func Mutate(r *hx.Rng, v *SchemaView, d *VDoc, kind string) bool {
	m := &mut{r: r, v: v, d: d, lg: &vgen{r: r, v: v, size: 2, o: ValidDocOpts{NoVariables: true}, keys: map[string]*keyInfo{}, vars: map[string]string{},
		varTyp: map[string]string{}, curVars: map[string]bool{}, curSpreads: map[string]bool{}, meta: &ValidMeta{Features: map[string]int{}}}}
	if _, ok := nestedFaultKinds[kind]; ok {
		return m.mutateNested(kind)
	}
	lists := d.SelLists()
	fields := d.AllSels("field")
	switch kind {
	case "unknownField":
		s := pickSel(r, fields)
		if s == nil {
			return false
		}
		s.Name = r.Pick([]string{"zz", "nope", "__nope", "F0"})
		s.Args = nil
	case "fieldOfOtherType":
		// a field that exists, but on another type
		for _, try := range permSels(r, fields) {
			for _, t := range m.userComposites() {
				for _, f := range m.v.Fields(t) {
					if m.v.Field(try.Parent, f.Name) == nil {
						try.Name, try.Args = f.Name, nil
						return true
					}
				}
			}
		}
		return false
	case "typenameLikeUnknown":
		// meta fields where they are not defined: __schema / __type below the root
		var c []*VSel
		for _, s := range fields {
			if s.Parent != v.D.Query {
				c = append(c, s)
			}
		}
		s := pickSel(r, c)
		if s == nil {
			return false
		}
		s.Name, s.Args = r.Pick([]string{"__schema", "__type", "__typenam"}), nil
	case "unknownArg":
		s := pickSel(r, fields)
		if s == nil {
			return false
		}
		s.Args = append(s.Args, &VArg{Name: r.Pick([]string{"zz", "if", "nope"}), Value: "1"})
	case "unknownDirectiveArg":
		s := pickSel(r, fields)
		if s == nil {
			return false
		}
		s.Dirs = append(s.Dirs, &VDir{Name: "skip", Args: []*VArg{{Name: "if", Value: "true"}, {Name: r.Pick([]string{"unless", "a0"}), Value: "1"}}})
	case "unknownType":
		bad := r.Pick([]string{"Nope", "[Nope]", "Nope!", "[Nope!]", "[Nope]!"})
		switch r.Intn(3) {
		case 0:
			o := d.Ops[r.Intn(len(d.Ops))]
			if len(o.Vars) > 0 {
				vd := o.Vars[r.Intn(len(o.Vars))]
				vd.Type = bad
				if r.Chance(1, 2) {
					vd.Default = ""
				}
			} else {
				o.Vars = append(o.Vars, &VVar{Name: "unk", Type: bad})
			}
		case 1:
			l := lists[r.Intn(len(lists))]
			*l.List = append(*l.List, &VSel{Kind: "inline", On: "Nope", Parent: l.Parent, Sel: []*VSel{typenameSel("Nope")}})
		default:
			if len(d.Frags) > 0 {
				d.Frags[r.Intn(len(d.Frags))].On = "Nope"
			} else {
				d.AddFrag(&VFrag{Name: "Unk", On: "Nope", Sel: []*VSel{typenameSel("Nope")}})
			}
		}
	case "unknownDirective":
		s := pickSel(r, fields)
		if s == nil {
			return false
		}
		dir := &VDir{Name: r.Pick([]string{"nope", "Skip", "defer"})}
		if r.Chance(1, 2) {
			dir.Args = []*VArg{{Name: "if", Value: "true"}}
		}
		s.Dirs = append(s.Dirs, dir)
	case "unknownDirectiveFieldArg":
		// an unknown directive whose argument is named like an argument of the enclosing field
		sels, defs := m.fieldsWithArgDefs()
		if len(sels) == 0 {
			return false
		}
		i := r.Intn(len(sels))
		a := defs[i][r.Intn(len(defs[i]))]
		val := m.wrongLiteral(a.Type)
		if r.Chance(1, 3) {
			val = m.lg.literal(a.Type, 1, false)
		}
		dir := &VDir{Name: "nope", Args: []*VArg{{Name: a.Name, Value: val}}}
		if sels[i].HasSel && r.Chance(1, 2) {
			// on an inline fragment nested in that field
			sels[i].Sel = append(sels[i].Sel, &VSel{Kind: "inline", Parent: NamedOf(sels[i].Type), On: NamedOf(sels[i].Type), Dirs: []*VDir{dir}, Sel: []*VSel{typenameSel(NamedOf(sels[i].Type))}})
		} else {
			sels[i].Dirs = append(sels[i].Dirs, dir)
		}
	case "misplacedDirective":
		if len(v.D.Directives) > 0 && r.Chance(1, 2) {
			// a custom directive at a place outside its locations
			type site struct {
				loc  string
				dirs *[]*VDir
			}
			var sites []site
			for _, s := range fields {
				sites = append(sites, site{"FIELD", &s.Dirs})
			}
			for _, s := range d.AllSels("inline") {
				sites = append(sites, site{"INLINE_FRAGMENT", &s.Dirs})
			}
			for _, s := range d.AllSels("spread") {
				sites = append(sites, site{"FRAGMENT_SPREAD", &s.Dirs})
			}
			for _, o := range d.Ops {
				sites = append(sites, site{strings.ToUpper(o.Kind), &o.Dirs})
			}
			for _, f := range d.Frags {
				sites = append(sites, site{"FRAGMENT_DEFINITION", &f.Dirs})
			}
			for _, si := range perm(r, len(sites)) {
				for _, di := range perm(r, len(v.D.Directives)) {
					dd := v.D.Directives[di]
					allowed := false
					for _, l := range dd.Locations {
						if l == sites[si].loc {
							allowed = true
						}
					}
					if allowed {
						continue
					}
					dir := &VDir{Name: dd.Name}
					for _, a := range dd.Args {
						if strings.HasSuffix(a.Type, "!") {
							dir.Args = append(dir.Args, &VArg{Name: a.Name, Value: m.lg.literal(a.Type, 1, false), Type: a.Type})
						}
					}
					*sites[si].dirs = append(*sites[si].dirs, dir)
					return true
				}
			}
		}
		switch r.Intn(3) {
		case 0:
			o := d.Ops[r.Intn(len(d.Ops))]
			o.Dirs = append(o.Dirs, &VDir{Name: r.Pick([]string{"skip", "include"}), Args: []*VArg{{Name: "if", Value: "true"}}})
		case 1:
			if len(d.Frags) == 0 {
				return false
			}
			f := d.Frags[r.Intn(len(d.Frags))]
			f.Dirs = append(f.Dirs, &VDir{Name: "include", Args: []*VArg{{Name: "if", Value: "true"}}})
		default:
			all := append(append([]*VSel{}, fields...), d.AllSels("inline")...)
			all = append(all, d.AllSels("spread")...)
			s := pickSel(r, all)
			dir := &VDir{Name: "deprecated"}
			if r.Chance(1, 2) {
				dir.Args = []*VArg{{Name: "reason", Value: `"x"`}}
			}
			s.Dirs = append(s.Dirs, dir)
		}
	case "directiveEverywhere":
		// one directive of the schema (custom or specified) at EVERY directive site of the document: allowed
		// placements and every misplacement of it at once
		all := append([]gq.DirectiveDesc{
			{Name: "skip", Locations: []string{"FIELD", "FRAGMENT_SPREAD", "INLINE_FRAGMENT"}, Args: []gq.ArgDesc{{Name: "if", Type: "Boolean!"}}},
			{Name: "include", Locations: []string{"FIELD", "FRAGMENT_SPREAD", "INLINE_FRAGMENT"}, Args: []gq.ArgDesc{{Name: "if", Type: "Boolean!"}}},
			{Name: "deprecated", Locations: []string{"FIELD_DEFINITION", "ENUM_VALUE"}}}, v.D.Directives...)
		dd := all[r.Intn(len(all))]
		mk := func() *VDir {
			dir := &VDir{Name: dd.Name}
			for _, a := range dd.Args {
				if strings.HasSuffix(a.Type, "!") {
					dir.Args = append(dir.Args, &VArg{Name: a.Name, Value: m.lg.literal(a.Type, 1, false), Type: a.Type})
				}
			}
			return dir
		}
		for _, o := range d.Ops {
			o.Dirs = append(o.Dirs, mk())
		}
		for _, f := range d.Frags {
			f.Dirs = append(f.Dirs, mk())
		}
		for _, k := range []string{"field", "spread", "inline"} {
			for _, s := range d.AllSels(k) {
				if r.Chance(2, 3) {
					s.Dirs = append(s.Dirs, mk())
				}
			}
		}
	case "operationWithoutRoot", "changeOperationKind":
		// an operation of another kind: with the selections it has (fields of the old root type) — and, for
		// operationWithoutRoot, a kind for which the schema has NO root type
		o := d.Ops[r.Intn(len(d.Ops))]
		var kinds []string
		for _, k := range []string{"query", "mutation", "subscription"} {
			has := k == "query" || k == "mutation" && v.D.Mutation != nil || k == "subscription" && v.D.Subscription != nil
			if k != o.Kind && has == (kind == "changeOperationKind") {
				kinds = append(kinds, k)
			}
		}
		if len(kinds) == 0 {
			return false
		}
		o.Kind = r.Pick(kinds)
		if o.Name == "" && len(o.Vars) == 0 && len(o.Dirs) == 0 {
			o.Name = "Chg"
		}
	case "unknownFragment":
		l := lists[r.Intn(len(lists))]
		*l.List = append(*l.List, &VSel{Kind: "spread", Name: r.Pick([]string{"Nope", "f0", "Q"}), Parent: l.Parent})
	case "wrongLiteral":
		sels, defs := m.fieldsWithArgDefs()
		if len(sels) == 0 {
			return false
		}
		i := r.Intn(len(sels))
		a := defs[i][r.Intn(len(defs[i]))]
		setArg(sels[i], a.Name, m.wrongLiteral(a.Type), a.Type)
	case "wrongDirectiveLiteral":
		all := append(append([]*VSel{}, fields...), d.AllSels("inline")...)
		s := pickSel(r, all)
		s.Dirs = append(s.Dirs, &VDir{Name: r.Pick([]string{"skip", "include"}), Args: []*VArg{{Name: "if", Value: m.wrongLiteral("Boolean!")}}})
	case "wrongDefault":
		o := d.Ops[r.Intn(len(d.Ops))]
		if len(o.Vars) == 0 {
			typ := r.Pick([]string{"Int", "String", "[Boolean]", "ID"})
			o.Vars = append(o.Vars, &VVar{Name: "wd", Type: typ, Default: m.wrongLiteral(typ)})
			return true
		}
		vd := o.Vars[r.Intn(len(o.Vars))]
		vd.Type = strings.TrimSuffix(vd.Type, "!")
		vd.Default = m.wrongLiteral(vd.Type)
	case "nonNullDefault":
		o := d.Ops[r.Intn(len(d.Ops))]
		if len(o.Vars) == 0 {
			o.Vars = append(o.Vars, &VVar{Name: "nd", Type: "Int!", Default: "1"})
			return true
		}
		vd := o.Vars[r.Intn(len(o.Vars))]
		if !strings.HasSuffix(vd.Type, "!") {
			vd.Type += "!"
		}
		vd.Default = m.lg.literal(vd.Type, 1, false)
	case "missingRequiredArg":
		var c []*VSel
		var names []string
		for _, s := range fields {
			if fd := m.v.Field(s.Parent, s.Name); fd != nil {
				for _, a := range fd.Args {
					if strings.HasSuffix(a.Type, "!") {
						c, names = append(c, s), append(names, a.Name)
					}
				}
			}
		}
		if len(c) == 0 {
			return false
		}
		i := r.Intn(len(c))
		var keep []*VArg
		for _, a := range c[i].Args {
			if a.Name != names[i] {
				keep = append(keep, a)
			}
		}
		c[i].Args = keep
	case "missingDirectiveArg":
		all := append(append([]*VSel{}, fields...), d.AllSels("spread")...)
		s := pickSel(r, all)
		if s == nil {
			return false
		}
		s.Dirs = append(s.Dirs, &VDir{Name: r.Pick([]string{"skip", "include"})})
	case "undefinedVariable":
		o := d.Ops[r.Intn(len(d.Ops))]
		if len(o.Vars) > 0 && r.Chance(1, 2) {
			i := r.Intn(len(o.Vars))
			o.Vars = append(o.Vars[:i:i], o.Vars[i+1:]...)
			return true
		}
		s := pickSel(r, fields)
		s.Dirs = append(s.Dirs, &VDir{Name: "skip", Args: []*VArg{{Name: "if", Value: "$undef"}}})
	case "unusedVariable":
		o := d.Ops[r.Intn(len(d.Ops))]
		o.Vars = append(o.Vars, &VVar{Name: "unused", Type: r.Pick([]string{"Int", "String!", "[Boolean]"})})
	case "duplicateVariable":
		o := d.Ops[r.Intn(len(d.Ops))]
		if len(o.Vars) == 0 {
			return false
		}
		c := *o.Vars[r.Intn(len(o.Vars))]
		if r.Chance(1, 2) {
			c.Type, c.Default = "Int", ""
		}
		o.Vars = append(o.Vars, &c)
	case "variableWrongPosition":
		var ops []*VOp
		for _, o := range d.Ops {
			if len(o.Vars) > 0 {
				ops = append(ops, o)
			}
		}
		if len(ops) == 0 {
			return false
		}
		o := ops[r.Intn(len(ops))]
		vd := o.Vars[r.Intn(len(o.Vars))]
		named := NamedOf(vd.Type)
		switch r.Intn(3) {
		case 0:
			other := "String"
			if named == "String" || named == "ID" {
				other = "Int"
			}
			vd.Type = strings.Replace(vd.Type, named, other, 1)
			vd.Default = ""
		case 1:
			vd.Type = "[" + vd.Type + "]"
			vd.Default = ""
		default:
			if !strings.HasSuffix(vd.Type, "!") && vd.Default == "" {
				return false
			}
			vd.Type = strings.TrimSuffix(vd.Type, "!")
			vd.Default = ""
		}
	case "nonInputVariable":
		t := r.Pick(m.userComposites())
		typ := r.Pick([]string{t, "[" + t + "]", t + "!", "[" + t + "!]!"})
		o := d.Ops[r.Intn(len(d.Ops))]
		if len(o.Vars) > 0 && r.Chance(1, 2) {
			vd := o.Vars[r.Intn(len(o.Vars))]
			vd.Type, vd.Default = typ, ""
		} else {
			o.Vars = append(o.Vars, &VVar{Name: "ni", Type: typ})
		}
	case "fragmentCycle":
		k := r.Range(1, 4)
		root := v.D.Query
		for i := 0; i < k; i++ {
			f := &VFrag{Name: fmt.Sprintf("Cy%d", i), On: root}
			f.Sel = []*VSel{typenameSel(root), {Kind: "spread", Name: fmt.Sprintf("Cy%d", (i+1)%k), Parent: root}}
			if r.Chance(1, 2) {
				f.Sel[0], f.Sel[1] = f.Sel[1], f.Sel[0]
			}
			d.AddFrag(f)
		}
		if o := m.queryOp(); o != nil && r.Chance(3, 4) {
			o.Sel = append(o.Sel, &VSel{Kind: "spread", Name: fmt.Sprintf("Cy%d", r.Intn(k)), Parent: root})
		}
	case "unusedFragment":
		t := r.Pick(m.userComposites())
		d.AddFrag(&VFrag{Name: "Unused", On: t, Sel: []*VSel{typenameSel(t)}})
		if r.Chance(1, 3) {
			// used only by another unused fragment
			d.AddFrag(&VFrag{Name: "Unused2", On: t, Sel: []*VSel{{Kind: "spread", Name: "Unused", Parent: t}}})
		}
	case "duplicateFragment":
		if len(d.Frags) > 0 {
			f := *d.Frags[r.Intn(len(d.Frags))]
			if r.Chance(1, 2) {
				f.Sel = []*VSel{typenameSel(f.On)}
			}
			d.AddFrag(&f)
			return true
		}
		o := m.queryOp()
		if o == nil {
			return false
		}
		for i := 0; i < 2; i++ {
			d.AddFrag(&VFrag{Name: "Dup", On: o.Root, Sel: []*VSel{typenameSel(o.Root)}})
		}
		o.Sel = append(o.Sel, &VSel{Kind: "spread", Name: "Dup", Parent: o.Root})
	case "impossibleSpread":
		for _, li := range perm(r, len(lists)) {
			l := lists[li]
			var c []string
			for _, t := range m.userComposites() {
				if l.Parent != "" && !m.v.Overlap(t, l.Parent) {
					c = append(c, t)
				}
			}
			if len(c) == 0 {
				continue
			}
			t := r.Pick(c)
			if r.Chance(1, 2) {
				*l.List = append(*l.List, &VSel{Kind: "inline", On: t, Parent: l.Parent, Sel: []*VSel{typenameSel(t)}})
			} else {
				d.AddFrag(&VFrag{Name: "Imp", On: t, Sel: []*VSel{typenameSel(t)}})
				*l.List = append(*l.List, &VSel{Kind: "spread", Name: "Imp", Parent: l.Parent})
			}
			return true
		}
		return false
	case "fragmentOnNonComposite":
		c := []string{"String", "Boolean"}
		for _, t := range v.D.Types {
			if t.Kind == "ENUM" || t.Kind == "INPUT_OBJECT" || t.Kind == "SCALAR" {
				c = append(c, t.Name)
			}
		}
		t := r.Pick(c)
		l := lists[r.Intn(len(lists))]
		if r.Chance(1, 2) {
			*l.List = append(*l.List, &VSel{Kind: "inline", On: t, Parent: l.Parent, Sel: []*VSel{typenameSel(t)}})
		} else {
			d.AddFrag(&VFrag{Name: "OnLeaf", On: t, Sel: []*VSel{typenameSel(t)}})
			*l.List = append(*l.List, &VSel{Kind: "spread", Name: "OnLeaf", Parent: l.Parent})
		}
	case "leafWithSelection":
		var c []*VSel
		for _, s := range fields {
			if !s.HasSel {
				c = append(c, s)
			}
		}
		s := pickSel(r, c)
		if s == nil {
			return false
		}
		s.HasSel = true
		s.Sel = []*VSel{{Kind: "field", Name: r.Pick([]string{"__typename", "x"}), Parent: ""}}
	case "compositeWithoutSelection":
		var c []*VSel
		for _, s := range fields {
			if s.HasSel {
				c = append(c, s)
			}
		}
		s := pickSel(r, c)
		if s == nil {
			return false
		}
		s.HasSel, s.Sel = false, nil
	case "duplicateArg":
		var c []*VSel
		for _, s := range fields {
			if len(s.Args) > 0 {
				c = append(c, s)
			}
		}
		if s := pickSel(r, c); s != nil && r.Chance(2, 3) {
			a := *s.Args[r.Intn(len(s.Args))]
			if a.Type != "" && r.Chance(1, 2) {
				a.Value = m.lg.literal(a.Type, 1, false)
			}
			s.Args = append(s.Args, &a)
			return true
		}
		s := pickSel(r, fields)
		s.Dirs = append(s.Dirs, &VDir{Name: "include", Args: []*VArg{{Name: "if", Value: "true"}, {Name: "if", Value: r.Pick([]string{"true", "false"})}}})
	case "duplicateInputField", "nestedDuplicateInputField":
		sels, defs := m.fieldsWithArgDefs()
		type cand struct {
			s   *VSel
			a   gq.ArgDesc
			lit string
		}
		var cs []cand
		for i, s := range sels {
			for _, a := range defs[i] {
				td := m.v.Type(NamedOf(a.Type))
				if td == nil || td.Kind != "INPUT_OBJECT" {
					continue
				}
				dupOf := func(td *gq.TypeDesc) string {
					// the object's required fields, then its first field twice
					base := strings.TrimSuffix(strings.TrimPrefix(m.lg.literal(td.Name, 0, false), "{"), "}")
					f := td.InputFields[0]
					l1, l2 := m.lg.literal(f.Type, 1, false), m.lg.literal(f.Type, 1, false)
					parts := []string{}
					if base != "" && !strings.HasPrefix(base, f.Name+":") {
						parts = append(parts, base)
					}
					parts = append(parts, f.Name+": "+l1, f.Name+": "+l2)
					return "{" + strings.Join(parts, ", ") + "}"
				}
				if kind == "duplicateInputField" {
					lit := dupOf(td)
					if strings.Contains(a.Type, "[") && r.Chance(1, 2) {
						lit = "[" + lit + "]"
					}
					cs = append(cs, cand{s, a, lit})
					continue
				}
				// nested: an input field of input-object type (not a list of them: keep the literal simple)
				for _, f := range td.InputFields {
					ftd := m.v.Type(NamedOf(f.Type))
					if ftd == nil || ftd.Kind != "INPUT_OBJECT" {
						continue
					}
					base := strings.TrimSuffix(strings.TrimPrefix(m.lg.literal(td.Name, 0, false), "{"), "}")
					if strings.Contains(base, f.Name+":") {
						continue
					}
					parts := []string{}
					if base != "" {
						parts = append(parts, base)
					}
					parts = append(parts, f.Name+": "+dupOf(ftd))
					cs = append(cs, cand{s, a, "{" + strings.Join(parts, ", ") + "}"})
				}
			}
		}
		if len(cs) == 0 {
			return false
		}
		c := cs[r.Intn(len(cs))]
		setArg(c.s, c.a.Name, c.lit, c.a.Type)
	case "duplicateOperationName":
		m.ensureTwoOps()
		i, j := 0, 1+r.Intn(len(d.Ops)-1)
		if d.Ops[i].Name == "" {
			d.Ops[i].Name = "Same"
		}
		d.Ops[j].Name = d.Ops[i].Name
	case "loneAnonymous":
		m.ensureTwoOps()
		d.Ops[r.Intn(len(d.Ops))].Name = ""
	case "twoAnonymous":
		m.ensureTwoOps()
		d.Ops[0].Name, d.Ops[1].Name = "", ""
	case "overlapName", "overlapArgs":
		depth := r.Range(0, 4)
		for _, li := range perm(r, len(lists)) {
			l := lists[li]
			k := m.v.Kind(l.Parent)
			if k != "OBJECT" && k != "INTERFACE" || strings.HasPrefix(l.Parent, "__") {
				continue
			}
			fs := m.v.Type(l.Parent).Fields
			mk := func(f gq.FieldDesc, args []*VArg) *VSel {
				s := &VSel{Kind: "field", Alias: "zz", Name: f.Name, Parent: l.Parent, Type: f.Type, Args: args}
				if m.v.IsComposite(NamedOf(f.Type)) {
					s.HasSel, s.Sel = true, []*VSel{typenameSel(NamedOf(f.Type))}
				}
				return s
			}
			req := func(f gq.FieldDesc) []*VArg {
				var out []*VArg
				for _, a := range f.Args {
					if strings.HasSuffix(a.Type, "!") {
						out = append(out, &VArg{Name: a.Name, Value: m.lg.literal(a.Type, 1, false), Type: a.Type})
					}
				}
				return out
			}
			if kind == "overlapName" {
				if len(fs) < 2 {
					continue
				}
				p := perm(r, len(fs))
				a, b := fs[p[0]], fs[p[1]]
				*l.List = append(*l.List, mk(a, req(a)))
				second := m.chain("Ov", l.Parent, depth, mk(b, req(b)))
				if r.Chance(1, 2) {
					*l.List = append(*l.List, second)
				} else {
					*l.List = append([]*VSel{second}, *l.List...)
				}
				return true
			}
			for _, fi := range perm(r, len(fs)) {
				f := fs[fi]
				if len(f.Args) == 0 {
					continue
				}
				a := f.Args[r.Intn(len(f.Args))]
				l1 := m.lg.literal(a.Type, 1, false)
				l2 := l1
				for t := 0; t < 8 && l2 == l1; t++ {
					l2 = m.lg.literal(a.Type, 1, false)
				}
				a1 := append(req(f), &VArg{Name: a.Name, Value: l1, Type: a.Type})
				a2 := append(req(f), &VArg{Name: a.Name, Value: l2, Type: a.Type})
				if strings.HasSuffix(a.Type, "!") {
					a1, a2 = a1[:len(a1)-1], a2[:len(a2)-1]
					setArgList(&a1, a.Name, l1, a.Type)
					setArgList(&a2, a.Name, l2, a.Type)
					if l1 == l2 {
						continue
					}
				} else if l1 == l2 || r.Chance(1, 3) {
					a2 = req(f) // one with, one without the optional argument
				}
				*l.List = append(*l.List, mk(f, a1), m.chain("Ov", l.Parent, depth, mk(f, a2)))
				return true
			}
		}
		return false
	case "overlapShape":
		depth := r.Range(0, 4)
		for _, li := range perm(r, len(lists)) {
			l := lists[li]
			k := m.v.Kind(l.Parent)
			if k != "INTERFACE" && k != "UNION" {
				continue
			}
			poss := m.v.Possible(l.Parent)
			if len(poss) < 2 {
				continue
			}
			for _, pi := range perm(r, len(poss)) {
				for _, pj := range perm(r, len(poss)) {
					if pi == pj {
						continue
					}
					t1, t2 := poss[pi], poss[pj]
					for _, f1 := range m.v.Type(t1).Fields {
						for _, f2 := range m.v.Type(t2).Fields {
							if f1.Type == f2.Type || !m.v.IsLeaf(NamedOf(f1.Type)) || !m.v.IsLeaf(NamedOf(f2.Type)) || hasRequired(f1) || hasRequired(f2) {
								continue
							}
							first := &VSel{Kind: "field", Alias: "zz", Name: f1.Name, Parent: t1, Type: f1.Type}
							leaf := &VSel{Kind: "field", Alias: "zz", Name: f2.Name, Parent: t2, Type: f2.Type}
							// half of the time one of the two fields sits in an inline fragment WITHOUT type condition (once or
							// twice nested): it keeps the parent type of the enclosing typed fragment
							if r.Chance(1, 2) {
								wrap := func(x *VSel, parent string) *VSel {
									w := &VSel{Kind: "inline", Parent: parent, Sel: []*VSel{x}}
									if r.Chance(1, 3) {
										w = &VSel{Kind: "inline", Parent: parent, Sel: []*VSel{w}}
									}
									return w
								}
								if r.Chance(1, 2) {
									first = wrap(first, t1)
								} else {
									leaf = wrap(leaf, t2)
								}
							}
							s1 := &VSel{Kind: "inline", On: t1, Parent: l.Parent, Sel: []*VSel{first}}
							s2 := &VSel{Kind: "inline", On: t2, Parent: l.Parent, Sel: []*VSel{m.chain("Sh", t2, depth, leaf)}}
							*l.List = append(*l.List, s1, s2)
							return true
						}
					}
				}
			}
		}
		return false
	case "bareInlineUnderWrapped":
		var c []*VSel
		for _, s := range fields {
			if s.HasSel && NamedOf(s.Type) != s.Type {
				c = append(c, s)
			}
		}
		s := pickSel(r, c)
		if s == nil {
			return false
		}
		s.Sel = []*VSel{{Kind: "inline", Parent: NamedOf(s.Type), Sel: s.Sel}}
	default:
		return false
	}
	return true
}

func hasRequired(f gq.FieldDesc) bool {
	for _, a := range f.Args {
		if strings.HasSuffix(a.Type, "!") {
			return true
		}
	}
	return false
}

func setArgList(as *[]*VArg, name, value, typ string) {
	for _, a := range *as {
		if a.Name == name {
			a.Value = value
			return
		}
	}
	*as = append(*as, &VArg{Name: name, Value: value, Type: typ})
}

// MutationKindNames returns the kinds sorted (stable iteration for harnesses).
func MutationKindNames() []string {
	var out []string
	for _, k := range MutationKinds {
		out = append(out, k.Kind)
	}
	sort.Strings(out)
	return out
}

func perm(r *hx.Rng, n int) []int {
	p := make([]int, n)
	for i := range p {
		p[i] = i
	}
	for i := n - 1; i > 0; i-- {
		j := r.Intn(i + 1)
		p[i], p[j] = p[j], p[i]
	}
	return p
}

func permSels(r *hx.Rng, xs []*VSel) []*VSel {
	out := make([]*VSel, len(xs))
	for i, j := range perm(r, len(xs)) {
		out[i] = xs[j]
	}
	return out
}

// ---------------------------------------------------------------- faults at NESTED positions of one literal

// nestedFaultKinds: mutations that build ONE argument literal with one or several faults at nested positions
// (list elements of lists of every nullability shape, input-object fields, lists in input-object fields), the
// faults on sibling positions in random order.
var nestedFaultKinds = map[string][]string{
	"nestedBadVariable":     {"badVar"},
	"nestedGoodVariable":    {"goodVar"},
	"nestedWrongLiteral":    {"wrong"},
	"listAtNonListPosition": {"listAtNonList"},
	"multiFaultLiteral":     nil, // 2-3 faults drawn from all of the above
}

type faultBuilder struct {
	m       *mut
	newVars []*VVar
	placed  []string
}

func (fb *faultBuilder) apply(te *gq.TypeExpr, fault string) string {
	m := fb.m
	pos := te.String()
	fb.placed = append(fb.placed, fault+"@"+pos)
	switch fault {
	case "wrong":
		return m.wrongLiteral(pos)
	case "listAtNonList":
		t := te
		for t.Kind == "nonNull" {
			t = t.Of
		}
		if t.Kind == "list" {
			// already a list position: a list one level too deep
			return "[[" + m.lg.literal(t.Of.String(), 1, false) + "]]"
		}
		a, b := m.lg.literal(pos, 1, false), m.lg.literal(pos, 1, false)
		if m.r.Chance(1, 2) {
			return "[" + a + "]"
		}
		return "[" + a + ", " + b + "]"
	case "goodVar":
		n := fmt.Sprintf("g%d", len(fb.newVars))
		fb.newVars = append(fb.newVars, &VVar{Name: n, Type: pos})
		return "$" + n
	case "badVar":
		n := fmt.Sprintf("b%d", len(fb.newVars))
		named := te.NamedName()
		var typ string
		switch m.r.Intn(3) {
		case 0:
			if strings.HasSuffix(pos, "!") {
				typ = strings.TrimSuffix(pos, "!") // nullable variable at a non-null position
				break
			}
			fallthrough
		case 1:
			other := "Int"
			if named == "Int" {
				other = "String"
			}
			typ = strings.Replace(pos, named, other, 1)
		default:
			typ = "[" + pos + "]"
		}
		fb.newVars = append(fb.newVars, &VVar{Name: n, Type: typ})
		return "$" + n
	}
	return m.lg.literal(pos, 1, false)
}

// build: a literal for `te` carrying `faults`; at a list / input-object position the faults go to distinct
// children (or all into one child), never onto the node itself while `nested` demands depth.
func (fb *faultBuilder) build(te *gq.TypeExpr, faults []string, mustNest bool, depth int) string {
	m, r := fb.m, fb.m.r
	if len(faults) == 0 {
		return m.lg.literal(te.String(), 1, false)
	}
	t := te
	for t.Kind == "nonNull" {
		t = t.Of
	}
	var td *gq.TypeDesc
	if t.Kind == "named" {
		td = m.v.Type(t.Name)
	}
	isObj := td != nil && td.Kind == "INPUT_OBJECT"
	if depth <= 0 || (t.Kind != "list" && !isObj) || (!mustNest && len(faults) == 1 && r.Chance(1, 3)) {
		return fb.apply(te, faults[0])
	}
	if t.Kind == "list" {
		n := len(faults) + r.Intn(2)
		if n < 2 {
			n = 2
		}
		slots := make([][]string, n)
		if len(faults) > 1 && r.Chance(1, 4) {
			slots[r.Intn(n)] = faults // all into one element
		} else {
			for i, p := range perm(r, n)[:len(faults)] {
				slots[p] = []string{faults[i]}
			}
		}
		parts := []string{}
		for i := 0; i < n; i++ {
			parts = append(parts, fb.build(t.Of, slots[i], false, depth-1))
		}
		return "[" + strings.Join(parts, ", ") + "]"
	}
	// input object: every field is a candidate child, in random order
	order := perm(r, len(td.InputFields))
	slots := map[int][]string{}
	if len(faults) > 1 && r.Chance(1, 4) || len(order) == 1 {
		slots[order[0]] = faults
	} else {
		for i, f := range faults {
			k := order[i%len(order)]
			slots[k] = append(slots[k], f)
		}
	}
	emit := perm(r, len(td.InputFields))
	parts := []string{}
	for _, k := range emit {
		f := td.InputFields[k]
		fe, _ := gq.ParseType(f.Type)
		fs := slots[k]
		if len(fs) == 0 {
			if fe.Kind != "nonNull" && (r.Chance(1, 2) || fe.NamedName() == td.Name) {
				continue
			}
			parts = append(parts, f.Name+": "+m.lg.literal(f.Type, 1, false))
			continue
		}
		parts = append(parts, f.Name+": "+fb.build(fe, fs, false, depth-1))
	}
	return "{" + strings.Join(parts, ", ") + "}"
}

// mutateNested applies one of nestedFaultKinds.
func (m *mut) mutateNested(kind string) bool {
	r := m.r
	faults := nestedFaultKinds[kind]
	if faults == nil {
		pool := []string{"badVar", "wrong", "listAtNonList", "goodVar", "badVar", "listAtNonList"}
		k := r.Range(2, 3)
		for i := 0; i < k; i++ {
			faults = append(faults, r.Pick(pool))
		}
	}
	structured := func(typ string) bool {
		if strings.Contains(typ, "[") {
			return true
		}
		td := m.v.Type(NamedOf(typ))
		return td != nil && td.Kind == "INPUT_OBJECT"
	}
	type target struct {
		s *VSel
		a gq.ArgDesc
	}
	var ts []target
	sels, defs := m.fieldsWithArgDefs()
	for i, s := range sels {
		for _, a := range defs[i] {
			if structured(a.Type) {
				ts = append(ts, target{s, a})
			}
		}
	}
	if len(ts) == 0 || r.Chance(1, 3) {
		// select such a field at the root of an operation
		for _, oi := range perm(r, len(m.d.Ops)) {
			o := m.d.Ops[oi]
			var c []gq.FieldDesc
			for _, f := range m.v.Fields(o.Root) {
				for _, a := range f.Args {
					if structured(a.Type) {
						c = append(c, f)
						break
					}
				}
			}
			if len(c) == 0 {
				continue
			}
			f := c[r.Intn(len(c))]
			s := &VSel{Kind: "field", Alias: "zn", Name: f.Name, Parent: o.Root, Type: f.Type}
			for _, a := range f.Args {
				if strings.HasSuffix(a.Type, "!") {
					s.Args = append(s.Args, &VArg{Name: a.Name, Value: m.lg.literal(a.Type, 1, false), Type: a.Type})
				}
			}
			if m.v.IsComposite(NamedOf(f.Type)) {
				s.HasSel, s.Sel = true, []*VSel{typenameSel(NamedOf(f.Type))}
			}
			o.Sel = append(o.Sel, s)
			ts = nil
			for _, a := range f.Args {
				if structured(a.Type) {
					ts = append(ts, target{s, a})
				}
			}
			break
		}
	}
	if len(ts) == 0 {
		return false
	}
	t := ts[r.Intn(len(ts))]
	te, _ := gq.ParseType(t.a.Type)
	fb := &faultBuilder{m: m}
	setArg(t.s, t.a.Name, fb.build(te, faults, true, 3), t.a.Type)
	for _, o := range m.d.Ops {
		for _, nv := range fb.newVars {
			c := *nv
			o.Vars = append(o.Vars, &c)
		}
	}
	return true
}
