package gen

// Layout tools for position-sensitive checks (C18): an independent tokenizer for GraphQL source text, a
// random re-layouter (spaces, tabs, commas, LF / CR / CRLF, indentation, comments, optionally non-ASCII
// comment text and a BOM) that records the byte offset of every token it writes, and an independent
// forward-scan offset → (line, column) table.

import (
	"strings"

	"verif/harness/hx"
)

type TokKind int

const (
	TPunct TokKind = iota
	TName
	TNumber
	TString // "…" and """…"""
)

// Tok is one lexical token as raw source text. Mark is free for the caller (node labels).
type Tok struct {
	Text string
	Kind TokKind
	Mark string
}

func isNameStart(c byte) bool { return c == '_' || c >= 'a' && c <= 'z' || c >= 'A' && c <= 'Z' }
func isDigit(c byte) bool     { return c >= '0' && c <= '9' }

// SkipIgnored returns the offset of the first byte at or after i that is not Ignored
// (white space, line terminators, commas, BOM, comments).
func SkipIgnored(s string, i int) int {
	for i < len(s) {
		c := s[i]
		switch {
		case c == ' ' || c == '\t' || c == '\n' || c == '\r' || c == ',':
			i++
		case strings.HasPrefix(s[i:], "\xef\xbb\xbf"):
			i += 3
		case c == '#':
			for i < len(s) && s[i] != '\n' && s[i] != '\r' {
				i++
			}
		default:
			return i
		}
	}
	return i
}

// Tokenize splits a (lexically valid) document into tokens with their byte offsets. ok is false when
// the text is not lexically well-formed by this tokenizer's rules (it does not validate escapes).
func Tokenize(s string) (toks []Tok, starts []int, ok bool) {
	i := 0
	for {
		i = SkipIgnored(s, i)
		if i >= len(s) {
			return toks, starts, true
		}
		c := s[i]
		st := i
		switch {
		case strings.IndexByte("!$&():=@[]{|}", c) >= 0:
			i++
			toks = append(toks, Tok{Text: s[st:i], Kind: TPunct})
		case c == '.':
			if !strings.HasPrefix(s[i:], "...") {
				return toks, starts, false
			}
			i += 3
			toks = append(toks, Tok{Text: "...", Kind: TPunct})
		case isNameStart(c):
			for i < len(s) && (isNameStart(s[i]) || isDigit(s[i])) {
				i++
			}
			toks = append(toks, Tok{Text: s[st:i], Kind: TName})
		case c == '-' || isDigit(c):
			if c == '-' {
				i++
			}
			d := i
			for i < len(s) && isDigit(s[i]) {
				i++
			}
			if i == d {
				return toks, starts, false
			}
			if i < len(s) && s[i] == '.' {
				i++
				d = i
				for i < len(s) && isDigit(s[i]) {
					i++
				}
				if i == d {
					return toks, starts, false
				}
			}
			if i < len(s) && (s[i] == 'e' || s[i] == 'E') {
				i++
				if i < len(s) && (s[i] == '+' || s[i] == '-') {
					i++
				}
				d = i
				for i < len(s) && isDigit(s[i]) {
					i++
				}
				if i == d {
					return toks, starts, false
				}
			}
			toks = append(toks, Tok{Text: s[st:i], Kind: TNumber})
		case strings.HasPrefix(s[i:], `"""`):
			i += 3
			for {
				if i >= len(s) {
					return toks, starts, false
				}
				if strings.HasPrefix(s[i:], `\"""`) {
					i += 4
					continue
				}
				if strings.HasPrefix(s[i:], `"""`) {
					i += 3
					break
				}
				i++
			}
			toks = append(toks, Tok{Text: s[st:i], Kind: TString})
		case c == '"':
			i++
			for {
				if i >= len(s) || s[i] == '\n' || s[i] == '\r' {
					return toks, starts, false
				}
				if s[i] == '\\' {
					i += 2
					continue
				}
				if s[i] == '"' {
					i++
					break
				}
				i++
			}
			toks = append(toks, Tok{Text: s[st:i], Kind: TString})
		default:
			return toks, starts, false
		}
		starts = append(starts, st)
	}
}

// NeedSep reports whether two adjacent tokens must be separated by at least one Ignored character to
// keep their boundaries (names/numbers/strings running into each other, a number followed by `...`).
func NeedSep(a, b Tok) bool {
	if a.Kind != TPunct && b.Kind != TPunct {
		return true
	}
	if a.Kind == TNumber && b.Text == "..." {
		return true
	}
	if a.Text == "..." && b.Text == "..." {
		return true
	}
	return false
}

// LayoutOpts steers the random layout.
type LayoutOpts struct {
	NonASCII bool // allow non-ASCII comment text and a BOM (exercises the D-03a exclusion)
	Dense    bool // prefer no gap where none is needed
}

var lineEnds = []string{"\n", "\r", "\r\n"}

func gapUnit(r *hx.Rng, o LayoutOpts) string {
	switch r.Intn(14) {
	case 0, 1, 2:
		return " "
	case 3:
		return "  "
	case 4:
		return "\t"
	case 5:
		return ","
	case 6, 7:
		return r.Pick(lineEnds)
	case 8:
		return r.Pick(lineEnds) + strings.Repeat(" ", r.Intn(5))
	case 9:
		return r.Pick(lineEnds) + strings.Repeat("\t", r.Intn(3))
	case 10:
		return r.Pick(lineEnds) + r.Pick(lineEnds)
	case 11:
		return "#" + r.Pick([]string{"", " c", "{", " \"x", "...", " a b c"}) + r.Pick(lineEnds)
	case 12:
		if o.NonASCII {
			return "#" + r.Pick([]string{"é", " ü x", "日本", "😀"}) + r.Pick(lineEnds)
		}
		return " "
	default:
		if o.NonASCII && r.Chance(1, 3) {
			return "\xef\xbb\xbf"
		}
		return r.Pick(lineEnds) + " "
	}
}

// Gap produces a random run of Ignored text; non-empty when must is set.
func Gap(r *hx.Rng, must bool, o LayoutOpts) string {
	n := r.Intn(4)
	if o.Dense && r.Chance(2, 3) {
		n = 0
	}
	s := ""
	for i := 0; i < n; i++ {
		s += gapUnit(r, o)
	}
	if must && s == "" {
		s = r.Pick([]string{" ", "\n", "\r\n", "\r", ",", "\t"})
	}
	return s
}

// Layout writes the tokens with random gaps and returns the text and the byte offset of each token.
func Layout(r *hx.Rng, toks []Tok, o LayoutOpts) (string, []int) {
	var b strings.Builder
	starts := make([]int, len(toks))
	b.WriteString(Gap(r, false, o))
	for i, t := range toks {
		if i > 0 {
			b.WriteString(Gap(r, NeedSep(toks[i-1], t), o))
		}
		starts[i] = b.Len()
		b.WriteString(t.Text)
	}
	b.WriteString(Gap(r, false, o))
	return b.String(), starts
}

// LineCol is the independent oracle for positions: a forward scan that starts a new line after LF, after a
// CR that is not followed by LF, and after the LF of CR LF; columns are byte offsets within the line + 1.
// It returns (line, column) for every offset 0..len(s). For an offset pointing at the LF of a CR LF pair
// the entry is (line of the CR, 0) — no token starts there.
type LineCol struct {
	Line, Col []int
	LineLen   map[int]int // bytes on each line, terminator excluded
	Lines     int
}

func NewLineCol(s string) *LineCol {
	n := len(s)
	lc := &LineCol{Line: make([]int, n+1), Col: make([]int, n+1), LineLen: map[int]int{}}
	line, col := 1, 1
	for i := 0; i <= n; i++ {
		if i > 0 && s[i-1] == '\r' && i < n && s[i] == '\n' {
			// second byte of CR LF: the new line starts after it
			lc.Line[i], lc.Col[i] = line+1, 0
			continue
		}
		if i > 0 && (s[i-1] == '\n' || s[i-1] == '\r') {
			line++
			col = 1
		}
		lc.Line[i], lc.Col[i] = line, col
		if i < n && s[i] != '\n' && s[i] != '\r' {
			lc.LineLen[line]++
		}
		col++
	}
	lc.Lines = line
	return lc
}

// FirstNonASCII returns the offset of the first byte >= 0x80, or -1.
func FirstNonASCII(s string) int {
	for i := 0; i < len(s); i++ {
		if s[i] >= 0x80 {
			return i
		}
	}
	return -1
}
