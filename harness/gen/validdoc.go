package gen

// Schema-directed generator of VALID executable documents (every one of the 24 validation rules of the spec
// edition the library implements holds), used by the C02 harnesses (as the base for typed mutations) and by the
// executor harnesses (as inputs). Entry point:
//
//	text, meta := gen.ValidDoc(rng, schemaDesc, size)            // default options
//	text, meta := gen.ValidDocWith(rng, schemaDesc, size, opts)
//
// The document is built as a small IR (VDoc) by type-directed recursive descent over the schema and rendered with
// VDoc.Render(); meta.Doc is that IR (the mutators of docmutate.go work on it), meta.Variables holds, per
// operation name, wire values (gq.FromWire-able) for the declared variables.
//
// What makes the result valid by construction:
//   - fields are taken from the parent type (objects, interfaces, introspection types; unions only __typename),
//     leaf fields have no selection set, composite fields a non-empty one;
//   - a RESPONSE KEY is bound document-wide to one (field name, field type, argument list): a key is reused only
//     for that same triple, otherwise a fresh alias is invented — so overlapping fields always merge, at any
//     fragment depth;
//   - inline fragments / spreads only where the type condition overlaps the parent type; named fragments form a
//     DAG (fragment i spreads only fragments j > i), unreachable ones are dropped;
//   - a variable is bound document-wide to one position type (name v<k> per distinct type string); each operation
//     declares exactly the variables it uses directly or through spreads, with the position type itself, or its
//     non-null version, or (nullable declared type) with a constant default;
//   - argument literals are type-directed (list-of-one coercion, nested input objects with all required fields,
//     enum names, custom-scalar table entries), required arguments are always given.

import (
	"fmt"
	"sort"
	"strings"
	"sync"

	"github.com/graphql-go/graphql"

	"verif/harness/gq"
	"verif/harness/hx"
)

// ---------------------------------------------------------------- IR

type VArg struct {
	Name  string
	Value string // literal text
	Type  string // meta: type string of the argument definition ("" if unknown)
}

type VDir struct {
	Name string
	Args []*VArg
}

type VSel struct {
	Kind   string // "field" | "spread" | "inline"
	Alias  string // field
	Name   string // field name / fragment name
	On     string // inline: type condition, "" = none
	Args   []*VArg
	Dirs   []*VDir
	HasSel bool    // field: has a selection set
	Sel    []*VSel // field / inline
	Parent string  // meta: parent type in which the selection stands
	Type   string  // meta: field type string
}

type VVar struct {
	Name    string
	Type    string
	Default string // "" = none
}

type VOp struct {
	Kind string // query | mutation
	Name string // "" = anonymous
	Vars []*VVar
	Dirs []*VDir
	Sel  []*VSel
	Root string // meta: root type name
}

type VFrag struct {
	Name string
	On   string
	Dirs []*VDir
	Sel  []*VSel
}

// VDoc: Order lists the definitions: i >= 0 is Ops[i], i < 0 is Frags[-i-1].
type VDoc struct {
	Ops   []*VOp
	Frags []*VFrag
	Order []int
}

func (d *VDoc) AddOp(o *VOp) {
	d.Ops = append(d.Ops, o)
	d.Order = append(d.Order, len(d.Ops)-1)
}

func (d *VDoc) AddFrag(f *VFrag) {
	d.Frags = append(d.Frags, f)
	d.Order = append(d.Order, -len(d.Frags))
}

func renderArgs(b *strings.Builder, as []*VArg) {
	if len(as) == 0 {
		return
	}
	b.WriteString("(")
	for i, a := range as {
		if i > 0 {
			b.WriteString(", ")
		}
		b.WriteString(a.Name + ": " + a.Value)
	}
	b.WriteString(")")
}

func renderDirs(b *strings.Builder, ds []*VDir) {
	for _, d := range ds {
		b.WriteString(" @" + d.Name)
		renderArgs(b, d.Args)
	}
}

func renderSels(b *strings.Builder, ss []*VSel) {
	b.WriteString(" {")
	for _, s := range ss {
		b.WriteString(" ")
		switch s.Kind {
		case "field":
			if s.Alias != "" {
				b.WriteString(s.Alias + ": ")
			}
			b.WriteString(s.Name)
			renderArgs(b, s.Args)
			renderDirs(b, s.Dirs)
			if s.HasSel {
				renderSels(b, s.Sel)
			}
		case "spread":
			b.WriteString("..." + s.Name)
			renderDirs(b, s.Dirs)
		case "inline":
			b.WriteString("...")
			if s.On != "" {
				b.WriteString(" on " + s.On)
			}
			renderDirs(b, s.Dirs)
			renderSels(b, s.Sel)
		}
	}
	b.WriteString(" }")
}

func (d *VDoc) Render() string {
	var b strings.Builder
	for k, i := range d.Order {
		if k > 0 {
			b.WriteString("\n")
		}
		if i >= 0 {
			o := d.Ops[i]
			if o.Name != "" || len(o.Vars) > 0 || len(o.Dirs) > 0 || o.Kind != "query" {
				b.WriteString(o.Kind)
				if o.Name != "" {
					b.WriteString(" " + o.Name)
				}
				if len(o.Vars) > 0 {
					b.WriteString("(")
					for j, v := range o.Vars {
						if j > 0 {
							b.WriteString(", ")
						}
						b.WriteString("$" + v.Name + ": " + v.Type)
						if v.Default != "" {
							b.WriteString(" = " + v.Default)
						}
					}
					b.WriteString(")")
				}
				renderDirs(&b, o.Dirs)
			}
			renderSels(&b, o.Sel)
		} else {
			f := d.Frags[-i-1]
			b.WriteString("fragment " + f.Name + " on " + f.On)
			renderDirs(&b, f.Dirs)
			renderSels(&b, f.Sel)
		}
	}
	return strings.TrimLeft(b.String(), " ")
}

// ---------------------------------------------------------------- schema view

// IntrospectionTypes returns the descriptions of the library's introspection types (__Schema, __Type, …), read
// off the real library once.
func IntrospectionTypes() []gq.TypeDesc {
	introOnce.Do(func() {
		q := graphql.NewObject(graphql.ObjectConfig{Name: "Q", Fields: graphql.Fields{"s": &graphql.Field{Type: graphql.String}}})
		sc, err := graphql.NewSchema(graphql.SchemaConfig{Query: q})
		if err != nil {
			panic(err)
		}
		names := []string{}
		for n := range sc.TypeMap() {
			if strings.HasPrefix(n, "__") {
				names = append(names, n)
			}
		}
		sort.Strings(names)
		for _, n := range names {
			switch t := sc.TypeMap()[n].(type) {
			case *graphql.Object:
				td := gq.TypeDesc{Kind: "OBJECT", Name: n}
				fn := []string{}
				for k := range t.Fields() {
					fn = append(fn, k)
				}
				sort.Strings(fn)
				for _, k := range fn {
					f := t.Fields()[k]
					fd := gq.FieldDesc{Name: k, Type: f.Type.String()}
					for _, a := range f.Args {
						fd.Args = append(fd.Args, gq.ArgDesc{Name: a.Name(), Type: a.Type.String(), HasDef: a.DefaultValue != nil, Default: a.DefaultValue})
					}
					sort.Slice(fd.Args, func(i, j int) bool { return fd.Args[i].Name < fd.Args[j].Name })
					td.Fields = append(td.Fields, fd)
				}
				introTypes = append(introTypes, td)
			case *graphql.Enum:
				td := gq.TypeDesc{Kind: "ENUM", Name: n}
				for _, v := range t.Values() {
					td.Values = append(td.Values, gq.EnumValDesc{Name: v.Name, Internal: v.Name})
				}
				introTypes = append(introTypes, td)
			}
		}
	})
	return introTypes
}

var introOnce sync.Once
var introTypes []gq.TypeDesc

// SchemaView answers the questions the generators ask of a schema description (introspection types and the five
// spec scalars included).
type SchemaView struct {
	D     *gq.SchemaDesc
	types map[string]*gq.TypeDesc
	Names []string // declared + introspection, in order
}

func NewSchemaView(d *gq.SchemaDesc) *SchemaView {
	v := &SchemaView{D: d, types: map[string]*gq.TypeDesc{}}
	for i := range d.Types {
		v.types[d.Types[i].Name] = &d.Types[i]
		v.Names = append(v.Names, d.Types[i].Name)
	}
	it := IntrospectionTypes()
	for i := range it {
		v.types[it[i].Name] = &it[i]
		v.Names = append(v.Names, it[i].Name)
	}
	for _, b := range leafScalars {
		if v.types[b] == nil {
			v.types[b] = &gq.TypeDesc{Kind: "SCALAR", Name: b, Builtin: b}
		}
	}
	return v
}

func (v *SchemaView) Type(n string) *gq.TypeDesc { return v.types[n] }

func (v *SchemaView) Kind(n string) string {
	if t := v.types[n]; t != nil {
		return t.Kind
	}
	return ""
}

func (v *SchemaView) IsComposite(n string) bool {
	k := v.Kind(n)
	return k == "OBJECT" || k == "INTERFACE" || k == "UNION"
}

func (v *SchemaView) IsLeaf(n string) bool {
	k := v.Kind(n)
	return k == "SCALAR" || k == "ENUM"
}

// Composites lists the composite types a document may mention (user types first).
func (v *SchemaView) Composites() []string {
	var out []string
	for _, n := range v.Names {
		if v.IsComposite(n) {
			out = append(out, n)
		}
	}
	return out
}

// Possible: the object types an output type can be at run time.
func (v *SchemaView) Possible(n string) []string {
	switch v.Kind(n) {
	case "OBJECT":
		return []string{n}
	case "INTERFACE", "UNION":
		return v.D.PossibleTypes(n)
	}
	return nil
}

func (v *SchemaView) Overlap(a, b string) bool {
	for _, x := range v.Possible(a) {
		for _, y := range v.Possible(b) {
			if x == y {
				return true
			}
		}
	}
	return false
}

var metaSchemaField = gq.FieldDesc{Name: "__schema", Type: "__Schema!"}
var metaTypeField = gq.FieldDesc{Name: "__type", Type: "__Type", Args: []gq.ArgDesc{{Name: "name", Type: "String!"}}}
var metaTypenameField = gq.FieldDesc{Name: "__typename", Type: "String!"}

// Fields a selection on `parent` may name: the type's own fields (objects, interfaces), __typename, and on the
// query root __schema / __type.
func (v *SchemaView) Fields(parent string) []gq.FieldDesc {
	t := v.types[parent]
	if t == nil || !v.IsComposite(parent) {
		return nil
	}
	var out []gq.FieldDesc
	if t.Kind != "UNION" {
		out = append(out, t.Fields...)
	}
	out = append(out, metaTypenameField)
	if parent == v.D.Query {
		out = append(out, metaSchemaField, metaTypeField)
	}
	return out
}

func (v *SchemaView) Field(parent, name string) *gq.FieldDesc {
	for _, f := range v.Fields(parent) {
		if f.Name == name {
			f := f
			return &f
		}
	}
	return nil
}

func NamedOf(typ string) string {
	return strings.NewReplacer("[", "", "]", "", "!", "").Replace(typ)
}

// AddCustomDirectives appends 0-3 custom directives (random executable locations, 0-2 arguments) to a schema
// description; gq.Build configures them after @skip / @include / @deprecated.
func AddCustomDirectives(r *hx.Rng, s *gq.SchemaDesc) {
	if !r.Chance(2, 3) {
		return
	}
	locs := []string{"QUERY", "MUTATION", "SUBSCRIPTION", "FIELD", "FRAGMENT_DEFINITION", "FRAGMENT_SPREAD", "INLINE_FRAGMENT"}
	typeSystemLocs := []string{"SCHEMA", "SCALAR", "OBJECT", "FIELD_DEFINITION", "ARGUMENT_DEFINITION", "INTERFACE", "UNION",
		"ENUM", "ENUM_VALUE", "INPUT_OBJECT", "INPUT_FIELD_DEFINITION"}
	argTypes := []string{"Int", "String!", "Boolean", "[Int!]", "Float", "ID!"}
	for _, t := range s.Types {
		if t.Kind == "ENUM" || t.Kind == "INPUT_OBJECT" {
			argTypes = append(argTypes, t.Name)
		}
	}
	n := r.Range(1, 4)
	for i := 0; i < n; i++ {
		d := gq.DirectiveDesc{Name: fmt.Sprintf("d%d", i)}
		switch r.Intn(4) {
		case 0:
			// exactly one executable location: every location gets directives that are allowed there and nowhere else
			d.Locations = []string{r.Pick(locs)}
		case 1:
			// only type-system locations: allowed nowhere in an executable document
			d.Locations = []string{r.Pick(typeSystemLocs)}
		default:
			for _, l := range locs {
				if r.Chance(1, 3) {
					d.Locations = append(d.Locations, l)
				}
			}
			if len(d.Locations) == 0 {
				d.Locations = []string{r.Pick(locs)}
			}
			if r.Chance(1, 4) {
				d.Locations = append(d.Locations, r.Pick(typeSystemLocs))
			}
		}
		na := r.Intn(3)
		for j := 0; j < na; j++ {
			d.Args = append(d.Args, gq.ArgDesc{Name: fmt.Sprintf("x%d", j), Type: r.Pick(argTypes)})
		}
		s.Directives = append(s.Directives, d)
	}
}

// AddSubscriptionRoot gives the schema a subscription root type `S` (half of the time): a few fields of leaf and
// composite types taken from the query root, so that `subscription` operations with directives, variables and
// sub-selections can be generated (gen.ValidDocOpts.Subscriptions).
func AddSubscriptionRoot(r *hx.Rng, s *gq.SchemaDesc) {
	if s.Subscription != nil || s.Type("S") != nil || !r.Chance(1, 2) {
		return
	}
	q := s.Type(s.Query)
	td := gq.TypeDesc{Kind: "OBJECT", Name: "S"}
	n := r.Range(1, 3)
	for i := 0; i < n && len(q.Fields) > 0; i++ {
		f := q.Fields[r.Intn(len(q.Fields))]
		f.Name = fmt.Sprintf("s%d", i)
		td.Fields = append(td.Fields, f)
	}
	td.Fields = append(td.Fields, gq.FieldDesc{Name: "tick", Type: "Int"})
	s.Types = append(s.Types, td)
	name := "S"
	s.Subscription = &name
}

// AddDisjointAbstract adds an object OX, an interface IX implemented by OX alone and a union UX = OX, reachable
// from the query root: abstract types whose possible types are DISJOINT from those of the generated I*/U
// (SchemaGen makes O0 implement every interface, so its abstract types always overlap pairwise).
func AddDisjointAbstract(r *hx.Rng, s *gq.SchemaDesc) {
	if !r.Chance(1, 2) || s.Type("OX") != nil {
		return
	}
	fx := gq.FieldDesc{Name: "x", Type: r.Pick([]string{"Int", "String!", "[Boolean]"})}
	ix := gq.TypeDesc{Kind: "INTERFACE", Name: "IX", Fields: []gq.FieldDesc{fx}, ResolveType: true}
	ox := gq.TypeDesc{Kind: "OBJECT", Name: "OX", Interfaces: []string{"IX"}, Fields: []gq.FieldDesc{fx, {Name: "y", Type: "ID"}}, IsTypeOf: true}
	ux := gq.TypeDesc{Kind: "UNION", Name: "UX", Members: []string{"OX"}, ResolveType: true}
	s.Types = append(s.Types, ix, ox, ux)
	q := s.Type(s.Query)
	q.Fields = append(q.Fields, gq.FieldDesc{Name: "qx", Type: r.Pick([]string{"IX", "[IX!]", "UX", "OX!"})}, gq.FieldDesc{Name: "qu", Type: "UX"})
}

// AddListShapes adds an input object InL and a query field ql whose arguments / input fields have list types of
// every nullability shape ([T], [T]!, [T!], [T!]!, nested lists), lists of input objects and a required scalar
// next to them — the positions where TypeInfo has to track element and field types.
func AddListShapes(r *hx.Rng, s *gq.SchemaDesc) {
	if !r.Chance(2, 3) || s.Type("InL") != nil {
		return
	}
	bases := []string{"Int", "String", "Boolean", "ID", "Float"}
	for _, t := range s.Types {
		if t.Kind == "ENUM" {
			bases = append(bases, t.Name)
		}
	}
	shapes := []string{"[T]", "[T]!", "[T!]", "[T!]!", "[[T]]", "[[T!]!]!", "[[T]!]", "T", "T!"}
	shape := func() string { return strings.Replace(r.Pick(shapes), "T", r.Pick(bases), 1) }
	inl := gq.TypeDesc{Kind: "INPUT_OBJECT", Name: "InL"}
	n := r.Range(2, 4)
	for i := 0; i < n; i++ {
		inl.InputFields = append(inl.InputFields, gq.ArgDesc{Name: fmt.Sprintf("s%d", i), Type: shape()})
	}
	if r.Chance(1, 2) {
		inl.InputFields = append(inl.InputFields, gq.ArgDesc{Name: "req", Type: r.Pick([]string{"Boolean!", "Int!", "[Int]!"})})
	}
	inl.InputFields = append(inl.InputFields, gq.ArgDesc{Name: "n", Type: "InL"})
	if r.Chance(1, 2) {
		inl.InputFields = append(inl.InputFields, gq.ArgDesc{Name: "ns", Type: r.Pick([]string{"[InL]", "[InL!]", "[InL]!"})})
	}
	s.Types = append(s.Types, inl)
	f := gq.FieldDesc{Name: "ql", Type: "Int"}
	n = r.Range(2, 4)
	for i := 0; i < n; i++ {
		f.Args = append(f.Args, gq.ArgDesc{Name: fmt.Sprintf("a%d", i), Type: shape()})
	}
	f.Args = append(f.Args, gq.ArgDesc{Name: "o", Type: r.Pick([]string{"InL", "InL!"})})
	if r.Chance(1, 2) {
		f.Args = append(f.Args, gq.ArgDesc{Name: "os", Type: r.Pick([]string{"[InL]", "[InL!]!", "[InL]!"})})
	}
	q := s.Type(s.Query)
	q.Fields = append(q.Fields, f)
}

// ---------------------------------------------------------------- generator

type ValidDocOpts struct {
	// The library rejects an inline fragment WITHOUT type condition directly under a field of list / non-null type
	// (finding of C02, PossibleFragmentSpreads). Set to keep such documents out.
	AvoidBareInlineUnderWrapped bool
	NoIntrospection             bool // no __schema / __type selections (__typename stays)
	NoVariables                 bool
	NoFragments                 bool
	SingleOperation             bool
	// Subscriptions: also generate `subscription` operations when the schema has a subscription root (opt-in: the
	// executor harnesses drive graphql.Do, which does not run subscriptions like queries)
	Subscriptions bool
	// RootSpreadFirst: half of the operations start with a spread of a fragment on the root type (top-level fields
	// contributed by a fragment, placed before the directly written ones: execution order of mutations)
	RootSpreadFirst bool
}

type ValidMeta struct {
	Doc       *VDoc
	Variables map[string]map[string]interface{} // operation name ("" anonymous) → variable → wire value
	// BareInlineUnderWrapped: the document contains `... { }` whose TypeInfo type is a list / non-null field type
	BareInlineUnderWrapped bool
	Features               map[string]int
}

type keyInfo struct {
	name, typ string // typ = field type + argument definitions
	args      []*VArg
	vars      []string
}

type vgen struct {
	r      *hx.Rng
	v      *SchemaView
	size   int
	o      ValidDocOpts
	keys   map[string]*keyInfo
	nAlias int
	vars   map[string]string // position type → variable name
	varTyp map[string]string // variable name → position type
	frags  []*VFrag
	// fragments made on the fly by mergePattern (always spread where they are made)
	extraFrags []*VFrag
	// per definition under construction
	curVars    map[string]bool
	curSpreads map[string]bool
	curIdx     int // index of the fragment being generated (spreads only to higher ones); -1 for operations
	meta       *ValidMeta
}

func ValidDoc(r *hx.Rng, s *gq.SchemaDesc, size int) (string, *ValidMeta) {
	return ValidDocWith(r, s, size, ValidDocOpts{})
}

func ValidDocWith(r *hx.Rng, s *gq.SchemaDesc, size int, o ValidDocOpts) (string, *ValidMeta) {
	if size < 1 {
		size = 1
	}
	g := &vgen{r: r, v: NewSchemaView(s), size: size, o: o, keys: map[string]*keyInfo{}, vars: map[string]string{}, varTyp: map[string]string{},
		meta: &ValidMeta{Variables: map[string]map[string]interface{}{}, Features: map[string]int{}}}
	doc := g.document()
	g.meta.Doc = doc
	return doc.Render(), g.meta
}

func (g *vgen) feat(s string) { g.meta.Features[s]++ }

func (g *vgen) useVar(posType string) string {
	n, ok := g.vars[posType]
	if !ok {
		n = fmt.Sprintf("v%d", len(g.vars))
		g.vars[posType] = n
		g.varTyp[n] = posType
	}
	g.curVars[n] = true
	return "$" + n
}

// Literal returns a literal of the input type `typ`; with allowVars it may contain variables.
func (g *vgen) literal(typ string, depth int, allowVars bool) string {
	te, err := gq.ParseType(typ)
	if err != nil {
		return "1"
	}
	return g.lit(te, depth, allowVars)
}

func (g *vgen) lit(te *gq.TypeExpr, depth int, allowVars bool) string {
	if allowVars && !g.o.NoVariables && g.r.Chance(1, 6) {
		g.feat("variable-usage")
		return g.useVar(te.String())
	}
	return g.litBody(te, depth, allowVars)
}

// litBody: a literal proper (variables only further inside)
func (g *vgen) litBody(te *gq.TypeExpr, depth int, allowVars bool) string {
	r := g.r
	switch te.Kind {
	case "nonNull":
		return g.litBody(te.Of, depth, allowVars)
	case "list":
		if depth <= 0 && g.v.Kind(te.NamedName()) == "INPUT_OBJECT" {
			return "[]" // bounds the recursion through lists of (recursive) input objects
		}
		if r.Chance(1, 4) {
			g.feat("list-of-one")
			inner := te.Of
			for inner.Kind == "nonNull" {
				inner = inner.Of
			}
			// a bare variable here would stand in the LIST position; keep the element a literal
			return g.litBody(inner, depth-1, false)
		}
		n := r.Intn(3)
		parts := []string{}
		for i := 0; i < n; i++ {
			if allowVars && !g.o.NoVariables && r.Chance(1, 4) {
				g.feat("variable-as-list-element")
				parts = append(parts, g.useVar(te.Of.String()))
				continue
			}
			parts = append(parts, g.lit(te.Of, depth-1, allowVars))
		}
		return "[" + strings.Join(parts, ", ") + "]"
	}
	switch te.Name {
	case "Int":
		return r.Pick([]string{"0", "1", "-7", "42", "2147483647", "-2147483648"})
	case "Float":
		return r.Pick([]string{"0", "3", "1.5", "-0.25", "1e2", "2.5e-1"})
	case "String":
		return r.Pick([]string{`"s"`, `""`, `"hello world"`, `"a\nb"`, `"é"`})
	case "Boolean":
		return r.Pick([]string{"true", "false"})
	case "ID":
		return r.Pick([]string{`"id1"`, "4", `"42"`})
	}
	td := g.v.Type(te.Name)
	if td == nil {
		return "1"
	}
	switch td.Kind {
	case "ENUM":
		g.feat("enum-literal")
		return td.Values[r.Intn(len(td.Values))].Name
	case "SCALAR":
		g.feat("custom-scalar-literal")
		if len(td.ParseLiteral) > 0 {
			k := td.ParseLiteral[r.Intn(len(td.ParseLiteral))][0]
			switch x := k.(type) {
			case string:
				return fmt.Sprintf("%q", x)
			default:
				return fmt.Sprint(x)
			}
		}
		return "1"
	case "INPUT_OBJECT":
		g.feat("input-object-literal")
		parts := []string{}
		for _, f := range td.InputFields {
			fe, _ := gq.ParseType(f.Type)
			required := fe.Kind == "nonNull"
			if required || (depth > 0 && r.Chance(1, 2)) {
				if fe.NamedName() != te.Name || depth > 0 || required {
					if g.v.Kind(fe.NamedName()) == "INPUT_OBJECT" {
						g.feat("nested-input-object")
					}
					parts = append(parts, f.Name+": "+g.lit(fe, depth-1, allowVars))
				}
			}
		}
		return "{" + strings.Join(parts, ", ") + "}"
	}
	return "1"
}

func (g *vgen) args(defs []gq.ArgDesc, depth int) []*VArg {
	var out []*VArg
	for _, a := range defs {
		te, _ := gq.ParseType(a.Type)
		if te.Kind == "nonNull" || g.r.Chance(1, 2) {
			out = append(out, &VArg{Name: a.Name, Value: g.lit(te, 2, true), Type: a.Type})
		}
	}
	if len(out) > 1 && g.r.Chance(1, 3) {
		out[0], out[len(out)-1] = out[len(out)-1], out[0]
	}
	return out
}

func (g *vgen) condDirs() []*VDir {
	if !g.r.Chance(1, 6) {
		return nil
	}
	var ds []*VDir
	n := 1
	if g.r.Chance(1, 5) {
		n = 2
	}
	names := []string{"skip", "include"}
	if g.r.Chance(1, 2) {
		names = []string{"include", "skip"}
	}
	for i := 0; i < n; i++ {
		val := g.r.Pick([]string{"true", "false"})
		if !g.o.NoVariables && g.r.Chance(1, 3) {
			val = g.useVar("Boolean!")
			g.feat("directive-variable")
		} else {
			g.feat("directive-literal")
		}
		ds = append(ds, &VDir{Name: names[i], Args: []*VArg{{Name: "if", Value: val, Type: "Boolean!"}}})
	}
	return ds
}

// siteDirs: @skip/@include (where allowed) and custom directives of the schema allowed at `site`
// (FIELD, FRAGMENT_SPREAD, INLINE_FRAGMENT, QUERY, MUTATION, FRAGMENT_DEFINITION).
func (g *vgen) siteDirs(site string) []*VDir {
	var ds []*VDir
	if site == "FIELD" || site == "FRAGMENT_SPREAD" || site == "INLINE_FRAGMENT" {
		ds = g.condDirs()
	}
	for _, dd := range g.v.D.Directives {
		ok := false
		for _, l := range dd.Locations {
			if l == site {
				ok = true
			}
		}
		if !ok || !g.r.Chance(1, 8) {
			continue
		}
		g.feat("custom-directive@" + site)
		d := &VDir{Name: dd.Name}
		for _, a := range dd.Args {
			te, _ := gq.ParseType(a.Type)
			if te.Kind == "nonNull" || g.r.Chance(1, 2) {
				d.Args = append(d.Args, &VArg{Name: a.Name, Value: g.lit(te, 1, true), Type: a.Type})
			}
		}
		if g.r.Chance(1, 2) {
			ds = append(ds, d)
		} else {
			ds = append([]*VDir{d}, ds...)
		}
	}
	return ds
}

func argsText(as []*VArg) string {
	var b strings.Builder
	renderArgs(&b, as)
	return b.String()
}

func varsIn(as []*VArg) []string {
	var out []string
	for _, a := range as {
		s := a.Value
		for i := 0; i < len(s); i++ {
			if s[i] == '"' { // skip strings
				i++
				for i < len(s) && s[i] != '"' {
					if s[i] == '\\' {
						i++
					}
					i++
				}
				continue
			}
			if s[i] == '$' {
				j := i + 1
				for j < len(s) && (s[j] == '_' || s[j] >= '0' && s[j] <= '9' || s[j] >= 'a' && s[j] <= 'z' || s[j] >= 'A' && s[j] <= 'Z') {
					j++
				}
				out = append(out, s[i+1:j])
				i = j - 1
			}
		}
	}
	return out
}

// field builds one field selection on `parent`.
func (g *vgen) field(parent string, depth int) *VSel {
	r := g.r
	cands := g.v.Fields(parent)
	if g.o.NoIntrospection || !r.Chance(1, 12) {
		// usually leave the root meta fields out
		var c []gq.FieldDesc
		for _, f := range cands {
			if f.Name != "__schema" && f.Name != "__type" {
				c = append(c, f)
			}
		}
		cands = c
	}
	if depth <= 0 {
		var c []gq.FieldDesc
		for _, f := range cands {
			if g.v.IsLeaf(NamedOf(f.Type)) {
				c = append(c, f)
			}
		}
		cands = c // never empty: __typename
	}
	f := cands[r.Intn(len(cands))]
	if f.Name == "__typename" && len(cands) > 1 && r.Chance(2, 3) {
		f = cands[r.Intn(len(cands))]
	}
	if strings.HasPrefix(f.Name, "__") {
		g.feat("meta-field:" + f.Name)
	}
	s := &VSel{Kind: "field", Name: f.Name, Parent: parent, Type: f.Type}
	sig := f.Type
	for _, a := range f.Args {
		sig += "|" + a.Name + ":" + a.Type
	}
	key := f.Name
	if r.Chance(1, 5) {
		// an alias: a fresh one, or an existing key of the same field
		var same []string
		for k, ki := range g.keys {
			if ki.name == f.Name && ki.typ == sig && k != f.Name {
				same = append(same, k)
			}
		}
		sort.Strings(same)
		if len(same) > 0 && r.Chance(1, 2) {
			key = r.Pick(same)
		} else {
			g.nAlias++
			key = fmt.Sprintf("a%d", g.nAlias)
		}
	}
	if ki := g.keys[key]; ki != nil && (ki.name != f.Name || ki.typ != sig) {
		g.nAlias++
		key = fmt.Sprintf("a%d", g.nAlias)
	}
	if ki := g.keys[key]; ki != nil {
		g.feat("duplicate-response-key")
		for _, a := range ki.args {
			c := *a
			s.Args = append(s.Args, &c)
		}
		for _, v := range ki.vars {
			g.curVars[v] = true
		}
	} else {
		s.Args = g.args(f.Args, depth)
		g.keys[key] = &keyInfo{name: f.Name, typ: sig, args: s.Args, vars: varsIn(s.Args)}
	}
	if key != f.Name {
		s.Alias = key
		g.feat("alias")
	}
	s.Dirs = g.siteDirs("FIELD")
	named := NamedOf(f.Type)
	if g.v.IsComposite(named) {
		s.HasSel = true
		s.Sel = g.selSet(named, depth-1, f.Type != named)
	}
	return s
}

// selSet builds a non-empty selection list under `parent`; `wrapped` says whether TypeInfo.Type() is a list /
// non-null type at this point.
func (g *vgen) selSet(parent string, depth int, wrapped bool) []*VSel {
	r := g.r
	n := 1 + r.Intn(1+g.size/2)
	if depth <= 0 && n > 2 {
		n = 2
	}
	var out []*VSel
	for i := 0; i < n; i++ {
		k := r.Intn(20)
		switch {
		case k < 3 && depth > 0:
			on := ""
			if !r.Chance(1, 3) || (wrapped && g.o.AvoidBareInlineUnderWrapped) {
				var c []string
				for _, t := range g.v.Composites() {
					if !strings.HasPrefix(t, "__") || t == parent {
						if g.v.Overlap(t, parent) {
							c = append(c, t)
						}
					}
				}
				if len(c) == 0 {
					c = []string{parent}
				}
				on = r.Pick(c)
			}
			s := &VSel{Kind: "inline", On: on, Parent: parent}
			inner, w := parent, wrapped
			if on != "" {
				inner, w = on, false
				g.feat("inline-on-" + strings.ToLower(g.v.Kind(on)))
			} else {
				g.feat("inline-bare")
				if wrapped {
					g.meta.BareInlineUnderWrapped = true
					g.feat("inline-bare-under-wrapped")
				}
			}
			s.Dirs = g.siteDirs("INLINE_FRAGMENT")
			s.Sel = g.selSet(inner, depth-1, w)
			out = append(out, s)
		case k < 6 && !g.o.NoFragments:
			var c []string
			for j := g.curIdx + 1; j < len(g.frags); j++ {
				if g.frags[j] != nil && len(g.frags[j].Sel) > 0 && g.v.Overlap(g.frags[j].On, parent) {
					c = append(c, g.frags[j].Name)
				}
			}
			if len(c) == 0 {
				out = append(out, g.field(parent, depth))
				continue
			}
			fn := r.Pick(c)
			if g.curSpreads[fn] {
				g.feat("fragment-reused")
			}
			g.curSpreads[fn] = true
			g.feat("spread")
			out = append(out, &VSel{Kind: "spread", Name: fn, Parent: parent, Dirs: g.siteDirs("FRAGMENT_SPREAD")})
		default:
			out = append(out, g.field(parent, depth))
		}
	}
	if depth > 0 && !g.o.NoFragments && r.Chance(1, 6) {
		out = append(out, g.mergePattern(parent)...)
	}
	return out
}

// mergePattern: the same composite field three or four times in one selection set — through a fragment, directly
// with a sub-selection that spreads a SECOND fragment on the same type, and through that second fragment (legal on
// a self-referential type, no cycle): `...M0 f { ...M1 x } ...M1` with `fragment M0 on P { f { y } }`,
// `fragment M1 on P { f { z } }`, in a random order. The occurrences merge under one response key and the merged
// sub-selection must be the union of all of them, at both levels.
func (g *vgen) mergePattern(parent string) []*VSel {
	r := g.r
	var cands []gq.FieldDesc
	for _, f := range g.v.Fields(parent) {
		n := NamedOf(f.Type)
		if strings.HasPrefix(f.Name, "__") || !g.v.IsComposite(n) || len(f.Args) > 0 || !g.v.Overlap(n, parent) {
			continue
		}
		if ki := g.keys[f.Name]; ki != nil && (ki.name != f.Name || ki.typ != f.Type) {
			continue
		}
		cands = append(cands, f)
	}
	if len(cands) == 0 {
		return nil
	}
	f := cands[r.Intn(len(cands))]
	if g.keys[f.Name] == nil {
		g.keys[f.Name] = &keyInfo{name: f.Name, typ: f.Type}
	}
	named := NamedOf(f.Type)
	occ := func(inner ...*VSel) *VSel {
		return &VSel{Kind: "field", Name: f.Name, Parent: parent, Type: f.Type, HasSel: true, Sel: append(inner, g.field(named, 0))}
	}
	mk := func() *VFrag {
		fr := &VFrag{Name: fmt.Sprintf("M%d", len(g.extraFrags)), On: parent, Sel: []*VSel{occ()}}
		g.extraFrags = append(g.extraFrags, fr)
		g.curSpreads[fr.Name] = true
		return fr
	}
	a, b := mk(), mk()
	spread := func(fr *VFrag) *VSel { return &VSel{Kind: "spread", Name: fr.Name, Parent: parent} }
	items := []*VSel{spread(a), occ(&VSel{Kind: "spread", Name: b.Name, Parent: named}), spread(b)}
	if r.Chance(1, 3) {
		items = append(items, occ())
	}
	for i := len(items) - 1; i > 0; i-- {
		if r.Chance(1, 3) {
			j := r.Intn(i + 1)
			items[i], items[j] = items[j], items[i]
		}
	}
	g.feat("merge-pattern")
	return items
}

func (g *vgen) document() *VDoc {
	r := g.r
	doc := &VDoc{}
	depth := 1 + g.size/2
	if depth > 4 {
		depth = 4
	}
	// fragments, highest index first (fragment i spreads only j > i)
	nFrag := 0
	if !g.o.NoFragments {
		nFrag = r.Intn(2 + g.size/2)
	}
	comps := []string{}
	for _, t := range g.v.Composites() {
		if !strings.HasPrefix(t, "__") {
			comps = append(comps, t)
		}
	}
	g.frags = make([]*VFrag, nFrag)
	fragVars := map[string]map[string]bool{}
	fragSpreads := map[string]map[string]bool{}
	for i := nFrag - 1; i >= 0; i-- {
		f := &VFrag{Name: fmt.Sprintf("F%d", i), On: r.Pick(comps)}
		g.frags[i] = f
		g.curIdx, g.curVars, g.curSpreads = i, map[string]bool{}, map[string]bool{}
		f.Dirs = g.siteDirs("FRAGMENT_DEFINITION")
		f.Sel = g.selSet(f.On, depth-1, false)
		fragVars[f.Name], fragSpreads[f.Name] = g.curVars, g.curSpreads
	}
	// operations
	nOps := 1
	if !g.o.SingleOperation {
		nOps = []int{1, 1, 1, 2, 2, 3}[r.Intn(6)]
	}
	opVars := []map[string]bool{}
	opSpreads := []map[string]bool{}
	for i := 0; i < nOps; i++ {
		o := &VOp{Kind: "query", Root: g.v.D.Query}
		if g.v.D.Mutation != nil && r.Chance(1, 4) {
			o.Kind, o.Root = "mutation", *g.v.D.Mutation
			g.feat("mutation")
		} else if g.o.Subscriptions && g.v.D.Subscription != nil && r.Chance(1, 3) {
			o.Kind, o.Root = "subscription", *g.v.D.Subscription
			g.feat("subscription")
		}
		if nOps > 1 || r.Chance(1, 2) {
			o.Name = fmt.Sprintf("Op%d", i)
		}
		g.curIdx, g.curVars, g.curSpreads = -1, map[string]bool{}, map[string]bool{}
		o.Dirs = g.siteDirs(strings.ToUpper(o.Kind))
		o.Sel = g.selSet(o.Root, depth, false)
		if g.o.RootSpreadFirst && !g.o.NoFragments && r.Chance(1, 2) {
			fr := &VFrag{Name: fmt.Sprintf("R%d", len(g.extraFrags)), On: o.Root, Sel: []*VSel{g.field(o.Root, 1)}}
			g.extraFrags = append(g.extraFrags, fr)
			g.curSpreads[fr.Name] = true
			o.Sel = append([]*VSel{{Kind: "spread", Name: fr.Name, Parent: o.Root}}, o.Sel...)
			g.feat("root-spread-first")
		}
		opVars, opSpreads = append(opVars, g.curVars), append(opSpreads, g.curSpreads)
		doc.Ops = append(doc.Ops, o)
	}
	// reachability
	reach := func(from map[string]bool) map[string]bool {
		seen := map[string]bool{}
		var visit func(n string)
		visit = func(n string) {
			if seen[n] {
				return
			}
			seen[n] = true
			for m := range fragSpreads[n] {
				visit(m)
			}
		}
		for n := range from {
			visit(n)
		}
		return seen
	}
	used := map[string]bool{}
	for i, o := range doc.Ops {
		rs := reach(opSpreads[i])
		vs := map[string]bool{}
		for v := range opVars[i] {
			vs[v] = true
		}
		for f := range rs {
			used[f] = true
			for v := range fragVars[f] {
				vs[v] = true
			}
		}
		names := []string{}
		for v := range vs {
			names = append(names, v)
		}
		sort.Strings(names)
		vals := map[string]interface{}{}
		sg := &SchemaGen{R: r}
		for _, vn := range names {
			pt := g.varTyp[vn]
			vd := &VVar{Name: vn, Type: pt}
			nonNull := strings.HasSuffix(pt, "!")
			switch r.Intn(4) {
			case 0:
				if !nonNull {
					vd.Type = pt + "!"
					g.feat("var-stricter-type")
				}
			case 1:
				// nullable declared type + constant default (effectively non-null)
				vd.Type = strings.TrimSuffix(pt, "!")
				vd.Default = g.literal(vd.Type, 2, false)
				g.feat("var-default")
			}
			o.Vars = append(o.Vars, vd)
			if vd.Default == "" || r.Chance(1, 2) {
				te, _ := gq.ParseType(vd.Type)
				vals[vn] = sg.inputValueT(g.v.D, te, 2)
			}
		}
		if len(o.Vars) > 0 {
			g.feat("operation-with-variables")
		}
		g.meta.Variables[o.Name] = vals
	}
	for _, f := range g.frags {
		if used[f.Name] {
			doc.Frags = append(doc.Frags, f)
		}
	}
	for _, f := range g.extraFrags {
		if used[f.Name] {
			doc.Frags = append(doc.Frags, f)
		}
	}
	// definition order
	for i := range doc.Ops {
		doc.Order = append(doc.Order, i)
	}
	for i := range doc.Frags {
		doc.Order = append(doc.Order, -i-1)
	}
	for i := len(doc.Order) - 1; i > 0; i-- {
		j := r.Intn(i + 1)
		if r.Chance(1, 2) {
			doc.Order[i], doc.Order[j] = doc.Order[j], doc.Order[i]
		}
	}
	g.feat(fmt.Sprintf("ops=%d", len(doc.Ops)))
	if len(doc.Frags) > 0 {
		g.feat("has-fragments")
	}
	return doc
}
