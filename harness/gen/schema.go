package gen

import (
	"fmt"

	"verif/harness/gq"
	"verif/harness/hx"
)

// SchemaGen produces valid schema descriptions: interfaces with >= 1 implementer, unions, enums with
// arbitrary internal values, input objects (possibly recursive through nullable fields) with defaults,
// an optional custom scalar, list / non-null nests, arguments with and without defaults, optional mutation root.
type SchemaGen struct {
	R    *hx.Rng
	Size int // 1..5
	// knobs
	NoCustomScalar bool
	NoMutation     bool
	// PanickySerialize: the custom scalar's Serialize panics on the value 2 ("Odd cannot represent 2");
	// only the executor harness (whose model knows the marker) sets it
	PanickySerialize bool
}

var leafScalars = []string{"Int", "Float", "String", "Boolean", "ID"}

func (g *SchemaGen) wrapOut(named string, allowList bool) string {
	t := named
	if allowList && g.R.Chance(1, 3) {
		if g.R.Chance(1, 3) {
			t += "!"
		}
		t = "[" + t + "]"
		if g.R.Chance(1, 6) {
			if g.R.Chance(1, 3) {
				t += "!"
			}
			t = "[" + t + "]"
		}
	}
	if g.R.Chance(1, 4) {
		t += "!"
	}
	return t
}

// wire value of an input type (used for defaults); depth-limited
func (g *SchemaGen) inputValue(s *gq.SchemaDesc, typ string, depth int) interface{} {
	te, _ := gq.ParseType(typ)
	return g.inputValueT(s, te, depth)
}

func (g *SchemaGen) inputValueT(s *gq.SchemaDesc, te *gq.TypeExpr, depth int) interface{} {
	switch te.Kind {
	case "nonNull":
		return g.inputValueT(s, te.Of, depth)
	case "list":
		n := g.R.Intn(3)
		out := []interface{}{}
		for i := 0; i < n; i++ {
			out = append(out, g.inputValueT(s, te.Of, depth-1))
		}
		return out
	}
	switch te.Name {
	case "Int":
		return g.R.Range(-5, 100)
	case "Float":
		if g.R.Chance(1, 2) {
			return halves(g.R)
		}
		return g.R.Range(-3, 9)
	case "String":
		return g.R.Pick([]string{"s", "hello", "x y", ""})
	case "ID":
		return g.R.Pick([]string{"id1", "42"})
	case "Boolean":
		return g.R.Chance(1, 2)
	}
	td := s.Type(te.Name)
	if td == nil {
		return nil
	}
	switch td.Kind {
	case "ENUM":
		return td.Values[g.R.Intn(len(td.Values))].Internal
	case "INPUT_OBJECT":
		out := map[string]interface{}{}
		for _, f := range td.InputFields {
			fe, _ := gq.ParseType(f.Type)
			if fe.Kind == "nonNull" && !f.HasDef || (depth > 0 && g.R.Chance(1, 2)) {
				if depth <= 0 && fe.Kind != "nonNull" {
					continue
				}
				out[f.Name] = g.inputValueT(s, fe, depth-1)
			}
		}
		return out
	case "SCALAR":
		if len(td.ParseValue) > 0 {
			return td.ParseValue[g.R.Intn(len(td.ParseValue))][1]
		}
	}
	return nil
}

func halves(r *hx.Rng) interface{} {
	// decimals exact in binary: k/2, k/4, k/8
	den := []int{2, 4, 8}[r.Intn(3)]
	num := r.Range(-40, 40)*den + 1 + 2*r.Intn(den/2)
	m, e := num, 0
	// num/den as m·10^-e
	switch den {
	case 2:
		m, e = num*5, 1
	case 4:
		m, e = num*25, 2
	case 8:
		m, e = num*125, 3
	}
	return map[string]interface{}{"$dec": []interface{}{m, e}}
}

func (g *SchemaGen) Schema() *gq.SchemaDesc {
	r := g.R
	s := &gq.SchemaDesc{Query: "Q"}
	// enums
	nEnum := r.Range(0, 2)
	for i := 0; i < nEnum; i++ {
		td := gq.TypeDesc{Kind: "ENUM", Name: fmt.Sprintf("E%d", i)}
		nv := r.Range(1, 4)
		style := r.Intn(3)
		for j := 0; j < nv; j++ {
			name := []string{"RED", "GREEN", "BLUE", "on"}[j]
			var internal interface{} = name
			switch style {
			case 1:
				internal = j
			case 2:
				internal = []string{"not a name", "1x", "", "é"}[j]
			}
			ev := gq.EnumValDesc{Name: name, Internal: internal}
			if r.Chance(1, 6) {
				ev.Deprecation = "old"
			}
			td.Values = append(td.Values, ev)
		}
		s.Types = append(s.Types, td)
	}
	// custom scalar
	if !g.NoCustomScalar && r.Chance(1, 3) {
		ser := [][2]interface{}{{1, 1}, {3, 3}, {"three", 3}}
		if g.PanickySerialize {
			ser = append(ser, [2]interface{}{2, map[string]interface{}{"$panic": true}})
		}
		s.Types = append(s.Types, gq.TypeDesc{Kind: "SCALAR", Name: "Odd",
			Serialize:    ser,
			ParseValue:   [][2]interface{}{{1, 1}, {3, 3}, {"3", 3}},
			ParseLiteral: [][2]interface{}{{1, 1}, {3, 3}, {"3", 3}}})
	}
	inputLeaf := func() string {
		c := append([]string{}, leafScalars...)
		for _, t := range s.Types {
			if t.Kind == "ENUM" || t.Kind == "SCALAR" {
				c = append(c, t.Name)
			}
		}
		return r.Pick(c)
	}
	wrapIn := func(named string) string {
		t := named
		if r.Chance(1, 4) {
			if r.Chance(1, 3) {
				t += "!"
			}
			t = "[" + t + "]"
			if r.Chance(1, 5) {
				t = "[" + t + "]"
			}
		}
		if r.Chance(1, 5) {
			t += "!"
		}
		return t
	}
	// input objects
	nIn := r.Range(0, 2)
	for i := 0; i < nIn; i++ {
		s.Types = append(s.Types, gq.TypeDesc{Kind: "INPUT_OBJECT", Name: fmt.Sprintf("In%d", i)})
	}
	for i := 0; i < nIn; i++ {
		td := s.Type(fmt.Sprintf("In%d", i))
		nf := r.Range(1, 3)
		for j := 0; j < nf; j++ {
			named := inputLeaf()
			if r.Chance(1, 4) {
				named = fmt.Sprintf("In%d", r.Intn(nIn)) // possibly recursive, always nullable below
				t := named
				if r.Chance(1, 3) {
					t = "[" + t + "]"
				}
				td.InputFields = append(td.InputFields, gq.ArgDesc{Name: fmt.Sprintf("i%d", j), Type: t})
				continue
			}
			a := gq.ArgDesc{Name: fmt.Sprintf("i%d", j), Type: wrapIn(named)}
			td.InputFields = append(td.InputFields, a)
		}
	}
	// defaults for input fields (after all input types exist)
	for i := 0; i < nIn; i++ {
		td := s.Type(fmt.Sprintf("In%d", i))
		for j := range td.InputFields {
			f := &td.InputFields[j]
			te, _ := gq.ParseType(f.Type)
			if te.NamedName() != td.Name && s.Type(te.NamedName()) != nil && s.Type(te.NamedName()).Kind == "INPUT_OBJECT" {
				continue
			}
			if r.Chance(1, 3) {
				f.HasDef = true
				f.Default = g.inputValueT(s, te, 1)
			}
		}
	}
	inputType := func() string {
		if nIn > 0 && r.Chance(1, 4) {
			return wrapIn(fmt.Sprintf("In%d", r.Intn(nIn)))
		}
		return wrapIn(inputLeaf())
	}
	mkArgs := func() []gq.ArgDesc {
		n := 0
		if r.Chance(1, 3) {
			n = r.Range(1, 2)
		}
		var as []gq.ArgDesc
		for i := 0; i < n; i++ {
			a := gq.ArgDesc{Name: fmt.Sprintf("a%d", i), Type: inputType()}
			te, _ := gq.ParseType(a.Type)
			if r.Chance(1, 3) {
				a.HasDef = true
				a.Default = g.inputValueT(s, te, 1)
			}
			as = append(as, a)
		}
		return as
	}
	// composite type names
	nIface := r.Range(1, 2)
	nObj := r.Range(2, 2+g.Size/2)
	hasUnion := r.Chance(1, 2)
	objs := []string{}
	for i := 0; i < nObj; i++ {
		objs = append(objs, fmt.Sprintf("O%d", i))
	}
	ifaces := []string{}
	for i := 0; i < nIface; i++ {
		ifaces = append(ifaces, fmt.Sprintf("I%d", i))
	}
	composite := append(append([]string{}, objs...), ifaces...)
	if hasUnion {
		composite = append(composite, "U")
	}
	outLeaf := func() string {
		c := append([]string{}, leafScalars...)
		for _, t := range s.Types {
			if t.Kind == "ENUM" || t.Kind == "SCALAR" {
				c = append(c, t.Name)
			}
		}
		return r.Pick(c)
	}
	mkField := func(name string) gq.FieldDesc {
		var named string
		if r.Chance(2, 5) {
			named = r.Pick(composite)
		} else {
			named = outLeaf()
		}
		f := gq.FieldDesc{Name: name, Type: g.wrapOut(named, true), Args: mkArgs()}
		if r.Chance(1, 10) {
			f.Deprecation = "use other"
		}
		return f
	}
	// interfaces
	ifaceFields := map[string][]gq.FieldDesc{}
	for _, in := range ifaces {
		nf := r.Range(1, 2)
		var fs []gq.FieldDesc
		for j := 0; j < nf; j++ {
			fs = append(fs, mkField(fmt.Sprintf("%sf%d", in, j)))
		}
		ifaceFields[in] = fs
		s.Types = append(s.Types, gq.TypeDesc{Kind: "INTERFACE", Name: in, Fields: fs, ResolveType: r.Chance(2, 3)})
	}
	// objects
	for k, on := range objs {
		td := gq.TypeDesc{Kind: "OBJECT", Name: on}
		for _, in := range ifaces {
			if r.Chance(1, 2) || (k == 0) {
				td.Interfaces = append(td.Interfaces, in)
				td.Fields = append(td.Fields, ifaceFields[in]...)
			}
		}
		nf := r.Range(1, 3)
		for j := 0; j < nf; j++ {
			td.Fields = append(td.Fields, mkField(fmt.Sprintf("f%d", j)))
		}
		td.IsTypeOf = r.Chance(1, 2)
		s.Types = append(s.Types, td)
	}
	// interfaces without ResolveType need IsTypeOf on every implementer (NewSchema enforces it)
	for i := range s.Types {
		t := &s.Types[i]
		if t.Kind == "INTERFACE" && !t.ResolveType {
			for j := range s.Types {
				o := &s.Types[j]
				if o.Kind == "OBJECT" {
					for _, in := range o.Interfaces {
						if in == t.Name {
							o.IsTypeOf = true
						}
					}
				}
			}
		}
	}
	if hasUnion {
		u := gq.TypeDesc{Kind: "UNION", Name: "U", ResolveType: r.Chance(2, 3)}
		for _, on := range objs {
			if r.Chance(1, 2) || len(u.Members) == 0 {
				u.Members = append(u.Members, on)
			}
		}
		if !u.ResolveType {
			for _, m := range u.Members {
				s.Type(m).IsTypeOf = true
			}
		}
		s.Types = append(s.Types, u)
	}
	// query root: one field per composite type plus leaves
	q := gq.TypeDesc{Kind: "OBJECT", Name: "Q"}
	for i, c := range composite {
		q.Fields = append(q.Fields, gq.FieldDesc{Name: fmt.Sprintf("q%d", i), Type: g.wrapOut(c, true), Args: mkArgs()})
	}
	nl := r.Range(1, 3)
	for j := 0; j < nl; j++ {
		q.Fields = append(q.Fields, gq.FieldDesc{Name: fmt.Sprintf("l%d", j), Type: g.wrapOut(outLeaf(), true), Args: mkArgs()})
	}
	s.Types = append(s.Types, q)
	if !g.NoMutation && r.Chance(1, 3) {
		m := gq.TypeDesc{Kind: "OBJECT", Name: "M"}
		nm := r.Range(1, 4)
		for j := 0; j < nm; j++ {
			named := outLeaf()
			if r.Chance(1, 2) {
				named = r.Pick(composite)
			}
			m.Fields = append(m.Fields, gq.FieldDesc{Name: fmt.Sprintf("m%d", j), Type: g.wrapOut(named, true), Args: mkArgs()})
		}
		s.Types = append(s.Types, m)
		mn := "M"
		s.Mutation = &mn
	}
	return s
}

// ShareRoot turns a schema with separate query and mutation roots into one whose mutation root is the very same object
// type as the query root (NewSchema accepts one *Object in both roles): the mutation root's fields move to the query
// root, the separate mutation type disappears, and the description names the query root as mutation root as well
// (gq.Build looks roots up by name, so the real schema gets the same *graphql.Object twice). Reports whether it did
// (not when there is no mutation root, the roots already coincide, a field name would clash, or something refers to
// the mutation type by name).
func ShareRoot(s *gq.SchemaDesc) bool {
	if s.Mutation == nil || *s.Mutation == s.Query {
		return false
	}
	mn := *s.Mutation
	q, m := s.Type(s.Query), s.Type(mn)
	if q == nil || m == nil || len(m.Interfaces) > 0 || (s.Subscription != nil && *s.Subscription == mn) {
		return false
	}
	for _, f := range m.Fields {
		for _, qf := range q.Fields {
			if qf.Name == f.Name {
				return false
			}
		}
	}
	for _, t := range s.Types {
		for _, f := range t.Fields {
			if te, err := gq.ParseType(f.Type); err != nil || te.NamedName() == mn {
				return false
			}
		}
		for _, mem := range t.Members {
			if mem == mn {
				return false
			}
		}
	}
	q.Fields = append(q.Fields, m.Fields...)
	var types []gq.TypeDesc
	for _, t := range s.Types {
		if t.Name != mn {
			types = append(types, t)
		}
	}
	s.Types = types
	qn := s.Query
	s.Mutation = &qn
	return true
}
