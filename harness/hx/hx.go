// Package hx holds what every property harness shares: the seeded PRNG, the pipe to the Lean
// model driver, case bookkeeping (evaluations, distinct non-trivial cases, samples), replay files
// and the result file the check driver turns into evidence.
package hx

import (
	"bufio"
	"crypto/sha256"
	"encoding/json"
	"flag"
	"fmt"
	"io"
	"os"
	"os/exec"
	"path/filepath"
	"sort"
	"time"
)

// ---------------------------------------------------------------- PRNG (splitmix64)

type Rng struct{ s uint64 }

func NewRng(seed uint64) *Rng { return &Rng{s: seed*0x9E3779B97F4A7C15 + 0x1234567} }

func (r *Rng) U64() uint64 {
	r.s += 0x9E3779B97F4A7C15
	z := r.s
	z = (z ^ (z >> 30)) * 0xBF58476D1CE4E5B9
	z = (z ^ (z >> 27)) * 0x94D049BB133111EB
	return z ^ (z >> 31)
}

// Intn returns a value in [0,n); n must be > 0.
func (r *Rng) Intn(n int) int { return int(r.U64() % uint64(n)) }

// Range returns a value in [lo,hi].
func (r *Rng) Range(lo, hi int) int { return lo + r.Intn(hi-lo+1) }

// Chance is true with probability num/den.
func (r *Rng) Chance(num, den int) bool { return r.Intn(den) < num }

func (r *Rng) Pick(xs []string) string { return xs[r.Intn(len(xs))] }

// Fork derives an independent stream for case i, so a case replays from (seed, i).
func Fork(seed uint64, i int) *Rng { return NewRng(seed ^ (uint64(i)+1)*0xD6E8FEB86659FD93) }

// ---------------------------------------------------------------- driver pipe

type Driver struct {
	cmd *exec.Cmd
	in  io.WriteCloser
	out *bufio.Reader
}

func StartDriver(path string) (*Driver, error) {
	cmd := exec.Command(path)
	in, err := cmd.StdinPipe()
	if err != nil {
		return nil, err
	}
	out, err := cmd.StdoutPipe()
	if err != nil {
		return nil, err
	}
	cmd.Stderr = os.Stderr
	if err := cmd.Start(); err != nil {
		return nil, err
	}
	return &Driver{cmd: cmd, in: in, out: bufio.NewReaderSize(out, 1<<20)}, nil
}

// Ask sends one JSON line and decodes the one-line answer into resp.
func (d *Driver) Ask(req interface{}, resp interface{}) error {
	b, err := json.Marshal(req)
	if err != nil {
		return err
	}
	b = append(b, '\n')
	if _, err := d.in.Write(b); err != nil {
		return fmt.Errorf("driver write: %w", err)
	}
	line, err := d.out.ReadBytes('\n')
	if err != nil {
		return fmt.Errorf("driver read: %w (partial %q)", err, string(line))
	}
	var probe struct {
		Error *string `json:"error"`
	}
	if json.Unmarshal(line, &probe) == nil && probe.Error != nil {
		return fmt.Errorf("driver error: %s (request %s)", *probe.Error, string(b))
	}
	dec := json.NewDecoder(bytesReader(line))
	dec.UseNumber()
	return dec.Decode(resp)
}

func (d *Driver) Close() {
	d.in.Close()
	d.cmd.Wait()
}

type br struct {
	b []byte
	i int
}

func (r *br) Read(p []byte) (int, error) {
	if r.i >= len(r.b) {
		return 0, io.EOF
	}
	n := copy(p, r.b[r.i:])
	r.i += n
	return n, nil
}
func bytesReader(b []byte) io.Reader { return &br{b: b} }

// ---------------------------------------------------------------- run bookkeeping

type Violation struct {
	Replay         string `json:"replay"`
	Note           string `json:"note"`
	NoFailingInput bool   `json:"no_failing_input"`
}

type Known struct {
	Class string `json:"class"`
	What  string `json:"what"`
	Count int    `json:"count"`
}

type Result struct {
	Property           string                 `json:"property"`
	Tier               string                 `json:"tier"`
	Seed               uint64                 `json:"seed"`
	Evaluations        int                    `json:"evaluations"`
	DistinctNontrivial int                    `json:"distinct_nontrivial"`
	Rule               string                 `json:"rule"`
	Samples            []interface{}          `json:"samples"`
	Exhaustive         bool                   `json:"exhaustive"`
	Violations         []Violation            `json:"violations"`
	Known              []Known                `json:"known_findings"`
	Histogram          map[string]int         `json:"histogram"`
	Extra              map[string]interface{} `json:"extra"`
	Assumptions        []string               `json:"assumptions"`
	CheckErrors        []string               `json:"check_errors"`
}

type Run struct {
	Prop      string
	Tier      string
	Seed      uint64
	DriverBin string
	OutPath   string
	ReplayIn  string
	ReplayDir string
	Res       Result
	seen      map[[32]byte]bool
	known     map[string]*Known
	start     time.Time
	maxViol   int
}

// Begin parses the common flags.
func Begin(prop string) *Run {
	tier := flag.String("tier", "quick", "quick|thorough")
	seed := flag.Uint64("seed", 1, "VERIF_SEED")
	drv := flag.String("driver", "", "path of the Lean model driver")
	out := flag.String("out", "", "result json")
	rep := flag.String("replay", "", "replay file to re-run")
	rdir := flag.String("replaydir", "", "directory for replay files")
	flag.Parse()
	r := &Run{Prop: prop, Tier: *tier, Seed: *seed, DriverBin: *drv, OutPath: *out, ReplayIn: *rep, ReplayDir: *rdir}
	r.Res.Property = prop
	r.Res.Tier = *tier
	r.Res.Seed = *seed
	r.Res.Histogram = map[string]int{}
	r.Res.Extra = map[string]interface{}{}
	r.Res.Samples = []interface{}{}
	r.Res.Violations = []Violation{}
	r.Res.Known = []Known{}
	r.seen = map[[32]byte]bool{}
	r.known = map[string]*Known{}
	r.start = time.Now()
	r.maxViol = 5
	return r
}

func (r *Run) Thorough() bool { return r.Tier == "thorough" }

// N picks the case budget by tier.
func (r *Run) N(quick, thorough int) int {
	if r.Thorough() {
		return thorough
	}
	return quick
}

// Case records one evaluated case; key is its canonical rendering (for distinctness), nontrivial
// is the property-specific rule's verdict. A few cases are kept as samples.
func (r *Run) Case(key string, nontrivial bool, sample interface{}) {
	r.Res.Evaluations++
	if !nontrivial {
		return
	}
	h := sha256.Sum256([]byte(key))
	if r.seen[h] {
		return
	}
	r.seen[h] = true
	r.Res.DistinctNontrivial++
	if len(r.Res.Samples) < 5 && sample != nil {
		r.Res.Samples = append(r.Res.Samples, sample)
	}
}

func (r *Run) Tag(tag string) { r.Res.Histogram[tag]++ }

func (r *Run) TooManyViolations() bool { return len(r.Res.Violations) >= r.maxViol }

// Violation writes a replay file and records the violation.
func (r *Run) Violation(note string, replay interface{}, noFailingInput bool) {
	if r.TooManyViolations() {
		return
	}
	os.MkdirAll(r.ReplayDir, 0o755)
	p := filepath.Join(r.ReplayDir, fmt.Sprintf("%s-%d-%d.json", r.Tier, r.Seed, len(r.Res.Violations)))
	b, _ := json.MarshalIndent(map[string]interface{}{"property": r.Prop, "note": note, "seed": r.Seed, "tier": r.Tier, "replay": replay}, "", " ")
	os.WriteFile(p, b, 0o644)
	r.Res.Violations = append(r.Res.Violations, Violation{Replay: p, Note: note, NoFailingInput: noFailingInput})
}

// KnownFinding counts an occurrence of a listed finding class.
func (r *Run) KnownFinding(class, what string) {
	k := r.known[class]
	if k == nil {
		k = &Known{Class: class, What: what}
		r.known[class] = k
	}
	k.Count++
}

func (r *Run) CheckError(msg string) { r.Res.CheckErrors = append(r.Res.CheckErrors, msg) }

// Finish writes the result file; the exit code is decided by the check driver from it.
func (r *Run) Finish() {
	keys := make([]string, 0, len(r.known))
	for k := range r.known {
		keys = append(keys, k)
	}
	sort.Strings(keys)
	for _, k := range keys {
		r.Res.Known = append(r.Res.Known, *r.known[k])
	}
	r.Res.Extra["harness_wall_s"] = time.Since(r.start).Seconds()
	b, _ := json.MarshalIndent(r.Res, "", " ")
	if r.OutPath == "" {
		os.Stdout.Write(b)
		return
	}
	if err := os.WriteFile(r.OutPath, b, 0o644); err != nil {
		fmt.Fprintln(os.Stderr, "cannot write result:", err)
		os.Exit(2)
	}
}

// Canon marshals with sorted keys (encoding/json sorts map keys) for comparison.
func Canon(v interface{}) string {
	b, err := json.Marshal(v)
	if err != nil {
		return "!marshal:" + err.Error()
	}
	return string(b)
}

// LoadReplay reads the "replay" member of a replay file into v.
func LoadReplay(path string, v interface{}) error {
	b, err := os.ReadFile(path)
	if err != nil {
		return err
	}
	var w struct {
		Replay json.RawMessage `json:"replay"`
	}
	if err := json.Unmarshal(b, &w); err != nil {
		return err
	}
	return json.Unmarshal(w.Replay, v)
}
