package main

import (
	"encoding/json"
	"fmt"

	"github.com/graphql-go/graphql"

	"verif/harness/gen"
	"verif/harness/gq"
	"verif/harness/hx"
)

func main() {
	bad := 0
	for i := 0; i < 2000; i++ {
		g := &gen.SchemaGen{R: hx.Fork(7, i), Size: 1 + i%5}
		d := g.Schema()
		_, err := gq.Build(d, gq.Hooks{
			IsTypeOf: func(string) graphql.IsTypeOfFn { return func(graphql.IsTypeOfParams) bool { return true } },
			ResolveType: func(string, map[string]*graphql.Object) graphql.ResolveTypeFn {
				return func(graphql.ResolveTypeParams) *graphql.Object { return nil }
			},
		})
		if err != nil {
			bad++
			if bad < 5 {
				b, _ := json.Marshal(d)
				fmt.Println(err, string(b)[:300])
			}
		}
	}
	fmt.Println("bad", bad)
}
