package main

// Facts about the schema walk and about calls made while a mutex is held (C07). Additive.

import (
	"fmt"
	"go/ast"
	"go/token"
	"go/types"
	"sort"
	"strings"
)

type graphFacts struct {
	SchemaWalkEdges [][]string // function, case types of the enclosing type switch ("" if none), expression handed to typeMapReducer
	HeldCalls       [][]string // function, mutex (Type.field), package function called while the mutex is held
	ReentrantLocks  [][]string // function holding the mutex, mutex, function reachable from a held call that locks the same mutex
}

func collectGraph(fset *token.FileSet, files []*ast.File, info *types.Info) *graphFacts {
	G := &graphFacts{}
	named := func(t types.Type) *types.Named {
		for {
			if p, ok := t.(*types.Pointer); ok {
				t = p.Elem()
				continue
			}
			break
		}
		n, _ := t.(*types.Named)
		return n
	}
	calleeOf := func(x *ast.CallExpr) string {
		switch fun := x.Fun.(type) {
		case *ast.Ident:
			return fun.Name
		case *ast.SelectorExpr:
			if tv, ok := info.Types[fun.X]; ok && tv.Type != nil {
				if nt := named(tv.Type); nt != nil && nt.Obj().Pkg() != nil && nt.Obj().Pkg().Name() == "graphql" {
					return nt.Obj().Name() + "." + fun.Sel.Name
				}
			}
		}
		return ""
	}
	// mutex identity: Type.field of `x.field.Lock()`
	mutexOf := func(x *ast.CallExpr) (string, string) {
		se, ok := x.Fun.(*ast.SelectorExpr)
		if !ok || (se.Sel.Name != "Lock" && se.Sel.Name != "Unlock") || len(x.Args) != 0 {
			return "", ""
		}
		fe, ok := se.X.(*ast.SelectorExpr)
		if !ok {
			return "", ""
		}
		if tv, ok := info.Types[fe.X]; ok && tv.Type != nil {
			if nt := named(tv.Type); nt != nil {
				return nt.Obj().Name() + "." + fe.Sel.Name, se.Sel.Name
			}
		}
		return "", ""
	}
	bodies := map[string]*ast.FuncDecl{}
	for _, f := range files {
		for _, d := range f.Decls {
			if fd, ok := d.(*ast.FuncDecl); ok && fd.Body != nil {
				bodies[funcName(fd)] = fd
			}
		}
	}
	calls := map[string]map[string]bool{} // whole-body call graph
	locks := map[string]map[string]bool{} // function → mutexes it locks
	type held struct{ fn, mu, callee string }
	var heldCalls []held
	for fn, fd := range bodies {
		calls[fn] = map[string]bool{}
		locks[fn] = map[string]bool{}
		// lock spans per mutex (Lock … explicit Unlock, or to the end of the body when the Unlock is deferred / missing)
		type span struct {
			from, to token.Pos
			mu       string
		}
		var spans []span
		open := map[string]token.Pos{}
		ast.Inspect(fd.Body, func(n ast.Node) bool {
			switch x := n.(type) {
			case *ast.DeferStmt:
				return false
			case *ast.CallExpr:
				if mu, op := mutexOf(x); mu != "" {
					if op == "Lock" {
						locks[fn][mu] = true
						open[mu] = x.End()
					} else if p, ok := open[mu]; ok {
						spans = append(spans, span{p, x.Pos(), mu})
						delete(open, mu)
					}
				}
			}
			return true
		})
		for mu, p := range open {
			spans = append(spans, span{p, fd.Body.End(), mu})
		}
		ast.Inspect(fd.Body, func(n ast.Node) bool {
			x, ok := n.(*ast.CallExpr)
			if !ok {
				return true
			}
			c := calleeOf(x)
			if c == "" || bodies[c] == nil {
				return true
			}
			calls[fn][c] = true
			for _, s := range spans {
				if s.from <= x.Pos() && x.Pos() < s.to {
					heldCalls = append(heldCalls, held{fn, s.mu, c})
				}
			}
			return true
		})
		// schema walk: what is handed to typeMapReducer, under which case of a type switch
		if fn == "typeMapReducer" || fn == "NewSchema" || fn == "Schema.AppendType" {
			var walk func(n ast.Node, caseTypes string)
			walk = func(n ast.Node, caseTypes string) {
				ast.Inspect(n, func(m ast.Node) bool {
					switch y := m.(type) {
					case *ast.TypeSwitchStmt:
						for _, cc := range y.Body.List {
							cl := cc.(*ast.CaseClause)
							var ts []string
							for _, e := range cl.List {
								ts = append(ts, types.ExprString(e))
							}
							for _, st := range cl.Body {
								walk(st, strings.Join(ts, ","))
							}
						}
						return false
					case *ast.CallExpr:
						if id, ok := y.Fun.(*ast.Ident); ok && id.Name == "typeMapReducer" && len(y.Args) == 3 {
							G.SchemaWalkEdges = append(G.SchemaWalkEdges, []string{fn, caseTypes, types.ExprString(y.Args[2])})
						}
					}
					return true
				})
			}
			walk(fd.Body, "")
		}
	}
	seen := map[string]bool{}
	for _, h := range heldCalls {
		k := h.fn + "\x00" + h.mu + "\x00" + h.callee
		if seen[k] {
			continue
		}
		seen[k] = true
		G.HeldCalls = append(G.HeldCalls, []string{h.fn, h.mu, h.callee})
		// everything reachable from the callee
		reach := map[string]bool{h.callee: true}
		queue := []string{h.callee}
		for len(queue) > 0 {
			c := queue[0]
			queue = queue[1:]
			for d := range calls[c] {
				if !reach[d] {
					reach[d] = true
					queue = append(queue, d)
				}
			}
		}
		for r := range reach {
			if locks[r][h.mu] {
				G.ReentrantLocks = append(G.ReentrantLocks, []string{h.fn, h.mu, r})
			}
		}
	}
	dedupe := func(xs [][]string) [][]string {
		s := map[string]bool{}
		var out [][]string
		for _, x := range xs {
			k := strings.Join(x, "\x00")
			if !s[k] {
				s[k] = true
				out = append(out, x)
			}
		}
		sort.Slice(out, func(i, j int) bool { return strings.Join(out[i], "\x00") < strings.Join(out[j], "\x00") })
		return out
	}
	G.SchemaWalkEdges = dedupe(G.SchemaWalkEdges)
	G.HeldCalls = dedupe(G.HeldCalls)
	G.ReentrantLocks = dedupe(G.ReentrantLocks)
	return G
}

func renderGraph(G *graphFacts) string {
	var b strings.Builder
	triples := func(doc, name string, xs [][]string) {
		fmt.Fprintf(&b, "/-- %s -/\ndef %s : List (String × String × String) := [\n", doc, name)
		for i, x := range xs {
			sep := ","
			if i == len(xs)-1 {
				sep = ""
			}
			fmt.Fprintf(&b, "  (%s, %s, %s)%s\n", q(x[0]), q(x[1]), q(x[2]), sep)
		}
		b.WriteString("]\n\n")
	}
	triples("what the schema walk hands to typeMapReducer: (function, case types of the enclosing type-switch clause, expression)", "schemaWalkEdges", G.SchemaWalkEdges)
	triples("package functions called while a mutex is held: (function holding it, mutex as Type.field, callee)", "heldCalls", G.HeldCalls)
	triples("re-entrant locking: (function holding the mutex, mutex, function reachable through package calls from a call made while holding it that locks the same mutex)", "reentrantLocks", G.ReentrantLocks)
	return b.String()
}
