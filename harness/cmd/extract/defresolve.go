package main

import (
	"go/ast"
	"go/token"
	"strings"
)

// defaultResolveFacts lists, in source order, the load-bearing constants of DefaultResolveFn (executor.go) that
// the model GqlModel/DefaultResolve.lean hard-codes: which struct tags are consulted and in which order, how the
// Go field name is compared, how a tag is split and which segment counts, and which types the parent value and
// its properties are asserted to. Props/C01Default.default_resolver_constants_as_modelled pins them.
func defaultResolveFacts(fset *token.FileSet, files []*ast.File) [][2]string {
	var out [][2]string
	for _, f := range files {
		for _, d := range f.Decls {
			fd, ok := d.(*ast.FuncDecl)
			if !ok || fd.Body == nil || fd.Recv != nil || fd.Name.Name != "DefaultResolveFn" {
				continue
			}
			ast.Inspect(fd.Body, func(n ast.Node) bool {
				switch x := n.(type) {
				case *ast.CallExpr:
					fun := exprString(fset, x.Fun)
					switch {
					case fun == "checkTag" && len(x.Args) == 1:
						out = append(out, [2]string{"tag", strings.Trim(exprString(fset, x.Args[0]), `"`)})
					case fun == "strings.EqualFold" || fun == "strings.ToLower" || fun == "strings.ToUpper" || fun == "strings.Title":
						out = append(out, [2]string{"nameMatch", exprString(fset, x)})
					case fun == "strings.Split" || fun == "strings.SplitN" || fun == "strings.Cut" || fun == "strings.Index" || fun == "strings.IndexByte":
						out = append(out, [2]string{"tagSplit", exprString(fset, x)})
					}
				case *ast.IndexExpr:
					if id, ok := x.X.(*ast.Ident); ok && id.Name == "tOptions" {
						out = append(out, [2]string{"tagSegment", exprString(fset, x.Index)})
					}
				case *ast.TypeAssertExpr:
					if x.Type != nil {
						out = append(out, [2]string{"assert", exprString(fset, x.Type)})
					}
				case *ast.BinaryExpr:
					if x.Op == token.EQL || x.Op == token.NEQ {
						l, r := exprString(fset, x.X), exprString(fset, x.Y)
						if l == "typeField.Name" || r == "typeField.Name" {
							out = append(out, [2]string{"nameMatch", exprString(fset, x)})
						}
					}
				}
				return true
			})
		}
	}
	return out
}
