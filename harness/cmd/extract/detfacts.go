package main

// Additional regenerated facts for C12 (determinism) and C07 (lock discipline). Additive: the tables of
// main.go / locks.go are left untouched; these are rendered as further `def`s of namespace Generated.

import (
	"fmt"
	"go/ast"
	"go/token"
	"go/types"
	"sort"
	"strings"
)

type extraFacts struct {
	MapRangeShapes    [][]string `json:"mapRangeShapes"`    // file, func, expr, ordinal-in-func, shape
	SortCalls         [][]string `json:"sortCalls"`         // file, func, callee (sort.Strings, …)
	FieldAccesses     [][]string `json:"fieldAccesses"`     // type, field, func, guard  (every syntactic use of a data field of a shared type)
	AtomicFields      [][]string `json:"atomicFields"`      // type, field, atomic type
	MutexFields       [][]string `json:"mutexFields"`       // type, field
	WriterCalls       [][]string `json:"writerCalls"`       // caller, callee — callee is a function that writes a field of a shared type
	ConstructionCalls [][]string `json:"constructionCalls"` // caller, callee — every static call made by a schema-construction function
	CritSections      [][]string `json:"critSections"`      // func, mutex, #Lock, #Unlock (deferred ones included), "deferred" | "explicit"
	FieldRegions      [][]string `json:"fieldRegions"`      // type, field, func, number of distinct critical sections of func in which the field is used
	LazyGuards        [][]string `json:"lazyGuards"`        // func, condition of the leading `if`, "return" | "do"
	PackageVars       [][]string `json:"packageVars"`       // file, name, "map" | "slice": package-level variables of reference type (shared mutable state)
}

func funcName(fd *ast.FuncDecl) string {
	fn := fd.Name.Name
	if fd.Recv != nil && len(fd.Recv.List) == 1 {
		fn = strings.TrimPrefix(types.ExprString(fd.Recv.List[0].Type), "*") + "." + fn
	}
	return fn
}

func mentions(n ast.Node, name string) bool {
	found := false
	ast.Inspect(n, func(x ast.Node) bool {
		if id, ok := x.(*ast.Ident); ok && id.Name == name {
			found = true
		}
		return !found
	})
	return found
}

// isGuardContinue recognises `if cond { continue }` (no else, no init).
func isGuardContinue(s ast.Stmt) bool {
	is, ok := s.(*ast.IfStmt)
	if !ok || is.Else != nil || is.Init != nil || len(is.Body.List) != 1 {
		return false
	}
	br, ok := is.Body.List[0].(*ast.BranchStmt)
	return ok && br.Tok == token.CONTINUE
}

// rangeShape is a purely syntactic description of what a `range` over a map does with the iteration order:
//
//	keys>G      (vals>G) the body (after leading `if … { continue }` guards) is exactly `S = append(S, key)`
//	            (`S = append(S, value)`), and the
//	            first later statement of the enclosing block that mentions S hands S to G
//	            (G = sort.Strings / sort.Sort / a package function such as suggestionList);
//	keys>unsorted  same collection, but S is next used without being handed to any call;
//	append      the body appends to some slice in iteration order (anything else than the above);
//	noappend+return / noappend   no append in the body; with / without a return statement.
func rangeShape(rs *ast.RangeStmt, following []ast.Stmt) string {
	key := ""
	if id, ok := rs.Key.(*ast.Ident); ok && id.Name != "_" {
		key = id.Name
	}
	body := rs.Body.List
	for len(body) > 0 && isGuardContinue(body[0]) {
		body = body[1:]
	}
	val := ""
	if id, ok := rs.Value.(*ast.Ident); ok && id.Name != "_" {
		val = id.Name
	}
	if len(body) == 1 {
		if as, ok := body[0].(*ast.AssignStmt); ok && len(as.Lhs) == 1 && len(as.Rhs) == 1 && as.Tok == token.ASSIGN {
			if lhs, ok := as.Lhs[0].(*ast.Ident); ok {
				if call, ok := as.Rhs[0].(*ast.CallExpr); ok && len(call.Args) == 2 {
					f, okf := call.Fun.(*ast.Ident)
					a0, ok0 := call.Args[0].(*ast.Ident)
					a1, ok1 := call.Args[1].(*ast.Ident)
					if okf && ok0 && ok1 && f.Name == "append" && a0.Name == lhs.Name && key != "" && a1.Name == key {
						return "keys>" + sinkOf(lhs.Name, following)
					}
					if okf && ok0 && ok1 && f.Name == "append" && a0.Name == lhs.Name && val != "" && a1.Name == val {
						return "vals>" + sinkOf(lhs.Name, following)
					}
				}
			}
		}
	}
	hasAppend, hasReturn := false, false
	ast.Inspect(rs.Body, func(n ast.Node) bool {
		switch x := n.(type) {
		case *ast.CallExpr:
			if id, ok := x.Fun.(*ast.Ident); ok && id.Name == "append" {
				hasAppend = true
			}
		case *ast.ReturnStmt:
			hasReturn = true
		}
		return true
	})
	switch {
	case hasAppend:
		return "append"
	case hasReturn:
		return "noappend+return"
	}
	return "noappend"
}

// sinkOf finds the first later statement that mentions the collected slice and names the innermost call
// that receives it (directly, or wrapped in a conversion such as sort.StringSlice(S)).
func sinkOf(slice string, following []ast.Stmt) string {
	for _, st := range following {
		if !mentions(st, slice) {
			continue
		}
		sink := ""
		ast.Inspect(st, func(n ast.Node) bool {
			call, ok := n.(*ast.CallExpr)
			if !ok {
				return true
			}
			for _, a := range call.Args {
				direct := false
				if id, ok := a.(*ast.Ident); ok && id.Name == slice {
					direct = true
				}
				if conv, ok := a.(*ast.CallExpr); ok && len(conv.Args) == 1 {
					if id, ok := conv.Args[0].(*ast.Ident); ok && id.Name == slice && types.ExprString(conv.Fun) == "sort.StringSlice" {
						direct = true
					}
				}
				if direct {
					sink = types.ExprString(call.Fun)
				}
			}
			return true
		})
		if sink == "" || sink == "sort.StringSlice" {
			return "unsorted"
		}
		return sink
	}
	return "unsorted"
}

func stmtLists(body *ast.BlockStmt, visit func(list []ast.Stmt)) {
	ast.Inspect(body, func(n ast.Node) bool {
		switch x := n.(type) {
		case *ast.BlockStmt:
			visit(x.List)
		case *ast.CaseClause:
			visit(x.Body)
		case *ast.CommClause:
			visit(x.Body)
		}
		return true
	})
}

func collectExtra(fset *token.FileSet, files []*ast.File, info *types.Info, lockFacts [][]string) *extraFacts {
	X := &extraFacts{}
	named := func(t types.Type) *types.Named {
		for {
			if p, ok := t.(*types.Pointer); ok {
				t = p.Elem()
				continue
			}
			break
		}
		n, _ := t.(*types.Named)
		return n
	}
	// functions that run while a schema is being constructed (before it can be shared)
	constructionRoots := map[string]bool{"NewSchema": true, "typeMapReducer": true, "assertObjectImplementsInterface": true,
		"NewEnum": true, "Schema.PossibleTypes": true, "Schema.buildPossibleTypeMap": true}
	seenCons := map[string]bool{}
	writers := map[string]bool{}
	for _, lf := range lockFacts {
		writers[lf[2]] = true
	}
	type posShape struct {
		pos   token.Pos
		expr  string
		shape string
	}
	seenAcc, seenCall, seenSort := map[string]bool{}, map[string]bool{}, map[string]bool{}
	for _, f := range files {
		fname := fset.Position(f.Pos()).Filename
		if i := strings.LastIndex(fname, "/"); i >= 0 {
			fname = fname[i+1:]
		}
		// package-level variables of map / slice type: process-wide mutable state every request can reach
		for _, d := range f.Decls {
			gd, ok := d.(*ast.GenDecl)
			if !ok || gd.Tok != token.VAR {
				continue
			}
			for _, sp := range gd.Specs {
				vs, ok := sp.(*ast.ValueSpec)
				if !ok {
					continue
				}
				for i, n := range vs.Names {
					kind := ""
					classify := func(t types.Type) {
						if t == nil {
							return
						}
						switch t.Underlying().(type) {
						case *types.Map:
							kind = "map"
						case *types.Slice:
							kind = "slice"
						}
					}
					if vs.Type != nil {
						if tv, ok := info.Types[vs.Type]; ok {
							classify(tv.Type)
						}
						switch t := vs.Type.(type) {
						case *ast.MapType:
							kind = "map"
						case *ast.ArrayType:
							if t.Len == nil {
								kind = "slice"
							}
						}
					}
					if kind == "" && i < len(vs.Values) {
						if tv, ok := info.Types[vs.Values[i]]; ok {
							classify(tv.Type)
						}
					}
					if kind != "" && n.Name != "_" {
						X.PackageVars = append(X.PackageVars, []string{fname, n.Name, kind})
					}
				}
			}
		}
		// struct fields of shared types that are mutexes / atomics
		for _, d := range f.Decls {
			gd, ok := d.(*ast.GenDecl)
			if !ok {
				continue
			}
			for _, s := range gd.Specs {
				ts, ok := s.(*ast.TypeSpec)
				if !ok || !sharedTypes[ts.Name.Name] {
					continue
				}
				st, ok := ts.Type.(*ast.StructType)
				if !ok {
					continue
				}
				for _, fld := range st.Fields.List {
					t := types.ExprString(fld.Type)
					for _, n := range fld.Names {
						switch {
						case t == "sync.Mutex" || t == "sync.RWMutex":
							X.MutexFields = append(X.MutexFields, []string{ts.Name.Name, n.Name})
						case strings.HasPrefix(t, "atomic."):
							X.AtomicFields = append(X.AtomicFields, []string{ts.Name.Name, n.Name, t})
						}
					}
				}
			}
		}
		for _, d := range f.Decls {
			fd, ok := d.(*ast.FuncDecl)
			if !ok || fd.Body == nil {
				continue
			}
			fn := funcName(fd)
			// ---- map range shapes, in source order within the function
			var shapes []posShape
			stmtLists(fd.Body, func(list []ast.Stmt) {
				for i, st := range list {
					if ls, ok := st.(*ast.LabeledStmt); ok {
						st = ls.Stmt
					}
					rs, ok := st.(*ast.RangeStmt)
					if !ok {
						continue
					}
					tv, ok := info.Types[rs.X]
					if !ok || tv.Type == nil {
						continue
					}
					if _, isMap := tv.Type.Underlying().(*types.Map); !isMap {
						continue
					}
					shapes = append(shapes, posShape{rs.Pos(), types.ExprString(rs.X), rangeShape(rs, list[i+1:])})
				}
			})
			sort.Slice(shapes, func(i, j int) bool { return shapes[i].pos < shapes[j].pos })
			for i, s := range shapes {
				X.MapRangeShapes = append(X.MapRangeShapes, []string{fname, fn, s.expr, fmt.Sprint(i), s.shape})
			}
			// ---- lock regions (same notion of "held" as locks.go)
			type span struct {
				from, to token.Pos
				mu       string
			}
			var spans []span
			open := map[string]token.Pos{}
			ast.Inspect(fd.Body, func(n ast.Node) bool {
				switch x := n.(type) {
				case *ast.DeferStmt:
					return false
				case *ast.CallExpr:
					if se, ok := x.Fun.(*ast.SelectorExpr); ok {
						mu := types.ExprString(se.X)
						switch se.Sel.Name {
						case "Lock":
							open[mu] = x.End()
						case "Unlock":
							if p, ok := open[mu]; ok {
								spans = append(spans, span{p, x.Pos(), mu})
								delete(open, mu)
							}
						}
					}
				}
				return true
			})
			for mu, p := range open {
				spans = append(spans, span{p, fd.Body.End(), mu})
			}
			sort.Slice(spans, func(i, j int) bool { return spans[i].from < spans[j].from })
			// shape of the critical sections of this function, per mutex
			{
				nLock, nUnlock, deferred := map[string]int{}, map[string]int{}, map[string]bool{}
				ast.Inspect(fd.Body, func(n ast.Node) bool {
					switch x := n.(type) {
					case *ast.DeferStmt:
						if se, ok := x.Call.Fun.(*ast.SelectorExpr); ok && se.Sel.Name == "Unlock" {
							mu := types.ExprString(se.X)
							nUnlock[mu]++
							deferred[mu] = true
						}
						return false
					case *ast.CallExpr:
						if se, ok := x.Fun.(*ast.SelectorExpr); ok && len(x.Args) == 0 {
							mu := types.ExprString(se.X)
							switch se.Sel.Name {
							case "Lock":
								nLock[mu]++
							case "Unlock":
								nUnlock[mu]++
							}
						}
					}
					return true
				})
				for mu, n := range nLock {
					style := "explicit"
					if deferred[mu] {
						style = "deferred"
					}
					X.CritSections = append(X.CritSections, []string{fn, mu, fmt.Sprint(n), fmt.Sprint(nUnlock[mu]), style})
				}
			}
			// leading guard of a function that writes fields of shared types (lazy initialisers: `if done { return … }`)
			if writers[fn] && len(fd.Body.List) > 0 {
				if is, ok := fd.Body.List[0].(*ast.IfStmt); ok && is.Init == nil && is.Else == nil {
					kind := "do"
					if n := len(is.Body.List); n > 0 {
						if _, ok := is.Body.List[n-1].(*ast.ReturnStmt); ok {
							kind = "return"
						}
					}
					X.LazyGuards = append(X.LazyGuards, []string{fn, types.ExprString(is.Cond), kind})
				}
			}
			regionOf := func(p token.Pos) int {
				for i, s := range spans {
					if s.from <= p && p < s.to {
						return i
					}
				}
				return -1
			}
			regionsUsed := map[string]map[int]bool{}
			held := func(p token.Pos) string {
				for _, s := range spans {
					if s.from <= p && p < s.to {
						return s.mu
					}
				}
				return ""
			}
			ast.Inspect(fd.Body, func(n ast.Node) bool {
				switch x := n.(type) {
				case *ast.SelectorExpr:
					tv, ok := info.Types[x.X]
					if !ok || tv.Type == nil {
						return true
					}
					nt := named(tv.Type)
					if nt == nil || !sharedTypes[nt.Obj().Name()] {
						return true
					}
					st, ok := nt.Underlying().(*types.Struct)
					if !ok {
						return true
					}
					for i := 0; i < st.NumFields(); i++ {
						fl := st.Field(i)
						if fl.Name() != x.Sel.Name {
							continue
						}
						ft := fl.Type().String()
						if strings.HasPrefix(ft, "sync.") || strings.HasPrefix(ft, "sync/atomic.") {
							break
						}
						r := []string{nt.Obj().Name(), fl.Name(), fn, held(x.Pos())}
						if ri := regionOf(x.Pos()); ri >= 0 {
							rk := nt.Obj().Name() + "\x00" + fl.Name()
							if regionsUsed[rk] == nil {
								regionsUsed[rk] = map[int]bool{}
							}
							regionsUsed[rk][ri] = true
						}
						k := strings.Join(r, "\x00")
						if !seenAcc[k] {
							seenAcc[k] = true
							X.FieldAccesses = append(X.FieldAccesses, r)
						}
					}
				case *ast.CallExpr:
					callee := ""
					switch fun := x.Fun.(type) {
					case *ast.Ident:
						callee = fun.Name
					case *ast.SelectorExpr:
						if id, ok := fun.X.(*ast.Ident); ok && id.Name == "sort" {
							r := []string{fname, fn, "sort." + fun.Sel.Name}
							k := strings.Join(r, "\x00")
							if !seenSort[k] && fun.Sel.Name != "StringSlice" {
								seenSort[k] = true
								X.SortCalls = append(X.SortCalls, r)
							}
						}
						if tv, ok := info.Types[fun.X]; ok && tv.Type != nil {
							if nt := named(tv.Type); nt != nil {
								callee = nt.Obj().Name() + "." + fun.Sel.Name
							}
						}
					}
					if callee != "" && constructionRoots[fn] {
						r := []string{fn, callee}
						k := strings.Join(r, "\x00")
						if !seenCons[k] {
							seenCons[k] = true
							X.ConstructionCalls = append(X.ConstructionCalls, r)
						}
					}
					if callee != "" && writers[callee] && callee != fn {
						r := []string{fn, callee}
						k := strings.Join(r, "\x00")
						if !seenCall[k] {
							seenCall[k] = true
							X.WriterCalls = append(X.WriterCalls, r)
						}
					}
				}
				return true
			})
			for rk, set := range regionsUsed {
				parts := strings.SplitN(rk, "\x00", 2)
				X.FieldRegions = append(X.FieldRegions, []string{parts[0], parts[1], fn, fmt.Sprint(len(set))})
			}
		}
	}
	less := func(xs [][]string) {
		sort.Slice(xs, func(i, j int) bool { return strings.Join(xs[i], "\x00") < strings.Join(xs[j], "\x00") })
	}
	// same order as mapRangeSites (sorted by fmt.Sprint of the triple), ties in source order
	sort.SliceStable(X.MapRangeShapes, func(i, j int) bool {
		a, b := X.MapRangeShapes[i], X.MapRangeShapes[j]
		ka, kb := fmt.Sprint([3]string{a[0], a[1], a[2]}), fmt.Sprint([3]string{b[0], b[1], b[2]})
		if ka != kb {
			return ka < kb
		}
		return len(a[3]) < len(b[3]) || (len(a[3]) == len(b[3]) && a[3] < b[3])
	})
	less(X.SortCalls)
	less(X.FieldAccesses)
	less(X.AtomicFields)
	less(X.MutexFields)
	less(X.WriterCalls)
	less(X.ConstructionCalls)
	less(X.CritSections)
	less(X.FieldRegions)
	less(X.LazyGuards)
	less(X.PackageVars)
	return X
}

func renderExtra(X *extraFacts) string {
	var b strings.Builder
	tuples := func(doc, name, typ string, xs [][]string, natAt int) {
		if doc != "" {
			fmt.Fprintf(&b, "/-- %s -/\n", doc)
		}
		fmt.Fprintf(&b, "def %s : List (%s) := [\n", name, typ)
		for i, x := range xs {
			parts := make([]string, len(x))
			for j, s := range x {
				if j == natAt {
					parts[j] = s
				} else {
					parts[j] = q(s)
				}
			}
			sep := ","
			if i == len(xs)-1 {
				sep = ""
			}
			fmt.Fprintf(&b, "  (%s)%s\n", strings.Join(parts, ", "), sep)
		}
		b.WriteString("]\n\n")
	}
	tuples("every `range` over a map in package graphql, as in `mapRangeSites`, with its ordinal among the map ranges of the same function (source order) and a syntactic shape (see harness/cmd/extract/detfacts.go: keys>SINK | append | noappend | noappend+return)",
		"mapRangeShapes", "String × String × String × Nat × String", X.MapRangeShapes, 3)
	tuples("every call into package sort: (file, function, callee)", "sortCalls", "String × String × String", X.SortCalls, -1)
	tuples("every syntactic use (read or write) of a data field of a shared type: (type, field, function, mutex held at that point or \"\"); fields of type sync.* / atomic.* are not listed",
		"fieldAccesses", "String × String × String × String", X.FieldAccesses, -1)
	tuples("fields of shared types whose type comes from sync/atomic", "atomicFields", "String × String × String", X.AtomicFields, -1)
	tuples("mutex fields of shared types", "mutexFields", "String × String", X.MutexFields, -1)
	tuples("static calls (caller, callee) whose callee writes a field of a shared type (appears as function in lockFacts)", "writerCalls", "String × String", X.WriterCalls, -1)
	tuples("every static call (caller, callee) made by a schema-construction function (NewSchema, typeMapReducer, assertObjectImplementsInterface, NewEnum, Schema.PossibleTypes, Schema.buildPossibleTypeMap)", "constructionCalls", "String × String", X.ConstructionCalls, -1)
	tuplesN := func(doc, name, typ string, xs [][]string, nats map[int]bool) {
		fmt.Fprintf(&b, "/-- %s -/\ndef %s : List (%s) := [\n", doc, name, typ)
		for i, x := range xs {
			parts := make([]string, len(x))
			for j, s := range x {
				if nats[j] {
					parts[j] = s
				} else {
					parts[j] = q(s)
				}
			}
			sep := ","
			if i == len(xs)-1 {
				sep = ""
			}
			fmt.Fprintf(&b, "  (%s)%s\n", strings.Join(parts, ", "), sep)
		}
		b.WriteString("]\n\n")
	}
	tuplesN("critical sections per function and mutex expression: (function, mutex, number of Lock() calls, number of Unlock() calls incl. deferred, \"deferred\" if an Unlock is deferred else \"explicit\")",
		"critSections", "String × String × Nat × Nat × String", X.CritSections, map[int]bool{2: true, 3: true})
	tuplesN("for every field of a shared type used while a mutex is held: (type, field, function, number of distinct critical sections of that function in which it is used)",
		"fieldRegions", "String × String × String × Nat", X.FieldRegions, map[int]bool{3: true})
	tuplesN("leading `if` of every function that writes a field of a shared type and starts with one: (function, condition, \"return\" if the branch ends in a return, else \"do\")",
		"lazyGuards", "String × String × String", X.LazyGuards, nil)
	tuplesN("package-level variables of map or slice type in package graphql: (file, name, map|slice) — process-wide mutable state",
		"packageVars", "String × String × String", X.PackageVars, nil)
	return b.String()
}
