// extract regenerates lean/Generated/Tables.lean (and facts.json) from /repo's current sources:
// finite facts that property theorems quantify over. Stdlib only (go/parser, go/types).
package main

import (
	"encoding/json"
	"flag"
	"fmt"
	"go/ast"
	"go/importer"
	"go/parser"
	"go/token"
	"go/types"
	"os"
	"path/filepath"
	"sort"
	"strconv"
	"strings"
)

type facts struct {
	QueryDocumentKeys [][2]interface{}   `json:"queryDocumentKeys"` // (kind, [keys])
	AstStructFields   map[string][][2]string `json:"astStructFields"` // struct -> [(field, shape)]
	Kinds             []string           `json:"kinds"`
	SpecifiedRules    []string           `json:"specifiedRules"`
	MapRangeSites     [][3]string        `json:"mapRangeSites"` // file, func, expr
	LockFacts         [][]string         `json:"lockFacts"`
	ChanMakes         [][3]string        `json:"chanMakes"` // file, func, capacity expr ("" = unbuffered)
	RecoverAsserts    [][2]string        `json:"recoverAsserts"`
	TokenKinds        []string           `json:"tokenKinds"`
	Extra             *extraFacts        `json:"extra,omitempty"` // detfacts.go (C12 / C07), additive
	Graph             *graphFacts            `json:"graph,omitempty"` // lockgraph.go (C07), additive
	DefaultResolve    [][2]string            `json:"defaultResolve"` // defresolve.go (C01 / C20), additive
}

func must(err error) {
	if err != nil {
		fmt.Fprintln(os.Stderr, "extract:", err)
		os.Exit(1)
	}
}

func parseDir(fset *token.FileSet, dir string) []*ast.File {
	ents, err := os.ReadDir(dir)
	must(err)
	var files []*ast.File
	for _, e := range ents {
		n := e.Name()
		if e.IsDir() || !strings.HasSuffix(n, ".go") || strings.HasSuffix(n, "_test.go") {
			continue
		}
		src, err := os.ReadFile(filepath.Join(dir, n))
		must(err)
		// honour the verif build tag the way the harness builds: verif on, !verif off
		head := string(src)
		if i := strings.Index(head, "package "); i > 0 {
			head = head[:i]
		}
		if strings.Contains(head, "//go:build !verif") {
			continue
		}
		f, err := parser.ParseFile(fset, filepath.Join(dir, n), src, parser.ParseComments)
		must(err)
		files = append(files, f)
	}
	return files
}

func exprString(fset *token.FileSet, e ast.Expr) string {
	return types.ExprString(e)
}

func main() {
	repo := flag.String("repo", "/repo", "")
	out := flag.String("out", "", "Tables.lean path")
	factsOut := flag.String("facts", "", "facts.json path")
	flag.Parse()
	fset := token.NewFileSet()
	var F facts
	F.AstStructFields = map[string][][2]string{}

	// ---- language/ast: struct fields with shapes
	astFiles := parseDir(fset, filepath.Join(*repo, "language/ast"))
	structs := map[string]*ast.StructType{}
	ifaces := map[string]bool{}
	for _, f := range astFiles {
		for _, d := range f.Decls {
			gd, ok := d.(*ast.GenDecl)
			if !ok {
				continue
			}
			for _, s := range gd.Specs {
				ts, ok := s.(*ast.TypeSpec)
				if !ok {
					continue
				}
				switch t := ts.Type.(type) {
				case *ast.StructType:
					structs[ts.Name.Name] = t
				case *ast.InterfaceType:
					ifaces[ts.Name.Name] = true
				}
			}
		}
	}
	isNodeType := func(e ast.Expr) bool {
		switch t := e.(type) {
		case *ast.StarExpr:
			if id, ok := t.X.(*ast.Ident); ok {
				_, isStruct := structs[id.Name]
				return isStruct && id.Name != "Location"
			}
		case *ast.Ident:
			return ifaces[t.Name]
		}
		return false
	}
	for name, st := range structs {
		var fs [][2]string
		for _, fld := range st.Fields.List {
			shape := "scalar"
			if isNodeType(fld.Type) {
				shape = "node"
			} else if at, ok := fld.Type.(*ast.ArrayType); ok && at.Len == nil && isNodeType(at.Elt) {
				shape = "nodeList"
			}
			for _, n := range fld.Names {
				fs = append(fs, [2]string{n.Name, shape})
			}
		}
		F.AstStructFields[name] = fs
	}

	// ---- kinds
	for _, f := range parseDir(fset, filepath.Join(*repo, "language/kinds")) {
		ast.Inspect(f, func(n ast.Node) bool {
			if vs, ok := n.(*ast.ValueSpec); ok {
				for _, v := range vs.Values {
					if bl, ok := v.(*ast.BasicLit); ok && bl.Kind == token.STRING {
						s, _ := strconv.Unquote(bl.Value)
						F.Kinds = append(F.Kinds, s)
					}
				}
			}
			return true
		})
	}
	sort.Strings(F.Kinds)

	// ---- visitor.QueryDocumentKeys
	for _, f := range parseDir(fset, filepath.Join(*repo, "language/visitor")) {
		ast.Inspect(f, func(n ast.Node) bool {
			vs, ok := n.(*ast.ValueSpec)
			if !ok || len(vs.Names) != 1 || vs.Names[0].Name != "QueryDocumentKeys" || len(vs.Values) != 1 {
				return true
			}
			cl, ok := vs.Values[0].(*ast.CompositeLit)
			if !ok {
				return true
			}
			for _, el := range cl.Elts {
				kv := el.(*ast.KeyValueExpr)
				k, _ := strconv.Unquote(kv.Key.(*ast.BasicLit).Value)
				var keys []string
				for _, e := range kv.Value.(*ast.CompositeLit).Elts {
					s, _ := strconv.Unquote(e.(*ast.BasicLit).Value)
					keys = append(keys, s)
				}
				F.QueryDocumentKeys = append(F.QueryDocumentKeys, [2]interface{}{k, keys})
			}
			return false
		})
	}
	sort.Slice(F.QueryDocumentKeys, func(i, j int) bool {
		return F.QueryDocumentKeys[i][0].(string) < F.QueryDocumentKeys[j][0].(string)
	})

	// ---- lexer token kinds (names of the TokenKind constants, in declaration order)
	for _, f := range parseDir(fset, filepath.Join(*repo, "language/lexer")) {
		for _, d := range f.Decls {
			gd, ok := d.(*ast.GenDecl)
			if !ok || gd.Tok != token.CONST {
				continue
			}
			isTok := false
			for _, s := range gd.Specs {
				vs := s.(*ast.ValueSpec)
				if id, ok := vs.Type.(*ast.Ident); ok && id.Name == "TokenKind" {
					isTok = true
				}
				if isTok {
					for _, n := range vs.Names {
						F.TokenKinds = append(F.TokenKinds, n.Name)
					}
				}
			}
		}
	}

	// ---- package graphql: typed facts
	rootFiles := parseDir(fset, *repo)
	conf := types.Config{Importer: importer.ForCompiler(fset, "source", nil), Error: func(error) {}}
	info := &types.Info{Types: map[ast.Expr]types.TypeAndValue{}}
	wd, _ := os.Getwd()
	os.Chdir(*repo) // the source importer resolves module-local imports relative to the module root
	_, _ = conf.Check("github.com/graphql-go/graphql", fset, rootFiles, info)
	os.Chdir(wd)
	for _, f := range rootFiles {
		fname := filepath.Base(fset.Position(f.Pos()).Filename)
		for _, d := range f.Decls {
			fd, ok := d.(*ast.FuncDecl)
			if !ok || fd.Body == nil {
				// SpecifiedRules lives in a var decl
				if gd, ok := d.(*ast.GenDecl); ok {
					for _, s := range gd.Specs {
						if vs, ok := s.(*ast.ValueSpec); ok && len(vs.Names) == 1 && vs.Names[0].Name == "SpecifiedRules" && len(vs.Values) == 1 {
							if cl, ok := vs.Values[0].(*ast.CompositeLit); ok {
								for _, e := range cl.Elts {
									F.SpecifiedRules = append(F.SpecifiedRules, exprString(fset, e))
								}
							}
						}
					}
				}
				continue
			}
			fn := fd.Name.Name
			if fd.Recv != nil && len(fd.Recv.List) == 1 {
				fn = strings.TrimPrefix(exprString(fset, fd.Recv.List[0].Type), "*") + "." + fn
			}
			ast.Inspect(fd.Body, func(n ast.Node) bool {
				switch x := n.(type) {
				case *ast.RangeStmt:
					if tv, ok := info.Types[x.X]; ok && tv.Type != nil {
						if _, isMap := tv.Type.Underlying().(*types.Map); isMap {
							F.MapRangeSites = append(F.MapRangeSites, [3]string{fname, fn, exprString(fset, x.X)})
						}
					}
				case *ast.CallExpr:
					if id, ok := x.Fun.(*ast.Ident); ok && id.Name == "make" && len(x.Args) >= 1 {
						if _, isChan := x.Args[0].(*ast.ChanType); isChan {
							c := ""
							if len(x.Args) > 1 {
								c = exprString(fset, x.Args[1])
							}
							F.ChanMakes = append(F.ChanMakes, [3]string{fname, fn, c})
						}
					}
				case *ast.TypeAssertExpr:
					if id, ok := x.X.(*ast.Ident); ok && id.Name == "r" {
						if t, ok := x.Type.(*ast.Ident); ok && t.Name == "error" {
							F.RecoverAsserts = append(F.RecoverAsserts, [2]string{fname, fn})
						}
					}
				}
				return true
			})
		}
	}
	sort.Slice(F.MapRangeSites, func(i, j int) bool { return fmt.Sprint(F.MapRangeSites[i]) < fmt.Sprint(F.MapRangeSites[j]) })
	sort.Slice(F.ChanMakes, func(i, j int) bool { return fmt.Sprint(F.ChanMakes[i]) < fmt.Sprint(F.ChanMakes[j]) })
	sort.Slice(F.RecoverAsserts, func(i, j int) bool { return fmt.Sprint(F.RecoverAsserts[i]) < fmt.Sprint(F.RecoverAsserts[j]) })

	F.DefaultResolve = defaultResolveFacts(fset, rootFiles)
	F.LockFacts = lockFacts(fset, rootFiles, info)
	F.Extra = collectExtra(fset, rootFiles, info, F.LockFacts)
	F.Graph = collectGraph(fset, rootFiles, info)

	if *factsOut != "" {
		b, _ := json.MarshalIndent(F, "", " ")
		must(os.WriteFile(*factsOut, b, 0o644))
	}
	if *out != "" {
		must(os.WriteFile(*out, []byte(renderLean(&F)), 0o644))
	}
}

func q(s string) string { return strconv.Quote(s) }

func leanList(items []string) string { return "[" + strings.Join(items, ", ") + "]" }

func renderLean(F *facts) string {
	var b strings.Builder
	b.WriteString("/-! GENERATED by harness/cmd/extract from /repo's working tree on every check run. Do not edit. -/\n")
	b.WriteString("namespace Generated\n\n")
	// queryDocumentKeys
	b.WriteString("def queryDocumentKeys : List (String × List String) := [\n")
	for i, kv := range F.QueryDocumentKeys {
		keys := []string{}
		for _, k := range kv[1].([]string) {
			keys = append(keys, q(k))
		}
		sep := ","
		if i == len(F.QueryDocumentKeys)-1 {
			sep = ""
		}
		fmt.Fprintf(&b, "  (%s, %s)%s\n", q(kv[0].(string)), leanList(keys), sep)
	}
	b.WriteString("]\n\n")
	// struct fields
	names := []string{}
	for n := range F.AstStructFields {
		names = append(names, n)
	}
	sort.Strings(names)
	b.WriteString("/-- ast struct ↦ fields in declaration order with shape `node | nodeList | scalar` -/\n")
	b.WriteString("def astStructFields : List (String × List (String × String)) := [\n")
	for i, n := range names {
		fs := []string{}
		for _, f := range F.AstStructFields[n] {
			fs = append(fs, "("+q(f[0])+", "+q(f[1])+")")
		}
		sep := ","
		if i == len(names)-1 {
			sep = ""
		}
		fmt.Fprintf(&b, "  (%s, %s)%s\n", q(n), leanList(fs), sep)
	}
	b.WriteString("]\n\n")
	strs := func(name string, xs []string) {
		ys := []string{}
		for _, x := range xs {
			ys = append(ys, q(x))
		}
		fmt.Fprintf(&b, "def %s : List String := %s\n\n", name, leanList(ys))
	}
	strs("kinds", F.Kinds)
	strs("specifiedRules", F.SpecifiedRules)
	strs("tokenKinds", F.TokenKinds)
	fmt.Fprintf(&b, "def defaultResolveConstants : List (String × String) := [\n")
	for i, x := range F.DefaultResolve {
		sep := ","
		if i == len(F.DefaultResolve)-1 {
			sep = ""
		}
		fmt.Fprintf(&b, "  (%s, %s)%s\n", q(x[0]), q(x[1]), sep)
	}
	fmt.Fprintf(&b, "]\n\n")
	triples := func(name string, xs [][3]string) {
		fmt.Fprintf(&b, "def %s : List (String × String × String) := [\n", name)
		for i, x := range xs {
			sep := ","
			if i == len(xs)-1 {
				sep = ""
			}
			fmt.Fprintf(&b, "  (%s, %s, %s)%s\n", q(x[0]), q(x[1]), q(x[2]), sep)
		}
		b.WriteString("]\n\n")
	}
	triples("mapRangeSites", F.MapRangeSites)
	triples("chanMakes", F.ChanMakes)
	fmt.Fprintf(&b, "def recoverAsserts : List (String × String) := [\n")
	for i, x := range F.RecoverAsserts {
		sep := ","
		if i == len(F.RecoverAsserts)-1 {
			sep = ""
		}
		fmt.Fprintf(&b, "  (%s, %s)%s\n", q(x[0]), q(x[1]), sep)
	}
	b.WriteString("]\n\n")
	b.WriteString("/-- writes to fields of shared types: (type, field, function, guard) with guard = name of the mutex held, \"\" if none -/\n")
	fmt.Fprintf(&b, "def lockFacts : List (String × String × String × String) := [\n")
	for i, x := range F.LockFacts {
		sep := ","
		if i == len(F.LockFacts)-1 {
			sep = ""
		}
		fmt.Fprintf(&b, "  (%s, %s, %s, %s)%s\n", q(x[0]), q(x[1]), q(x[2]), q(x[3]), sep)
	}
	b.WriteString("]\n\n")
	if F.Extra != nil {
		b.WriteString(renderExtra(F.Extra))
	}
	if F.Graph != nil {
		b.WriteString(renderGraph(F.Graph))
	}
	b.WriteString("end Generated\n")
	return b.String()
}
