package main

import (
	"go/ast"
	"go/token"
	"go/types"
	"sort"
	"strings"
)

// sharedTypes are the library types one value of which may be used by many goroutines at once.
var sharedTypes = map[string]bool{
	"Schema": true, "Object": true, "Interface": true, "Union": true, "Enum": true, "InputObject": true,
	"Scalar": true, "Plan": true, "fieldPlan": true, "selectionPlan": true, "PlanCache": true,
	"planCacheEntry": true, "planCacheItem": true, "Directive": true, "FieldDefinition": true, "Argument": true,
}

// lockFacts lists every assignment / inc-dec / map store / delete whose target is a field of a shared
// type (possibly through an index expression), with the enclosing function and the mutex held at that
// point: a statement is "held" if it follows `<x>.Lock()` in the same function body with either a
// deferred `<x>.Unlock()` or no intervening `<x>.Unlock()`.
func lockFacts(fset *token.FileSet, files []*ast.File, info *types.Info) [][]string {
	var out [][]string
	named := func(t types.Type) string {
		for {
			if p, ok := t.(*types.Pointer); ok {
				t = p.Elem()
				continue
			}
			break
		}
		if n, ok := t.(*types.Named); ok {
			return n.Obj().Name()
		}
		return ""
	}
	var target func(e ast.Expr) (string, string, bool)
	target = func(e ast.Expr) (string, string, bool) {
		switch x := e.(type) {
		case *ast.SelectorExpr:
			if tv, ok := info.Types[x.X]; ok && tv.Type != nil {
				if n := named(tv.Type); sharedTypes[n] {
					return n, x.Sel.Name, true
				}
			}
			return target(x.X)
		case *ast.IndexExpr:
			return target(x.X)
		case *ast.StarExpr:
			return target(x.X)
		case *ast.ParenExpr:
			return target(x.X)
		}
		return "", "", false
	}
	for _, f := range files {
		for _, d := range f.Decls {
			fd, ok := d.(*ast.FuncDecl)
			if !ok || fd.Body == nil {
				continue
			}
			fn := fd.Name.Name
			if fd.Recv != nil && len(fd.Recv.List) == 1 {
				fn = strings.TrimPrefix(types.ExprString(fd.Recv.List[0].Type), "*") + "." + fn
			}
			// lock regions: positions of Lock()/Unlock() calls per mutex expression
			type span struct {
				from, to token.Pos
				mu       string
			}
			var spans []span
			open := map[string]token.Pos{}
			deferred := map[string]bool{}
			ast.Inspect(fd.Body, func(n ast.Node) bool {
				switch x := n.(type) {
				case *ast.DeferStmt:
					if se, ok := x.Call.Fun.(*ast.SelectorExpr); ok && se.Sel.Name == "Unlock" {
						deferred[types.ExprString(se.X)] = true
					}
					return false
				case *ast.CallExpr:
					if se, ok := x.Fun.(*ast.SelectorExpr); ok {
						mu := types.ExprString(se.X)
						switch se.Sel.Name {
						case "Lock":
							open[mu] = x.End()
						case "Unlock":
							if p, ok := open[mu]; ok {
								spans = append(spans, span{p, x.Pos(), mu})
								delete(open, mu)
							}
						}
					}
				}
				return true
			})
			for mu, p := range open {
				spans = append(spans, span{p, fd.Body.End(), mu})
				_ = deferred
			}
			held := func(p token.Pos) string {
				for _, s := range spans {
					if s.from <= p && p < s.to {
						return s.mu
					}
				}
				return ""
			}
			rec := func(e ast.Expr, p token.Pos) {
				if t, fld, ok := target(e); ok {
					out = append(out, []string{t, fld, fn, held(p)})
				}
			}
			ast.Inspect(fd.Body, func(n ast.Node) bool {
				switch x := n.(type) {
				case *ast.AssignStmt:
					for _, l := range x.Lhs {
						rec(l, x.Pos())
					}
				case *ast.IncDecStmt:
					rec(x.X, x.Pos())
				case *ast.CallExpr:
					if id, ok := x.Fun.(*ast.Ident); ok && id.Name == "delete" && len(x.Args) == 2 {
						rec(x.Args[0], x.Pos())
					}
				}
				return true
			})
		}
	}
	// dedupe and sort
	seen := map[string]bool{}
	var uniq [][]string
	for _, r := range out {
		k := strings.Join(r, "\x00")
		if !seen[k] {
			seen[k] = true
			uniq = append(uniq, r)
		}
	}
	sort.Slice(uniq, func(i, j int) bool { return strings.Join(uniq[i], "\x00") < strings.Join(uniq[j], "\x00") })
	return uniq
}
