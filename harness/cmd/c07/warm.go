package main

// The warm-up premise of the lock discipline, checked on the real objects: the lazily initialised parts of the schema types
// (Object/Interface field maps, Object interfaces, Union members, InputObject field maps, Enum lookup tables) are written
// WITHOUT synchronisation; that is sound only because NewSchema initialises every type that requests can reach before the
// schema value is shared. warmProblems walks everything reachable from the type map and the directives and reports every
// type whose "initialised" flag is still unset (read through reflection; a type whose flag is unset is not descended into,
// so the walk itself never triggers a lazy initialisation), and every reachable named type that is missing from the type map.

import (
	"fmt"
	"reflect"

	"github.com/graphql-go/graphql"
)

func initFlag(v interface{}, field string) (set bool, ok bool) {
	rv := reflect.ValueOf(v)
	if rv.Kind() != reflect.Ptr || rv.IsNil() {
		return false, false
	}
	f := rv.Elem().FieldByName(field)
	if !f.IsValid() {
		return false, false
	}
	switch f.Kind() {
	case reflect.Bool:
		return f.Bool(), true
	case reflect.Map, reflect.Slice:
		return f.Len() > 0, true
	}
	return false, false
}

func warmProblems(s *graphql.Schema) (problems []string, checkErrors []string) {
	seen := map[graphql.Type]bool{}
	need := func(t interface{}, name, field, via string) bool {
		set, ok := initFlag(t, field)
		if !ok {
			checkErrors = append(checkErrors, fmt.Sprintf("type %s has no readable field %q (library layout changed?)", name, field))
			return false
		}
		if !set {
			problems = append(problems, fmt.Sprintf("%s (reached via %s) is not initialised after NewSchema (%s unset)", name, via, field))
		}
		return set
	}
	var visit func(t graphql.Type, via string)
	visitArgs := func(args []*graphql.Argument, via string) {
		for _, a := range args {
			visit(a.Type, via+"("+a.Name()+":)")
		}
	}
	visit = func(t graphql.Type, via string) {
		for {
			switch w := t.(type) {
			case *graphql.List:
				t = w.OfType
				continue
			case *graphql.NonNull:
				t = w.OfType
				continue
			}
			break
		}
		if t == nil || reflect.ValueOf(t).IsNil() || seen[t] {
			return
		}
		seen[t] = true
		if in, ok := s.TypeMap()[t.Name()]; !ok || in != t {
			problems = append(problems, fmt.Sprintf("%s (reached via %s) is not in the type map", t.Name(), via))
		}
		switch x := t.(type) {
		case *graphql.Object:
			if need(x, x.Name(), "initialisedFields", via) {
				for n, f := range x.Fields() {
					visit(f.Type, x.Name()+"."+n)
					visitArgs(f.Args, x.Name()+"."+n)
				}
			}
			if need(x, x.Name(), "initialisedInterfaces", via) {
				for _, i := range x.Interfaces() {
					visit(i, x.Name()+" implements")
				}
			}
		case *graphql.Interface:
			if need(x, x.Name(), "initialisedFields", via) {
				for n, f := range x.Fields() {
					visit(f.Type, x.Name()+"."+n)
					visitArgs(f.Args, x.Name()+"."+n)
				}
			}
			for _, o := range s.PossibleTypes(x) {
				visit(o, "implementation of "+x.Name())
			}
		case *graphql.Union:
			if need(x, x.Name(), "initalizedTypes", via) {
				for _, o := range x.Types() {
					visit(o, "member of "+x.Name())
				}
			}
		case *graphql.InputObject:
			if need(x, x.Name(), "init", via) {
				for n, f := range x.Fields() {
					visit(f.Type, x.Name()+"."+n)
				}
			}
		case *graphql.Enum:
			need(x, x.Name(), "valuesLookup", via)
			need(x, x.Name(), "nameLookup", via)
		}
	}
	for n, t := range s.TypeMap() {
		visit(t, "type map entry "+n)
	}
	for _, d := range s.Directives() {
		visitArgs(d.Args, "@"+d.Name)
	}
	return
}
