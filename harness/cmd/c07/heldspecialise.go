package main

// heldSpecialise — two requests with DIFFERENT values of a directive variable overlap inside the per-request
// specialisation of ONE shared plan, and the plan is used again afterwards.
//
// A plan whose @skip/@include read variables has no selection tree of its own: ExecutePlan collects one per request
// (Plan.specialise) with the request's coerced variable values. Collection coerces the literal arguments of the fields it
// keeps, i.e. it calls the ParseLiteral of custom scalars — for a field under `@include(if: $on)` only when the request
// says $on: true. The round uses that to hold request A inside ITS collection, deterministically:
//
//   - one shared *Plan (from PlanQuery, or the entry of a PlanCache that every request looks up);
//   - goroutine A executes it with the value of $on under which the `Gate` literal is kept; the first Gate.ParseLiteral
//     of the armed phase parks there until the round releases it (bounded: 50 ms, so nothing can hang);
//   - goroutine B waits until A is parked (bounded: 50 ms), executes the same plan with the OTHER value of $on from start
//     to end, and releases A; A finishes;
//   - then, one after the other on the same plan: the request of B, the request of A, the request of B.
//
// EVERY response must equal graphql.Do of the same request on a fresh schema. Anything the plan keeps from one request
// (a collected tree, a key it was collected for) and hands to another one shows up in the sequential tail.

import (
	"context"
	"fmt"
	"runtime"
	"sync/atomic"
	"time"

	"github.com/graphql-go/graphql"
	"github.com/graphql-go/graphql/language/ast"
)

const heldSpecName = "heldSpecialise"

// specGate: nil for the baseline schema (no waiting at all)
type specGate struct {
	armed    atomic.Bool
	parked   chan struct{} // closed when the held request is inside Gate.ParseLiteral
	release  chan struct{} // closed by B when it has finished (or given up)
	released atomic.Bool   // the park ended because B had finished
	timedOut atomic.Bool
}

func (g *specGate) hook() {
	if g == nil || !g.armed.CompareAndSwap(true, false) {
		return
	}
	close(g.parked)
	select {
	case <-g.release:
		g.released.Store(true)
	case <-time.After(50 * time.Millisecond):
		g.timedOut.Store(true)
	}
}

func buildHeldSpec(gate *specGate) (*graphql.Schema, error) {
	gateScalar := graphql.NewScalar(graphql.ScalarConfig{Name: "Gate",
		Serialize:  func(v interface{}) interface{} { return v },
		ParseValue: func(v interface{}) interface{} { return v },
		ParseLiteral: func(v ast.Value) interface{} {
			gate.hook()
			if s, ok := v.(*ast.StringValue); ok {
				return s.Value
			}
			return nil
		}})
	str := func(s string) graphql.FieldResolveFn {
		return func(p graphql.ResolveParams) (interface{}, error) { return s, nil }
	}
	gateField := func() *graphql.Field {
		return &graphql.Field{Type: graphql.String, Args: graphql.FieldConfigArgument{"g": &graphql.ArgumentConfig{Type: gateScalar}},
			Resolve: func(p graphql.ResolveParams) (interface{}, error) { return fmt.Sprintf("gate:%v", p.Args["g"]), nil }}
	}
	nest := graphql.NewObject(graphql.ObjectConfig{Name: "Nest", Fields: graphql.Fields{
		"whenOn": &graphql.Field{Type: graphql.String, Resolve: str("nested on")}, "whenOff": &graphql.Field{Type: graphql.String, Resolve: str("nested off")},
		"gate": gateField()}})
	q := graphql.NewObject(graphql.ObjectConfig{Name: "Q", Fields: graphql.Fields{
		"whenOn": &graphql.Field{Type: graphql.String, Resolve: str("on")}, "whenOff": &graphql.Field{Type: graphql.String, Resolve: str("off")},
		"gate": gateField(),
		"nest": &graphql.Field{Type: nest, Resolve: func(p graphql.ResolveParams) (interface{}, error) { return 1, nil }},
	}})
	s, err := graphql.NewSchema(graphql.SchemaConfig{Query: q})
	return &s, err
}

// heldSpecDocs: aOn is the value of $on under which collection keeps the field with the Gate literal (request A).
var heldSpecDocs = []struct {
	name string
	aOn  bool
	text string
}{
	{"gateUnderInclude", true, `query Q($on: Boolean!) { a: whenOff b: whenOn @include(if: $on) g: gate(g: "open") @include(if: $on) c: whenOff @skip(if: $on) }`},
	{"gateUnconditional", true, `query Q($on: Boolean!) { gate(g: "x") whenOn @include(if: $on) whenOff @skip(if: $on) }`},
	{"gateInFragmentUnderInclude", true, `query Q($on: Boolean!) { a: whenOff ...F @include(if: $on) ... @skip(if: $on) { whenOff } } fragment F on Q { whenOn gate(g: "frag") }`},
	{"gateUnderSkip", false, `query Q($on: Boolean!) { whenOn @include(if: $on) g: gate(g: "open") @skip(if: $on) whenOff @skip(if: $on) }`},
	{"gateNestedUnderInclude", true, `query Q($on: Boolean!) { a: whenOff nest @include(if: $on) { whenOn gate(g: "deep") } n2: nest { whenOff @skip(if: $on) whenOn @include(if: $on) } }`},
}

func heldSpecScenario() scenario {
	sc := scenario{Name: heldSpecName, heldSpec: true, Ops: []string{"execPlan"}}
	for _, d := range heldSpecDocs {
		sc.Queries = append(sc.Queries, query{Q: d.text, Op: "Q", Vars: map[string]interface{}{"on": d.aOn}})
	}
	return sc
}

func runHeldSpecRound(rs roundSpec, sc scenario) roundResult {
	res := roundResult{Round: rs.Round, Scenario: sc.Name, N: 2}
	d := heldSpecDocs[rs.Hot%len(heldSpecDocs)]
	viaCache := rs.Round%2 == 1
	req := func(on bool) query {
		return query{Q: d.text, Op: "Q", Vars: map[string]interface{}{"on": on}}
	}
	// ---- baseline: graphql.Do of each request from scratch (fresh schema, no gate)
	alone, err := buildHeldSpec(nil)
	if err != nil {
		res.Fault = "schema does not build: " + err.Error()
		return res
	}
	want := map[bool]string{true: doOne(alone, req(true)), false: doOne(alone, req(false))}
	for _, on := range []bool{true, false} {
		if len(want[on]) < 8 || want[on][:8] != `{"data":` {
			res.Weak = "request is not served without errors alone: " + want[on]
		}
	}
	if want[true] == want[false] {
		res.Weak = "both values of $on give the same response"
	}
	// ---- the shared plan
	gate := &specGate{parked: make(chan struct{}), release: make(chan struct{})}
	shared, err := buildHeldSpec(gate)
	if err != nil {
		res.Fault = "schema does not build: " + err.Error()
		return res
	}
	var plan *graphql.Plan
	var cache *graphql.PlanCache
	if viaCache {
		cache = graphql.NewPlanCache(graphql.PlanCacheOptions{})
		if pr := cache.Get(shared, d.text, "Q"); len(pr.Errors) > 0 || pr.Plan == nil {
			res.Fault = "PlanCache.Get does not produce a plan: " + marshal(&graphql.Result{Errors: pr.Errors})
			return res
		}
	} else {
		p := prepare(shared, req(d.aOn))
		if p.plan == nil {
			res.Fault = "request does not get as far as a plan: " + p.errs
			return res
		}
		plan = p.plan
	}
	serve := func(on bool) (got string) {
		defer func() {
			if p := recover(); p != nil {
				got = fmt.Sprintf("PANIC: %v", p)
			}
		}()
		if viaCache {
			return cacheOne(cache, shared, req(on))
		}
		return marshal(graphql.ExecutePlan(plan, graphql.ExecuteParams{Schema: *shared, Args: map[string]interface{}{"on": on}, Context: context.Background()}))
	}
	how := "ExecutePlan on the shared prepared plan"
	if viaCache {
		how = "PlanCache.Get (hit) + ExecutePlan"
	}
	record := func(g int, what string, on bool, got string) {
		res.Steps++
		if got != want[on] {
			q := req(on)
			res.Mismatches = append(res.Mismatches, mismatch{Goroutine: g, Step: step{Op: how + ", " + what, Q: rs.Hot % len(heldSpecDocs)}, Request: &q, Got: got, Want: want[on]})
		}
	}
	// ---- A parks inside its collection, B runs from start to end meanwhile, A finishes
	gate.armed.Store(true)
	gotA, gotB := make(chan string, 1), make(chan string, 1)
	aParked := false
	go func() { gotA <- serve(d.aOn) }()
	go func() {
		select {
		case <-gate.parked:
			aParked = true
		case <-time.After(50 * time.Millisecond):
		}
		r := serve(!d.aOn)
		close(gate.release)
		gotB <- r
	}()
	var a, b string
	for k := 0; k < 2; k++ {
		select {
		case a = <-gotA:
		case b = <-gotB:
		case <-time.After(15 * time.Second):
			buf := make([]byte, 1<<16)
			n := runtime.Stack(buf, true)
			res.Fault = "DEADLOCK? round did not finish within 15s\n" + lockFrames(string(buf[:n]))
			return res
		}
	}
	gate.armed.Store(false)
	record(0, "request A (held inside its specialisation while B ran)", d.aOn, a)
	record(1, "request B (the other value of $on, from start to end while A was held)", !d.aOn, b)
	// ---- afterwards, one after the other on the same plan
	for i, on := range []bool{!d.aOn, d.aOn, !d.aOn} {
		record(-1, fmt.Sprintf("sequential request %d after A and B had finished", i+1), on, serve(on))
	}
	// ---- what the round actually exercised
	switch {
	case aParked && gate.released.Load():
		res.Tags = append(res.Tags, "heldSpecialise:park=overlapped(B-ran-to-completion-while-A-was-held)")
	case gate.timedOut.Load():
		res.Tags = append(res.Tags, "heldSpecialise:park=timed-out")
		res.Weak = "B did not finish while A was held"
	default:
		res.Tags = append(res.Tags, "heldSpecialise:park=none")
		res.Weak = "request A was never held (no Gate.ParseLiteral during its execution)"
	}
	if viaCache {
		res.Tags = append(res.Tags, "heldSpecialise:via=PlanCache-entry")
	} else {
		res.Tags = append(res.Tags, "heldSpecialise:via=PlanQuery-plan")
	}
	res.Tags = append(res.Tags, "heldSpecialise:doc="+d.name)
	if res.Weak != "" {
		res.Tags = append(res.Tags, "heldSpecialise:premise-not-met")
	}
	if len(res.Mismatches) > 0 {
		res.Requests = [][]query{{req(d.aOn)}, {req(!d.aOn)}, {req(!d.aOn), req(d.aOn), req(!d.aOn)}}
	}
	return res
}
