package main

// coldMissNearLiterals — overlapping cache MISSES of requests that share one entry of a normalising plan cache.
//
// A `PlanCache{Normalize: true}` keys its entries on the document with the literal field arguments replaced by synthetic
// variables; the literals travel separately (PlanResult.SynthArgs) and belong to the CALL, not to the entry. Requests
// that differ only in such literals therefore meet in one entry, and on a cold cache they meet in one MISS window: the
// time between the lookup that misses and the store that follows validation + planning. The round below makes that
// window coincide for N goroutines without relying on luck:
//
//   - every request of a round's "hot" family is the same text up to the extracted literals (ints, strings, lists,
//     input objects, enums, booleans, floats, IDs; next to user variables, under nested objects, next to a fragment);
//     every goroutine sends its own variant, and the resolvers echo the argument values they were called with, so the
//     response says which literals a request was executed with;
//   - every family keeps one literal of the custom scalar `Gate` where normalisation leaves it (the default value of a
//     variable, an argument inside a fragment definition): validation (and planning) call Gate.ParseLiteral for it, i.e.
//     AFTER the lookup has missed and BEFORE the entry is stored. The first such call of the concurrent phase holds its
//     request there until all N goroutines have called Get (bounded: 50 ms) plus a few milliseconds in which they parse,
//     normalise and look up (miss); every other call just takes ~100 µs. Two ways of starting: all goroutines behind one
//     barrier, or goroutine 0 first and the others when it has reached that ParseLiteral (bounded: 20 ms).
//
// Each goroutine does the documented hot loop (Get, merge SynthArgs into the request's variables, ExecutePlan); its JSON
// must equal the response of the very same request alone (fresh schema, fresh cold cache with the same options), which in
// turn is compared with graphql.Do of the same request. Afterwards the requests of the first wave are asked again, one
// after the other, through the now warm cache.

import (
	"context"
	"encoding/json"
	"fmt"
	"runtime"
	"sort"
	"strings"
	"sync"
	"sync/atomic"
	"time"

	"github.com/graphql-go/graphql"
	"github.com/graphql-go/graphql/language/ast"
	"github.com/graphql-go/graphql/language/parser"
	"github.com/graphql-go/graphql/language/source"
)

const coldMissName = "coldMissNearLiterals"

// missGate is the round's view into the miss window (nil for the sequential baseline: no waiting at all).
type missGate struct {
	armed    atomic.Bool
	need     int32         // goroutines that must have called Get before the held request goes on
	entered  atomic.Int32  // goroutines that have called Get (counted once, right before their first Get)
	held     chan struct{} // closed when the held request is inside validation / planning
	met      atomic.Bool   // the held request saw all `need` goroutines inside Get
	timedOut atomic.Bool
	inGet    atomic.Int32 // goroutines currently inside Get
	maxInGet atomic.Int32
}

func (g *missGate) hook() {
	if g == nil {
		return
	}
	if !g.armed.CompareAndSwap(true, false) {
		time.Sleep(100 * time.Microsecond)
		return
	}
	close(g.held)
	deadline := time.Now().Add(50 * time.Millisecond)
	for g.entered.Load() < g.need {
		if time.Now().After(deadline) {
			g.timedOut.Store(true)
			return
		}
		time.Sleep(50 * time.Microsecond)
	}
	g.met.Store(true)
	// the others are inside Get now; let them parse, normalise and look up (miss) while this build is still going on
	time.Sleep(4 * time.Millisecond)
}

func (g *missGate) enterGet() {
	n := g.inGet.Add(1)
	for {
		m := g.maxInGet.Load()
		if n <= m || g.maxInGet.CompareAndSwap(m, n) {
			return
		}
	}
}

func (g *missGate) leaveGet() { g.inGet.Add(-1) }

// jsonOf renders an argument value / argument map with sorted keys.
func jsonOf(v interface{}) string {
	b, err := json.Marshal(v)
	if err != nil {
		return "MARSHAL-ERROR: " + err.Error()
	}
	return string(b)
}

func buildColdMiss(gate *missGate) (*graphql.Schema, error) {
	gateScalar := graphql.NewScalar(graphql.ScalarConfig{Name: "Gate",
		Serialize:  func(v interface{}) interface{} { return v },
		ParseValue: func(v interface{}) interface{} { return v },
		ParseLiteral: func(v ast.Value) interface{} {
			gate.hook()
			if s, ok := v.(*ast.StringValue); ok {
				return s.Value
			}
			return nil
		}})
	color := graphql.NewEnum(graphql.EnumConfig{Name: "Color", Values: graphql.EnumValueConfigMap{
		"RED": &graphql.EnumValueConfig{Value: "r"}, "GREEN": &graphql.EnumValueConfig{Value: "g"}, "BLUE": &graphql.EnumValueConfig{Value: "b"}}})
	pt2 := graphql.NewInputObject(graphql.InputObjectConfig{Name: "Pt2", Fields: graphql.InputObjectConfigFieldMap{
		"k": &graphql.InputObjectFieldConfig{Type: graphql.NewList(graphql.Int)},
		"s": &graphql.InputObjectFieldConfig{Type: graphql.String}}})
	pt := graphql.NewInputObject(graphql.InputObjectConfig{Name: "Pt", Fields: graphql.InputObjectConfigFieldMap{
		"x":     &graphql.InputObjectFieldConfig{Type: graphql.Int},
		"y":     &graphql.InputObjectFieldConfig{Type: graphql.Int, DefaultValue: 7},
		"tag":   &graphql.InputObjectFieldConfig{Type: graphql.String},
		"inner": &graphql.InputObjectFieldConfig{Type: pt2},
		"c":     &graphql.InputObjectFieldConfig{Type: color}}})
	echoArg := func(name string) graphql.FieldResolveFn {
		return func(p graphql.ResolveParams) (interface{}, error) { return p.Args[name], nil }
	}
	echoJSON := func(p graphql.ResolveParams) (interface{}, error) {
		if p.Source != nil {
			return fmt.Sprintf("%v:%s", p.Source, jsonOf(p.Args)), nil
		}
		return jsonOf(p.Args), nil
	}
	var box *graphql.Object
	box = graphql.NewObject(graphql.ObjectConfig{Name: "Box", Fields: graphql.FieldsThunk(func() graphql.Fields {
		return graphql.Fields{
			"echo": &graphql.Field{Type: graphql.String, Args: graphql.FieldConfigArgument{
				"v": &graphql.ArgumentConfig{Type: graphql.Int}, "s": &graphql.ArgumentConfig{Type: graphql.String}}, Resolve: echoJSON},
			"inner": &graphql.Field{Type: box, Resolve: func(p graphql.ResolveParams) (interface{}, error) {
				return fmt.Sprintf("%v.in", p.Source), nil
			}},
		}
	})})
	q := graphql.NewObject(graphql.ObjectConfig{Name: "Q", Fields: graphql.Fields{
		"echoInt": &graphql.Field{Type: graphql.Int, Args: graphql.FieldConfigArgument{"v": &graphql.ArgumentConfig{Type: graphql.Int}}, Resolve: echoArg("v")},
		"echoStr": &graphql.Field{Type: graphql.String, Args: graphql.FieldConfigArgument{"s": &graphql.ArgumentConfig{Type: graphql.String}}, Resolve: echoArg("s")},
		"echoList": &graphql.Field{Type: graphql.String, Args: graphql.FieldConfigArgument{"l": &graphql.ArgumentConfig{Type: graphql.NewList(graphql.Int)}},
			Resolve: func(p graphql.ResolveParams) (interface{}, error) { return jsonOf(p.Args["l"]), nil }},
		"echoObj": &graphql.Field{Type: graphql.String, Args: graphql.FieldConfigArgument{"o": &graphql.ArgumentConfig{Type: pt}},
			Resolve: func(p graphql.ResolveParams) (interface{}, error) { return jsonOf(p.Args["o"]), nil }},
		"echoEnum": &graphql.Field{Type: graphql.String, Args: graphql.FieldConfigArgument{"c": &graphql.ArgumentConfig{Type: color}},
			Resolve: func(p graphql.ResolveParams) (interface{}, error) {
				return fmt.Sprintf("internal %v", p.Args["c"]), nil
			}},
		"echoMany": &graphql.Field{Type: graphql.String, Args: graphql.FieldConfigArgument{
			"a": &graphql.ArgumentConfig{Type: graphql.Int}, "b": &graphql.ArgumentConfig{Type: graphql.String},
			"l": &graphql.ArgumentConfig{Type: graphql.NewList(graphql.NewNonNull(graphql.String))}, "o": &graphql.ArgumentConfig{Type: pt},
			"n": &graphql.ArgumentConfig{Type: graphql.Int}, "f": &graphql.ArgumentConfig{Type: graphql.Float},
			"t": &graphql.ArgumentConfig{Type: graphql.Boolean}, "id": &graphql.ArgumentConfig{Type: graphql.ID}}, Resolve: echoJSON},
		"gate": &graphql.Field{Type: graphql.String, Args: graphql.FieldConfigArgument{"g": &graphql.ArgumentConfig{Type: gateScalar}}, Resolve: echoArg("g")},
		"box":  &graphql.Field{Type: box, Resolve: func(p graphql.ResolveParams) (interface{}, error) { return "box", nil }},
		"boxes": &graphql.Field{Type: graphql.NewList(box), Resolve: func(p graphql.ResolveParams) (interface{}, error) {
			return []interface{}{"b0", "b1", "b2"}, nil
		}},
	}})
	s, err := graphql.NewSchema(graphql.SchemaConfig{Query: q})
	return &s, err
}

// coldMissFamilies: variant k of a family differs from variant k' only in literals that normalisation extracts. Literals
// of one type are pairwise different WITHIN a request (equal literals of one type share a synthetic variable, which
// would change the normalised text).
var coldMissFamilies = []struct {
	name   string
	render func(k int) query
}{
	{"ints", func(k int) query {
		return query{Q: fmt.Sprintf(`query ($g: Gate = "open") { echoInt(v: %d) gate(g: $g) }`, k*3-20)}
	}},
	{"strings", func(k int) query {
		return query{Q: fmt.Sprintf(`query ($g: Gate = "open") { echoStr(s: "request %d, with \"quotes\"") gate(g: $g) }`, k)}
	}},
	{"lists", func(k int) query {
		items := []string{}
		for i := 0; i < 1+k%4; i++ { // lists of different lengths are one synthetic variable all the same
			items = append(items, fmt.Sprint(k*10+i))
		}
		return query{Q: fmt.Sprintf(`query ($g: Gate = "open") { echoList(l: [%s]) gate(g: $g) }`, strings.Join(items, ", "))}
	}},
	{"inputObjects", func(k int) query {
		o := fmt.Sprintf(`{x: %d, tag: "t%d", inner: {k: [%d, %d], s: "in%d"}, c: %s}`, k, k, k, 2*k+1, k, []string{"RED", "GREEN", "BLUE"}[k%3])
		switch k % 4 {
		case 1:
			o = fmt.Sprintf(`{tag: "only tag %d"}`, k)
		case 2:
			o = fmt.Sprintf(`{x: %d, y: %d, inner: {k: []}}`, k, k+1)
		}
		return query{Q: fmt.Sprintf(`query ($g: Gate = "open") { echoObj(o: %s) gate(g: $g) }`, o)}
	}},
	{"literalsNextToVariables", func(k int) query {
		vars := map[string]interface{}{"n": 1000 + k}
		if k%2 == 1 {
			vars["who"] = fmt.Sprintf("caller %d", k)
		}
		return query{Op: "Q", Vars: vars, Q: fmt.Sprintf(`query Q($g: Gate = "open", $n: Int, $who: String = "nobody") { echoMany(a: %d, b: "b%d", l: ["x%d", "y"], n: $n, t: %v, id: "id-%d", o: {x: %d}) echoStr(s: $who) gate(g: $g) }`,
			k, k, k, k%2 == 0, k, k+500)}
	}},
	{"nestedAndEnums", func(k int) query {
		return query{Q: fmt.Sprintf(`query ($g: Gate = "open") { box { echo(v: %d, s: "s%d") inner { e2: echo(v: %d) } } boxes { echo(v: %d) } echoEnum(c: %s) gate(g: $g) }`,
			k, k, k+100, k+200, []string{"RED", "GREEN", "BLUE"}[k%3])}
	}},
	{"literalInFragment", func(k int) query {
		return query{Q: fmt.Sprintf(`query { echoInt(v: %d) a2: echoStr(s: "frag %d") ...F } fragment F on Q { gate(g: "open") }`, k+7, k)}
	}},
	{"floatsBoolsIds", func(k int) query {
		return query{Q: fmt.Sprintf(`query ($g: Gate = "open") { echoMany(f: %d.5, t: %v, id: %d) m2: echoMany(f: %d.25, id: "s%d") gate(g: $g) }`, k, k%3 == 0, k, k, k)}
	}},
}

func coldMissScenario() scenario {
	sc := scenario{Name: coldMissName, coldMiss: true, Ops: []string{"cacheGet"}}
	for _, f := range coldMissFamilies {
		sc.Queries = append(sc.Queries, f.render(1)) // one representative per family (the replay shows the actual requests)
	}
	return sc
}

// normKeyOf: the cache key material and the extracted literals of a request (through the verif export of the normaliser)
func normKeyOf(s *graphql.Schema, q query) (key string, synth string, err error) {
	doc, perr := parser.Parse(parser.ParseParams{Source: source.NewSource(&source.Source{Body: []byte(q.Q), Name: "GraphQL request"})})
	if perr != nil {
		return "", "", perr
	}
	_, args, key, nerr := graphql.VerifNormalizeDocument(s, doc, q.Op)
	return key, jsonOf(args), nerr
}

type coldReq struct {
	fam, variant int
	q            query
}

func runColdMissRound(rs roundSpec, sc scenario) roundResult {
	res := roundResult{Round: rs.Round, Scenario: sc.Name, N: rs.N}
	stagger := rs.Round%2 == 1
	opts := graphql.PlanCacheOptions{Normalize: true}
	// ---- the requests: first step of every goroutine = the hot family, later steps as scripted; one variant per (g, step)
	reqs := make([][]coldReq, rs.N)
	for g := 0; g < rs.N; g++ {
		for k, st := range rs.Scripts[g] {
			fam := st.Q
			if k == 0 {
				fam = rs.Hot
			}
			v := 1 + g + 16*k + rs.Round%5
			reqs[g] = append(reqs[g], coldReq{fam, v, coldMissFamilies[fam].render(v)})
		}
	}
	// ---- sequential baseline: each request alone (fresh cold cache, no gate), and graphql.Do of the same request
	alone, err := buildColdMiss(nil)
	if err != nil {
		res.Fault = "schema does not build: " + err.Error()
		return res
	}
	want := map[string]string{}
	famKey := map[int]string{}
	famSynth := map[int]map[string]int{}
	premise := ""
	doDiffers := false
	for g := range reqs {
		for _, r := range reqs[g] {
			id := fmt.Sprintf("%d/%d", r.fam, r.variant)
			if _, ok := want[id]; ok {
				continue
			}
			want[id] = cacheOne(graphql.NewPlanCache(opts), alone, r.q)
			if d := doOne(alone, r.q); d != want[id] {
				doDiffers = true
			}
			if !strings.HasPrefix(want[id], `{"data":`) || strings.Contains(want[id], `"errors"`) {
				premise = "request is not served without errors alone: " + r.q.Q + " -> " + want[id]
			}
			// premise of the scenario: one family = one cache key, different variants = different extracted literals
			key, synth, nerr := normKeyOf(alone, r.q)
			if nerr != nil || key == "" {
				premise = "request does not normalise: " + r.q.Q
				continue
			}
			if k0, ok := famKey[r.fam]; ok && k0 != key {
				premise = "two requests of family " + coldMissFamilies[r.fam].name + " do not normalise to the same text"
			}
			famKey[r.fam] = key
			if famSynth[r.fam] == nil {
				famSynth[r.fam] = map[string]int{}
			}
			if v0, ok := famSynth[r.fam][synth]; ok && v0 != r.variant {
				premise = "two variants of family " + coldMissFamilies[r.fam].name + " carry the same extracted literals"
			}
			famSynth[r.fam][synth] = r.variant
		}
	}
	if premise != "" {
		res.Weak = premise
	}
	// ---- concurrent phase: cold shared schema + cache
	gate := &missGate{need: int32(rs.N), held: make(chan struct{})}
	shared, err := buildColdMiss(gate)
	if err != nil {
		res.Fault = "schema does not build: " + err.Error()
		return res
	}
	cache := graphql.NewPlanCache(opts)
	serve := func(g int, r coldReq, first bool) (got string) {
		defer func() {
			if p := recover(); p != nil {
				got = fmt.Sprintf("PANIC: %v", p)
			}
		}()
		if first {
			gate.entered.Add(1)
		}
		gate.enterGet()
		pr := cache.Get(shared, r.q.Q, r.q.Op)
		gate.leaveGet()
		if len(pr.Errors) > 0 || pr.Plan == nil {
			return marshal(&graphql.Result{Errors: pr.Errors})
		}
		args := map[string]interface{}{}
		for k, v := range r.q.Vars {
			args[k] = v
		}
		for k, v := range pr.SynthArgs {
			args[k] = v
		}
		return marshal(graphql.ExecutePlan(pr.Plan, graphql.ExecuteParams{Schema: *shared, Args: args, Context: context.Background()}))
	}
	var mmu sync.Mutex
	record := func(g, k int, r coldReq, got string) {
		mmu.Lock()
		defer mmu.Unlock()
		res.Steps++
		if w := want[fmt.Sprintf("%d/%d", r.fam, r.variant)]; got != w {
			q := r.q
			op := "cacheGet (normalising cache, cold, family " + coldMissFamilies[r.fam].name + ")"
			if g < 0 {
				op = "cacheGet after the concurrent phase (family " + coldMissFamilies[r.fam].name + ")"
			}
			res.Mismatches = append(res.Mismatches, mismatch{Goroutine: g, Step: step{Op: op, Q: r.fam}, Request: &q, Got: got, Want: w})
		}
	}
	gate.armed.Store(true)
	start := make(chan struct{})
	var wg sync.WaitGroup
	for g := 0; g < rs.N; g++ {
		wg.Add(1)
		go func(g int) {
			defer wg.Done()
			<-start
			if stagger && g > 0 {
				select {
				case <-gate.held:
				case <-time.After(20 * time.Millisecond):
				}
			}
			for k, r := range reqs[g] {
				record(g, k, r, serve(g, r, k == 0))
			}
		}(g)
	}
	done := make(chan struct{})
	go func() { wg.Wait(); close(done) }()
	close(start)
	select {
	case <-done:
	case <-time.After(15 * time.Second):
		buf := make([]byte, 1<<16)
		n := runtime.Stack(buf, true)
		res.Fault = "DEADLOCK? round did not finish within 15s\n" + lockFrames(string(buf[:n]))
		return res
	}
	gate.armed.Store(false)
	_, misses := cache.HitsMisses()
	// ---- the first wave once more, one after the other, through the now warm cache
	for g := range reqs {
		record(-1, 0, reqs[g][0], serve(-1, reqs[g][0], false))
	}
	// ---- what the round actually exercised
	fams := map[int]bool{}
	for g := range reqs {
		for _, r := range reqs[g] {
			fams[r.fam] = true
		}
	}
	over := int(misses) - len(fams) // Gets that missed a key another Get had already missed (no eviction, no Reset here)
	bucket := "0"
	switch {
	case over >= 4:
		bucket = "4+"
	case over >= 2:
		bucket = "2-3"
	case over == 1:
		bucket = "1"
	}
	res.Tags = append(res.Tags, "coldMiss:family="+coldMissFamilies[rs.Hot].name, "coldMiss:overlapping-misses="+bucket)
	if over >= 1 {
		res.Tags = append(res.Tags, "coldMiss:rounds-with-overlapping-builds")
	}
	if gate.maxInGet.Load() >= 2 {
		res.Tags = append(res.Tags, "coldMiss:>=2-goroutines-inside-Get-at-once")
	}
	switch {
	case gate.met.Load():
		res.Tags = append(res.Tags, "coldMiss:held-build-saw-all-others-enter-Get")
	case gate.timedOut.Load():
		res.Tags = append(res.Tags, "coldMiss:held-build-timed-out")
	default:
		res.Tags = append(res.Tags, "coldMiss:no-build-was-held")
	}
	if stagger {
		res.Tags = append(res.Tags, "coldMiss:start=first-request-then-others")
	} else {
		res.Tags = append(res.Tags, "coldMiss:start=barrier")
	}
	if doDiffers {
		res.Tags = append(res.Tags, "coldMiss:Do-differs-from-cache-alone")
	}
	if res.Weak != "" {
		res.Tags = append(res.Tags, "coldMiss:premise-not-met")
	}
	if len(res.Mismatches) > 0 {
		for g := range reqs {
			var qs []query
			for _, r := range reqs[g] {
				qs = append(qs, r.q)
			}
			res.Requests = append(res.Requests, qs)
		}
		sort.SliceStable(res.Mismatches, func(i, j int) bool { return res.Mismatches[i].Goroutine >= 0 && res.Mismatches[j].Goroutine < 0 })
	}
	return res
}
