// C07 — one schema, plan and plan cache can serve concurrent requests safely.
//
// Built with -race. A ROUND is: a scenario (schema description + queries touching enums, unions, interfaces, nested
// abstract fields that resolve to different runtime types), N ∈ {2,4,16} goroutines and, per goroutine, a short script
// over {Do, PlanCache.Get+ExecutePlan, ExecutePlan on one shared prepared plan, PlanCache.Reset}. Every round gets a
// FRESH ("cold") schema value, plan cache and prepared plans, so that each lazy path (type fields, possible-type
// tables, per-runtime-type sub-plans, cache entries) is hit for the first time by several goroutines at once; the
// goroutines start together behind a barrier. Each goroutine's JSON must equal the response the same request
// produces alone on another fresh schema (sequential baseline); no panic, no deadlock (watchdog).
//
// Rounds run in CHILD PROCESSES (this binary with --child), with GORACE=halt_on_error=1: a race report makes the
// child exit non-zero right after printing it; the parent captures the child's stderr, attributes it to the round
// that was running, and writes a replay (seed, round, race report). --replay re-runs that round 30× in children.
//
// heldspecialise.go adds the rounds in which a request is held inside the per-request specialisation of a shared plan
// (variable-driven @skip/@include) while a request with another value of the variable runs.
//
// coldmiss.go adds the rounds in which N goroutines miss ONE entry of a cold normalising cache at the same time with
// requests that differ only in extracted literals.
package main

import (
	"bufio"
	"bytes"
	"context"
	"encoding/json"
	"flag"
	"fmt"
	"os"
	"os/exec"
	"runtime"
	"sort"
	"strings"
	"sync"
	"time"

	"github.com/graphql-go/graphql"
	"github.com/graphql-go/graphql/language/ast"
	"github.com/graphql-go/graphql/language/parser"
	"github.com/graphql-go/graphql/language/source"

	"verif/harness/detworld"
	"verif/harness/gen"
	"verif/harness/gq"
	"verif/harness/hx"
)

// ---------------------------------------------------------------- scenarios

type query struct {
	Q    string                 `json:"q"`
	Op   string                 `json:"op"`
	Vars map[string]interface{} `json:"vars,omitempty"`
}

type scenario struct {
	Name    string  `json:"name"`
	Queries []query `json:"queries"`
	// Ops, when set, replaces the default mix of entry points for the rounds of this scenario
	Ops   []string `json:"ops,omitempty"`
	build func() (*graphql.Schema, error)
	// buildGen, when set, makes the rounds of this scenario "hot reload" rounds: ONE plan cache shared by two schema values
	// of the same shape (generation 1 and 2) whose resolvers answer with their generation tag
	buildGen func(gen int) (*graphql.Schema, error)
	// coldMiss marks the rounds of coldmiss.go (one cold NORMALISING cache, requests that share an entry but differ in literals)
	coldMiss bool
	// heldSpec marks the rounds of heldspecialise.go (one shared plan with variable-driven @skip/@include; request A held inside
	// its per-request specialisation while request B, with the other value of the variable, runs from start to end)
	heldSpec bool
}

var wideQueries = []string{
	`{ h(c: RED, cs: [GREEN, BLUE]) node { __typename w y z { __typename y ... on T2 { me } } } }`,
	`{ u { __typename ... on T1 { me y u { __typename ... on Node { w y } } } ... on Node { x z { __typename w } } } us { ... on T2 { kids { w y } } ... on T4 { me } ... on Node { y } } }`,
	`{ nodes { __typename y kids { __typename y z { y } } u { ... on T3 { me y } } } typed { w ... on T1 { me } ... on T4 { me y } } }`,
	`query ($c: Color, $o: In) { h(c: $c) f(o: $o) t1 { y kids { y } } strict { nn y } }`,
	`{ f(o: {a: 1, d: BLUE, e: {d: ALPHA}}) aaa }`,
	`{ __schema { types { name kind fields { name } possibleTypes { name } enumValues { name } inputFields { name } } } }`,
	`mutation { m1 { y u { ... on T2 { y } } } m3 { y z { y } } }`,
	`{ a @d(p: 1, q: 2, r: 3, s: 4) b @cfg(o: {p: 1, r: K}, e: L) }`,
	// argument-less fields whose resolvers write into / echo the argument map they were given
	`{ a b c d echoNoArgs echoNoArgs2 t1 { echoNoArgsT w } nodes { ... on T2 { echoNoArgsT } ... on T3 { echoNoArgsT x } } }`,
	`{ echoNoArgs2 aa ab echoNoArgs strict { echoNoArgsT nn } }`,
	// enums whose names share an internal value / have none: serialised by every goroutine at once
	`{ aliases alias a2: alias(x: CRIMSON) a3: alias(x: AZURE) nodes { ... on T1 { al als } ... on T2 { als } ... on T3 { al } ... on T4 { al als } } us { ... on Node { y } ... on T1 { als } } }`,
	`{ echo(term: "x") node { ... on T1 { al echoT(tags: ["p"]) } ... on T2 { al } ... on T3 { als } ... on T4 { als } } aliases }`,
}

var wideVars = map[string]interface{}{"c": "GREEN", "o": map[string]interface{}{"a": 1, "d": "RED", "e": map[string]interface{}{"d": "BLUE"}}}

// dirOnly: a schema built directly with the library API in which an input object and an enum are reachable ONLY
// through a directive argument (gq.Build always lists every type in SchemaConfig.Types, which would hide this).
func buildDirOnly() (*graphql.Schema, error) {
	dirEnum := graphql.NewEnum(graphql.EnumConfig{Name: "DirEnum", Values: graphql.EnumValueConfigMap{"K": &graphql.EnumValueConfig{Value: 1}, "L": &graphql.EnumValueConfig{Value: 2}}})
	dirOnly := graphql.NewInputObject(graphql.InputObjectConfig{Name: "DirOnly", Fields: graphql.InputObjectConfigFieldMapThunk(func() graphql.InputObjectConfigFieldMap {
		return graphql.InputObjectConfigFieldMap{"p": &graphql.InputObjectFieldConfig{Type: graphql.Int}, "r": &graphql.InputObjectFieldConfig{Type: dirEnum}}
	})})
	dir := graphql.NewDirective(graphql.DirectiveConfig{Name: "cfg", Locations: []string{graphql.DirectiveLocationField},
		Args: graphql.FieldConfigArgument{"o": &graphql.ArgumentConfig{Type: dirOnly}, "e": &graphql.ArgumentConfig{Type: dirEnum}}})
	q := graphql.NewObject(graphql.ObjectConfig{Name: "Q", Fields: graphql.Fields{
		"a": &graphql.Field{Type: graphql.Int, Resolve: func(p graphql.ResolveParams) (interface{}, error) { return 1, nil }}}})
	s, err := graphql.NewSchema(graphql.SchemaConfig{Query: q, Directives: append([]*graphql.Directive{dir}, graphql.SpecifiedDirectives...)})
	return &s, err
}

// slowPlan: abstract fields (a union and an interface, in lists whose elements have different runtime types, nested) whose
// sub-selections carry literals of a custom scalar; ParseLiteral — called by the lazy, per-runtime-type planning that
// happens inside ExecutePlan the first time a runtime type shows up — takes a few hundred microseconds. On a cold shared
// *Plan the goroutines that arrive second therefore arrive WHILE the first one is planning that runtime type.
func buildSlowPlan() (*graphql.Schema, error) {
	type pet struct {
		kind string
		name string
		d    int
	}
	slow := graphql.NewScalar(graphql.ScalarConfig{Name: "Slow",
		Serialize:  func(v interface{}) interface{} { return v },
		ParseValue: func(v interface{}) interface{} { return v },
		ParseLiteral: func(v ast.Value) interface{} {
			time.Sleep(300 * time.Microsecond)
			runtime.Gosched()
			if iv, ok := v.(*ast.IntValue); ok {
				return iv.Value
			}
			return nil
		}})
	objs := map[string]*graphql.Object{}
	resolveType := func(p graphql.ResolveTypeParams) *graphql.Object {
		if x, ok := p.Value.(*pet); ok {
			return objs[x.kind]
		}
		return nil
	}
	named := graphql.NewInterface(graphql.InterfaceConfig{Name: "Named", Fields: graphql.Fields{"name": &graphql.Field{Type: graphql.String}}, ResolveType: resolveType})
	var petU *graphql.Union
	friend := func(p graphql.ResolveParams) (interface{}, error) {
		x := p.Source.(*pet)
		k := map[string]string{"Dog": "Cat", "Cat": "Dog", "Bird": "Dog"}[x.kind]
		return &pet{k, x.name + ">" + k, x.d + 1}, nil
	}
	pack := func(p graphql.ResolveParams) (interface{}, error) {
		x := p.Source.(*pet)
		return []interface{}{&pet{"Cat", x.name + ".c", x.d + 1}, &pet{"Dog", x.name + ".d", x.d + 1}, &pet{"Bird", x.name + ".b", x.d + 1}}, nil
	}
	say := func(word string) graphql.FieldResolveFn {
		return func(p graphql.ResolveParams) (interface{}, error) {
			x := p.Source.(*pet)
			return fmt.Sprintf("%s %s@%v", x.name, word, p.Args["v"]), nil
		}
	}
	mk := func(kind, word string) *graphql.Object {
		o := graphql.NewObject(graphql.ObjectConfig{Name: kind, Interfaces: []*graphql.Interface{named},
			Fields: graphql.FieldsThunk(func() graphql.Fields {
				return graphql.Fields{
					"name":   &graphql.Field{Type: graphql.String, Resolve: func(p graphql.ResolveParams) (interface{}, error) { return p.Source.(*pet).name, nil }},
					"say":    &graphql.Field{Type: graphql.String, Args: graphql.FieldConfigArgument{"v": &graphql.ArgumentConfig{Type: slow}}, Resolve: say(word)},
					"friend": &graphql.Field{Type: petU, Resolve: friend},
					"pack":   &graphql.Field{Type: graphql.NewList(named), Resolve: pack},
				}
			})})
		objs[kind] = o
		return o
	}
	dog, cat, bird := mk("Dog", "woof"), mk("Cat", "meow"), mk("Bird", "tweet")
	petU = graphql.NewUnion(graphql.UnionConfig{Name: "Pet", Types: []*graphql.Object{dog, cat, bird}, ResolveType: resolveType})
	pets := func(p graphql.ResolveParams) (interface{}, error) {
		return []interface{}{&pet{"Dog", "Rex", 0}, &pet{"Cat", "Tom", 0}, &pet{"Dog", "Fido", 0}, &pet{"Bird", "Kiwi", 0}, &pet{"Cat", "Kit", 0}}, nil
	}
	q := graphql.NewObject(graphql.ObjectConfig{Name: "Q", Fields: graphql.Fields{
		"pet":   &graphql.Field{Type: petU, Resolve: func(p graphql.ResolveParams) (interface{}, error) { return &pet{"Dog", "Rex", 0}, nil }},
		"pets":  &graphql.Field{Type: graphql.NewList(petU), Resolve: pets},
		"named": &graphql.Field{Type: graphql.NewList(named), Resolve: pets},
	}})
	s, err := graphql.NewSchema(graphql.SchemaConfig{Query: q, Types: []graphql.Type{dog, cat, bird}})
	return &s, err
}

// orphanAbstract: abstract types whose runtime types are NOT among their possible types in the schema — an interface whose
// only implementation was never listed in SchemaConfig.Types (so the interface has no possible type at all), an interface
// with implementations whose resolver returns something else, a union whose resolver returns a non-member — while the
// resolvers do return such values. Every request takes the "is not a possible type" path on the cold schema.
func buildOrphanAbstract() (*graphql.Schema, error) {
	type val struct{ kind, name string }
	objs := map[string]*graphql.Object{}
	rt := func(p graphql.ResolveTypeParams) *graphql.Object {
		if v, ok := p.Value.(*val); ok {
			return objs[v.kind]
		}
		return nil
	}
	name := &graphql.Field{Type: graphql.String, Resolve: func(p graphql.ResolveParams) (interface{}, error) { return p.Source.(*val).name, nil }}
	pet := graphql.NewInterface(graphql.InterfaceConfig{Name: "Pet", Fields: graphql.Fields{"name": &graphql.Field{Type: graphql.String}}, ResolveType: rt})
	beast := graphql.NewInterface(graphql.InterfaceConfig{Name: "Beast", Fields: graphql.Fields{"name": &graphql.Field{Type: graphql.String}}, ResolveType: rt})
	// Dog implements Pet but is reachable from nowhere: Pet ends up without possible types
	objs["Dog"] = graphql.NewObject(graphql.ObjectConfig{Name: "Dog", Interfaces: []*graphql.Interface{pet}, Fields: graphql.Fields{"name": name}})
	objs["Wolf"] = graphql.NewObject(graphql.ObjectConfig{Name: "Wolf", Interfaces: []*graphql.Interface{beast}, Fields: graphql.Fields{"name": name}})
	objs["Cat"] = graphql.NewObject(graphql.ObjectConfig{Name: "Cat", Fields: graphql.Fields{"name": name}})
	objs["Fish"] = graphql.NewObject(graphql.ObjectConfig{Name: "Fish", Fields: graphql.Fields{"name": name}})
	either := graphql.NewUnion(graphql.UnionConfig{Name: "Either", Types: []*graphql.Object{objs["Cat"]}, ResolveType: rt})
	one := func(kind string) graphql.FieldResolveFn {
		return func(p graphql.ResolveParams) (interface{}, error) { return &val{kind, kind + "!"}, nil }
	}
	many := func(kinds ...string) graphql.FieldResolveFn {
		return func(p graphql.ResolveParams) (interface{}, error) {
			var out []interface{}
			for i, k := range kinds {
				out = append(out, &val{k, fmt.Sprint(k, i)})
			}
			return out, nil
		}
	}
	q := graphql.NewObject(graphql.ObjectConfig{Name: "Q", Fields: graphql.Fields{
		"pet":     &graphql.Field{Type: pet, Resolve: one("Dog")},
		"pets":    &graphql.Field{Type: graphql.NewList(pet), Resolve: many("Dog", "Cat", "Dog")},
		"beast":   &graphql.Field{Type: beast, Resolve: one("Cat")},
		"beasts":  &graphql.Field{Type: graphql.NewList(beast), Resolve: many("Wolf", "Fish", "Wolf", "Dog")},
		"either":  &graphql.Field{Type: either, Resolve: one("Fish")},
		"eithers": &graphql.Field{Type: graphql.NewList(either), Resolve: many("Cat", "Fish", "Wolf")},
		"ok":      &graphql.Field{Type: graphql.Int, Resolve: func(p graphql.ResolveParams) (interface{}, error) { return 1, nil }},
	}})
	s, err := graphql.NewSchema(graphql.SchemaConfig{Query: q, Types: []graphql.Type{objs["Wolf"], objs["Fish"]}})
	return &s, err
}

var orphanQueries = []query{
	{Q: `{ pet { name } ok }`},
	{Q: `{ pets { name } beast { name } beasts { name ... on Wolf { name } } }`},
	{Q: `{ either { __typename ... on Cat { name } } eithers { ... on Cat { name } } pet { __typename } }`},
	{Q: `{ __type(name: "Pet") { possibleTypes { name } } pets { name } ok }`},
}

// hiddenInputs: input-object types (field maps given as thunks) that are reachable ONLY through the arguments of an
// interface's fields (no implementing object is reachable), through a list / non-null wrapper there, or nested inside such
// an input object. Validation of the requests below has to look at their fields — on a cold schema, from every goroutine.
func buildHiddenInputs() (*graphql.Schema, error) {
	inner := graphql.NewInputObject(graphql.InputObjectConfig{Name: "InnerFilter", Fields: graphql.InputObjectConfigFieldMapThunk(func() graphql.InputObjectConfigFieldMap {
		return graphql.InputObjectConfigFieldMap{"b": &graphql.InputObjectFieldConfig{Type: graphql.Int}, "c": &graphql.InputObjectFieldConfig{Type: graphql.String}}
	})})
	filter := graphql.NewInputObject(graphql.InputObjectConfig{Name: "Filter", Fields: graphql.InputObjectConfigFieldMapThunk(func() graphql.InputObjectConfigFieldMap {
		return graphql.InputObjectConfigFieldMap{"a": &graphql.InputObjectFieldConfig{Type: graphql.Int}, "nested": &graphql.InputObjectFieldConfig{Type: inner}}
	})})
	wrapped := graphql.NewInputObject(graphql.InputObjectConfig{Name: "Wrapped", Fields: graphql.InputObjectConfigFieldMapThunk(func() graphql.InputObjectConfigFieldMap {
		return graphql.InputObjectConfigFieldMap{"w": &graphql.InputObjectFieldConfig{Type: graphql.NewNonNull(graphql.Int)}}
	})})
	searchable := graphql.NewInterface(graphql.InterfaceConfig{Name: "Searchable",
		ResolveType: func(p graphql.ResolveTypeParams) *graphql.Object { return nil },
		Fields: graphql.Fields{
			"find": &graphql.Field{Type: graphql.String, Args: graphql.FieldConfigArgument{"filter": &graphql.ArgumentConfig{Type: filter},
				"many": &graphql.ArgumentConfig{Type: graphql.NewList(graphql.NewNonNull(wrapped))}}},
		}})
	q := graphql.NewObject(graphql.ObjectConfig{Name: "Q", Fields: graphql.Fields{
		"thing":  &graphql.Field{Type: searchable, Resolve: func(p graphql.ResolveParams) (interface{}, error) { return nil, nil }},
		"things": &graphql.Field{Type: graphql.NewList(searchable), Resolve: func(p graphql.ResolveParams) (interface{}, error) { return []interface{}{}, nil }},
		"ok":     &graphql.Field{Type: graphql.Int, Resolve: func(p graphql.ResolveParams) (interface{}, error) { return 1, nil }},
	}})
	s, err := graphql.NewSchema(graphql.SchemaConfig{Query: q})
	return &s, err
}

var hiddenInputQueries = []query{
	{Q: `{ thing { find(filter: {a: 1, nested: {b: 2, c: "x"}}) } ok }`},
	{Q: `{ things { find(many: [{w: 1}, {w: 2}]) } thing { find(filter: {nested: {b: "wrong"}}) } }`},
	{Q: `query ($f: Filter, $m: [Wrapped!]) { thing { find(filter: $f, many: $m) } }`, Vars: map[string]interface{}{"f": map[string]interface{}{"a": 1, "nested": map[string]interface{}{"b": 3}}, "m": []interface{}{map[string]interface{}{"w": 5}}}},
}

// singleMember: abstract types with exactly ONE possible type, at depth >= 2 (their sub-selections are planned lazily,
// i.e. while the plan's mutex is held), in single fields and lists.
func buildSingleMember() (*graphql.Schema, error) {
	type node struct{ name string }
	var dog *graphql.Object
	rt := func(p graphql.ResolveTypeParams) *graphql.Object { return dog }
	named := graphql.NewInterface(graphql.InterfaceConfig{Name: "OnlyNamed", Fields: graphql.Fields{"name": &graphql.Field{Type: graphql.String}}, ResolveType: rt})
	var pet *graphql.Union
	var user *graphql.Object
	nameF := &graphql.Field{Type: graphql.String, Resolve: func(p graphql.ResolveParams) (interface{}, error) { return p.Source.(*node).name, nil }}
	dog = graphql.NewObject(graphql.ObjectConfig{Name: "Dog", Interfaces: []*graphql.Interface{named}, Fields: graphql.FieldsThunk(func() graphql.Fields {
		return graphql.Fields{"name": nameF,
			"owner": &graphql.Field{Type: user, Resolve: func(p graphql.ResolveParams) (interface{}, error) {
				return &node{p.Source.(*node).name + "'s owner"}, nil
			}}}
	})})
	pet = graphql.NewUnion(graphql.UnionConfig{Name: "OnlyPet", Types: []*graphql.Object{dog}, ResolveType: rt})
	user = graphql.NewObject(graphql.ObjectConfig{Name: "User", Fields: graphql.FieldsThunk(func() graphql.Fields {
		return graphql.Fields{"name": nameF,
			"favourite": &graphql.Field{Type: pet, Resolve: func(p graphql.ResolveParams) (interface{}, error) { return &node{"Rex"}, nil }},
			"only":      &graphql.Field{Type: named, Resolve: func(p graphql.ResolveParams) (interface{}, error) { return &node{"Fido"}, nil }},
			"pack": &graphql.Field{Type: graphql.NewList(pet), Resolve: func(p graphql.ResolveParams) (interface{}, error) {
				return []interface{}{&node{"a"}, &node{"b"}}, nil
			}}}
	})})
	q := graphql.NewObject(graphql.ObjectConfig{Name: "Q", Fields: graphql.Fields{
		"viewer": &graphql.Field{Type: user, Resolve: func(p graphql.ResolveParams) (interface{}, error) { return &node{"me"}, nil }},
		"top":    &graphql.Field{Type: pet, Resolve: func(p graphql.ResolveParams) (interface{}, error) { return &node{"Top"}, nil }},
	}})
	s, err := graphql.NewSchema(graphql.SchemaConfig{Query: q})
	return &s, err
}

var singleMemberQueries = []query{
	{Q: `{ viewer { favourite { ... on Dog { name } } } }`},
	{Q: `{ viewer { name only { name } pack { __typename ... on Dog { name owner { favourite { ... on Dog { name } } } } } } top { ... on Dog { name } } }`},
	{Q: `{ top { ... on Dog { owner { only { name ... on Dog { owner { name } } } } } } }`},
}

// twoGenerations: the same schema shape built twice (a hot reload); every resolver answers with the generation tag of the
// schema it belongs to. The custom scalar's ParseLiteral is slow, which widens the window between a cache lookup (miss) and
// the store that follows validation + planning.
func buildGeneration(gen int) (*graphql.Schema, error) {
	tag := fmt.Sprintf("gen%d", gen)
	slow := graphql.NewScalar(graphql.ScalarConfig{Name: "Slow",
		Serialize:  func(v interface{}) interface{} { return v },
		ParseValue: func(v interface{}) interface{} { return v },
		ParseLiteral: func(v ast.Value) interface{} {
			time.Sleep(300 * time.Microsecond)
			runtime.Gosched()
			if iv, ok := v.(*ast.IntValue); ok {
				return iv.Value
			}
			return nil
		}})
	var box *graphql.Object
	box = graphql.NewObject(graphql.ObjectConfig{Name: "Box", Fields: graphql.FieldsThunk(func() graphql.Fields {
		return graphql.Fields{
			"tag":   &graphql.Field{Type: graphql.String, Resolve: func(p graphql.ResolveParams) (interface{}, error) { return tag, nil }},
			"inner": &graphql.Field{Type: box, Resolve: func(p graphql.ResolveParams) (interface{}, error) { return 1, nil }},
		}
	})})
	q := graphql.NewObject(graphql.ObjectConfig{Name: "Q", Fields: graphql.Fields{
		"tag": &graphql.Field{Type: graphql.String, Resolve: func(p graphql.ResolveParams) (interface{}, error) { return tag, nil }},
		"say": &graphql.Field{Type: graphql.String, Args: graphql.FieldConfigArgument{"v": &graphql.ArgumentConfig{Type: slow}},
			Resolve: func(p graphql.ResolveParams) (interface{}, error) {
				return fmt.Sprintf("%s says %v", tag, p.Args["v"]), nil
			}},
		"box": &graphql.Field{Type: box, Resolve: func(p graphql.ResolveParams) (interface{}, error) { return 1, nil }},
	}})
	s, err := graphql.NewSchema(graphql.SchemaConfig{Query: q})
	return &s, err
}

var twoGenQueries = []query{
	{Q: `{ tag say(v: 3) s2: say(v: 4) box { tag inner { tag } } }`},
	{Q: `{ say(v: 1) tag }`},
	{Q: `{ tag box { tag } }`},
}

// runTwoGenRound: N goroutines, split over the two generations, Get + ExecutePlan through ONE cold cache; every response
// must be the response of the goroutine's OWN schema generation; afterwards, sequentially, both generations once more.
func runTwoGenRound(rs roundSpec, sc scenario) roundResult {
	res := roundResult{Round: rs.Round, Scenario: sc.Name, N: rs.N}
	var shared [2]*graphql.Schema
	var want [2][]string
	for g := 0; g < 2; g++ {
		alone, err := sc.buildGen(g + 1)
		if err != nil {
			res.Fault = "schema does not build: " + err.Error()
			return res
		}
		for _, q := range sc.Queries {
			want[g] = append(want[g], cacheOne(graphql.NewPlanCache(graphql.PlanCacheOptions{Normalize: rs.Norm}), alone, q))
		}
		if shared[g], err = sc.buildGen(g + 1); err != nil {
			res.Fault = "schema does not build: " + err.Error()
			return res
		}
	}
	cache := graphql.NewPlanCache(graphql.PlanCacheOptions{Normalize: rs.Norm})
	start := make(chan struct{})
	var wg sync.WaitGroup
	var mmu sync.Mutex
	check := func(g int, st step, gen int) {
		got := ""
		func() {
			defer func() {
				if r := recover(); r != nil {
					got = fmt.Sprintf("PANIC: %v", r)
				}
			}()
			got = cacheOne(cache, shared[gen], sc.Queries[st.Q])
		}()
		mmu.Lock()
		res.Steps++
		if got != want[gen][st.Q] {
			res.Mismatches = append(res.Mismatches, mismatch{Goroutine: g, Step: step{Op: fmt.Sprintf("cacheGet on schema generation %d", gen+1), Q: st.Q}, Got: got, Want: want[gen][st.Q]})
		}
		mmu.Unlock()
	}
	for g := 0; g < rs.N; g++ {
		wg.Add(1)
		go func(g int) {
			defer wg.Done()
			<-start
			for _, st := range rs.Scripts[g] {
				check(g, st, g%2)
			}
		}(g)
	}
	close(start)
	wg.Wait()
	// whatever the overlapping misses left in the cache: both generations again, one after the other
	for gen := 0; gen < 2; gen++ {
		for qi := range sc.Queries {
			check(-1, step{Q: qi}, gen)
		}
	}
	return res
}

var slowPlanQueries = []query{
	{Q: `{ pets { __typename ... on Dog { name say(v: 3) friend { ... on Cat { name say(v: 2) friend { ... on Dog { say(v: 1) } } } } } ... on Cat { name say(v: 5) pack { name ... on Bird { say(v: 4) } } } ... on Bird { name } } }`},
	{Q: `{ named { name ... on Dog { say(v: 7) pack { ... on Cat { say(v: 1) } ... on Dog { name say(v: 6) } } } ... on Cat { say(v: 8) } } pet { ... on Dog { say(v: 2) friend { ... on Cat { say(v: 9) } } } } }`},
	{Q: `{ pet { __typename ... on Dog { name say(v: 3) } ... on Cat { name } } }`},
}

// mutate: the resolvers write into the argument map they receive (also an empty one) and modify argument values in place
func descScenario(name string, desc *gq.SchemaDesc, qs []query, errors, thunks, mutate bool) scenario {
	return scenario{Name: name, Queries: qs, build: func() (*graphql.Schema, error) {
		w := detworld.New(desc, 11)
		w.Errors, w.Thunks, w.MutateArgs = errors, thunks, mutate
		b, err := gq.Build(desc, w.Hooks())
		if err != nil {
			return nil, err
		}
		s := b.Schema
		return &s, nil
	}}
}

func scenarios(seed uint64, thorough bool) []scenario {
	var out []scenario
	var wq []query
	for _, q := range wideQueries {
		wq = append(wq, query{Q: q, Vars: wideVars})
	}
	wide := detworld.Wide()
	out = append(out, descScenario("wide", wide, wq, false, false, false))
	out = append(out, descScenario("wide+mutargs", wide, wq, false, false, true))
	out = append(out, descScenario("wide+errors+thunks", wide, wq, true, true, true))
	out = append(out, scenario{Name: "dirOnly", build: buildDirOnly, Queries: []query{
		{Q: `{ a @cfg(o: {p: 1, r: K}, e: L) }`}, {Q: `{ a2: a @cfg(o: {p: "x", r: Z}, e: 3) a }`}, {Q: `{ a }`}}})
	for k := 0; k < 2; k++ {
		out = append(out, scenario{Name: "twoGenerations", buildGen: buildGeneration, Queries: twoGenQueries, Ops: []string{"cacheGet"}})
	}
	out = append(out, scenario{Name: "hiddenInputs", build: buildHiddenInputs, Queries: hiddenInputQueries})
	out = append(out, scenario{Name: "hiddenInputs", build: buildHiddenInputs, Queries: hiddenInputQueries})
	out = append(out, scenario{Name: "singleMember", build: buildSingleMember, Queries: singleMemberQueries,
		Ops: []string{"execPlan", "execPlan", "cacheGet", "cacheGet", "do"}})
	for k := 0; k < 2; k++ {
		out = append(out, scenario{Name: "orphanAbstract", build: buildOrphanAbstract, Queries: orphanQueries})
	}
	// four entries = four times the weight: these rounds are the ones that can see a lazy initialiser whose check and
	// store are not one critical section (all accesses locked, no race report, wrong answer)
	for k := 0; k < 4; k++ {
		out = append(out, scenario{Name: "slowPlan", build: buildSlowPlan, Queries: slowPlanQueries,
			Ops: []string{"execPlan", "execPlan", "execPlan", "cacheGet", "cacheGet", "do"}})
	}
	// overlapping cold misses of near-identical requests on a normalising cache (coldmiss.go)
	for k := 0; k < 3; k++ {
		out = append(out, coldMissScenario())
	}
	// a request held inside Plan.specialise while another one with a different directive variable runs (heldspecialise.go)
	for k := 0; k < 2; k++ {
		out = append(out, heldSpecScenario())
	}
	nGen := 6
	if thorough {
		nGen = 40
	}
	for i := 0; i < nGen; i++ {
		r := hx.Fork(seed, 2000+i)
		desc := (&gen.SchemaGen{R: r, Size: 2 + i%4}).Schema()
		var qs []query
		for d := 0; d < 4; d++ {
			text, meta := gen.ValidDocWith(r, desc, 2+d%3, gen.ValidDocOpts{AvoidBareInlineUnderWrapped: true, SingleOperation: true})
			op := ""
			if len(meta.Doc.Ops) > 0 {
				op = meta.Doc.Ops[0].Name
			}
			vars := map[string]interface{}{}
			for k, v := range meta.Variables[op] {
				vars[k] = gq.FromWire(v)
			}
			qs = append(qs, query{Q: text, Op: op, Vars: vars})
		}
		out = append(out, descScenario(fmt.Sprintf("gen%d", i), desc, qs, i%2 == 1, i%3 == 1, i%2 == 0))
	}
	return out
}

// ---------------------------------------------------------------- one round

type step struct {
	Op string `json:"op"` // do | cacheGet | execPlan | reset | validate
	Q  int    `json:"q"`
}

type roundSpec struct {
	Round    int      `json:"round"`
	Scenario int      `json:"scenario"`
	N        int      `json:"n"`
	Scripts  [][]step `json:"scripts"`
	Norm     bool     `json:"normalize"`
	Hot      int      `json:"hot"` // the query most steps of the round use
}

func mkRound(seed uint64, i int, scs []scenario) roundSpec {
	r := hx.Fork(seed, i)
	rs := roundSpec{Round: i, Scenario: r.Intn(len(scs)), N: []int{2, 4, 16}[r.Intn(3)], Norm: r.Chance(1, 4)}
	nq := len(scs[rs.Scenario].Queries)
	// most goroutines of a round hammer the same one or two queries, so that their first-time paths coincide
	hot := r.Intn(nq)
	ops := []string{"do", "do", "cacheGet", "cacheGet", "execPlan", "execPlan", "validate", "reset"}
	if len(scs[rs.Scenario].Ops) > 0 {
		ops = scs[rs.Scenario].Ops
		rs.Norm = false
		if rs.N == 2 && !scs[rs.Scenario].coldMiss {
			rs.N = 8
		}
	}
	rs.Hot = hot
	if scs[rs.Scenario].coldMiss {
		rs.Norm = true
	}
	if scs[rs.Scenario].heldSpec {
		rs.N = 2 // request A and request B; the scripts below are not used
	}
	for g := 0; g < rs.N; g++ {
		var sc []step
		n := r.Range(2, 4)
		for k := 0; k < n; k++ {
			q := hot
			if r.Chance(1, 3) {
				q = r.Intn(nq)
			}
			sc = append(sc, step{Op: ops[r.Intn(len(ops))], Q: q})
		}
		rs.Scripts = append(rs.Scripts, sc)
	}
	return rs
}

func marshal(v interface{}) string {
	b, err := json.Marshal(v)
	if err != nil {
		return "MARSHAL-ERROR: " + err.Error()
	}
	return string(b)
}

type prepared struct {
	plan *graphql.Plan
	errs string // non-empty: the request does not get as far as a plan; its response is this
}

func prepare(s *graphql.Schema, q query) prepared {
	doc, err := parser.Parse(parser.ParseParams{Source: source.NewSource(&source.Source{Body: []byte(q.Q), Name: "GraphQL request"})})
	if err != nil {
		return prepared{errs: "parse"}
	}
	if vr := graphql.ValidateDocument(s, doc, nil); !vr.IsValid {
		return prepared{errs: marshal(&graphql.Result{Errors: vr.Errors})}
	}
	p, err := graphql.PlanQuery(s, doc, q.Op)
	if err != nil {
		return prepared{errs: "plan: " + err.Error()}
	}
	return prepared{plan: p}
}

func validateOnly(s *graphql.Schema, q query) string {
	doc, err := parser.Parse(parser.ParseParams{Source: source.NewSource(&source.Source{Body: []byte(q.Q), Name: "GraphQL request"})})
	if err != nil {
		return "parse"
	}
	return marshal(graphql.ValidateDocument(s, doc, nil).Errors)
}

// cacheOne is the PlanCache entry point: Get, then ExecutePlan with the request's variables plus the synthetic ones.
func cacheOne(cache *graphql.PlanCache, s *graphql.Schema, q query) string {
	pr := cache.Get(s, q.Q, q.Op)
	if len(pr.Errors) > 0 {
		return marshal(&graphql.Result{Errors: pr.Errors})
	}
	args := map[string]interface{}{}
	for k, v := range q.Vars {
		args[k] = v
	}
	for k, v := range pr.SynthArgs {
		args[k] = v
	}
	return marshal(graphql.ExecutePlan(pr.Plan, graphql.ExecuteParams{Schema: *s, Args: args, Context: context.Background()}))
}

func doOne(s *graphql.Schema, q query) string {
	return marshal(graphql.Do(graphql.Params{Schema: *s, RequestString: q.Q, OperationName: q.Op, VariableValues: q.Vars, Context: context.Background()}))
}

type mismatch struct {
	Goroutine int    `json:"goroutine"`
	Step      step   `json:"step"`
	Request   *query `json:"request,omitempty"`
	Got       string `json:"got"`
	Want      string `json:"want"`
}

type roundResult struct {
	Round      int        `json:"round"`
	Scenario   string     `json:"scenario"`
	N          int        `json:"n"`
	Steps      int        `json:"steps"`
	Abstract   bool       `json:"abstract"`
	Mismatches []mismatch `json:"mismatches,omitempty"`
	Fault      string     `json:"fault,omitempty"`
	Tags       []string   `json:"tags,omitempty"`
	Weak       string     `json:"weak,omitempty"`     // the round did not exercise what its scenario is for (not counted as non-trivial)
	Requests   [][]query  `json:"requests,omitempty"` // per goroutine, when the scenario renders its requests per round
}

func runRound(rs roundSpec, scs []scenario) roundResult {
	sc := scs[rs.Scenario]
	if sc.buildGen != nil {
		return runTwoGenRound(rs, sc)
	}
	if sc.coldMiss {
		return runColdMissRound(rs, sc)
	}
	if sc.heldSpec {
		return runHeldSpecRound(rs, sc)
	}
	res := roundResult{Round: rs.Round, Scenario: sc.Name, N: rs.N}
	// ---- sequential baseline on its own fresh schema
	alone, err := sc.build()
	if err != nil {
		res.Fault = "schema does not build: " + err.Error()
		return res
	}
	// warm-up premise (warm.go), on the baseline schema before anything was served
	if probs, cerrs := warmProblems(alone); len(probs) > 0 || len(cerrs) > 0 {
		sort.Strings(probs)
		if len(cerrs) > 0 {
			res.Fault = "WARM-UP CHECK BROKEN: " + strings.Join(cerrs, "; ")
			return res
		}
		// reported when the round ends; the round still runs (the race detector may show the consequence first)
		res.Fault = "NOT WARMED: " + strings.Join(probs, "; ")
	}
	wantDo := make([]string, len(sc.Queries))
	wantVal := make([]string, len(sc.Queries))
	wantCache := make([]string, len(sc.Queries))
	wantExec := make([]string, len(sc.Queries))
	for i, q := range sc.Queries {
		wantDo[i] = doOne(alone, q)
		wantVal[i] = validateOnly(alone, q)
		// each entry point alone: a fresh cache per request (same options), a freshly prepared plan per request
		wantCache[i] = cacheOne(graphql.NewPlanCache(graphql.PlanCacheOptions{MaxEntries: 2, Normalize: rs.Norm}), alone, q)
		if p := prepare(alone, q); p.plan != nil {
			wantExec[i] = marshal(graphql.ExecutePlan(p.plan, graphql.ExecuteParams{Schema: *alone, Args: q.Vars, Context: context.Background()}))
		}
		if strings.Contains(q.Q, "__typename") || strings.Contains(q.Q, "... on") {
			res.Abstract = true
		}
	}
	// ---- cold shared objects
	shared, err := sc.build()
	if err != nil {
		res.Fault = "schema does not build: " + err.Error()
		return res
	}
	cache := graphql.NewPlanCache(graphql.PlanCacheOptions{MaxEntries: 2, Normalize: rs.Norm})
	// the shared prepared plans are built lazily by whichever goroutine needs one first, under a mutex of the harness
	// (planning itself is not what is shared; the *Plan value is)
	var pmu sync.Mutex
	plans := map[int]*prepared{}
	getPlan := func(i int) *prepared {
		pmu.Lock()
		defer pmu.Unlock()
		if p, ok := plans[i]; ok {
			return p
		}
		p := prepare(shared, sc.Queries[i])
		plans[i] = &p
		return &p
	}
	start := make(chan struct{})
	var wg sync.WaitGroup
	var mmu sync.Mutex
	for g := 0; g < rs.N; g++ {
		wg.Add(1)
		go func(g int) {
			defer wg.Done()
			<-start
			for _, st := range rs.Scripts[g] {
				q := sc.Queries[st.Q]
				got, want := "", wantDo[st.Q]
				func() {
					defer func() {
						if r := recover(); r != nil {
							got = fmt.Sprintf("PANIC: %v", r)
						}
					}()
					switch st.Op {
					case "do":
						got = doOne(shared, q)
					case "validate":
						got, want = validateOnly(shared, q), wantVal[st.Q]
					case "reset":
						cache.Reset()
						cache.HitsMisses()
						got = want
					case "cacheGet":
						got, want = cacheOne(cache, shared, q), wantCache[st.Q]
					case "execPlan":
						p := getPlan(st.Q)
						if p.plan == nil {
							got = want // the request fails before planning; nothing shared to execute
							break
						}
						got, want = marshal(graphql.ExecutePlan(p.plan, graphql.ExecuteParams{Schema: *shared, Args: q.Vars, Context: context.Background()})), wantExec[st.Q]
					}
				}()
				if got != want {
					mmu.Lock()
					res.Mismatches = append(res.Mismatches, mismatch{Goroutine: g, Step: st, Got: got, Want: want})
					mmu.Unlock()
				}
				mmu.Lock()
				res.Steps++
				mmu.Unlock()
			}
		}(g)
	}
	done := make(chan struct{})
	go func() { wg.Wait(); close(done) }()
	close(start)
	select {
	case <-done:
	case <-time.After(30 * time.Second):
		buf := make([]byte, 1<<16)
		n := runtime.Stack(buf, true)
		res.Fault = "DEADLOCK? round did not finish within 30s\n" + string(buf[:n])
	}
	return res
}

// ---------------------------------------------------------------- parent / child

func main() {
	child := flag.Bool("child", false, "run rounds [from,to) and print one JSON line per round")
	from := flag.Int("from", 0, "")
	to := flag.Int("to", 0, "")
	run := hx.Begin("C07")
	scs := scenarios(run.Seed, run.Thorough())
	if *child {
		w := bufio.NewWriter(os.Stdout)
		for i := *from; i < *to; i++ {
			fmt.Fprintf(os.Stderr, "ROUND %d\n", i)
			rs := mkRound(run.Seed, i, scs)
			// watchdog over the WHOLE round (the sequential baseline included: a self-deadlock needs no second goroutine)
			rc := make(chan roundResult, 1)
			go func() { rc <- runRound(rs, scs) }()
			var r roundResult
			select {
			case r = <-rc:
			case <-time.After(20 * time.Second):
				buf := make([]byte, 1<<16)
				n := runtime.Stack(buf, true)
				r = roundResult{Round: i, Scenario: scs[rs.Scenario].Name, N: rs.N, Fault: "DEADLOCK? round did not finish within 20s (a request hangs)\n" + lockFrames(string(buf[:n]))}
			}
			b, _ := json.Marshal(r)
			w.Write(b)
			w.WriteByte('\n')
			w.Flush()
			if r.Fault != "" && strings.HasPrefix(r.Fault, "DEADLOCK") {
				os.Exit(3)
			}
		}
		return
	}
	self, err := os.Executable()
	if err != nil {
		run.CheckError("os.Executable: " + err.Error())
		run.Finish()
		return
	}
	total := run.N(200, 20000)
	type job struct{ from, to int }
	var jobs []job
	if run.ReplayIn != "" {
		var rp struct {
			Round roundSpec `json:"round"`
		}
		if err := hx.LoadReplay(run.ReplayIn, &rp); err != nil {
			run.CheckError("cannot load replay: " + err.Error())
			run.Finish()
			return
		}
		for k := 0; k < 30; k++ {
			jobs = append(jobs, job{rp.Round.Round, rp.Round.Round + 1})
		}
	} else {
		batch := 25
		for a := 0; a < total; a += batch {
			b := a + batch
			if b > total {
				b = total
			}
			jobs = append(jobs, job{a, b})
		}
	}
	var mu sync.Mutex
	races := map[int]bool{}
	handle := func(r roundResult) {
		mu.Lock()
		defer mu.Unlock()
		run.Tag(fmt.Sprintf("N=%d", r.N))
		run.Tag("scenario=" + strings.TrimRight(r.Scenario, "0123456789"))
		if r.Abstract {
			run.Tag("abstract-types")
		}
		for _, t := range r.Tags {
			run.Tag(t)
		}
		run.Case(fmt.Sprintf("%d|%s|%d", r.Round, r.Scenario, r.N), r.N >= 2 && r.Steps >= 2*r.N && r.Fault == "" && r.Weak == "", map[string]interface{}{"round": r.Round, "scenario": r.Scenario, "n": r.N, "steps": r.Steps})
		rs := mkRound(run.Seed, r.Round, scs)
		if strings.HasPrefix(r.Fault, "WARM-UP CHECK BROKEN") {
			run.CheckError(r.Fault)
		} else if strings.HasPrefix(r.Fault, "NOT WARMED") {
			run.Violation("NewSchema left lazily initialised types that requests can reach uninitialised (they would be initialised, unsynchronised, by the first requests): "+r.Fault[len("NOT WARMED: "):min(len(r.Fault), 400)],
				map[string]interface{}{"round": rs, "scenario": scs[rs.Scenario].Name, "queries": scs[rs.Scenario].Queries, "fault": r.Fault}, false)
		} else if r.Fault != "" {
			run.Violation("round did not complete: "+r.Fault[:min(len(r.Fault), 200)], map[string]interface{}{"round": rs, "scenario": scs[rs.Scenario].Name, "queries": scs[rs.Scenario].Queries, "fault": r.Fault}, false)
		}
		if len(r.Mismatches) > 0 {
			m := r.Mismatches[0]
			run.Violation(fmt.Sprintf("a concurrent %s returned a response different from the sequential baseline (N=%d, scenario %s)", m.Step.Op, r.N, r.Scenario),
				map[string]interface{}{"round": rs, "scenario": scs[rs.Scenario].Name, "queries": scs[rs.Scenario].Queries, "mismatches": r.Mismatches[:min(len(r.Mismatches), 4)],
					"requests_per_goroutine": r.Requests}, false)
		}
	}
	runJob := func(j job) {
		fromI := j.from
		for fromI < j.to {
			cmd := exec.Command(self, "--child", "--tier", run.Tier, "--seed", fmt.Sprint(run.Seed), "--from", fmt.Sprint(fromI), "--to", fmt.Sprint(j.to))
			cmd.Env = append(os.Environ(), "GORACE=halt_on_error=1 exitcode=66")
			var stderr bytes.Buffer
			cmd.Stderr = &stderr
			out, cerr := cmd.Output()
			last := fromI - 1
			lastFault := false
			for _, line := range bytes.Split(out, []byte("\n")) {
				if len(bytes.TrimSpace(line)) == 0 {
					continue
				}
				var r roundResult
				if json.Unmarshal(line, &r) == nil {
					handle(r)
					last = r.Round
					lastFault = strings.HasPrefix(r.Fault, "DEADLOCK")
				}
			}
			if cerr == nil {
				return
			}
			if lastFault {
				// the child reported the hang itself (handle() recorded the violation) and exited; go on after that round
				fromI = last + 1
				mu.Lock()
				stop := run.TooManyViolations()
				mu.Unlock()
				if stop {
					return
				}
				continue
			}
			// the child died in the round after `last`
			failed := last + 1
			se := stderr.String()
			if i := strings.LastIndex(se, "ROUND "); i >= 0 {
				fmt.Sscanf(se[i:], "ROUND %d", &failed)
			}
			rs := mkRound(run.Seed, failed, scs)
			note := "child process died: " + cerr.Error()
			if strings.Contains(se, "WARNING: DATA RACE") {
				note = fmt.Sprintf("DATA RACE reported by the race detector (N=%d, scenario %s): %s", rs.N, scs[rs.Scenario].Name, raceSummary(se))
			} else if strings.Contains(se, "DEADLOCK?") || strings.Contains(se, "all goroutines are asleep") {
				note = "deadlock: " + cerr.Error()
			}
			mu.Lock()
			if !races[failed] || run.ReplayIn == "" {
				races[failed] = true
				run.Tag(fmt.Sprintf("N=%d", rs.N))
				run.Case(fmt.Sprintf("%d|%s|%d", failed, scs[rs.Scenario].Name, rs.N), true, nil)
				run.Violation(note, map[string]interface{}{"round": rs, "scenario": scs[rs.Scenario].Name, "queries": scs[rs.Scenario].Queries,
					"stderr": tail(se, 6000)}, false)
			}
			stop := run.TooManyViolations()
			mu.Unlock()
			fromI = failed + 1
			if stop {
				return
			}
		}
	}
	par := runtime.NumCPU() / 2
	if par < 2 {
		par = 2
	}
	if par > 6 {
		par = 6
	}
	sem := make(chan struct{}, par)
	var wg sync.WaitGroup
	for _, j := range jobs {
		mu.Lock()
		stop := run.TooManyViolations()
		mu.Unlock()
		if stop {
			break
		}
		wg.Add(1)
		sem <- struct{}{}
		go func(j job) {
			defer wg.Done()
			defer func() { <-sem }()
			runJob(j)
		}(j)
	}
	wg.Wait()
	run.Res.Rule = "a round = one cold schema + plan cache + prepared plans shared by N goroutines (N in {2,4,16}) that start together and each run 2-4 steps from {Do, PlanCache.Get+ExecutePlan, ExecutePlan on the shared plan, ValidateDocument, PlanCache.Reset}; non-trivial when N >= 2 goroutines completed >= 2 steps each; each response compared with the sequential baseline of the same request on another fresh schema; built with -race, a race report / panic / deadlock in the child process is a violation; coldMissNearLiterals rounds: one cold NORMALISING cache, every goroutine sends its own variant of one request family (same normalised text, different extracted literals; echo resolvers), the first build is held inside validation until all goroutines are inside Get (bounded wait), each response compared with the same request alone; such a round is non-trivial only if the family premise held (one cache key, distinct literals, served without errors alone); heldSpecialise rounds: ONE shared plan (PlanQuery, or a PlanCache entry) of a document with variable-driven @skip/@include, request A held inside a custom scalar's ParseLiteral during its per-request specialisation (bounded 50 ms) while request B with the other value of the variable runs from start to end, then three sequential requests on the same plan; every response compared with graphql.Do of the same request on a fresh schema; non-trivial only if B really ran to completion while A was held"
	run.Res.Extra["coldMiss_rounds"] = run.Res.Histogram["scenario="+coldMissName]
	run.Res.Extra["coldMiss_rounds_with_overlapping_builds"] = run.Res.Histogram["coldMiss:rounds-with-overlapping-builds"]
	run.Res.Extra["coldMiss_rounds_held_build_saw_all_others_inside_Get"] = run.Res.Histogram["coldMiss:held-build-saw-all-others-enter-Get"]
	run.Res.Extra["heldSpecialise_rounds"] = run.Res.Histogram["scenario="+heldSpecName]
	run.Res.Extra["heldSpecialise_rounds_B_completed_while_A_was_held"] = run.Res.Histogram["heldSpecialise:park=overlapped(B-ran-to-completion-while-A-was-held)"]
	run.Res.Extra["rounds"] = len(jobs)
	run.Res.Extra["scenarios"] = len(scs)
	run.Res.Assumptions = []string{"race freedom, absence of panics/deadlocks and equality with the sequential response are sampled over schedules the Go scheduler happened to produce (race detector), not proved for the real binary"}
	run.Finish()
}

// lockFrames keeps, of a full goroutine dump, the goroutines that are blocked in sync.(*Mutex).Lock inside the library.
func lockFrames(dump string) string {
	var out []string
	for _, g := range strings.Split(dump, "\n\n") {
		if strings.Contains(g, "sync.(*Mutex).Lock") && strings.Contains(g, "graphql-go/graphql") {
			ls := strings.Split(g, "\n")
			if len(ls) > 24 {
				ls = ls[:24]
			}
			out = append(out, strings.Join(ls, "\n"))
		}
		if len(out) >= 3 {
			break
		}
	}
	if len(out) == 0 {
		return tail(dump, 3000)
	}
	return strings.Join(out, "\n\n")
}

func raceSummary(se string) string {
	// first two frames' function names of the two conflicting accesses
	var fns []string
	lines := strings.Split(se, "\n")
	for i, l := range lines {
		t := strings.TrimSpace(l)
		if (strings.HasPrefix(t, "Read at") || strings.HasPrefix(t, "Write at") || strings.HasPrefix(t, "Previous write at") || strings.HasPrefix(t, "Previous read at")) && i+1 < len(lines) {
			fns = append(fns, strings.Fields(t)[0]+" "+strings.TrimSpace(lines[i+1]))
		}
	}
	if len(fns) > 2 {
		fns = fns[:2]
	}
	return strings.Join(fns, " / ")
}

func tail(s string, n int) string {
	if len(s) <= n {
		return s
	}
	return s[len(s)-n:]
}
