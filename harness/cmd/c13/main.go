// C13 harness: mutation documents x worlds with deferred values; the invocation log of the real executor must be
// serial per top-level field, in document order, on every repetition (map iteration seeds).
package main

import (
	"verif/harness/execharness"
	"verif/harness/hx"
)

func main() {
	execharness.Main(execharness.Mode{Prop: "C13", Knobs: func(r *hx.Rng) execharness.Knobs {
		k := execharness.CalmKnobs
		k.Thunk = 35
		if r.Chance(1, 3) {
			k = execharness.DefaultKnobs
			k.Thunk = 25
		}
		return k
	}, CompareLog: true, MutationOnly: true, Repeat: 20, PlanModel: true}, 400, 40000)
}
