// C05 harness: input coercion of variables, literals and arguments.
//
// (a) pointwise: the four recursive functions of the library (isValidInputValue, coerceValue, isValidLiteralValue,
// valueFromAST, reached through the verif exports) are compared with the Lean model M on a type x value / type x
// literal product, and with the specification S wherever S applies (strictlyTyped / varsProvided);
// (b) end to end: graphql.Do on `query($v: T = D) { cf(a: $v, b: …) }`, `{ cf(a: LIT) }` and literals containing
// variables; the resolver records p.Args and p.Info.VariableValues; uncoercible variables must give no data,
// an error and no resolver call; arguments are compared with M's getArgumentValues and with S;
// (c) literal/variable agreement on the real code for conformant values.
package main

import (
	"encoding/json"
	"fmt"
	"sort"
	"math"
	"math/big"
	"strconv"
	"strings"

	"github.com/graphql-go/graphql"
	"github.com/graphql-go/graphql/language/ast"
	"github.com/graphql-go/graphql/language/parser"

	"verif/harness/astjson"
	"verif/harness/gen"
	"verif/harness/gq"
	"verif/harness/hx"
)

// ---------------------------------------------------------------- schema worlds

var oddScalar = gq.TypeDesc{Kind: "SCALAR", Name: "Odd",
	Serialize:    [][2]interface{}{{1, 1}, {3, 3}, {"three", 3}},
	ParseValue:   [][2]interface{}{{1, 1}, {3, 3}, {"3", 3}},
	ParseLiteral: [][2]interface{}{{1, 1}, {3, 3}, {"3", 3}}}

var builtinNames = []string{"Int", "Float", "String", "Boolean", "ID"}

func dec(m, e int) interface{} { return map[string]interface{}{"$dec": []interface{}{m, e}} }

// exact binary decimals in canonical form (mantissa not divisible by 10)
func randDec(r *hx.Rng) interface{} {
	switch r.Intn(3) {
	case 0:
		return dec((2*r.Range(-40, 40)+1)*5, 1) // k/2
	case 1:
		return dec((2*r.Range(-40, 40)+1)*25, 2) // k/4
	}
	return dec((2*r.Range(-40, 40)+1)*125, 3) // k/8
}

func leafNames(s *gq.SchemaDesc) []string {
	out := append([]string{}, builtinNames...)
	for _, t := range s.Types {
		if t.Kind == "ENUM" || (t.Kind == "SCALAR" && t.Builtin == "") {
			out = append(out, t.Name)
		}
	}
	return out
}

func inputNames(s *gq.SchemaDesc) []string {
	out := leafNames(s)
	for _, t := range s.Types {
		if t.Kind == "INPUT_OBJECT" {
			out = append(out, t.Name)
		}
	}
	return out
}

// augment adds what the shared generator only sometimes produces: the custom scalar, an enum with arbitrary
// internal values, and two mutually recursive input objects with required fields, defaults at field level
// (also on a non-null field), lists of lists and nested objects.
func augment(r *hx.Rng, s *gq.SchemaDesc) {
	if s.Type("Odd") == nil {
		s.Types = append([]gq.TypeDesc{oddScalar}, s.Types...)
	}
	xe := gq.TypeDesc{Kind: "ENUM", Name: "XE"}
	style := r.Intn(4)
	for j, name := range []string{"A", "B", "C"}[:r.Range(1, 3)] {
		var internal interface{} = name
		switch style {
		case 1:
			internal = j * 7
		case 2:
			internal = []string{"not a name", "", "B"}[j] // B's internal value is another value's name
		case 3:
			internal = []interface{}{true, dec(25, 1), -3}[j]
		}
		xe.Values = append(xe.Values, gq.EnumValDesc{Name: name, Internal: internal})
	}
	s.Types = append(s.Types, xe)
	s.Types = append(s.Types, gq.TypeDesc{Kind: "INPUT_OBJECT", Name: "XA"}, gq.TypeDesc{Kind: "INPUT_OBJECT", Name: "XB"})
	// XM: wide object for mixed literal/variable argument literals (nullable leaves, default, enum, list, nesting, required last)
	s.Types = append(s.Types, gq.TypeDesc{Kind: "INPUT_OBJECT", Name: "XM", InputFields: []gq.ArgDesc{
		{Name: "m0", Type: "Int", HasDef: true, Default: 5}, {Name: "m1", Type: "String"}, {Name: "m2", Type: "XE"},
		{Name: "m3", Type: "[Int]"}, {Name: "m4", Type: "XM"}, {Name: "m5", Type: "[XM]"}, {Name: "m6", Type: "Boolean!"}}})
	leaves := leafNames(s)
	g := &vgen{r: r, s: s}
	field := func(name, typ string, dflt bool) gq.ArgDesc {
		a := gq.ArgDesc{Name: name, Type: typ}
		if dflt {
			te, _ := gq.ParseType(typ)
			a.HasDef = true
			a.Default = g.internal(te, 1)
			if a.Default == nil {
				a.HasDef = false
			}
		}
		return a
	}
	xa := s.Type("XA")
	xa.InputFields = []gq.ArgDesc{
		field("req", r.Pick(leaves)+"!", false),
		field("opt", r.Pick(leaves), r.Chance(1, 2)),
		field("lst", wrapType(r, r.Pick(leaves), 3), r.Chance(1, 2)),
		field("rec", r.Pick([]string{"XA", "[XA]", "[XA!]"}), false),
		field("other", r.Pick([]string{"XB", "XB", "[XB]"}), false),
	}
	if r.Chance(1, 2) {
		xa.InputFields = append(xa.InputFields, field("dn", r.Pick(leaves)+"!", true)) // non-null field with a default
	}
	xb := s.Type("XB")
	n := r.Range(1, 3)
	for j := 0; j < n; j++ {
		xb.InputFields = append(xb.InputFields, field(fmt.Sprintf("b%d", j), wrapType(r, r.Pick(leaves), 2), r.Chance(1, 2)))
	}
	if r.Chance(1, 2) {
		xb.InputFields = append(xb.InputFields, field("back", "XA", false))
	}
}

// wrapper shapes up to depth 4 ('L' list, 'N' non-null; no NN): 19 shapes
var shapes = func() []string {
	out := []string{""}
	frontier := []string{""}
	for d := 0; d < 4; d++ {
		var next []string
		for _, sh := range frontier {
			next = append(next, sh+"L")
			if !strings.HasSuffix(sh, "N") {
				next = append(next, sh+"N")
			}
		}
		out = append(out, next...)
		frontier = next
	}
	return out
}()

func applyShape(named, shape string) string {
	t := named
	for _, c := range shape {
		if c == 'L' {
			t = "[" + t + "]"
		} else {
			t += "!"
		}
	}
	return t
}

func wrapType(r *hx.Rng, named string, maxDepth int) string {
	for {
		sh := shapes[r.Intn(len(shapes))]
		if len(sh) <= maxDepth {
			return applyShape(named, sh)
		}
	}
}

func resolveType(b *gq.Built, d *gq.SchemaDesc, te *gq.TypeExpr) graphql.Type {
	switch te.Kind {
	case "list":
		return graphql.NewList(resolveType(b, d, te.Of))
	case "nonNull":
		return graphql.NewNonNull(resolveType(b, d, te.Of))
	}
	if d.Type(te.Name) == nil {
		switch te.Name {
		case "Int":
			return graphql.Int
		case "Float":
			return graphql.Float
		case "String":
			return graphql.String
		case "Boolean":
			return graphql.Boolean
		case "ID":
			return graphql.ID
		}
	}
	return b.Types[te.Name]
}

// ---------------------------------------------------------------- value generator (wire JVals)

type vgen struct {
	r    *hx.Rng
	s    *gq.SchemaDesc
	mut  int // chance (per 16) of a deviation at each node
	tags map[string]bool
}

func (g *vgen) tag(t string) {
	if g.tags != nil {
		g.tags[t] = true
	}
}
func (g *vgen) hit() bool { return g.mut > 0 && g.r.Intn(16) < g.mut }

// internal produces an internal (already coerced) value of the type, for defaults.
func (g *vgen) internal(te *gq.TypeExpr, depth int) interface{} {
	save := g.mut
	g.mut = 0
	defer func() { g.mut = save }()
	v := g.val(te, depth, false)
	return g.toInternal(te, v)
}

func (g *vgen) toInternal(te *gq.TypeExpr, v interface{}) interface{} {
	if v == nil {
		return nil
	}
	switch te.Kind {
	case "nonNull":
		return g.toInternal(te.Of, v)
	case "list":
		if xs, ok := v.([]interface{}); ok {
			out := []interface{}{}
			for _, x := range xs {
				out = append(out, g.toInternal(te.Of, x))
			}
			return out
		}
		return []interface{}{g.toInternal(te.Of, v)}
	}
	td := g.s.Type(te.Name)
	if td != nil && td.Kind == "ENUM" {
		for _, ev := range td.Values {
			if ev.Name == v {
				return ev.Internal
			}
		}
	}
	if td != nil && td.Kind == "INPUT_OBJECT" {
		if m, ok := v.(map[string]interface{}); ok {
			out := map[string]interface{}{}
			for _, f := range td.InputFields {
				if x, ok := m[f.Name]; ok && x != nil {
					fe, _ := gq.ParseType(f.Type)
					out[f.Name] = g.toInternal(fe, x)
				}
			}
			return out
		}
	}
	return v
}

// every spelling class strconv.ParseFloat reads as NaN / ±Inf (case-insensitive, optional sign for inf), plus near misses
var nonFinite = []string{"NaN", "nan", "NAN", "nAn", "Inf", "inf", "INF", "+Inf", "+inf", "-inf", "-Inf", "-INF", "Infinity", "infinity",
	"+Infinity", "-INFINITY", "-infinity", "iNfInItY", "+nan", "-nan", "infin", "nanx", "in", "+", "-"}

// integers around and beyond the float64-exact / int64 / uint64 boundaries (Float positions: literal and JSON number)
var bigInts = func() []string {
	var out []string
	add := func(b *big.Int) { out = append(out, b.String(), new(big.Int).Neg(b).String()) }
	p := func(e uint) *big.Int { return new(big.Int).Lsh(big.NewInt(1), e) }
	ten := func(e int64) *big.Int { return new(big.Int).Exp(big.NewInt(10), big.NewInt(e), nil) }
	one := big.NewInt(1)
	for _, b := range []*big.Int{new(big.Int).Sub(p(53), one), p(53), new(big.Int).Add(p(53), one), new(big.Int).Sub(p(63), one), p(63),
		new(big.Int).Add(p(63), one), new(big.Int).Sub(p(64), one), p(64), ten(15), ten(18), ten(19), ten(20), ten(22), ten(30), ten(100), ten(308), p(1000)} {
		add(b)
	}
	return out
}()

var strPool = []string{"s", "hello", "x y", "", "5", "abc", "true", "RED", "A"}

func (g *vgen) val(te *gq.TypeExpr, depth int, allowNull bool) interface{} {
	r := g.r
	switch te.Kind {
	case "nonNull":
		if g.hit() {
			g.tag("v:null-in-nonnull")
			return nil
		}
		return g.val(te.Of, depth, false)
	case "list":
		if allowNull && r.Chance(1, 8) {
			return nil
		}
		if r.Chance(1, 6) {
			g.tag("v:list-of-one")
			return g.val(te.Of, depth, false)
		}
		n := r.Intn(4)
		out := []interface{}{}
		for i := 0; i < n; i++ {
			out = append(out, g.val(te.Of, depth, true))
		}
		return out
	}
	if allowNull && r.Chance(1, 8) {
		return nil
	}
	bad := g.hit()
	switch te.Name {
	case "Int":
		if bad {
			switch r.Intn(10) {
			case 9:
				g.tag("v:int-nonfinite-string")
				return r.Pick(nonFinite)
			case 0:
				g.tag("v:int-out-of-range")
				return []interface{}{2147483648, -2147483649, 3000000000, 9007199254740993}[r.Intn(4)]
			case 1:
				g.tag("v:int-fractional")
				return randDec(r)
			case 2:
				g.tag("v:int-numeric-string")
				return r.Pick([]string{"5", "-7", "2.5", "007", "3000000000", "-0", "2147483647", "-2.75"})
			case 3:
				g.tag("v:int-bool")
				return r.Chance(1, 2)
			case 4:
				g.tag("v:int-non-numeric-string")
				return r.Pick([]string{"abc", "", "1x", "--1", "1.2.3", "- 1"})
			case 5:
				g.tag("v:int-list")
				return []interface{}{1, 2}
			case 6:
				g.tag("v:int-object")
				return map[string]interface{}{"a": 1}
			case 7:
				g.tag("v:int-fractional-out-of-range")
				return []interface{}{dec(21474836475, 1), dec(-21474836485, 1), dec(21474836465, 1)}[r.Intn(3)]
			}
			g.tag("v:int-boundary")
			return []interface{}{2147483647, -2147483648}[r.Intn(2)]
		}
		return r.Range(-50, 1000)
	case "Float":
		if bad {
			switch r.Intn(6) {
			case 5:
				g.tag("v:float-nonfinite-string")
				return r.Pick(nonFinite)
			case 0:
				g.tag("v:float-numeric-string")
				return r.Pick([]string{"5", "2.5", "-0.125", "007", "10.50"})
			case 1:
				g.tag("v:float-bool")
				return r.Chance(1, 2)
			case 2:
				g.tag("v:float-non-numeric-string")
				return r.Pick([]string{"abc", "", "2.5x"})
			case 3:
				g.tag("v:float-object")
				return map[string]interface{}{}
			}
			g.tag("v:float-list")
			return []interface{}{dec(25, 1)}
		}
		if r.Chance(1, 2) {
			return randDec(r)
		}
		if r.Chance(1, 6) {
			g.tag("v:float-big-int")
			return json.Number(r.Pick(bigInts))
		}
		return r.Range(-30, 3000000)
	case "String":
		if bad {
			g.tag("v:string-wrong-kind")
			return []interface{}{5, true, dec(25, 1), []interface{}{1, "a", nil}, map[string]interface{}{"b": 1, "a": dec(-125, 3)}, -12}[r.Intn(6)]
		}
		return r.Pick(strPool)
	case "Boolean":
		if bad {
			g.tag("v:boolean-wrong-kind")
			return []interface{}{"false", "true", "", "x", 0, 1, dec(5, 1), []interface{}{}, map[string]interface{}{}}[r.Intn(9)]
		}
		return r.Chance(1, 2)
	case "ID":
		if bad {
			g.tag("v:id-wrong-kind")
			return []interface{}{dec(25, 1), true, []interface{}{1}, map[string]interface{}{"a": "b"}}[r.Intn(4)]
		}
		if r.Chance(1, 2) {
			return r.Range(-5, 99999)
		}
		return r.Pick([]string{"id1", "42", ""})
	}
	td := g.s.Type(te.Name)
	if td == nil {
		return nil
	}
	switch td.Kind {
	case "SCALAR":
		if bad {
			g.tag("v:custom-not-in-table")
			return []interface{}{2, "three", true, dec(15, 1), []interface{}{1}}[r.Intn(5)]
		}
		return []interface{}{1, 3, "3"}[r.Intn(3)]
	case "ENUM":
		if bad {
			switch r.Intn(3) {
			case 0:
				g.tag("v:enum-unknown-name")
				return r.Pick([]string{"NOPE", "", "red", "a"})
			case 1:
				g.tag("v:enum-internal-instead-of-name")
				return td.Values[r.Intn(len(td.Values))].Internal
			}
			g.tag("v:enum-wrong-kind")
			return []interface{}{0, true, []interface{}{"A"}}[r.Intn(3)]
		}
		return td.Values[r.Intn(len(td.Values))].Name
	case "INPUT_OBJECT":
		if bad && r.Chance(1, 3) {
			g.tag("v:object-wrong-kind")
			return []interface{}{"str", 7, []interface{}{}, true}[r.Intn(4)]
		}
		out := map[string]interface{}{}
		for _, f := range td.InputFields {
			fe, _ := gq.ParseType(f.Type)
			required := fe.Kind == "nonNull"
			if required {
				if g.hit() {
					g.tag("v:missing-required-field")
					continue
				}
				out[f.Name] = g.val(fe, depth-1, false)
				continue
			}
			if depth <= 0 {
				continue
			}
			switch r.Intn(4) {
			case 0: // omitted
			case 1:
				if r.Chance(1, 3) {
					g.tag("v:explicit-null-field")
					out[f.Name] = nil
				}
			default:
				out[f.Name] = g.val(fe, depth-1, true)
			}
		}
		if bad {
			if r.Chance(1, 2) {
				g.tag("v:unknown-field")
				out[r.Pick([]string{"zz", "Req", "opt2"})] = 1
			} else {
				g.tag("v:unknown-field-null")
				out[r.Pick([]string{"zz", "Req", "opt2", "limt"})] = nil
			}
		}
		return out
	}
	return nil
}

// ---------------------------------------------------------------- literal generator (text)

type varUse struct {
	Name string `json:"name"`
	Type string `json:"type"`
}

type lgen struct {
	r      *hx.Rng
	s      *gq.SchemaDesc
	mut    int
	varP   int // chance per 16 of a variable at any position
	tags   map[string]bool
	uses   []varUse
	noVars bool
}

func (g *lgen) tag(t string) {
	if g.tags != nil {
		g.tags[t] = true
	}
}
func (g *lgen) hit() bool { return g.mut > 0 && g.r.Intn(16) < g.mut }

func quote(s string) string { b, _ := json.Marshal(s); return string(b) }

var wrongLits = []string{`"str"`, `5`, `2.5`, `true`, `NOPE`, `[1]`, `{a: 1}`, `A`, `-1.5e1`}

// lit returns literal text for a position of type te ("" = nothing can be written, i.e. leave the argument/field out)
func (g *lgen) lit(te *gq.TypeExpr, depth int, top bool) string {
	r := g.r
	if !g.noVars && g.varP > 0 && r.Intn(16) < g.varP {
		name := fmt.Sprintf("v%d", len(g.uses))
		g.uses = append(g.uses, varUse{Name: name, Type: te.String()})
		g.tag("l:variable")
		return "$" + name
	}
	switch te.Kind {
	case "nonNull":
		return g.lit(te.Of, depth, false)
	case "list":
		if r.Chance(1, 6) {
			g.tag("l:list-of-one")
			return g.lit(te.Of, depth, false)
		}
		n := r.Intn(4)
		var parts []string
		for i := 0; i < n; i++ {
			if x := g.lit(te.Of, depth, false); x != "" {
				parts = append(parts, x)
			}
		}
		return "[" + strings.Join(parts, ", ") + "]"
	}
	if g.hit() {
		g.tag("l:wrong-kind")
		return r.Pick(wrongLits)
	}
	switch te.Name {
	case "Int":
		switch r.Intn(8) {
		case 0:
			g.tag("l:int-out-of-range")
			return r.Pick([]string{"2147483648", "-2147483649", "3000000000", "99999999999999999999"})
		case 1:
			g.tag("l:int-boundary")
			return r.Pick([]string{"2147483647", "-2147483648", "-0", "0"})
		}
		return strconv.Itoa(r.Range(-50, 1000))
	case "Float":
		switch r.Intn(5) {
		case 4:
			g.tag("l:float-big-int-literal")
			return r.Pick(bigInts)
		case 0:
			return strconv.Itoa(r.Range(-30, 3000000000))
		case 1:
			g.tag("l:float-exponent")
			return r.Pick([]string{"1e3", "1.5e1", "-25E-2", "125e-3", "2.5E+2", "0.5e0", "1e0"})
		}
		return r.Pick([]string{"2.5", "-0.125", "10.50", "0.0", "-0.0", "3.75", "100.25"})
	case "String":
		if r.Chance(1, 8) {
			g.tag("l:block-string")
			return `"""blk "q" \n line"""`
		}
		return quote(r.Pick(strPool))
	case "Boolean":
		return r.Pick([]string{"true", "false"})
	case "ID":
		if r.Chance(1, 2) {
			return r.Pick([]string{"42", "-0", "0", "1234567", "99999999999999999999"})
		}
		return quote(r.Pick([]string{"id1", "42", ""}))
	}
	td := g.s.Type(te.Name)
	if td == nil {
		return "1"
	}
	switch td.Kind {
	case "SCALAR":
		return r.Pick([]string{"1", "3", `"3"`, "2", `"three"`, "1.0", "true", "ONE"})
	case "ENUM":
		if g.hit() {
			g.tag("l:enum-unknown-or-quoted")
			return r.Pick([]string{"NOPE", quote(td.Values[0].Name), "a"})
		}
		return td.Values[r.Intn(len(td.Values))].Name
	case "INPUT_OBJECT":
		var parts []string
		for _, f := range td.InputFields {
			fe, _ := gq.ParseType(f.Type)
			required := fe.Kind == "nonNull"
			if required {
				if g.hit() {
					g.tag("l:missing-required-field")
					continue
				}
			} else if depth <= 0 || r.Chance(1, 3) {
				continue
			}
			if x := g.lit(fe, depth-1, false); x != "" {
				parts = append(parts, f.Name+": "+x)
			}
		}
		if g.hit() {
			g.tag("l:unknown-field")
			parts = append(parts, "zz: 1")
		}
		if g.hit() && len(parts) > 0 {
			g.tag("l:duplicate-field")
			parts = append(parts, parts[0])
		}
		return "{" + strings.Join(parts, ", ") + "}"
	}
	return "1"
}

// ---- literal trees: valid literals in which chosen positions are replaced by variables

type lnode struct {
	kind  string // leaf list obj var
	text  string
	typ   string // declared type of the position
	kids  []*lnode
	names []string
}

func (g *lgen) tree(te *gq.TypeExpr, depth int) *lnode {
	r := g.r
	pos := te.String()
	for te.Kind == "nonNull" {
		te = te.Of
	}
	if te.Kind == "list" {
		n := &lnode{kind: "list", typ: pos}
		k := r.Range(1, 3)
		for i := 0; i < k; i++ {
			n.kids = append(n.kids, g.tree(te.Of, depth))
		}
		return n
	}
	td := g.s.Type(te.Name)
	if td != nil && td.Kind == "INPUT_OBJECT" {
		n := &lnode{kind: "obj", typ: pos}
		for _, f := range td.InputFields {
			fe, _ := gq.ParseType(f.Type)
			ftd := g.s.Type(fe.NamedName())
			nested := ftd != nil && ftd.Kind == "INPUT_OBJECT"
			if fe.Kind != "nonNull" && (nested && depth <= 0 || r.Chance(1, 4)) {
				continue
			}
			n.names = append(n.names, f.Name)
			n.kids = append(n.kids, g.tree(fe, depth-1))
		}
		return n
	}
	save, saveV := g.mut, g.noVars
	g.mut, g.noVars = 0, true
	text := g.lit(te, 0, false)
	g.mut, g.noVars = save, saveV
	if td != nil && td.Kind == "SCALAR" {
		text = r.Pick([]string{"1", "3", `"3"`})
	}
	if te.Name == "Int" {
		text = strconv.Itoa(r.Range(-50, 1000))
	}
	if te.Name == "ID" {
		text = r.Pick([]string{"42", `"id1"`, "1234567"})
	}
	return &lnode{kind: "leaf", text: text, typ: pos}
}

type lpos struct {
	node   *lnode
	parent *lnode
	index  int
	depth  int
}

func (n *lnode) positions(parent *lnode, index, depth int, out *[]lpos) {
	if parent != nil {
		*out = append(*out, lpos{n, parent, index, depth})
	}
	for i, k := range n.kids {
		k.positions(n, i, depth+1, out)
	}
}

func (n *lnode) render() string {
	switch n.kind {
	case "list":
		var parts []string
		for _, k := range n.kids {
			parts = append(parts, k.render())
		}
		return "[" + strings.Join(parts, ", ") + "]"
	case "obj":
		var parts []string
		for i, k := range n.kids {
			parts = append(parts, n.names[i]+": "+k.render())
		}
		return "{" + strings.Join(parts, ", ") + "}"
	}
	return n.text
}

// renderLit writes a wire value as the literal a client would write for type te ("" if it has no literal form).
func renderLit(s *gq.SchemaDesc, te *gq.TypeExpr, v interface{}) (string, bool) {
	if v == nil {
		return "", false
	}
	switch te.Kind {
	case "nonNull":
		return renderLit(s, te.Of, v)
	case "list":
		if xs, ok := v.([]interface{}); ok {
			var parts []string
			for _, x := range xs {
				p, ok := renderLit(s, te.Of, x)
				if !ok {
					return "", false
				}
				parts = append(parts, p)
			}
			return "[" + strings.Join(parts, ", ") + "]", true
		}
		return renderLit(s, te.Of, v)
	}
	td := s.Type(te.Name)
	switch x := v.(type) {
	case bool:
		return strconv.FormatBool(x), true
	case int:
		return strconv.Itoa(x), true
	case float64:
		return strconv.FormatFloat(x, 'f', -1, 64), true
	case json.Number:
		return x.String(), true
	case string:
		if td != nil && td.Kind == "ENUM" {
			return x, true
		}
		return quote(x), true
	case map[string]interface{}:
		if d, ok := x["$dec"]; ok && len(x) == 1 {
			arr := d.([]interface{})
			m, e := toInt(arr[0]), toInt(arr[1])
			neg := m < 0
			if neg {
				m = -m
			}
			ds := strconv.Itoa(m)
			for len(ds) < e+1 {
				ds = "0" + ds
			}
			out := ds[:len(ds)-e] + "." + ds[len(ds)-e:]
			if neg {
				out = "-" + out
			}
			return out, true
		}
		if td == nil || td.Kind != "INPUT_OBJECT" {
			return "", false
		}
		keys := make([]string, 0, len(x))
		for k := range x {
			keys = append(keys, k)
		}
		sort.Strings(keys)
		var parts []string
		for _, k := range keys {
			if x[k] == nil {
				continue
			}
			var fe *gq.TypeExpr
			for _, f := range td.InputFields {
				if f.Name == k {
					fe, _ = gq.ParseType(f.Type)
				}
			}
			if fe == nil {
				return "", false
			}
			p, ok := renderLit(s, fe, x[k])
			if !ok {
				return "", false
			}
			parts = append(parts, k+": "+p)
		}
		return "{" + strings.Join(parts, ", ") + "}", true
	}
	return "", false
}

func toInt(v interface{}) int {
	switch x := v.(type) {
	case int:
		return x
	case float64:
		return int(x)
	case json.Number:
		i, _ := x.Int64()
		return int(i)
	}
	return 0
}

func parseLiteral(text string) (ast.Value, error) {
	doc, err := parser.Parse(parser.ParseParams{Source: "{ f(a: " + text + ") }"})
	if err != nil {
		return nil, err
	}
	op := doc.Definitions[0].(*ast.OperationDefinition)
	f := op.SelectionSet.Selections[0].(*ast.Field)
	if len(f.Arguments) != 1 {
		return nil, fmt.Errorf("unexpected argument count")
	}
	return f.Arguments[0].Value, nil
}

// ---------------------------------------------------------------- number mode

// jsonNumbers converts every int to float64, as encoding/json delivers request variables.
func jsonNumbers(v interface{}) interface{} {
	switch x := v.(type) {
	case int:
		return float64(x)
	case []interface{}:
		out := make([]interface{}, len(x))
		for i, e := range x {
			out[i] = jsonNumbers(e)
		}
		return out
	case map[string]interface{}:
		out := map[string]interface{}{}
		for k, e := range x {
			out[k] = jsonNumbers(e)
		}
		return out
	}
	return v
}

// exoticNils replaces the nils of a value by other nullish Go values the public API can carry in VariableValues
// (isNullish: NaN, typed nil pointers); the library must treat all of them like null. The walk is directed by the
// declared type and stops at leaf types, so that a wrong-kind composite given to String/ID (stringified with %v,
// implementation-defined) keeps its plain nils.
func exoticNils(s *gq.SchemaDesc, te *gq.TypeExpr, v interface{}, n *int) interface{} {
	if v == nil {
		*n++
		switch *n % 4 {
		case 0:
			return nil
		case 1:
			return math.NaN()
		case 2:
			return (*int)(nil)
		}
		return (*string)(nil)
	}
	if te == nil {
		return v
	}
	switch te.Kind {
	case "nonNull":
		return exoticNils(s, te.Of, v, n)
	case "list":
		if xs, ok := v.([]interface{}); ok {
			out := make([]interface{}, len(xs))
			for i, e := range xs {
				out[i] = exoticNils(s, te.Of, e, n)
			}
			return out
		}
		return exoticNils(s, te.Of, v, n)
	}
	td := s.Type(te.Name)
	m, ok := v.(map[string]interface{})
	if td == nil || td.Kind != "INPUT_OBJECT" || !ok {
		return v
	}
	out := map[string]interface{}{}
	keys := make([]string, 0, len(m))
	for k := range m {
		keys = append(keys, k)
	}
	sort.Strings(keys)
	for _, k := range keys {
		var fe *gq.TypeExpr
		for _, f := range td.InputFields {
			if f.Name == k {
				fe, _ = gq.ParseType(f.Type)
			}
		}
		out[k] = exoticNils(s, fe, m[k], n)
	}
	return out
}

// fromWireBig is gq.FromWire plus integral json.Numbers beyond int64 (-> float64, as encoding/json would deliver them)
func fromWireBig(v interface{}) interface{} {
	switch x := v.(type) {
	case json.Number:
		if _, err := x.Int64(); err != nil {
			f, _ := strconv.ParseFloat(x.String(), 64)
			return f
		}
	case []interface{}:
		out := make([]interface{}, len(x))
		for i, e := range x {
			out[i] = fromWireBig(e)
		}
		return out
	case map[string]interface{}:
		if _, ok := x["$dec"]; !ok {
			out := map[string]interface{}{}
			for k, e := range x {
				out[k] = fromWireBig(e)
			}
			return out
		}
	}
	return gq.FromWire(v)
}

// mode: "int" | "json" (all numbers as float64), optionally followed by "+nil" (nulls as exotic nullish Go values)
// and/or "+ts" (lists as typed Go slices, see goValueT)
func goValue(wire interface{}, mode string) interface{} {
	v := fromWireBig(wire)
	if strings.HasPrefix(mode, "json") {
		v = jsonNumbers(v)
	}
	return v
}

// typedSlicesMade counts the lists handed to the library as typed Go slices so far (mode "+ts")
var typedSlicesMade int

// goValueT additionally applies the "+nil" mode and the "+ts" mode (gq.SliceTyper: lists at list-typed positions as
// typed Go slices []string, []int, [][]int, []map[string]interface{}, … as a Go caller builds them; same logical
// value, so the model's input is unchanged), both directed by the declared type
func goValueT(s *gq.SchemaDesc, typ string, wire interface{}, mode string) interface{} {
	v := goValue(wire, mode)
	if strings.Contains(mode, "+nil") {
		te, _ := gq.ParseType(typ)
		n := 0
		v = exoticNils(s, te, v, &n)
	}
	if strings.Contains(mode, "+ts") {
		te, _ := gq.ParseType(typ)
		st := &gq.SliceTyper{S: s}
		v = st.Typed(te, v)
		typedSlicesMade += st.Made
	}
	return v
}

// goInputs converts the variable assignment of a document, typed by its variable definitions
func goInputs(s *gq.SchemaDesc, doc *ast.Document, wire map[string]interface{}, mode string) map[string]interface{} {
	types := map[string]string{}
	for _, d := range doc.Definitions {
		if op, ok := d.(*ast.OperationDefinition); ok {
			for _, vd := range op.VariableDefinitions {
				if vd != nil && vd.Variable != nil && vd.Variable.Name != nil && vd.Type != nil {
					types[vd.Variable.Name.Value] = typeText(vd.Type)
				}
			}
		}
	}
	out := map[string]interface{}{}
	for k, v := range wire {
		out[k] = goValueT(s, types[k], v, mode)
	}
	return out
}

func goVars(wire map[string]interface{}, mode string) map[string]interface{} {
	out := map[string]interface{}{}
	for k, v := range wire {
		out[k] = goValue(v, mode)
	}
	return out
}

// ---------------------------------------------------------------- cases

type pointCase struct {
	Kind     string                 `json:"kind"` // "point"
	Schema   *gq.SchemaDesc         `json:"schema"`
	Type     string                 `json:"type"`
	HasValue bool                   `json:"hasValue"`
	Value    interface{}            `json:"value"`
	HasLit   bool                   `json:"hasLit"`
	LitText  string                 `json:"litText"` // "" = nil ast.Value
	Vars     map[string]interface{} `json:"vars"`
	NumMode  string                 `json:"numMode"`
}

type execCase struct {
	Kind    string                 `json:"kind"` // "exec"
	Schema  *gq.SchemaDesc         `json:"schema"`
	Query   string                 `json:"query"`
	Inputs  map[string]interface{} `json:"inputs"`
	NumMode string                 `json:"numMode"`
	// entry point / repetition: "" = field of the query root; "list" = field of the items of Q.items (3 invocations of the
	// same planned field); "subscription" = field of the subscription root (Subscribe resolver, then Resolve per event)
	Under string `json:"under,omitempty"`
	// a second variable assignment, executed on the SAME plan (PlanQuery once, ExecutePlan per assignment)
	Inputs2 map[string]interface{} `json:"inputs2,omitempty"`
	// literal/variable agreement: the same conformant value once through a variable (Query/Inputs), once inline
	LitQuery string `json:"litQuery,omitempty"`
}

type specR struct {
	Ok  bool        `json:"ok"`
	Val interface{} `json:"val"`
	Err string      `json:"err"`
}

type pointResp struct {
	ValidInput    *bool       `json:"validInput"`
	Coerce        interface{} `json:"coerce"`
	Strict        *bool       `json:"strict"`
	SpecVar       *specR      `json:"specVar"`
	Conformant    *bool       `json:"conformant"`
	EmbedFromAST  interface{} `json:"embedFromAST"`
	EmbedValid    *bool       `json:"embedValid"`
	ValidLit      *bool       `json:"validLit"`
	FromAST       interface{} `json:"fromAST"`
	SpecLit       *specR      `json:"specLit"`
	VarsProvided  *bool       `json:"varsProvided"`
	HasVars       *bool       `json:"hasVars"`
	FromASTNoVars interface{} `json:"fromASTNoVars"`
}

type execResp struct {
	StrictInputs  bool   `json:"strictInputs"`
	DefaultsValid bool   `json:"defaultsValid"`
	SpecVars      *specR `json:"specVars"`
	Vars          *specR `json:"vars"`
	Args          interface{}
	Planned       interface{}
	Static        bool   `json:"static"`
	SpecArgs      *specR `json:"specArgs"`
	LitsValid     bool   `json:"litsValid"`
	VarsProvided  bool   `json:"varsProvided"`
}

// Numbers of magnitude >= 2^53 are compared as float64 values (the Float type IS an IEEE double: 2^53+1 and 2^53 are
// the same Float): both sides are rendered as "≈f64:<shortest decimal of the double>". Smaller numbers stay exact.
const two53 = 9007199254740992

func f64Marker(x float64) interface{} { return "≈f64:" + strconv.FormatFloat(x, 'g', -1, 64) }

// toWireG renders a Go value produced by the library (gq.ToWire for everything but big floats / ints)
func toWireG(v interface{}) interface{} {
	switch x := v.(type) {
	case float64:
		if x == math.Trunc(x) && !math.IsInf(x, 0) && math.Abs(x) >= 1e15 {
			if math.Abs(x) < two53 {
				return int(x)
			}
			return f64Marker(x)
		}
	case int:
		if x >= two53 || x <= -two53 {
			return f64Marker(float64(x))
		}
	case []interface{}:
		out := make([]interface{}, len(x))
		for i, e := range x {
			out[i] = toWireG(e)
		}
		return out
	case map[string]interface{}:
		out := map[string]interface{}{}
		for k, e := range x {
			out[k] = toWireG(e)
		}
		return out
	}
	return gq.ToWire(v)
}

// canonBig applies the same rendering to a wire value decoded from the model's answer (json.Number aware)
func canonBig(v interface{}) interface{} {
	switch x := v.(type) {
	case json.Number:
		if i, err := x.Int64(); err == nil && i < two53 && i > -two53 {
			return x
		}
		if strings.ContainsAny(x.String(), ".eE") {
			return x
		}
		f, _ := strconv.ParseFloat(x.String(), 64)
		return f64Marker(f)
	case []interface{}:
		out := make([]interface{}, len(x))
		for i, e := range x {
			out[i] = canonBig(e)
		}
		return out
	case map[string]interface{}:
		out := map[string]interface{}{}
		for k, e := range x {
			out[k] = canonBig(e)
		}
		return out
	}
	return v
}

func canonGo(v interface{}) string { return hx.Canon(toWireG(v)) }
func canonM(v interface{}) string  { return hx.Canon(canonBig(v)) }

// baseHooks satisfies NewSchema's demand for ResolveType / IsTypeOf functions on the generated abstract types.
func baseHooks() gq.Hooks {
	return gq.Hooks{
		ResolveType: func(abstractName string, objects map[string]*graphql.Object) graphql.ResolveTypeFn {
			return func(p graphql.ResolveTypeParams) *graphql.Object { return nil }
		},
		IsTypeOf: func(objName string) graphql.IsTypeOfFn {
			return func(p graphql.IsTypeOfParams) bool { return false }
		},
	}
}

type harness struct {
	run *hx.Run
	drv *hx.Driver
}

func guard(f func()) (panicked interface{}) {
	defer func() {
		if r := recover(); r != nil {
			panicked = fmt.Sprint(r)
		}
	}()
	f()
	return nil
}

func (h *harness) point(c pointCase, tags map[string]bool) {
	run := h.run
	b, err := gq.Build(c.Schema, baseHooks())
	if err != nil {
		run.CheckError("schema does not build: " + err.Error())
		return
	}
	h.pointWith(c, b, tags)
}

func (h *harness) pointWith(c pointCase, b *gq.Built, tags map[string]bool) {
	run := h.run
	te, err := gq.ParseType(c.Type)
	if err != nil {
		run.CheckError(err.Error())
		return
	}
	typ, _ := resolveType(b, c.Schema, te).(graphql.Input)
	if typ == nil {
		run.CheckError("type " + c.Type + " is not an input type of the schema")
		return
	}
	req := map[string]interface{}{"op": "point", "schema": c.Schema, "type": c.Type}
	real := map[string]interface{}{}
	var lit ast.Value
	if c.HasValue {
		req["value"] = c.Value
	}
	if c.HasLit {
		if c.LitText != "" {
			lit, err = parseLiteral(c.LitText)
			if err != nil {
				run.Tag("literal-text-rejected-by-parser")
				return
			}
			req["literal"] = astjson.Value(lit)
		} else {
			req["literal"] = nil
		}
		req["vars"] = c.Vars
	}
	var m pointResp
	if err := h.drv.Ask(req, &m); err != nil {
		run.CheckError(err.Error())
		return
	}
	fail := func(note string) {
		run.Violation(note, map[string]interface{}{"case": c, "real": real, "model": m}, false)
	}
	nontrivial := false
	if c.HasValue {
		tsBefore := typedSlicesMade
		gv := goValueT(c.Schema, c.Type, c.Value, c.NumMode)
		if typedSlicesMade > tsBefore {
			run.Tag("typedSliceVars")
			run.Tag("typedSliceVars:pointwise")
		}
		var gValid bool
		var gCoerced interface{}
		if p := guard(func() {
			gValid, _ = graphql.VerifIsValidInputValue(gv, typ)
			gCoerced = graphql.VerifCoerceValue(typ, gv)
		}); p != nil {
			real["panic"] = p
			fail("isValidInputValue / coerceValue panicked")
			return
		}
		real["validInput"], real["coerce"] = gValid, toWireG(gCoerced)
		if m.ValidInput == nil || m.Strict == nil || m.SpecVar == nil || m.Conformant == nil {
			run.CheckError("driver answer lacks the value part")
			return
		}
		nontrivial = c.Value != nil
		run.Tag(fmt.Sprintf("value:valid=%v,strict=%v", gValid, *m.Strict))
		if gValid != *m.ValidInput {
			fail(fmt.Sprintf("isValidInputValue: real %v, model %v", gValid, *m.ValidInput))
			return
		}
		if canonGo(gCoerced) != canonM(m.Coerce) {
			fail("coerceValue: real result differs from the model")
			return
		}
		if *m.Strict {
			// S applies: the library must accept exactly what the spec coerces, with the spec's result
			if gValid != m.SpecVar.Ok {
				fail(fmt.Sprintf("strictly typed value: isValidInputValue says %v but the specification's input coercion says ok=%v (%s)", gValid, m.SpecVar.Ok, m.SpecVar.Err))
				return
			}
			if gValid && canonGo(gCoerced) != canonM(m.SpecVar.Val) {
				fail("strictly typed valid value: coerceValue differs from the specification's input coercion")
				return
			}
		}
		if *m.Conformant {
			run.Tag("value:conformant")
			// literal/variable agreement on the real code
			text, ok := renderLit(c.Schema, te, c.Value)
			var glit ast.Value
			if ok {
				glit, err = parseLiteral(text)
				if err != nil {
					run.CheckError("rendered literal does not parse: " + text)
					return
				}
			} else if c.Value != nil {
				run.CheckError("conformant value has no literal rendering: " + hx.Canon(c.Value))
				return
			}
			var gFrom interface{}
			var gLitValid bool
			if p := guard(func() {
				gFrom = graphql.VerifValueFromAST(glit, typ, nil)
				gLitValid, _ = graphql.VerifIsValidLiteralValue(typ, glit)
			}); p != nil {
				real["panic"] = p
				fail("valueFromAST panicked on the literal form of a conformant value")
				return
			}
			real["literalText"], real["literalFromAST"] = text, toWireG(gFrom)
			if !gValid {
				fail("a conformant value is rejected by isValidInputValue")
				return
			}
			if canonGo(gFrom) != canonGo(gCoerced) {
				fail("literal_variable_agree: the literal form of a conformant value evaluates (valueFromAST) to something else than the value coerces to (coerceValue)")
				return
			}
			if canonGo(gFrom) != canonM(m.EmbedFromAST) {
				fail("valueFromAST on the literal form differs from the model's valueFromAST (embed v)")
				return
			}
			if c.Value != nil && !gLitValid {
				fail("the literal form of a conformant value is rejected by isValidLiteralValue")
				return
			}
		}
	}
	if c.HasLit {
		gvars := goVars(c.Vars, "int")
		var gValid bool
		var gFrom, gFromNil interface{}
		if p := guard(func() {
			gValid, _ = graphql.VerifIsValidLiteralValue(typ, lit)
			gFrom = graphql.VerifValueFromAST(lit, typ, gvars)
			gFromNil = graphql.VerifValueFromAST(lit, typ, nil)
		}); p != nil {
			real["panic"] = p
			fail("isValidLiteralValue / valueFromAST panicked")
			return
		}
		real["validLit"], real["fromAST"], real["fromASTNilVars"] = gValid, toWireG(gFrom), toWireG(gFromNil)
		if m.ValidLit == nil || m.SpecLit == nil || m.VarsProvided == nil || m.HasVars == nil {
			run.CheckError("driver answer lacks the literal part")
			return
		}
		nontrivial = nontrivial || c.LitText != ""
		run.Tag(fmt.Sprintf("literal:valid=%v,hasVars=%v,varsProvided=%v", gValid, *m.HasVars, *m.VarsProvided))
		if gValid != *m.ValidLit {
			fail(fmt.Sprintf("isValidLiteralValue: real %v, model %v", gValid, *m.ValidLit))
			return
		}
		if canonGo(gFrom) != canonM(m.FromAST) {
			fail("valueFromAST: real result differs from the model")
			return
		}
		if canonGo(gFromNil) != canonM(m.FromASTNoVars) {
			fail("valueFromAST with a nil variable map: real result differs from the model")
			return
		}
		if !*m.HasVars && canonGo(gFrom) != canonGo(gFromNil) {
			fail("static_args_eq_dynamic: a variable-free literal evaluates differently with and without a variable map")
			return
		}
		if *m.VarsProvided {
			if gValid != m.SpecLit.Ok {
				fail(fmt.Sprintf("isValidLiteralValue says %v but the specification's literal coercion says ok=%v (%s)", gValid, m.SpecLit.Ok, m.SpecLit.Err))
				return
			}
			if gValid && canonGo(gFrom) != canonM(m.SpecLit.Val) {
				fail("valid literal: valueFromAST differs from the specification's literal coercion")
				return
			}
		}
	}
	for t := range tags {
		run.Tag(t)
	}
	run.Tag("type-shape:" + shapeOf(te))
	run.Tag("named-kind:" + kindOf(c.Schema, te.NamedName()))
	run.Tag("numbers:" + c.NumMode)
	key := c.Type + "|" + hx.Canon(c.Value) + "|" + c.LitText + "|" + hx.Canon(c.Vars) + "|" + c.NumMode + "|" + hx.Canon(c.Schema.Type(te.NamedName()))
	run.Case(key, nontrivial, map[string]interface{}{"type": c.Type, "value": c.Value, "literal": c.LitText, "vars": c.Vars})
}

func shapeOf(te *gq.TypeExpr) string {
	s := ""
	for te.Kind != "named" {
		if te.Kind == "list" {
			s = "L" + s
		} else {
			s = "N" + s
		}
		te = te.Of
	}
	if s == "" {
		return "-"
	}
	return s
}

func kindOf(s *gq.SchemaDesc, name string) string {
	if td := s.Type(name); td != nil {
		if td.Kind == "SCALAR" {
			return "custom-scalar"
		}
		return td.Kind
	}
	return name
}

// ---------------------------------------------------------------- end to end

type recorded struct {
	calls    int           // Resolve invocations of the observed field
	args     interface{}   // first invocation
	vars     interface{}
	all      []interface{} // snapshot of p.Args at every invocation, taken before the resolver mutates it
	subCalls int           // Subscribe resolver
	subArgs  interface{}
	subVars  interface{}
}

func withField(s *gq.SchemaDesc, f gq.FieldDesc) *gq.SchemaDesc {
	c := *s
	c.Types = append([]gq.TypeDesc{}, s.Types...)
	for i := range c.Types {
		if c.Types[i].Name == c.Query {
			q := c.Types[i]
			q.Fields = append(append([]gq.FieldDesc{}, q.Fields...), f)
			c.Types[i] = q
		}
	}
	return &c
}

// mutateInPlace is what a careless resolver may do with what it received: overwrite scalars, add a key to every map,
// reverse every list — in place, at every depth. The next invocation must still receive the coerced value.
func mutateInPlace(v interface{}) {
	scalar := func(e interface{}) bool {
		switch e.(type) {
		case map[string]interface{}, []interface{}:
			return false
		}
		return true
	}
	switch x := v.(type) {
	case map[string]interface{}:
		for k, e := range x {
			mutateInPlace(e)
			if scalar(e) {
				x[k] = "MUTATED"
			}
		}
		x["__mutated"] = true
	case []interface{}:
		for i, e := range x {
			mutateInPlace(e)
			if scalar(e) {
				x[i] = "MUTATED"
			}
		}
		for i, j := 0, len(x)-1; i < j; i, j = i+1, j-1 {
			x[i], x[j] = x[j], x[i]
		}
	}
}

// cfParent: the object type that carries the observed field `cf`
func cfParent(c execCase) string {
	switch c.Under {
	case "list":
		return "CItem"
	case "subscription":
		return "CSub"
	}
	return c.Schema.Query
}

func expectedCalls(c execCase) int {
	if c.Under == "list" {
		return 3
	}
	return 1
}

// schemaUnder places cf on the query root, on the item type of the list field Q.items, or on a subscription root.
func schemaUnder(s *gq.SchemaDesc, fd gq.FieldDesc, under string) *gq.SchemaDesc {
	switch under {
	case "list":
		c := *s
		c.Types = append(append([]gq.TypeDesc{}, s.Types...), gq.TypeDesc{Kind: "OBJECT", Name: "CItem", Fields: []gq.FieldDesc{fd}})
		return withField(&c, gq.FieldDesc{Name: "items", Type: "[CItem]"})
	case "subscription":
		c := *s
		c.Types = append(append([]gq.TypeDesc{}, s.Types...), gq.TypeDesc{Kind: "OBJECT", Name: "CSub", Fields: []gq.FieldDesc{fd}})
		name := "CSub"
		c.Subscription = &name
		return &c
	}
	return withField(s, fd)
}

// queryUnder rewrites `[query(…) ]{ cf(…) }` for the entry point
func queryUnder(q, under string) string {
	i := strings.Index(q, "{ cf")
	if q == "" || i < 0 {
		return q
	}
	head, sel := q[:i], q[i:]
	switch under {
	case "list":
		return head + "{ items " + sel + " }"
	case "subscription":
		return "subscription" + strings.TrimPrefix(head, "query") + " " + sel
	}
	return q
}

// buildRec builds the real schema with recording AND mutating resolvers for cf (Resolve, and Subscribe on a subscription root)
func (h *harness) buildRec(c execCase) (*gq.Built, *recorded) {
	rec := &recorded{}
	parent := cfParent(c)
	hooks := baseHooks()
	hooks.Resolve = func(typeName, fieldName string) graphql.FieldResolveFn {
		if typeName == parent && fieldName == "cf" {
			return func(p graphql.ResolveParams) (interface{}, error) {
				rec.calls++
				snap := toWireG(map[string]interface{}(p.Args))
				rec.all = append(rec.all, snap)
				if rec.calls == 1 {
					rec.args = snap
					rec.vars = toWireG(p.Info.VariableValues)
				}
				mutateInPlace(map[string]interface{}(p.Args))
				return "x", nil
			}
		}
		if typeName == c.Schema.Query && fieldName == "items" {
			return func(p graphql.ResolveParams) (interface{}, error) {
				return []interface{}{map[string]interface{}{}, map[string]interface{}{}, map[string]interface{}{}}, nil
			}
		}
		return nil
	}
	hooks.Subscribe = func(typeName, fieldName string) graphql.FieldResolveFn {
		if typeName == parent && fieldName == "cf" && c.Under == "subscription" {
			return func(p graphql.ResolveParams) (interface{}, error) {
				rec.subCalls++
				rec.subArgs = toWireG(map[string]interface{}(p.Args))
				rec.subVars = toWireG(p.Info.VariableValues)
				mutateInPlace(map[string]interface{}(p.Args))
				return map[string]interface{}{"event": 1}, nil
			}
		}
		return nil
	}
	b, err := gq.Build(c.Schema, hooks)
	if err != nil {
		h.run.CheckError("schema does not build: " + err.Error())
		return nil, nil
	}
	return b, rec
}

// request runs the document through the public entry point: graphql.Do, or graphql.Subscribe for a subscription
func request(c execCase, b *gq.Built, query string, vars map[string]interface{}) *graphql.Result {
	if c.Under == "subscription" {
		var first *graphql.Result
		for r := range graphql.Subscribe(graphql.Params{Schema: b.Schema, RequestString: query, VariableValues: vars}) {
			if first == nil {
				first = r
			}
		}
		return first
	}
	return graphql.Do(graphql.Params{Schema: b.Schema, RequestString: query, VariableValues: vars})
}

func (h *harness) doQuery(c execCase, query string) (rec *recorded, res *graphql.Result, valid bool, panicked interface{}) {
	b, rec := h.buildRec(c)
	if b == nil {
		return nil, nil, false, nil
	}
	doc, err := parser.Parse(parser.ParseParams{Source: query})
	if err != nil {
		return rec, nil, false, nil
	}
	panicked = guard(func() {
		valid = graphql.ValidateDocument(&b.Schema, doc, nil).IsValid
		res = request(c, b, query, goInputs(c.Schema, doc, c.Inputs, c.NumMode))
	})
	return rec, res, valid, panicked
}

// askExec asks the model for the outcome of the document under one variable assignment.
func (h *harness) askExec(c execCase, doc *ast.Document, inputs map[string]interface{}) (m execResp, raw map[string]interface{}, ok bool) {
	if err := h.drv.Ask(map[string]interface{}{"op": "exec", "schema": c.Schema, "doc": astjson.Document(doc), "inputs": inputs}, &raw); err != nil {
		h.run.CheckError(err.Error())
		return m, raw, false
	}
	bts, _ := json.Marshal(raw)
	dd := json.NewDecoder(strings.NewReader(string(bts)))
	dd.UseNumber()
	if err := dd.Decode(&m); err != nil {
		h.run.CheckError("cannot decode driver answer: " + err.Error())
		return m, raw, false
	}
	m.Args, m.Planned = raw["args"], raw["planned"]
	return m, raw, m.Vars != nil && m.SpecVars != nil
}

// checkInvocations: every invocation of the observed field received the model's argument map (and S's where it applies)
func checkInvocations(c execCase, rec *recorded, m execResp, checkVars bool, fail func(string)) bool {
	if rec.calls != expectedCalls(c) {
		fail(fmt.Sprintf("variables coercible (model) but the resolver ran %d times, expected %d", rec.calls, expectedCalls(c)))
		return false
	}
	if checkVars && hx.Canon(rec.vars) != canonM(m.Vars.Val) {
		fail("Info.VariableValues differs from the model's getVariableValues")
		return false
	}
	for i, snap := range rec.all {
		if hx.Canon(snap) != canonM(m.Args) {
			if i == 0 {
				fail("p.Args differs from the model's getArgumentValues")
			} else {
				fail(fmt.Sprintf("invocation #%d of the same field received different arguments than the model's getArgumentValues (an earlier invocation changed what it received in place: coerced argument values are shared between invocations)", i+1))
			}
			return false
		}
	}
	if m.LitsValid && m.VarsProvided && m.SpecArgs != nil && m.SpecArgs.Ok && hx.Canon(rec.args) != canonM(m.SpecArgs.Val) {
		fail("p.Args differs from the specification's CoerceArgumentValues")
		return false
	}
	return true
}

func mergeArgs(a, b map[string]interface{}) map[string]interface{} {
	out := map[string]interface{}{}
	for k, v := range a {
		out[k] = v
	}
	for k, v := range b {
		out[k] = v
	}
	return out
}

// planTwice plans the (valid) document once and executes the SAME plan under several variable assignments (and serves it
// through a PlanCache, plain and normalising, miss then hit); every invocation must receive the model's
// getArgumentValues for that assignment although the resolvers mutate what they receive.
func (h *harness) planTwice(c execCase, doc *ast.Document) {
	run := h.run
	b, rec := h.buildRec(c)
	if b == nil {
		return
	}
	var plan *graphql.Plan
	var err error
	if p := guard(func() { plan, err = graphql.PlanQuery(&b.Schema, doc, "") }); p != nil || err != nil || plan == nil {
		run.Violation("PlanQuery failed or panicked on a valid document", map[string]interface{}{"case": c, "panic": p, "error": fmt.Sprint(err)}, false)
		return
	}
	run.Tag("exec:one-plan-several-assignments")
	second := c.Inputs2
	if second == nil {
		second = c.Inputs
	}
	var m0 execResp
	var raw0 map[string]interface{}
	for i, inputs := range []map[string]interface{}{c.Inputs, second, c.Inputs} {
		*rec = recorded{}
		var res *graphql.Result
		pan := guard(func() {
			res = graphql.ExecutePlan(plan, graphql.ExecuteParams{Schema: b.Schema, AST: doc, Args: goInputs(c.Schema, doc, inputs, c.NumMode)})
		})
		m, raw, ok := h.askExec(c, doc, inputs)
		if !ok {
			return
		}
		if i == 0 {
			m0, raw0 = m, raw
		}
		real := map[string]interface{}{"execution": i, "inputs": inputs, "calls": rec.calls, "invocations": rec.all, "variableValues": rec.vars, "panic": pan}
		if res != nil {
			real["dataIsNil"], real["errors"] = res.Data == nil, len(res.Errors)
		}
		fail := func(note string) {
			run.Violation(fmt.Sprintf("same plan, execution #%d: %s", i+1, note), map[string]interface{}{"case": c, "real": real, "model": raw}, false)
		}
		if pan != nil || res == nil {
			fail("ExecutePlan panicked")
			return
		}
		if !m.Vars.Ok {
			if res.Data != nil || len(res.Errors) < 1 || rec.calls != 0 {
				fail("uncoercible variables (model): expected no data, at least one error and no resolver call")
				return
			}
			continue
		}
		if !checkInvocations(c, rec, m, true, fail) {
			return
		}
	}
	if !m0.Vars.Ok || (len(c.Query)+len(c.Inputs))%2 == 1 {
		return // the plan-cache path is exercised for every second document
	}
	for _, norm := range []bool{false, true} {
		pc := graphql.NewPlanCache(graphql.PlanCacheOptions{Normalize: norm})
		for round := 0; round < 2; round++ {
			*rec = recorded{}
			var res *graphql.Result
			var pr graphql.PlanResult
			pan := guard(func() {
				pr = pc.Get(&b.Schema, c.Query, "")
				if pr.Plan != nil {
					res = graphql.ExecutePlan(pr.Plan, graphql.ExecuteParams{Schema: b.Schema, Args: mergeArgs(goInputs(c.Schema, doc, c.Inputs, c.NumMode), pr.SynthArgs)})
				}
			})
			real := map[string]interface{}{"planCache": map[string]interface{}{"normalize": norm, "round": round}, "calls": rec.calls, "invocations": rec.all, "panic": pan}
			fail := func(note string) {
				run.Violation(fmt.Sprintf("plan cache (normalize=%v, %s): %s", norm, []string{"miss", "hit"}[round], note), map[string]interface{}{"case": c, "real": real, "model": raw0}, false)
			}
			if pan != nil || pr.Plan == nil || res == nil {
				fail("PlanCache.Get gave no plan for a valid document, or execution panicked")
				return
			}
			run.Tag("exec:through-plan-cache")
			if !checkInvocations(c, rec, m0, !norm, fail) {
				return
			}
		}
	}
}

func (h *harness) exec(c execCase, tags map[string]bool) {
	run := h.run
	doc, err := parser.Parse(parser.ParseParams{Source: c.Query})
	if err != nil {
		run.Tag("exec:query-text-rejected-by-parser")
		return
	}
	tsBefore := typedSlicesMade
	rec, res, valid, pan := h.doQuery(c, c.Query)
	if rec == nil {
		return
	}
	if typedSlicesMade > tsBefore {
		run.Tag("typedSliceVars")
		run.Tag("typedSliceVars:end-to-end")
	}
	m, raw, okM := h.askExec(c, doc, c.Inputs)
	if raw == nil {
		return
	}
	real := map[string]interface{}{"valid": valid, "calls": rec.calls, "invocations": rec.all, "variableValues": rec.vars,
		"subscribeCalls": rec.subCalls, "subscribeArgs": rec.subArgs, "subscribeVariableValues": rec.subVars}
	if res != nil {
		real["dataIsNil"] = res.Data == nil
		real["errors"] = len(res.Errors)
		if len(res.Errors) > 0 {
			real["firstError"] = res.Errors[0].Message
		}
	}
	fail := func(note string) {
		run.Violation(note, map[string]interface{}{"case": c, "real": real, "model": raw}, false)
	}
	for t := range tags {
		run.Tag(t)
	}
	run.Tag("numbers:" + c.NumMode)
	run.Tag("exec:entry=" + map[string]string{"": "query-root", "list": "list-parent-3-invocations", "subscription": "subscription"}[c.Under])
	pf := c.Schema.Type(cfParent(c)).Fields
	key := c.Query + "|" + hx.Canon(c.Inputs) + "|" + c.NumMode + "|" + hx.Canon(pf[len(pf)-1])
	if pan != nil {
		real["panic"] = pan
		fail("the request panicked")
		return
	}
	if !valid {
		run.Tag("exec:document-invalid")
		run.Case(key, false, nil)
		if rec.calls != 0 || rec.subCalls != 0 {
			fail("a resolver ran although validation rejected the document")
		}
		return
	}
	if !okM {
		run.CheckError("driver answer lacks vars")
		return
	}
	if c.Inputs2 != nil || len(c.Query)%3 == 0 {
		h.planTwice(c, doc) // always with a second assignment; every third document otherwise (same assignment three times)
		if run.TooManyViolations() {
			return
		}
	}
	// the document is valid: the validation rules and isValidLiteralValue must agree on the literals
	if !m.DefaultsValid {
		fail("validation accepted a variable default that isValidLiteralValue (model) rejects")
		return
	}
	if !m.Vars.Ok {
		run.Tag("exec:variables-uncoercible")
		run.Case(key, true, map[string]interface{}{"query": c.Query, "inputs": c.Inputs, "outcome": "variable error"})
		if res == nil || res.Data != nil || len(res.Errors) < 1 || rec.calls != 0 || rec.subCalls != 0 {
			fail("uncoercible variables (model): expected no data, at least one error and no resolver call")
			return
		}
		if m.StrictInputs && m.SpecVars.Ok {
			fail("strictly typed inputs: the request is refused although the specification coerces every variable")
		}
		return
	}
	run.Tag("exec:executed")
	if typedSlicesMade > tsBefore {
		run.Tag("typedSliceVars:executed")
	}
	run.Case(key, true, map[string]interface{}{"query": c.Query, "inputs": c.Inputs, "args": rec.args})
	if m.StrictInputs && !m.SpecVars.Ok {
		fail("strictly typed inputs: the request is executed although the specification refuses a variable: " + m.SpecVars.Err)
		return
	}
	if c.Under == "subscription" {
		// the Subscribe resolver is a resolver too: same arguments, same variable values
		if rec.subCalls != 1 {
			fail(fmt.Sprintf("the Subscribe resolver ran %d times, expected 1 (errors: %v)", rec.subCalls, real["firstError"]))
			return
		}
		if hx.Canon(rec.subArgs) != canonM(m.Args) {
			fail("the Subscribe resolver's p.Args differs from the model's getArgumentValues")
			return
		}
		if hx.Canon(rec.subVars) != canonM(m.Vars.Val) {
			fail("the Subscribe resolver's Info.VariableValues differs from the model's getVariableValues")
			return
		}
	}
	if !checkInvocations(c, rec, m, true, fail) {
		return
	}
	if m.StrictInputs && hx.Canon(rec.vars) != canonM(m.SpecVars.Val) {
		fail("strictly typed inputs: Info.VariableValues differs from the specification's CoerceVariableValues")
		return
	}
	if canonM(m.Planned) != canonM(m.Args) {
		run.Violation("model: plannedArgs differs from getArgumentValues (theorem planned_args_eq contradicted: model/driver fault)", map[string]interface{}{"case": c, "model": raw}, true)
		return
	}
	if !m.LitsValid {
		fail("validation accepted an argument literal (or a missing required argument) that isValidLiteralValue (model) rejects")
		return
	}
	if m.VarsProvided {
		if m.SpecArgs == nil || !m.SpecArgs.Ok {
			fail("valid literals and provided variables, but the specification's argument coercion fails")
			return
		}
	} else {
		run.Tag("exec:non-null-position-variable-without-value")
	}
	if c.LitQuery != "" {
		rec2, _, valid2, pan2 := h.doQuery(c, c.LitQuery)
		real["literalQueryArgs"], real["literalQueryValid"] = rec2.args, valid2
		if pan2 != nil {
			fail("the request panicked on the inline-literal form")
			return
		}
		run.Tag("exec:literal-vs-variable")
		if !valid2 || rec2.calls != expectedCalls(c) {
			fail("the inline-literal form of a conformant variable value is not executed")
			return
		}
		if hx.Canon(rec2.args) != hx.Canon(rec.args) {
			fail("literal_variable_agree (end to end): the same conformant value gives the resolver different arguments as a variable and as an inline literal")
			return
		}
		if c.Under == "subscription" && hx.Canon(rec2.subArgs) != hx.Canon(rec.subArgs) {
			fail("literal_variable_agree (Subscribe resolver): the same conformant value gives different arguments as a variable and as an inline literal")
		}
	}
}

// ---------------------------------------------------------------- generation of cases

func (h *harness) genPoint(r *hx.Rng, s *gq.SchemaDesc, idx int) (pointCase, map[string]bool) {
	names := inputNames(s)
	named := names[(idx/len(shapes))%len(names)]
	if r.Chance(1, 3) {
		named = r.Pick([]string{"XA", "XB", "XE", "Odd"})
	}
	typ := applyShape(named, shapes[idx%len(shapes)])
	te, _ := gq.ParseType(typ)
	tags := map[string]bool{}
	c := pointCase{Kind: "point", Schema: s, Type: typ, NumMode: "int"}
	if r.Chance(1, 5) {
		c.NumMode = "json"
	}
	if r.Chance(1, 2) {
		g := &vgen{r: r, s: s, mut: []int{0, 1, 3}[r.Intn(3)], tags: tags}
		if s.Type(named) == nil && r.Chance(1, 2) {
			g.mut = 8 // built-in scalars: deviate at the leaf half of the time (wrong kind, range, numeric strings …)
		}
		c.HasValue = true
		c.Value = g.val(te, r.Range(0, 3), true)
		if r.Chance(1, 6) {
			c.NumMode += "+nil"
		}
		if idx%5 == 1 || idx%5 == 3 {
			c.NumMode += "+ts" // lists as typed Go slices (chosen by index: the random stream of the case is untouched)
		}
	} else {
		g := &lgen{r: r, s: s, mut: []int{0, 1, 3}[r.Intn(3)], varP: []int{0, 0, 2}[r.Intn(3)], tags: tags}
		c.HasLit = true
		c.NumMode = "int"
		if r.Chance(1, 12) {
			c.LitText = "" // nil ast.Value
			tags["l:nil-literal"] = true
		} else {
			c.LitText = g.lit(te, r.Range(0, 3), true)
		}
		c.Vars = map[string]interface{}{}
		for _, u := range g.uses {
			ute, _ := gq.ParseType(u.Type)
			switch r.Intn(4) {
			case 0: // absent
			case 1:
				c.Vars[u.Name] = nil
			default:
				vg := &vgen{r: r, s: s}
				c.Vars[u.Name] = vg.internal(ute, 1)
			}
		}
	}
	return c, tags
}

func litOrNothing(text string, name string) string {
	if text == "" {
		return ""
	}
	return name + ": " + text
}

// underEntry moves the observed field of a generated case to another entry point (list parent, subscription root)
func underEntry(c execCase, base *gq.SchemaDesc, under string) execCase {
	if under == "" {
		return c
	}
	qf := c.Schema.Type(c.Schema.Query).Fields
	fd := qf[len(qf)-1]
	c.Under = under
	c.Schema = schemaUnder(base, fd, under)
	c.Query = queryUnder(c.Query, under)
	c.LitQuery = queryUnder(c.LitQuery, under)
	return c
}

func (h *harness) genExec(r *hx.Rng, s *gq.SchemaDesc, idx int) (execCase, map[string]bool) {
	c, tags := h.genExec0(r, s, idx)
	if idx%5 == 1 || idx%5 == 3 {
		c.NumMode += "+ts" // list variables as typed Go slices
	}
	return underEntry(c, s, []string{"", "", "list", "list", "subscription"}[r.Intn(5)]), tags
}

func (h *harness) genExec0(r *hx.Rng, s *gq.SchemaDesc, idx int) (execCase, map[string]bool) {
	names := inputNames(s)
	named := names[r.Intn(len(names))]
	if r.Chance(1, 3) {
		named = r.Pick([]string{"XA", "XB", "XE", "Odd"})
	}
	typ := applyShape(named, shapes[idx%len(shapes)])
	te, _ := gq.ParseType(typ)
	tags := map[string]bool{}
	vg := &vgen{r: r, s: s}
	// field cf(a: T [= default], b: U [= default]): String
	a := gq.ArgDesc{Name: "a", Type: typ}
	if r.Chance(1, 3) {
		a.Default = vg.internal(te, 1)
		a.HasDef = a.Default != nil
		tags["exec:argument-default-present"] = true
	}
	bType := wrapType(r, r.Pick(leafNames(s)), 2)
	bte, _ := gq.ParseType(bType)
	bArg := gq.ArgDesc{Name: "b", Type: bType}
	if r.Chance(1, 2) {
		bArg.Default = vg.internal(bte, 1)
		bArg.HasDef = bArg.Default != nil
	}
	fd := gq.FieldDesc{Name: "cf", Type: "String", Args: []gq.ArgDesc{a, bArg}}
	c := execCase{Kind: "exec", Schema: withField(s, fd), NumMode: "int", Inputs: map[string]interface{}{}}
	if r.Chance(1, 5) {
		c.NumMode = "json"
	}
	if r.Chance(1, 6) {
		c.NumMode += "+nil"
	}
	// second argument: given as a literal, or left out (argument default or nothing)
	bText := ""
	if bte.Kind == "nonNull" || r.Chance(1, 2) {
		lg := &lgen{r: r, s: s, noVars: true}
		bText = litOrNothing(lg.lit(bte, 1, true), "b")
	} else {
		tags["exec:argument-omitted"] = true
	}
	join := func(parts ...string) string {
		var out []string
		for _, p := range parts {
			if p != "" {
				out = append(out, p)
			}
		}
		if len(out) == 0 {
			return ""
		}
		return "(" + strings.Join(out, ", ") + ")"
	}
	form := r.Intn(6)
	if form >= 4 {
		// argument literal that MIXES literal and variable parts: a valid literal tree in which the position number
		// idx (round-robin over all inner positions: first/middle/last field, every list index, nested) and
		// sometimes a second one are replaced by variables declared with the position's type
		tags["exec:form=mixed-literal"] = true
		mixedNamed := []string{"XM", "XM", "XA", "XB", "XM", r.Pick(leafNames(s))}[r.Intn(6)]
		mixedShape := shapes[idx%len(shapes)]
		if s.Type(mixedNamed) == nil || s.Type(mixedNamed).Kind != "INPUT_OBJECT" {
			if !strings.Contains(mixedShape, "L") {
				mixedShape = "L" + mixedShape
			}
		}
		typ = applyShape(mixedNamed, mixedShape)
		te, _ = gq.ParseType(typ)
		a = gq.ArgDesc{Name: "a", Type: typ}
		fd = gq.FieldDesc{Name: "cf", Type: "String", Args: []gq.ArgDesc{a, bArg}}
		c.Schema = withField(s, fd)
		lg := &lgen{r: r, s: s}
		root := lg.tree(te, r.Range(1, 2))
		var ps []lpos
		root.positions(nil, 0, 0, &ps)
		var decls []string
		c.Inputs2 = map[string]interface{}{}
		if len(ps) > 0 {
			chosen := []lpos{ps[(idx/len(shapes))%len(ps)]}
			if r.Chance(1, 3) {
				chosen = append(chosen, ps[r.Intn(len(ps))])
			}
			for k, p := range chosen {
				if p.node.kind == "var" || p.node.kind == "dead" || p.parent.kind == "dead" || p.parent.kind == "var" {
					continue
				}
				name := fmt.Sprintf("v%d", k)
				where := "middle"
				if p.index == 0 {
					where = "first"
				} else if p.index == len(p.parent.kids)-1 {
					where = "last"
				}
				if len(p.parent.kids) == 1 {
					where = "only"
				}
				tags[fmt.Sprintf("mixed:var-in-%s-%s", p.parent.kind, where)] = true
				tags[fmt.Sprintf("mixed:var-depth-%d", p.depth)] = true
				if p.parent.kind == "list" && p.node.kind == "obj" {
					tags["mixed:object-in-list-replaced"] = true
				}
				ute, _ := gq.ParseType(p.node.typ)
				var kill func(n *lnode)
				kill = func(n *lnode) {
					for _, k := range n.kids {
						k.kind = "dead"
						kill(k)
					}
				}
				kill(p.node)
				p.node.kind, p.node.text, p.node.kids = "var", "$"+name, nil
				dflt := ""
				if ute.Kind != "nonNull" && r.Chance(1, 6) {
					dl := &lgen{r: r, s: s, noVars: true}
					if d := dl.lit(ute, 1, true); d != "" {
						dflt = " = " + d
					}
				}
				decls = append(decls, fmt.Sprintf("$%s: %s%s", name, p.node.typ, dflt))
				for _, in := range []map[string]interface{}{c.Inputs, c.Inputs2} {
					g := &vgen{r: r, s: s}
					switch r.Intn(8) {
					case 0: // absent
					case 1:
						in[name] = nil
					default:
						in[name] = g.val(ute, 1, false)
					}
				}
			}
			// siblings of a replaced node that contain objects in lists / lists in objects
			for _, p := range ps {
				if p.node.kind == "list" && p.parent.kind == "obj" {
					tags["mixed:list-inside-object"] = true
				}
				if p.node.kind == "obj" && p.parent.kind == "list" {
					tags["mixed:object-inside-list"] = true
				}
			}
		}
		head := ""
		if len(decls) > 0 {
			head = "query(" + strings.Join(decls, ", ") + ") "
		}
		c.Query = fmt.Sprintf("%s{ cf%s }", head, join("a: "+root.render(), bText))
		return c, tags
	}
	switch form {
	case 0, 1: // whole argument through a variable
		tags["exec:form=variable"] = true
		g := &vgen{r: r, s: s, mut: []int{0, 0, 1, 3}[r.Intn(4)], tags: tags}
		varType := typ
		if te.Kind == "nonNull" && r.Chance(1, 4) {
			varType = te.Of.String() // nullable variable for a non-null position is rejected by validation unless it has a default
		}
		vte, _ := gq.ParseType(varType)
		dflt := ""
		if vte.Kind != "nonNull" && r.Chance(1, 3) {
			lg := &lgen{r: r, s: s, mut: []int{0, 0, 2}[r.Intn(3)], noVars: true}
			if d := lg.lit(vte, 1, true); d != "" {
				dflt = " = " + d
				tags["exec:variable-default-present"] = true
			}
		}
		switch r.Intn(5) {
		case 0:
			tags["exec:variable-absent"] = true
		case 1:
			tags["exec:variable-null"] = true
			c.Inputs["v"] = nil
		default:
			c.Inputs["v"] = g.val(vte, r.Range(0, 2), false)
		}
		c.Query = fmt.Sprintf("query($v: %s%s) { cf%s }", varType, dflt, join("a: $v", bText))
		if r.Chance(1, 2) {
			g2 := &vgen{r: r, s: s}
			c.Inputs2 = map[string]interface{}{}
			if !r.Chance(1, 6) {
				c.Inputs2["v"] = g2.val(vte, 1, false)
			}
		}
		if g.mut == 0 && c.Inputs["v"] != nil {
			if text, ok := renderLit(s, vte, c.Inputs["v"]); ok {
				c.LitQuery = fmt.Sprintf("{ cf%s }", join("a: "+text, bText)) // used only if the model calls the value conformant
			}
		}
	case 2: // inline literal
		tags["exec:form=literal"] = true
		lg := &lgen{r: r, s: s, mut: []int{0, 0, 1, 3}[r.Intn(4)], tags: tags, noVars: true}
		aText := ""
		if te.Kind == "nonNull" || !r.Chance(1, 6) {
			aText = litOrNothing(lg.lit(te, r.Range(0, 2), true), "a")
		}
		c.Query = fmt.Sprintf("{ cf%s }", join(aText, bText))
	default: // literal containing variables
		tags["exec:form=literal-with-variables"] = true
		lg := &lgen{r: r, s: s, mut: []int{0, 0, 1}[r.Intn(3)], varP: 3, tags: tags}
		aText := litOrNothing(lg.lit(te, r.Range(1, 2), true), "a")
		var decls []string
		for _, u := range lg.uses {
			ute, _ := gq.ParseType(u.Type)
			declType := u.Type
			dflt := ""
			if ute.Kind != "nonNull" && r.Chance(1, 4) {
				dl := &lgen{r: r, s: s, noVars: true}
				if d := dl.lit(ute, 1, true); d != "" {
					dflt = " = " + d
				}
			}
			decls = append(decls, fmt.Sprintf("$%s: %s%s", u.Name, declType, dflt))
			g := &vgen{r: r, s: s, mut: []int{0, 0, 2}[r.Intn(3)], tags: tags}
			switch r.Intn(4) {
			case 0:
			case 1:
				c.Inputs[u.Name] = nil
			default:
				c.Inputs[u.Name] = g.val(ute, 1, false)
			}
		}
		if len(lg.uses) > 0 {
			c.Inputs2 = map[string]interface{}{}
			for _, u := range lg.uses {
				ute, _ := gq.ParseType(u.Type)
				if !r.Chance(1, 6) {
					c.Inputs2[u.Name] = (&vgen{r: r, s: s}).val(ute, 1, false)
				}
			}
		}
		head := ""
		if len(decls) > 0 {
			head = "query(" + strings.Join(decls, ", ") + ") "
		}
		c.Query = fmt.Sprintf("%s{ cf%s }", head, join(aText, bText))
	}
	return c, tags
}

// conformantProbe asks the model whether the variable value of an exec case is conformant (then LitQuery applies).
func (h *harness) conformantProbe(c execCase) bool {
	doc, err := parser.Parse(parser.ParseParams{Source: c.Query})
	if err != nil {
		return false
	}
	op, ok := doc.Definitions[0].(*ast.OperationDefinition)
	if !ok || len(op.VariableDefinitions) != 1 {
		return false
	}
	var m pointResp
	req := map[string]interface{}{"op": "point", "schema": c.Schema, "type": typeText(op.VariableDefinitions[0].Type), "value": c.Inputs["v"]}
	if err := h.drv.Ask(req, &m); err != nil {
		h.run.CheckError(err.Error())
		return false
	}
	return m.Conformant != nil && *m.Conformant
}

func typeText(t ast.Type) string {
	switch x := t.(type) {
	case *ast.Named:
		return x.Name.Value
	case *ast.List:
		return "[" + typeText(x.Type) + "]"
	case *ast.NonNull:
		return typeText(x.Type) + "!"
	}
	return ""
}

// nonFiniteSweep enumerates the class "string that strconv.ParseFloat reads as NaN / ±Inf (and near misses)" for the
// numeric scalars at every nesting position: bare, list element, list-of-one, nested non-null list, input-object field,
// list field, nested object, object inside a list; pointwise (real vs M vs S) and end to end through a variable.
func (h *harness) nonFiniteSweep(s *gq.SchemaDesc) {
	nf := gq.TypeDesc{Kind: "INPUT_OBJECT", Name: "NF", InputFields: []gq.ArgDesc{{Name: "i", Type: "Int"}, {Name: "f", Type: "Float"},
		{Name: "li", Type: "[Int]"}, {Name: "lf", Type: "[Float!]"}, {Name: "n", Type: "NF"}, {Name: "ri", Type: "Int!"}}}
	s2 := *s
	s2.Types = append(append([]gq.TypeDesc{}, s.Types...), nf)
	b, err := gq.Build(&s2, baseHooks())
	if err != nil {
		h.run.CheckError("schema does not build: " + err.Error())
		return
	}
	type pos struct {
		typ string
		val func(x interface{}) interface{}
	}
	obj := func(k string, v interface{}) map[string]interface{} { return map[string]interface{}{"ri": 1, k: v} }
	for _, leaf := range []string{"Int", "Float"} {
		lf := map[string]string{"Int": "i", "Float": "f"}[leaf]
		ll := map[string]string{"Int": "li", "Float": "lf"}[leaf]
		positions := []pos{
			{leaf, func(x interface{}) interface{} { return x }},
			{leaf + "!", func(x interface{}) interface{} { return x }},
			{"[" + leaf + "]", func(x interface{}) interface{} { return []interface{}{1, x, 2} }},
			{"[" + leaf + "]", func(x interface{}) interface{} { return x }},
			{"[[" + leaf + "!]]", func(x interface{}) interface{} { return []interface{}{[]interface{}{x}} }},
			{"NF", func(x interface{}) interface{} { return obj(lf, x) }},
			{"NF", func(x interface{}) interface{} { return obj(ll, []interface{}{x}) }},
			{"NF!", func(x interface{}) interface{} { return obj("n", obj(lf, x)) }},
			{"[NF]", func(x interface{}) interface{} { return []interface{}{obj(lf, 3), obj(lf, x)} }},
			{"NF", func(x interface{}) interface{} { return map[string]interface{}{"ri": x} }},
		}
		for pi, p := range positions {
			for _, x := range nonFinite {
				tags := map[string]bool{"sweep:nonfinite-string-" + leaf: true, fmt.Sprintf("sweep:position-%d", pi): true}
				h.pointWith(pointCase{Kind: "point", Schema: &s2, Type: p.typ, HasValue: true, Value: p.val(x), NumMode: "int"}, b, tags)
				if h.run.TooManyViolations() {
					return
				}
			}
		}
		for i, x := range nonFinite {
			p := positions[i%len(positions)]
			ws := withField(&s2, gq.FieldDesc{Name: "cf", Type: "String", Args: []gq.ArgDesc{{Name: "a", Type: p.typ}}})
			h.exec(execCase{Kind: "exec", Schema: ws, Query: "query($v: " + p.typ + ") { cf(a: $v) }", NumMode: "int",
				Inputs: map[string]interface{}{"v": p.val(x)}}, map[string]bool{"sweep:nonfinite-string-e2e-" + leaf: true})
		}
	}
}

// bigFloatSweep enumerates the class "integer of large magnitude at a Float position" (2^53±1 … 2^64, 10^15 … 10^308,
// 2^1000, and their negatives) at every nesting position, as an inline literal (Int token read by Float.ParseLiteral)
// and as a JSON number through a variable (Go int where it fits, float64 otherwise, and all-float64), pointwise and end
// to end (variable value, variable default, inline literal, literal-vs-variable agreement).
func (h *harness) bigFloatSweep(s *gq.SchemaDesc) {
	nf := gq.TypeDesc{Kind: "INPUT_OBJECT", Name: "NF", InputFields: []gq.ArgDesc{{Name: "i", Type: "Int"}, {Name: "f", Type: "Float"},
		{Name: "li", Type: "[Int]"}, {Name: "lf", Type: "[Float!]"}, {Name: "n", Type: "NF"}, {Name: "ri", Type: "Int!"}}}
	s2 := *s
	s2.Types = append(append([]gq.TypeDesc{}, s.Types...), nf)
	b, err := gq.Build(&s2, baseHooks())
	if err != nil {
		h.run.CheckError("schema does not build: " + err.Error())
		return
	}
	type pos struct {
		typ string
		val func(x interface{}) interface{}
		lit func(x string) string
	}
	obj := func(k string, v interface{}) map[string]interface{} { return map[string]interface{}{"ri": 1, k: v} }
	positions := []pos{
		{"Float", func(x interface{}) interface{} { return x }, func(x string) string { return x }},
		{"Float!", func(x interface{}) interface{} { return x }, func(x string) string { return x }},
		{"[Float]", func(x interface{}) interface{} { return []interface{}{1, x, dec(25, 1)} }, func(x string) string { return "[1, " + x + ", 2.5]" }},
		{"[Float]", func(x interface{}) interface{} { return x }, func(x string) string { return x }},
		{"[[Float!]]", func(x interface{}) interface{} { return []interface{}{[]interface{}{x}} }, func(x string) string { return "[[" + x + "]]" }},
		{"NF", func(x interface{}) interface{} { return obj("f", x) }, func(x string) string { return "{ri: 1, f: " + x + "}" }},
		{"NF", func(x interface{}) interface{} { return obj("lf", []interface{}{x}) }, func(x string) string { return "{lf: [" + x + "], ri: 1}" }},
		{"NF!", func(x interface{}) interface{} { return obj("n", obj("f", x)) }, func(x string) string { return "{ri: 1, n: {ri: 1, f: " + x + "}}" }},
		{"[NF]", func(x interface{}) interface{} { return []interface{}{obj("f", 3), obj("f", x)} }, func(x string) string { return "[{ri: 1, f: 3}, {ri: 1, f: " + x + "}]" }},
	}
	for pi, p := range positions {
		for _, x := range bigInts {
			tags := map[string]bool{"sweep:big-int-at-Float": true, fmt.Sprintf("sweep:position-%d", pi): true}
			h.pointWith(pointCase{Kind: "point", Schema: &s2, Type: p.typ, HasLit: true, LitText: p.lit(x), Vars: map[string]interface{}{}, NumMode: "int"}, b, tags)
			// JSON mode: the client's number is a double already — give both sides the double's exact integer
			f, _ := strconv.ParseFloat(x, 64)
			exact, _ := new(big.Float).SetFloat64(f).Int(nil)
			h.pointWith(pointCase{Kind: "point", Schema: &s2, Type: p.typ, HasValue: true, Value: p.val(json.Number(x)), NumMode: "int"}, b, tags)
			h.pointWith(pointCase{Kind: "point", Schema: &s2, Type: p.typ, HasValue: true, Value: p.val(json.Number(exact.String())), NumMode: "json"}, b, tags)
			if h.run.TooManyViolations() {
				return
			}
		}
	}
	for i, x := range bigInts {
		p := positions[i%len(positions)]
		ws := withField(&s2, gq.FieldDesc{Name: "cf", Type: "String", Args: []gq.ArgDesc{{Name: "a", Type: p.typ}}})
		tags := map[string]bool{"sweep:big-int-at-Float-e2e": true}
		h.exec(execCase{Kind: "exec", Schema: ws, Query: "query($v: " + p.typ + ") { cf(a: $v) }", LitQuery: "{ cf(a: " + p.lit(x) + ") }", NumMode: "int",
			Inputs: map[string]interface{}{"v": p.val(json.Number(x))}, Inputs2: map[string]interface{}{"v": p.val(3)}}, tags)
		h.exec(execCase{Kind: "exec", Schema: ws, Query: "{ cf(a: " + p.lit(x) + ") }", NumMode: "int", Inputs: map[string]interface{}{}}, tags)
		if !strings.HasSuffix(p.typ, "!") {
			h.exec(execCase{Kind: "exec", Schema: ws, Query: "query($v: " + p.typ + " = " + p.lit(x) + ") { cf(a: $v) }", NumMode: "int",
				Inputs: map[string]interface{}{}, Inputs2: map[string]interface{}{"v": p.val(json.Number(x))}}, tags)
		}
	}
}

// unknownNullSweep enumerates the class "unknown input field whose value is nullish" (JSON null, and through the Go API
// NaN / typed nil pointers): alone, next to valid fields, nested in another input object, inside list items, in a
// list field — pointwise and end to end; every one of them must be refused like any other unknown field.
func (h *harness) unknownNullSweep(s *gq.SchemaDesc) {
	b, err := gq.Build(s, baseHooks())
	if err != nil {
		h.run.CheckError("schema does not build: " + err.Error())
		return
	}
	ok := func() map[string]interface{} { return map[string]interface{}{"m6": true} }
	with := func(m map[string]interface{}, k string, v interface{}) map[string]interface{} { m[k] = v; return m }
	type shape struct {
		typ string
		val func(k string) interface{}
	}
	shapes := []shape{
		{"XM", func(k string) interface{} { return with(ok(), k, nil) }},
		{"XM!", func(k string) interface{} { return with(with(with(ok(), "m1", "s"), "m0", 7), k, nil) }},
		{"XM", func(k string) interface{} { return map[string]interface{}{k: nil} }},
		{"XM", func(k string) interface{} { return with(ok(), "m4", with(ok(), k, nil)) }},
		{"XM", func(k string) interface{} { return with(ok(), "m4", with(ok(), "m4", with(ok(), k, nil))) }},
		{"[XM]", func(k string) interface{} { return []interface{}{ok(), with(ok(), k, nil)} }},
		{"[XM!]!", func(k string) interface{} { return with(ok(), k, nil) }},
		{"[[XM]]", func(k string) interface{} { return []interface{}{[]interface{}{with(ok(), k, nil)}} }},
		{"XM", func(k string) interface{} { return with(ok(), "m5", []interface{}{ok(), with(ok(), k, nil)}) }},
		{"XM", func(k string) interface{} { return with(with(ok(), k, nil), "m1", nil) }},
	}
	for si, sh := range shapes {
		for _, k := range []string{"limt", "zz", "M6", "m7"} {
			for _, mode := range []string{"int", "int+nil", "json+nil"} {
				tags := map[string]bool{"sweep:unknown-field-nullish": true, fmt.Sprintf("sweep:shape-%d", si): true, "nil-mode:" + mode: true}
				h.pointWith(pointCase{Kind: "point", Schema: s, Type: sh.typ, HasValue: true, Value: sh.val(k), NumMode: mode}, b, tags)
				ws := withField(s, gq.FieldDesc{Name: "cf", Type: "String", Args: []gq.ArgDesc{{Name: "a", Type: sh.typ}}})
				h.exec(execCase{Kind: "exec", Schema: ws, Query: "query($v: " + sh.typ + ") { cf(a: $v) }", NumMode: mode,
					Inputs: map[string]interface{}{"v": sh.val(k)}, Inputs2: map[string]interface{}{"v": sh.val("m1")}}, tags)
				if h.run.TooManyViolations() {
					return
				}
			}
		}
	}
}

// ---------------------------------------------------------------- histories

// judge: the outcome of one request against the model's verdict for the schema version in force
func (h *harness) judge(c execCase, rec *recorded, res *graphql.Result, m execResp, fail func(string)) bool {
	if !m.Vars.Ok || !m.LitsValid || !m.DefaultsValid {
		if res == nil || res.Data != nil || len(res.Errors) < 1 || rec.calls != 0 {
			fail("the model refuses the request (uncoercible variable, or invalid literal / default for the type as it is NOW): expected an error, no data and no resolver call")
			return false
		}
		return true
	}
	return checkInvocations(c, rec, m, true, fail)
}

// plainLit writes a wire value as literal text without consulting a type (ints, strings, lists, objects; nulls omitted)
func plainLit(v interface{}) string {
	switch x := v.(type) {
	case int:
		return strconv.Itoa(x)
	case string:
		return quote(x)
	case bool:
		return strconv.FormatBool(x)
	case []interface{}:
		var parts []string
		for _, e := range x {
			parts = append(parts, plainLit(e))
		}
		return "[" + strings.Join(parts, ", ") + "]"
	case map[string]interface{}:
		keys := make([]string, 0, len(x))
		for k := range x {
			keys = append(keys, k)
		}
		sort.Strings(keys)
		var parts []string
		for _, k := range keys {
			if x[k] != nil {
				parts = append(parts, k+": "+plainLit(x[k]))
			}
		}
		return "{" + strings.Join(parts, ", ") + "}"
	}
	return "null"
}

// historyAddField: request → InputObject.AddFieldConfig (a required field / an optional field with a default / a field
// replacing an existing one) → the same and further requests again. Each request is judged by the model on the type as
// it is at that moment (variable, inline-literal and variable-default forms; the type bare, in a list, nested).
func (h *harness) historyAddField() {
	run := h.run
	type kindT struct {
		name  string
		apply func(inp *graphql.InputObject)
		desc  func(fs []gq.ArgDesc) []gq.ArgDesc
	}
	kinds := []kindT{
		{"required-field", func(inp *graphql.InputObject) {
			inp.AddFieldConfig("n", &graphql.InputObjectFieldConfig{Type: graphql.NewNonNull(graphql.Int)})
		}, func(fs []gq.ArgDesc) []gq.ArgDesc { return append(fs, gq.ArgDesc{Name: "n", Type: "Int!"}) }},
		{"optional-field-with-default", func(inp *graphql.InputObject) {
			inp.AddFieldConfig("d", &graphql.InputObjectFieldConfig{Type: graphql.Int, DefaultValue: 7})
		}, func(fs []gq.ArgDesc) []gq.ArgDesc {
			return append(fs, gq.ArgDesc{Name: "d", Type: "Int", HasDef: true, Default: 7})
		}},
		{"field-replacing-an-existing-one", func(inp *graphql.InputObject) {
			inp.AddFieldConfig("a", &graphql.InputObjectFieldConfig{Type: graphql.NewNonNull(graphql.String)})
		}, func(fs []gq.ArgDesc) []gq.ArgDesc {
			out := []gq.ArgDesc{}
			for _, f := range fs {
				if f.Name == "a" {
					f = gq.ArgDesc{Name: "a", Type: "String!"}
				}
				out = append(out, f)
			}
			return out
		}},
	}
	hv := []map[string]interface{}{{"a": 1}, {"a": 1, "n": 5}, {"a": 1, "n": "abc"}, {"a": "x"}, {"a": "x", "n": 1}, {"a": 1, "d": 3},
		{"a": 1, "b": nil}, {}, {"n": 2}, {"a": 1, "d": "q"}}
	positions := []struct {
		typ  string
		wrap func(v interface{}) interface{}
	}{
		{"HIn", func(v interface{}) interface{} { return v }},
		{"[HIn]", func(v interface{}) interface{} { return []interface{}{map[string]interface{}{"a": 2}, v} }},
		{"HOut!", func(v interface{}) interface{} { return map[string]interface{}{"in": v, "k": 1} }},
	}
	for _, kd := range kinds {
		for _, pos := range positions {
			inp := graphql.NewInputObject(graphql.InputObjectConfig{Name: "HIn", Fields: graphql.InputObjectConfigFieldMap{
				"a": &graphql.InputObjectFieldConfig{Type: graphql.Int},
				"b": &graphql.InputObjectFieldConfig{Type: graphql.String, DefaultValue: "dflt"}}})
			out := graphql.NewInputObject(graphql.InputObjectConfig{Name: "HOut", Fields: graphql.InputObjectConfigFieldMap{
				"in": &graphql.InputObjectFieldConfig{Type: graphql.NewNonNull(inp)},
				"k":  &graphql.InputObjectFieldConfig{Type: graphql.Int}}})
			var argType graphql.Input = inp
			switch pos.typ {
			case "[HIn]":
				argType = graphql.NewList(inp)
			case "HOut!":
				argType = graphql.NewNonNull(out)
			}
			rec := &recorded{}
			q := graphql.NewObject(graphql.ObjectConfig{Name: "Q", Fields: graphql.Fields{"cf": &graphql.Field{Type: graphql.String,
				Args: graphql.FieldConfigArgument{"a": &graphql.ArgumentConfig{Type: argType}},
				Resolve: func(p graphql.ResolveParams) (interface{}, error) {
					rec.calls++
					snap := toWireG(map[string]interface{}(p.Args))
					rec.all = append(rec.all, snap)
					if rec.calls == 1 {
						rec.args, rec.vars = snap, toWireG(p.Info.VariableValues)
					}
					mutateInPlace(map[string]interface{}(p.Args))
					return "x", nil
				}}}})
			schema, err := graphql.NewSchema(graphql.SchemaConfig{Query: q, Types: []graphql.Type{inp, out}})
			if err != nil {
				run.CheckError("history schema does not build: " + err.Error())
				return
			}
			fields := []gq.ArgDesc{{Name: "a", Type: "Int"}, {Name: "b", Type: "String", HasDef: true, Default: "dflt"}}
			mkDesc := func(fs []gq.ArgDesc) *gq.SchemaDesc {
				return &gq.SchemaDesc{Query: "Q", Types: []gq.TypeDesc{
					{Kind: "INPUT_OBJECT", Name: "HIn", InputFields: fs},
					{Kind: "INPUT_OBJECT", Name: "HOut", InputFields: []gq.ArgDesc{{Name: "in", Type: "HIn!"}, {Name: "k", Type: "Int"}}},
					{Kind: "OBJECT", Name: "Q", Fields: []gq.FieldDesc{{Name: "cf", Type: "String", Args: []gq.ArgDesc{{Name: "a", Type: pos.typ}}}}}}}
			}
			phase := func(label string, desc *gq.SchemaDesc) bool {
				for _, v := range hv {
					val := pos.wrap(v)
					reqs := []struct {
						form, query string
						inputs      map[string]interface{}
					}{
						{"variable", "query($v: " + pos.typ + ") { cf(a: $v) }", map[string]interface{}{"v": val}},
						{"literal", "{ cf(a: " + plainLit(val) + ") }", map[string]interface{}{}},
					}
					if !strings.HasSuffix(pos.typ, "!") {
						reqs = append(reqs, struct {
							form, query string
							inputs      map[string]interface{}
						}{"variable-default", "query($v: " + pos.typ + " = " + plainLit(val) + ") { cf(a: $v) }", map[string]interface{}{}})
					}
					for _, rq := range reqs {
						doc, err := parser.Parse(parser.ParseParams{Source: rq.query})
						if err != nil {
							run.CheckError("history query does not parse: " + rq.query)
							return false
						}
						c := execCase{Kind: "exec", Schema: desc, Query: rq.query, Inputs: rq.inputs, NumMode: "int"}
						*rec = recorded{}
						var res *graphql.Result
						pan := guard(func() {
							res = graphql.Do(graphql.Params{Schema: schema, RequestString: rq.query, VariableValues: goInputs(desc, doc, rq.inputs, "int")})
						})
						m, raw, ok := h.askExec(c, doc, rq.inputs)
						if !ok {
							return false
						}
						real := map[string]interface{}{"history": label, "kind": kd.name, "calls": rec.calls, "invocations": rec.all, "panic": pan}
						if res != nil {
							real["dataIsNil"], real["errors"] = res.Data == nil, len(res.Errors)
						}
						run.Tag("history:add-field:" + kd.name + ":" + label)
						run.Tag("history:form=" + rq.form)
						run.Case("hist1|"+kd.name+"|"+pos.typ+"|"+label+"|"+rq.query+"|"+hx.Canon(rq.inputs), true, nil)
						fail := func(note string) {
							run.Violation("history (request, InputObject.AddFieldConfig: "+kd.name+", request), "+label+": "+note,
								map[string]interface{}{"case": c, "real": real, "model": raw, "note": "history case: not replayable from the case alone"}, false)
						}
						if pan != nil {
							fail("graphql.Do panicked")
							return false
						}
						if !h.judge(c, rec, res, m, fail) {
							return false
						}
					}
				}
				return true
			}
			if !phase("before the mutation", mkDesc(fields)) {
				return
			}
			kd.apply(inp)
			if !phase("after the mutation", mkDesc(kd.desc(fields))) {
				return
			}
		}
	}
}

// historyHeldPlan: a plan is made against schema V1 and then executed with ExecuteParams.Schema = V1, = a rebuilt schema V2
// of the same shape (other enum internal values, an extra enum value, another input-field default), and = none. The
// plan's schema governs everything: variables are coerced, literals were pre-coerced and resolvers are taken from V1.
func (h *harness) historyHeldPlan() {
	run := h.run
	mk := func(v2 bool) *gq.SchemaDesc {
		vals := []gq.EnumValDesc{{Name: "RED", Internal: 1}, {Name: "GREEN", Internal: 2}}
		dflt := 7
		if v2 {
			vals = []gq.EnumValDesc{{Name: "RED", Internal: 11}, {Name: "GREEN", Internal: 12}, {Name: "BLUE", Internal: 23}}
			dflt = 70
		}
		return &gq.SchemaDesc{Query: "Q", Types: []gq.TypeDesc{
			{Kind: "ENUM", Name: "HE", Values: vals},
			{Kind: "INPUT_OBJECT", Name: "HIn", InputFields: []gq.ArgDesc{{Name: "a", Type: "Int"}, {Name: "d", Type: "Int", HasDef: true, Default: dflt}, {Name: "e", Type: "HE"}}},
			{Kind: "OBJECT", Name: "Q", Fields: []gq.FieldDesc{{Name: "cf", Type: "String", Args: []gq.ArgDesc{
				{Name: "c", Type: "HE"}, {Name: "l", Type: "[HE]"}, {Name: "a", Type: "HIn"}}}}}}}
	}
	c1, c2 := execCase{Kind: "exec", Schema: mk(false), NumMode: "int"}, execCase{Kind: "exec", Schema: mk(true), NumMode: "int"}
	b1, rec1 := h.buildRec(c1)
	b2, rec2 := h.buildRec(c2)
	if b1 == nil || b2 == nil {
		return
	}
	reqs := []struct {
		query  string
		inputs map[string]interface{}
	}{
		{"query($v: HE) { cf(c: $v) }", map[string]interface{}{"v": "BLUE"}},
		{"query($v: HE) { cf(c: $v) }", map[string]interface{}{"v": "RED"}},
		{"{ cf(c: RED) }", map[string]interface{}{}},
		{"query($v: [HE]) { cf(l: $v) }", map[string]interface{}{"v": []interface{}{"GREEN", "RED"}}},
		{"query($v: [HE]) { cf(l: $v) }", map[string]interface{}{"v": "BLUE"}},
		{"{ cf(l: [GREEN, RED]) }", map[string]interface{}{}},
		{"query($v: HIn) { cf(a: $v) }", map[string]interface{}{"v": map[string]interface{}{"a": 1}}},
		{"{ cf(a: {a: 1}) }", map[string]interface{}{}},
		{"query($v: HIn) { cf(a: $v) }", map[string]interface{}{"v": map[string]interface{}{"a": 1, "e": "BLUE"}}},
		{"query($v: HIn) { cf(a: $v) }", map[string]interface{}{"v": map[string]interface{}{"e": "GREEN", "d": 3}}},
		{"query($x: Int, $e: HE) { cf(a: {a: $x, e: $e}) }", map[string]interface{}{"x": 4, "e": "GREEN"}},
		{"query($x: Int, $e: HE) { cf(a: {a: $x, e: $e}) }", map[string]interface{}{"x": 4, "e": "BLUE"}},
		{"query($v: HE = GREEN) { cf(c: $v) }", map[string]interface{}{}},
		{"query($v: HIn = {a: 2}) { cf(a: $v) }", map[string]interface{}{}},
	}
	for _, rq := range reqs {
		doc, err := parser.Parse(parser.ParseParams{Source: rq.query})
		if err != nil {
			run.CheckError("history query does not parse: " + rq.query)
			return
		}
		if !graphql.ValidateDocument(&b1.Schema, doc, nil).IsValid {
			run.CheckError("history query is not valid: " + rq.query)
			return
		}
		var plan *graphql.Plan
		if p := guard(func() { plan, err = graphql.PlanQuery(&b1.Schema, doc, "") }); p != nil || err != nil || plan == nil {
			run.CheckError("history: PlanQuery failed on " + rq.query)
			return
		}
		c := c1
		c.Query, c.Inputs = rq.query, rq.inputs
		m, raw, ok := h.askExec(c, doc, rq.inputs)
		if !ok {
			return
		}
		for _, ps := range []struct {
			label  string
			schema graphql.Schema
		}{{"the plan's own schema", b1.Schema}, {"a rebuilt schema of the same shape (other enum internals, extra value, other default)", b2.Schema}, {"no schema", graphql.Schema{}}} {
			for round := 0; round < 2; round++ {
				*rec1, *rec2 = recorded{}, recorded{}
				var res *graphql.Result
				pan := guard(func() {
					res = graphql.ExecutePlan(plan, graphql.ExecuteParams{Schema: ps.schema, AST: doc, Args: goInputs(c.Schema, doc, rq.inputs, "int")})
				})
				real := map[string]interface{}{"executeParamsSchema": ps.label, "round": round, "calls": rec1.calls, "invocations": rec1.all,
					"variableValues": rec1.vars, "callsOfTheOtherSchemasResolver": rec2.calls, "panic": pan}
				if res != nil {
					real["dataIsNil"], real["errors"] = res.Data == nil, len(res.Errors)
				}
				run.Tag("history:held-plan:ExecuteParams.Schema=" + strings.SplitN(ps.label, " (", 2)[0])
				run.Case("hist2|"+rq.query+"|"+hx.Canon(rq.inputs)+"|"+ps.label, true, nil)
				fail := func(note string) {
					run.Violation("held plan executed with ExecuteParams.Schema = "+ps.label+": "+note+" (the plan's schema must govern variable coercion, literals and resolvers alike)",
						map[string]interface{}{"case": c, "real": real, "model": raw, "note": "history case: not replayable from the case alone"}, false)
				}
				if pan != nil || res == nil {
					fail("ExecutePlan panicked")
					return
				}
				if rec2.calls != 0 {
					fail("a resolver of the other schema ran")
					return
				}
				if !h.judge(c, rec1, res, m, fail) {
					return
				}
			}
		}
	}
}

// fixed probes: the D-05a / D-05b / D-05c shapes (all repaired in /repo: they must pass)
func (h *harness) probes(s *gq.SchemaDesc) {
	tags := map[string]bool{"probe": true}
	fd := gq.FieldDesc{Name: "cf", Type: "String", Args: []gq.ArgDesc{{Name: "a", Type: "Int"}, {Name: "b", Type: "ID"}}}
	ws := withField(s, fd)
	h.exec(execCase{Kind: "exec", Schema: ws, Query: `{ cf(a: 3000000000) }`, NumMode: "int", Inputs: map[string]interface{}{}}, tags)
	h.exec(execCase{Kind: "exec", Schema: ws, Query: `query($v: Int) { cf(a: $v) }`, NumMode: "int", Inputs: map[string]interface{}{"v": 3000000000}}, tags)
	h.exec(execCase{Kind: "exec", Schema: ws, Query: `query($v: ID) { cf(b: $v) }`, LitQuery: `{ cf(b: 1234567) }`, NumMode: "int", Inputs: map[string]interface{}{"v": 1234567}}, tags)
	h.exec(execCase{Kind: "exec", Schema: ws, Query: `query($v: ID) { cf(b: $v) }`, LitQuery: `{ cf(b: 1234567) }`, NumMode: "json", Inputs: map[string]interface{}{"v": 1234567}}, tags)
	in := gq.TypeDesc{Kind: "INPUT_OBJECT", Name: "PIn", InputFields: []gq.ArgDesc{{Name: "a", Type: "Int", HasDef: true, Default: 5}, {Name: "b", Type: "Int"}}}
	s2 := *s
	s2.Types = append(append([]gq.TypeDesc{}, s.Types...), in)
	ws2 := withField(&s2, gq.FieldDesc{Name: "cf", Type: "String", Args: []gq.ArgDesc{{Name: "a", Type: "PIn"}}})
	h.exec(execCase{Kind: "exec", Schema: ws2, Query: `query($v: Int) { cf(a: {a: $v, b: 1}) }`, NumMode: "int", Inputs: map[string]interface{}{}}, tags)
	h.exec(execCase{Kind: "exec", Schema: ws2, Query: `query($o: PIn) { cf(a: $o) }`, LitQuery: `{ cf(a: {b: 1}) }`, NumMode: "int", Inputs: map[string]interface{}{"o": map[string]interface{}{"b": 1}}}, tags)
	// list variables built by a Go caller as typed slices: []string, []int, [][]int, []map[string]interface{}, []bool, []float64, empty, mixed
	for _, p := range []struct {
		typ string
		val interface{}
	}{
		{"[String]", []interface{}{"ann", "bob"}}, {"[Int]", []interface{}{1, 2, 3}}, {"[[Int]]", []interface{}{[]interface{}{1, 2}, []interface{}{3}}},
		{"[PIn]", []interface{}{map[string]interface{}{"b": 1}, map[string]interface{}{"a": 2, "b": 3}}}, {"[Boolean!]!", []interface{}{true, false}},
		{"[Float]", []interface{}{dec(25, 1), dec(-125, 3)}}, {"[ID]", []interface{}{}}, {"[[String]]", []interface{}{[]interface{}{"a"}, nil, []interface{}{}}},
		{"[[Int]]", []interface{}{4, 5}}, {"[Int]", []interface{}{"7", "x"}},
	} {
		ws3 := withField(&s2, gq.FieldDesc{Name: "cf", Type: "String", Args: []gq.ArgDesc{{Name: "a", Type: p.typ}}})
		for _, mode := range []string{"int+ts", "json+ts"} {
			h.point(pointCase{Kind: "point", Schema: &s2, Type: p.typ, HasValue: true, Value: p.val, NumMode: mode}, tags)
			h.exec(execCase{Kind: "exec", Schema: ws3, Query: "query($v: " + p.typ + ") { cf(a: $v) }", NumMode: mode, Inputs: map[string]interface{}{"v": p.val}}, tags)
		}
	}
}

func main() {
	run := hx.Begin("C05")
	drv, err := hx.StartDriver(run.DriverBin)
	if err != nil {
		run.CheckError("cannot start driver: " + err.Error())
		run.Finish()
		return
	}
	defer drv.Close()
	h := &harness{run: run, drv: drv}
	run.Res.Rule = "schemas from gen.SchemaGen augmented with custom scalar Odd, enum XE (arbitrary internal values) and recursive input objects XA/XB with field defaults; types = every named input type x the 19 wrapper shapes of depth <= 4 (enumerated round-robin); values = conformant or deviated per node (wrong kind, out of 32-bit range, fractional, numeric strings, unknown enum, unknown/missing field, null in non-null, list-of-one), numbers as Go int or as float64 (JSON), lists as []interface{} or (2 cases in 5, tag typedSliceVars) as typed Go slices []string/[]int/[]float64/[]bool/[][]int/[]map[string]interface{}/…; literals = text parsed by the real parser, every literal form incl. variables, duplicates, nil; end to end = graphql.Do on variable / literal / literal-with-variables documents with defaults at variable, argument and input-field level. non-trivial = a non-null value or a non-empty literal (pointwise), a valid document (end to end); distinct by (type, value, literal, vars, number mode, named type definition) resp. (query, inputs, field definition)"
	run.Res.Rule += "; dedupeCollision sweep (fixed): one operation with two aliased invocations of cf (root and under a list) whose argument literals are different values of one type with equal fmt %v text of the coerced Go value (string lists, nested lists, ID lists, input objects and lists of them with String fields, enum lists with internal values containing blanks), plus equal literals and spellings of one value; served by graphql.Do, PlanQuery + ExecutePlan and through a PlanCache (plain and normalising, miss then hit); every invocation must receive the model's getArgumentValues of its own literal"

	if run.ReplayIn != "" {
		var probe struct {
			Case struct {
				Kind string `json:"kind"`
			} `json:"case"`
		}
		if err := hx.LoadReplay(run.ReplayIn, &probe); err != nil {
			run.CheckError("cannot load replay: " + err.Error())
			run.Finish()
			return
		}
		if probe.Case.Kind == "pair" {
			var rp struct {
				Case pairCase `json:"case"`
			}
			hx.LoadReplay(run.ReplayIn, &rp)
			h.pair(rp.Case)
		} else if probe.Case.Kind == "exec" {
			var rp struct {
				Case execCase `json:"case"`
			}
			hx.LoadReplay(run.ReplayIn, &rp)
			h.exec(rp.Case, nil)
		} else {
			var rp struct {
				Case pointCase `json:"case"`
			}
			hx.LoadReplay(run.ReplayIn, &rp)
			h.point(rp.Case, nil)
		}
		run.Finish()
		return
	}

	nPoint := run.N(5000, 250000)
	nExec := run.N(1200, 60000)
	perSchema := 40
	var s *gq.SchemaDesc
	var b *gq.Built
	for i := 0; i < nPoint && !run.TooManyViolations(); i++ {
		if i%perSchema == 0 {
			r := hx.Fork(run.Seed, 1000000+i/perSchema)
			sg := &gen.SchemaGen{R: r, Size: 1 + r.Intn(5)}
			s = sg.Schema()
			augment(r, s)
			b, err = gq.Build(s, baseHooks())
			if err != nil {
				run.CheckError("generated schema does not build: " + err.Error())
				break
			}
			if i == 0 {
				h.probes(s)
				h.nonFiniteSweep(s)
				h.bigFloatSweep(s)
				h.unknownNullSweep(s)
				h.historyAddField()
				h.historyHeldPlan()
				h.dedupeCollisionSweep(s)
			}
		}
		r := hx.Fork(run.Seed, i)
		c, tags := h.genPoint(r, s, i)
		h.pointWith(c, b, tags)
	}
	for i := 0; i < nExec && !run.TooManyViolations(); i++ {
		if i%perSchema == 0 {
			r := hx.Fork(run.Seed, 3000000+i/perSchema)
			sg := &gen.SchemaGen{R: r, Size: 1 + r.Intn(3)}
			s = sg.Schema()
			augment(r, s)
		}
		r := hx.Fork(run.Seed, 2000000+i)
		c, tags := h.genExec(r, s, i)
		if c.LitQuery != "" && !h.conformantProbe(c) {
			c.LitQuery = ""
		}
		h.exec(c, tags)
	}
	run.Finish()
}
