package main

import (
	"fmt"
	"sort"

	"github.com/graphql-go/graphql"
	"github.com/graphql-go/graphql/language/parser"

	"verif/harness/gq"
	"verif/harness/hx"
)

// Family dedupeCollision: ONE operation with two aliased invocations of cf whose argument has one declared type and two
// DIFFERENT fully-literal values chosen so that the coerced Go values have the same fmt %v text (["a b"] / ["a","b"],
// [] / [""], {a:"1 b:2"} / {a:"1",b:"2"}, [BOTH] / [HAPPY,SAD] with internal values "h s" / "h","s", ["1 2"] / [1,2] for [ID];
// the parser has no null literal), next to equal literals, different spellings of one value and plain different values. Each invocation
// must receive the model's getArgumentValues of ITS OWN literal (asked per literal on the one-field document) whether the
// request is served by graphql.Do, by PlanQuery + ExecutePlan, or through a PlanCache (plain and normalising, miss then
// hit, where the literals travel as synthetic variables).
type pairCase struct {
	Kind   string         `json:"kind"` // "pair"
	Schema *gq.SchemaDesc `json:"schema"`
	Type   string         `json:"type"`
	LitA   string         `json:"litA"`
	LitB   string         `json:"litB"`
	Under  string         `json:"under,omitempty"` // "" | "list"
}

func (c pairCase) query() string {
	return queryUnder("{ cf_a: cf(a: "+c.LitA+") cf_b: cf(a: "+c.LitB+") }", c.Under)
}

func (h *harness) dedupeCollisionSweep(s *gq.SchemaDesc) {
	s2 := *s
	s2.Types = append(append([]gq.TypeDesc{}, s.Types...),
		gq.TypeDesc{Kind: "INPUT_OBJECT", Name: "DCPair", InputFields: []gq.ArgDesc{{Name: "a", Type: "String"}, {Name: "b", Type: "String"}}},
		gq.TypeDesc{Kind: "ENUM", Name: "DCMood", Values: []gq.EnumValDesc{{Name: "HAPPY", Internal: "h"}, {Name: "SAD", Internal: "s"}, {Name: "BOTH", Internal: "h s"}}})
	pairs := []struct{ typ, a, b string }{
		{"[String]", `["a b"]`, `["a", "b"]`}, {"[String]", `["a", "b"]`, `["a b"]`}, {"[String]", `[]`, `[""]`}, {"[String]", `[" "]`, `["", ""]`},
{"[String]", `"a b"`, `["a", "b"]`}, {"[String]", `["[a", "b]"]`, `["[a b]"]`},
		{"[String!]", `["x y", "z"]`, `["x", "y z"]`}, {"[String!]!", `["x y z"]`, `["x", "y", "z"]`}, {"[String]!", `[]`, `[""]`},
		{"[[String]]", `[["a b"]]`, `[["a", "b"]]`}, {"[[String]]", `[["a"], ["b"]]`, `[["a] [b"]]`}, {"[[String]]", `[[]]`, `[[""]]`},
		{"[ID]", `["1 2"]`, `[1, 2]`}, {"[ID!]", `[1, 2]`, `["1 2"]`},
		{"DCPair", `{a: "1 b:2"}`, `{a: "1", b: "2"}`}, {"DCPair!", `{a: "1", b: "2"}`, `{a: "1 b:2"}`},
		{"[DCPair]", `[{a: "1"}, {a: "2"}]`, `[{a: "1] map[a:2"}]`}, {"[DCPair]", `[{a: "1 b:2"}]`, `{a: "1", b: "2"}`},
		{"[DCMood]", `[BOTH]`, `[HAPPY, SAD]`}, {"[DCMood!]", `[HAPPY, SAD]`, `[BOTH]`},
		// equal literals (one value twice), spellings of one value, values whose renderings differ
		{"[String]", `["a", "b"]`, `["a", "b"]`}, {"DCPair", `{a: "x", b: "y"}`, `{b: "y", a: "x"}`}, {"[String]", `["a", "b"]`, `["a", "c"]`},
		{"Float", `1`, `1.0`}, {"[Float]", `[1, 2]`, `[1.0, 2.0]`}, {"ID", `4`, `"4"`}, {"String", `"a b"`, `"a  b"`},
	}
	for _, p := range pairs {
		for _, under := range []string{"", "list"} {
			if h.run.TooManyViolations() {
				return
			}
			ws := schemaUnder(&s2, gq.FieldDesc{Name: "cf", Type: "String", Args: []gq.ArgDesc{{Name: "a", Type: p.typ}}}, under)
			h.pair(pairCase{Kind: "pair", Schema: ws, Type: p.typ, LitA: p.a, LitB: p.b, Under: under})
		}
	}
}

func (h *harness) pair(c pairCase) {
	run := h.run
	ec := execCase{Kind: "exec", Schema: c.Schema, Query: c.query(), NumMode: "int", Under: c.Under}
	// the model's argument map per literal, from the one-field document
	var want []string
	models := map[string]interface{}{}
	for _, lit := range []string{c.LitA, c.LitB} {
		q1 := queryUnder("{ cf(a: "+lit+") }", c.Under)
		d1, err := parser.Parse(parser.ParseParams{Source: q1})
		if err != nil {
			run.CheckError("dedupeCollision: literal does not parse: " + q1)
			return
		}
		m, raw, ok := h.askExec(execCase{Kind: "exec", Schema: c.Schema, Query: q1, NumMode: "int", Under: c.Under}, d1, nil)
		if !ok {
			run.CheckError("dedupeCollision: no answer of the model for " + q1)
			return
		}
		if !m.Vars.Ok || !m.LitsValid {
			run.CheckError("dedupeCollision: the model does not accept the literal " + lit + " at " + c.Type)
			return
		}
		models[lit] = raw
		for i := 0; i < expectedCalls(ec); i++ {
			want = append(want, canonM(m.Args))
		}
	}
	sort.Strings(want)
	doc, err := parser.Parse(parser.ParseParams{Source: ec.Query})
	if err != nil {
		run.CheckError("dedupeCollision: query does not parse: " + ec.Query)
		return
	}
	b, rec := h.buildRec(ec)
	if b == nil {
		return
	}
	run.Tag("dedupeCollision")
	run.Case("pair|"+c.Under+"|"+c.Type+"|"+c.LitA+"|"+c.LitB, true, map[string]interface{}{"query": ec.Query, "type": c.Type})
	check := func(route string, serve func() *graphql.Result) bool {
		*rec = recorded{}
		var res *graphql.Result
		pan := guard(func() { res = serve() })
		got := []string{}
		for _, snap := range rec.all {
			got = append(got, hx.Canon(snap))
		}
		sort.Strings(got)
		real := map[string]interface{}{"route": route, "calls": rec.calls, "invocations": rec.all, "panic": pan}
		if res != nil {
			real["dataIsNil"], real["errors"] = res.Data == nil, fmt.Sprint(res.Errors)
		}
		if pan != nil || res == nil || len(res.Errors) > 0 || fmt.Sprint(got) != fmt.Sprint(want) {
			run.Violation("two literals of one argument type in one operation ("+route+"): the invocations of the field did not receive the model's getArgumentValues of their own literals",
				map[string]interface{}{"case": c, "real": real, "model": map[string]interface{}{"perLiteral": models, "expectedInvocationsSorted": want}}, false)
			return false
		}
		run.Tag("dedupeCollision:" + route)
		return true
	}
	if !check("graphql.Do", func() *graphql.Result { return request(ec, b, ec.Query, nil) }) {
		return
	}
	if !check("PlanQuery+ExecutePlan", func() *graphql.Result {
		plan, err := graphql.PlanQuery(&b.Schema, doc, "")
		if err != nil || plan == nil {
			return nil
		}
		return graphql.ExecutePlan(plan, graphql.ExecuteParams{Schema: b.Schema, AST: doc})
	}) {
		return
	}
	for _, norm := range []bool{false, true} {
		pc := graphql.NewPlanCache(graphql.PlanCacheOptions{Normalize: norm})
		for round := 0; round < 2; round++ {
			route := fmt.Sprintf("plan-cache normalize=%v %s", norm, []string{"miss", "hit"}[round])
			if !check(route, func() *graphql.Result {
				pr := pc.Get(&b.Schema, ec.Query, "")
				if pr.Plan == nil {
					return nil
				}
				return graphql.ExecutePlan(pr.Plan, graphql.ExecuteParams{Schema: b.Schema, Args: mergeArgs(nil, pr.SynthArgs)})
			}) {
				return
			}
		}
	}
}
