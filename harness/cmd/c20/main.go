// C20 harness: the resolver invocation log (path, runtime parent type, field, coerced args, source, occurrences),
// ResolveInfo accuracy and context propagation, incl. plans reused several times with argument-mutating resolvers.
package main

import (
	"verif/harness/execharness"
	"verif/harness/hx"
)

func main() {
	execharness.Main(execharness.Mode{Prop: "C20", Knobs: func(r *hx.Rng) execharness.Knobs {
		k := execharness.DefaultKnobs
		k.Thunk, k.BadThunk = 0, 0 // no deferred values: the log comparison is exact, order included
		if r.Chance(1, 4) {
			k.Thunk = 10
		}
		return k
	}, CompareLog: true, PlanReuse: true}, 1200, 120000)
}
