// C14 harness: drives the real visitor.Visit over parser-produced ASTs under generated
// skip/break policies, in the three visitor forms, and compares the full VisitFuncParams stream
// with the Lean model (machine M = reference S by theorem machine_eq_reference).
package main

import (
	"encoding/json"
	"fmt"
	"reflect"

	"github.com/graphql-go/graphql/language/ast"
	"github.com/graphql-go/graphql/language/kinds"
	"github.com/graphql-go/graphql/language/parser"
	"github.com/graphql-go/graphql/language/printer"
	"github.com/graphql-go/graphql/language/visitor"

	"verif/harness/gen"
	"verif/harness/hx"
)

type tslot struct {
	K    string   `json:"k"`
	One  *tnode   `json:"one,omitempty"`
	Many []*tnode `json:"many,omitempty"`
}
type tnode struct {
	ID    int     `json:"id"`
	Kind  string  `json:"-"`
	Slots []tslot `json:"slots"`
}

type abstraction struct {
	ids   map[interface{}]int
	kinds []string
}

// abstractTree walks the Go AST by reflection along QueryDocumentKeys (the same table the visitor uses;
// the table itself is tied to the ast structs by the regenerated obligation child_keys_cover_ast_fields).
func (a *abstraction) tree(n ast.Node) *tnode {
	id := len(a.kinds)
	a.ids[n] = id
	a.kinds = append(a.kinds, n.GetKind())
	t := &tnode{ID: id, Kind: n.GetKind(), Slots: []tslot{}}
	v := reflect.ValueOf(n)
	if v.Kind() == reflect.Ptr {
		v = v.Elem()
	}
	for _, key := range visitor.QueryDocumentKeys[n.GetKind()] {
		f := v.FieldByName(key)
		s := tslot{K: key}
		if f.IsValid() {
			switch f.Kind() {
			case reflect.Slice:
				for i := 0; i < f.Len(); i++ {
					if c, ok := asNode(f.Index(i)); ok {
						s.Many = append(s.Many, a.tree(c))
					}
				}
			default:
				if c, ok := asNode(f); ok {
					s.One = a.tree(c)
				}
			}
		}
		t.Slots = append(t.Slots, s)
	}
	return t
}

func asNode(f reflect.Value) (ast.Node, bool) {
	switch f.Kind() {
	case reflect.Ptr, reflect.Interface:
		if f.IsNil() {
			return nil, false
		}
	default:
		return nil, false
	}
	if f.Kind() == reflect.Interface && f.Elem().Kind() == reflect.Ptr && f.Elem().IsNil() {
		return nil, false
	}
	n, ok := f.Interface().(ast.Node)
	return n, ok
}

type ev = []interface{} // [phase, id, key, parent, path, ancestors]

type modelResp struct {
	M    []ev   `json:"M"`
	Mfin string `json:"Mfin"`
	S    []ev   `json:"S"`
	Sbrk bool   `json:"Sbrk"`
	MeqS bool   `json:"MeqS"`
}

type caseT struct {
	Src    string  `json:"src"`
	Form   string  `json:"form"`
	Policy [][]int `json:"policy"`
	Tree   *tnode  `json:"tree,omitempty"`
}

func idOf(a *abstraction, n interface{}) interface{} {
	if n == nil || reflect.ValueOf(n).Kind() == reflect.Ptr && reflect.ValueOf(n).IsNil() {
		return nil
	}
	if id, ok := a.ids[n]; ok {
		return id
	}
	return "unknown-node"
}

// runGo runs the real visitor and returns the event stream; panics are reported as a pseudo event.
func runGo(doc ast.Node, a *abstraction, form string, policy map[[2]int]int) (events []ev, panicked interface{}) {
	defer func() {
		if r := recover(); r != nil {
			panicked = fmt.Sprint(r)
		}
	}()
	mk := func(phase int) visitor.VisitFunc {
		return func(p visitor.VisitFuncParams) (string, interface{}) {
			id := idOf(a, p.Node)
			path := []interface{}{}
			for _, k := range p.Path {
				path = append(path, k)
			}
			anc := []interface{}{}
			for _, x := range p.Ancestors {
				if x == nil {
					anc = append(anc, nil)
				} else {
					anc = append(anc, idOf(a, x))
				}
			}
			var parent interface{}
			if p.Parent != nil {
				parent = idOf(a, p.Parent)
			}
			events = append(events, ev{phase, id, p.Key, parent, path, anc})
			nid, _ := id.(int)
			switch policy[[2]int{nid, phase}] {
			case 1:
				return visitor.ActionSkip, nil
			case 2:
				return visitor.ActionBreak, nil
			}
			return visitor.ActionNoChange, nil
		}
	}
	opts := &visitor.VisitorOptions{}
	switch form {
	case "generic":
		opts.Enter, opts.Leave = mk(0), mk(1)
	case "kindfuncs":
		opts.KindFuncMap = map[string]visitor.NamedVisitFuncs{}
		for k := range visitor.QueryDocumentKeys {
			opts.KindFuncMap[k] = visitor.NamedVisitFuncs{Enter: mk(0), Leave: mk(1)}
		}
	case "kindonly":
		opts.KindFuncMap = map[string]visitor.NamedVisitFuncs{}
		for k := range visitor.QueryDocumentKeys {
			opts.KindFuncMap[k] = visitor.NamedVisitFuncs{Kind: mk(0)}
		}
	case "kindmaps":
		opts.EnterKindMap = map[string]visitor.VisitFunc{}
		opts.LeaveKindMap = map[string]visitor.VisitFunc{}
		for k := range visitor.QueryDocumentKeys {
			opts.EnterKindMap[k] = mk(0)
			opts.LeaveKindMap[k] = mk(1)
		}
	}
	visitor.Visit(doc, opts, nil)
	return events, nil
}

// runGoParallel runs k logging visitors through visitor.VisitInParallel; events[i] is what visitor i observed.
func runGoParallel(doc ast.Node, a *abstraction, policies []map[[2]int]int) (events [][]ev, panicked interface{}) {
	defer func() {
		if r := recover(); r != nil {
			panicked = fmt.Sprint(r)
		}
	}()
	events = make([][]ev, len(policies))
	var opts []*visitor.VisitorOptions
	for i := range policies {
		i := i
		mk := func(phase int) visitor.VisitFunc {
			return func(p visitor.VisitFuncParams) (string, interface{}) {
				id := idOf(a, p.Node)
				path := []interface{}{}
				for _, k := range p.Path {
					path = append(path, k)
				}
				anc := []interface{}{}
				for _, x := range p.Ancestors {
					if x == nil {
						anc = append(anc, nil)
					} else {
						anc = append(anc, idOf(a, x))
					}
				}
				var parent interface{}
				if p.Parent != nil {
					parent = idOf(a, p.Parent)
				}
				events[i] = append(events[i], ev{phase, id, p.Key, parent, path, anc})
				nid, _ := id.(int)
				switch policies[i][[2]int{nid, phase}] {
				case 1:
					return visitor.ActionSkip, nil
				case 2:
					return visitor.ActionBreak, nil
				}
				return visitor.ActionNoChange, nil
			}
		}
		opts = append(opts, &visitor.VisitorOptions{Enter: mk(0), Leave: mk(1)})
	}
	visitor.Visit(doc, visitor.VisitInParallel(opts...), nil)
	return events, nil
}

func canonEvents(es []ev) string { return hx.Canon(es) }

func main() {
	run := hx.Begin("C14")
	drv, err := hx.StartDriver(run.DriverBin)
	if err != nil {
		run.CheckError("cannot start driver: " + err.Error())
		run.Finish()
		return
	}
	defer drv.Close()
	run.Res.Rule = "documents from the grammar generator (executable and type-system), parsed by the real parser; policy = random assignment of continue/skip/break to (node, phase) pairs at sparse or dense density, or none; forms generic / KindFuncMap{Enter,Leave} / KindFuncMap{Kind} / Enter-LeaveKindMap; non-trivial = tree has >= 4 nodes and (policy non-empty or tree has a list slot with >= 2 elements); distinct by (source, form, policy)"
	_ = kinds.Document

	one := func(c caseT) {
		doc, err := parser.Parse(parser.ParseParams{Source: c.Src})
		if err != nil {
			run.Tag("parse-rejected")
			return
		}
		before := printer.Print(doc)
		a := &abstraction{ids: map[interface{}]int{}}
		tree := a.tree(doc)
		pol := map[[2]int]int{}
		for _, p := range c.Policy {
			pol[[2]int{p[0], p[1]}] = p[2]
		}
		gev, pan := runGo(doc, a, c.Form, pol)
		var m modelResp
		if err := drv.Ask(map[string]interface{}{"tree": tree, "policy": c.Policy}, &m); err != nil {
			run.CheckError(err.Error())
			return
		}
		want := m.M
		if c.Form == "kindonly" {
			want = nil
			for _, e := range m.M {
				if fmt.Sprint(e[0]) == "0" {
					want = append(want, e)
				}
			}
		}
		run.Tag("form:" + c.Form)
		run.Tag("Mfin:" + m.Mfin)
		nSkip, nBrk := 0, 0
		for _, p := range c.Policy {
			if p[2] == 1 {
				nSkip++
			} else if p[2] == 2 {
				nBrk++
			}
		}
		if nSkip > 0 {
			run.Tag("policy-has-skip")
		}
		if nBrk > 0 {
			run.Tag("policy-has-break")
		}
		nontrivial := len(a.kinds) >= 4
		key := c.Src + "|" + c.Form + "|" + hx.Canon(c.Policy)
		run.Case(key, nontrivial, map[string]interface{}{"src": gen.Describe(c.Src), "form": c.Form, "policy": c.Policy, "nodes": len(a.kinds), "events": len(gev)})
		c.Tree = tree
		if pan != nil {
			run.Violation("visitor.Visit panicked: "+fmt.Sprint(pan), map[string]interface{}{"case": c, "go_events": gev, "model_events": want}, false)
			return
		}
		if m.Mfin == "running" {
			run.CheckError("model machine ran out of fuel on " + c.Src)
			return
		}
		if !m.MeqS {
			run.Violation("model machine and reference walk disagree (theorem machine_eq_reference contradicted: model/driver fault)", map[string]interface{}{"case": c}, true)
			return
		}
		if canonEvents(gev) != canonEvents(want) {
			run.Violation("event stream of visitor.Visit differs from the model: the traversal does not deliver the enter/leave sequence (node, key, parent, path, ancestors) the reference walk defines", map[string]interface{}{"case": c, "go_events": gev, "model_events": want}, false)
			return
		}
		if after := printer.Print(doc); after != before {
			run.Violation("a traversal without edits changed the AST", map[string]interface{}{"case": c, "before": before, "after": after}, false)
		}
	}

	// parallel visitors: each sub-visitor must observe exactly what it would observe alone (theorem parallel_projection)
	onePar := func(src string, policies [][][]int) {
		doc, err := parser.Parse(parser.ParseParams{Source: src})
		if err != nil {
			return
		}
		a := &abstraction{ids: map[interface{}]int{}}
		tree := a.tree(doc)
		var pols []map[[2]int]int
		for _, pl := range policies {
			m := map[[2]int]int{}
			for _, p := range pl {
				m[[2]int{p[0], p[1]}] = p[2]
			}
			pols = append(pols, m)
		}
		gev, pan := runGoParallel(doc, a, pols)
		run.Tag(fmt.Sprintf("parallel:%d", len(policies)))
		run.Case("par|"+src+"|"+hx.Canon(policies), len(a.kinds) >= 4, map[string]interface{}{"src": gen.Describe(src), "parallel": len(policies), "policies": policies})
		if pan != nil {
			run.Violation("visitor.Visit with VisitInParallel panicked: "+fmt.Sprint(pan), map[string]interface{}{"parallel": map[string]interface{}{"src": src, "policies": policies}}, false)
			return
		}
		for i, pl := range policies {
			var m modelResp
			if pl == nil {
				pl = [][]int{}
			}
			if err := drv.Ask(map[string]interface{}{"tree": tree, "policy": pl}, &m); err != nil {
				run.CheckError(err.Error())
				return
			}
			if canonEvents(gev[i]) != canonEvents(m.S) {
				run.Violation(fmt.Sprintf("VisitInParallel: sub-visitor %d of %d did not observe the event sequence it observes alone", i, len(policies)),
					map[string]interface{}{"parallel": map[string]interface{}{"src": src, "policies": policies}, "visitor": i, "go_events": gev[i], "alone_events": m.S}, false)
				return
			}
		}
	}

	if run.ReplayIn != "" {
		var rpp struct {
			Parallel *struct {
				Src      string    `json:"src"`
				Policies [][][]int `json:"policies"`
			} `json:"parallel"`
		}
		if err := hx.LoadReplay(run.ReplayIn, &rpp); err == nil && rpp.Parallel != nil {
			onePar(rpp.Parallel.Src, rpp.Parallel.Policies)
			run.Finish()
			return
		}
		var rp struct {
			Case caseT `json:"case"`
		}
		if err := hx.LoadReplay(run.ReplayIn, &rp); err != nil {
			run.CheckError(err.Error())
		} else {
			one(rp.Case)
		}
		run.Finish()
		return
	}

	forms := []string{"generic", "kindfuncs", "kindonly", "kindmaps"}
	n := run.N(1500, 150000)
	for i := 0; i < n && !run.TooManyViolations(); i++ {
		r := hx.Fork(run.Seed, i)
		g := &gen.DocGen{R: r, Size: r.Range(1, 5), Exec: r.Chance(3, 4), TypeSystem: r.Chance(1, 2), Exotic: r.Chance(1, 4)}
		src := g.Document()
		doc, err := parser.Parse(parser.ParseParams{Source: src})
		if err != nil {
			run.Tag("parse-rejected")
			continue
		}
		// document order, judged independently of the child-key table: along the traversal the start offsets of the
		// entered nodes never decrease (a node starts where its first child starts or before; siblings follow one
		// another in the source)
		if bad := sourceOrderViolation(doc); bad != "" {
			run.Tag("source-order-broken")
			run.Violation("nodes are not entered in document order: "+bad, map[string]interface{}{"case": caseT{Src: src, Form: "generic", Policy: [][]int{}}}, false)
		} else {
			run.Tag("source-order-checked")
		}
		a := &abstraction{ids: map[interface{}]int{}}
		a.tree(doc)
		nn := len(a.kinds)
		form := forms[r.Intn(len(forms))]
		var policy [][]int
		density := []int{0, 1, 1, 4}[r.Intn(4)] // expected actions per 8 (node,phase) pairs
		if density > 0 {
			for id := 0; id < nn; id++ {
				for ph := 0; ph < 2; ph++ {
					if form == "kindonly" && ph == 1 {
						continue
					}
					if r.Chance(density, 16) {
						act := 1
						if r.Chance(1, 5) {
							act = 2
						}
						policy = append(policy, []int{id, ph, act})
					}
				}
			}
		}
		if r.Chance(1, 40) { // root-level actions are rare by chance; force them sometimes
			policy = append([][]int{{0, 0, 1 + r.Intn(2)}}, policy...)
		}
		if policy == nil {
			policy = [][]int{}
		}
		one(caseT{Src: src, Form: form, Policy: policy})
		if i%3 == 0 {
			// the same document under 2-4 parallel visitors with independent policies
			k := r.Range(2, 4)
			var pols [][][]int
			for j := 0; j < k; j++ {
				pl := [][]int{}
				d := []int{0, 1, 2, 4}[r.Intn(4)]
				for id := 0; id < nn && d > 0; id++ {
					for ph := 0; ph < 2; ph++ {
						if r.Chance(d, 16) {
							act := 1
							if r.Chance(1, 6) {
								act = 2
							}
							pl = append(pl, []int{id, ph, act})
						}
					}
				}
				pols = append(pols, pl)
			}
			onePar(src, pols)
		}
	}
	_ = json.Marshal
	run.Finish()
}

// sourceOrderViolation walks the document with the real visitor and reports the first entered node whose start
// offset lies before the start offset of the node entered just before it.
func sourceOrderViolation(doc *ast.Document) (bad string) {
	defer func() {
		if r := recover(); r != nil {
			bad = ""
		}
	}()
	last, lastKind := -1, ""
	visitor.Visit(doc, &visitor.VisitorOptions{Enter: func(p visitor.VisitFuncParams) (string, interface{}) {
		n, ok := p.Node.(ast.Node)
		if !ok || n == nil || n.GetLoc() == nil {
			return visitor.ActionNoChange, nil
		}
		st := n.GetLoc().Start
		if st < last && bad == "" {
			bad = fmt.Sprintf("%s at offset %d is entered after %s at offset %d", n.GetKind(), st, lastKind, last)
		}
		last, lastKind = st, n.GetKind()
		return visitor.ActionNoChange, nil
	}}, nil)
	return bad
}
