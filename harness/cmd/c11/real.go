package main

// Running the real library on a configuration, classifying its errors, dumping the schema it returns.

import (
	"encoding/json"
	"fmt"
	"reflect"
	"regexp"
	"sort"
	"strings"

	"github.com/graphql-go/graphql"
)

// ---------------------------------------------------------------- error classes (names of GqlModel.SchemaBuild.Err)

var errClasses = []struct {
	re    *regexp.Regexp
	class string
}{
	{regexp.MustCompile(`^Schema query must be Object Type but got: nil\.`), "noQuery"},
	{regexp.MustCompile(`^Type must be named\.$|^Directive must be named\.$|^Names must match `), "badName"},
	{regexp.MustCompile(`fields must be an object with field names as keys or a function which return such an object\.$`), "emptyFields"},
	{regexp.MustCompile(`field type must be Output Type but got`), "fieldTypeNotOutput"},
	{regexp.MustCompile(`args must be an object with argument names as keys\.$`), "nilArg"},
	{regexp.MustCompile(`argument type must be Input Type but got`), "argTypeNotInput"},
	{regexp.MustCompile(`field type must be Input Type but got`), "inputFieldTypeNotInput"},
	{regexp.MustCompile(`values must be an object with value names as keys\.$`), "emptyEnum"},
	{regexp.MustCompile(`must refer to an object with a "value" key`), "nilEnumValue"},
	{regexp.MustCompile(`^Name ".*" can not be used as an Enum value\.$`), "enumValueReserved"},
	{regexp.MustCompile(`can include .* type only once\.$`), "unionMemberTwice"},
	{regexp.MustCompile(`can only implement .* once\.$`), "ifaceTwice"},
	{regexp.MustCompile(`^Must provide Array of types for Union`), "emptyUnion"},
	{regexp.MustCompile(`may only contain Object types, it cannot contain`), "nilUnionMember"},
	{regexp.MustCompile(`does not provide a "resolveType" function and possible Type`), "unionNoResolver"},
	{regexp.MustCompile(`^Unknown Union\.Types type`), "unknownUnionTypes"},
	{regexp.MustCompile(`may only implement Interface types, it cannot implement`), "nilInterface"},
	{regexp.MustCompile(`^Unknown Object\.Interfaces type`), "unknownInterfaces"},
	{regexp.MustCompile(`^Can only create List of a Type but got`), "badList"},
	{regexp.MustCompile(`^Can only create NonNull of a Nullable Type but got`), "badNonNull"},
	{regexp.MustCompile(`must provide "serialize" function`), "scalarNoSerialize"},
	{regexp.MustCompile(`must provide both "parseValue" and "parseLiteral" functions`), "scalarParsePair"},
	{regexp.MustCompile(`^Schema must contain unique named types but contains multiple types named`), "duplicateName"},
	{regexp.MustCompile(`expects field ".*" but ".*" does not provide it\.$`), "ifaceMissingField"},
	{regexp.MustCompile(`\(.*:\) expects type ".*" but .*\(.*:\) provides type`), "ifaceArgType"},
	{regexp.MustCompile(`expects type ".*" but .* provides type`), "ifaceFieldType"},
	{regexp.MustCompile(`expects argument ".*" but .* does not provide it\.$`), "ifaceMissingArg"},
	{regexp.MustCompile(`is of required type ".*" but is not also provided by the interface`), "ifaceExtraRequiredArg"},
	{regexp.MustCompile(`^Must provide locations for directive\.$`), "directiveNoLocations"},
	{regexp.MustCompile(`^Schema directives must be Directive but got: nil\.$`), "nilDirective"},
	{regexp.MustCompile(`^Cannot add field to a thunk$`), "addFieldToThunk"},
}

func classify(err error) string {
	msg := err.Error()
	for _, c := range errClasses {
		if c.re.MatchString(msg) {
			return c.class
		}
	}
	return "unclassified: " + msg
}

// ---------------------------------------------------------------- dump (wire format DUMP of lean/Driver/C11.lean)

type BArg struct {
	Name string `json:"name"`
	Type *TR    `json:"type"`
}
type BField struct {
	Name string `json:"name"`
	Type *TR    `json:"type"`
	Args []BArg `json:"args"`
}
type BType struct {
	Kind        string   `json:"kind"`
	Name        string   `json:"name"`
	Fields      []BField `json:"fields"`
	InputFields []BArg   `json:"inputFields"`
	Interfaces  []int    `json:"interfaces"`
	Members     []int    `json:"members"`
	Values      []string `json:"values"`
	Resolver    bool     `json:"resolver"`
}
type BDir struct {
	Name string `json:"name"`
	Args []BArg `json:"args"`
}
type Dump struct {
	Table         []BType         `json:"table"`
	TypeMap       [][]interface{} `json:"typeMap"` // [key, id]
	Query         *int            `json:"query"`
	Mutation      *int            `json:"mutation"`
	Subscription  *int            `json:"subscription"`
	PossibleTypes [][]interface{} `json:"possibleTypes"` // [a, [o…]]
	IsPossible    [][]int         `json:"isPossible"`    // [a, o]
	Directives    []BDir          `json:"directives"`    // Directives(): name, arguments
	Parked        [][]interface{} `json:"parked"`        // [id, error class]: Error() of a type of the type map after the dump
}

func isNilPtr(t interface{}) bool {
	if t == nil {
		return true
	}
	v := reflect.ValueOf(t)
	return v.Kind() == reflect.Ptr && v.IsNil()
}

func kindOfGo(t graphql.Type) string {
	switch t.(type) {
	case *graphql.Scalar:
		return "SCALAR"
	case *graphql.Object:
		return "OBJECT"
	case *graphql.Interface:
		return "INTERFACE"
	case *graphql.Union:
		return "UNION"
	case *graphql.Enum:
		return "ENUM"
	case *graphql.InputObject:
		return "INPUT_OBJECT"
	case *graphql.List:
		return "LIST"
	case *graphql.NonNull:
		return "NON_NULL"
	}
	return "?"
}

type dumper struct {
	ids   map[graphql.Type]int
	order []graphql.Type
}

func (d *dumper) id(t graphql.Type) int {
	if i, ok := d.ids[t]; ok {
		return i
	}
	i := len(d.order)
	d.ids[t] = i
	d.order = append(d.order, t)
	return i
}

func (d *dumper) tref(t graphql.Type) *TR {
	if t == nil {
		return nil
	}
	if isNilPtr(t) {
		return NilPtr(kindOfGo(t))
	}
	switch x := t.(type) {
	case *graphql.List:
		return ListOf(d.tref(x.OfType))
	case *graphql.NonNull:
		return NN(d.tref(x.OfType))
	}
	return Ref(d.id(t))
}

func sortedKeys(m map[string]graphql.Type) []string {
	ks := make([]string, 0, len(m))
	for k := range m {
		ks = append(ks, k)
	}
	sort.Strings(ks)
	return ks
}

// dumpSchema walks everything reachable from the type map and the roots through the public API.
func dumpSchema(s *graphql.Schema) (*Dump, string) {
	d := &dumper{ids: map[graphql.Type]int{}}
	out := &Dump{TypeMap: [][]interface{}{}, PossibleTypes: [][]interface{}{}, IsPossible: [][]int{}, Directives: []BDir{}}
	tm := s.TypeMap()
	fault := ""
	for _, k := range sortedKeys(tm) {
		v := tm[k]
		if isNilPtr(v) {
			fault = "type map holds a nil type under " + k
			continue
		}
		if s.Type(k) != v {
			fault = "Schema.Type(" + k + ") differs from TypeMap()[" + k + "]"
		}
		out.TypeMap = append(out.TypeMap, []interface{}{k, d.id(v)})
	}
	root := func(o *graphql.Object) *int {
		if o == nil {
			return nil
		}
		return ip(d.id(o))
	}
	out.Query, out.Mutation, out.Subscription = root(s.QueryType()), root(s.MutationType()), root(s.SubscriptionType())
	for _, dir := range s.Directives() {
		if dir == nil {
			continue
		}
		bd := BDir{Name: dir.Name, Args: []BArg{}}
		for _, a := range dir.Args {
			if a != nil {
				bd.Args = append(bd.Args, BArg{Name: a.PrivateName, Type: d.tref(a.Type)})
			}
		}
		out.Directives = append(out.Directives, bd)
	}
	fields := func(fm graphql.FieldDefinitionMap) []BField {
		names := make([]string, 0, len(fm))
		for n := range fm {
			names = append(names, n)
		}
		sort.Strings(names)
		fs := []BField{}
		for _, n := range names {
			f := fm[n]
			bf := BField{Name: f.Name, Type: d.tref(f.Type), Args: []BArg{}}
			for _, a := range f.Args {
				bf.Args = append(bf.Args, BArg{Name: a.PrivateName, Type: d.tref(a.Type)})
			}
			fs = append(fs, bf)
		}
		return fs
	}
	for i := 0; i < len(d.order); i++ {
		t := d.order[i]
		bt := BType{Kind: kindOfGo(t), Fields: []BField{}, InputFields: []BArg{}, Interfaces: []int{}, Members: []int{}, Values: []string{}}
		switch x := t.(type) {
		case *graphql.List, *graphql.NonNull:
			bt.Name = t.Name() // a wrapper registered in the type map (only with its OfType nil)
		case *graphql.Object:
			bt.Name = x.Name()
			bt.Resolver = x.IsTypeOf != nil
			bt.Fields = fields(x.Fields())
			for _, j := range x.Interfaces() {
				if j != nil {
					bt.Interfaces = append(bt.Interfaces, d.id(j))
				}
			}
		case *graphql.Interface:
			bt.Name = x.Name()
			bt.Resolver = x.ResolveType != nil
			bt.Fields = fields(x.Fields())
		case *graphql.Enum:
			bt.Name = x.Name()
			for _, v := range x.Values() {
				if v != nil {
					bt.Values = append(bt.Values, v.Name)
				}
			}
		case *graphql.Union:
			bt.Name = x.Name()
			bt.Resolver = x.ResolveType != nil
			for _, m := range x.Types() {
				if m != nil {
					bt.Members = append(bt.Members, d.id(m))
				}
			}
		case *graphql.InputObject:
			bt.Name = x.Name()
			fm := x.Fields()
			names := make([]string, 0, len(fm))
			for n := range fm {
				names = append(names, n)
			}
			sort.Strings(names)
			for _, n := range names {
				bt.InputFields = append(bt.InputFields, BArg{Name: fm[n].PrivateName, Type: d.tref(fm[n].Type)})
			}
		default:
			bt.Name = t.Name()
		}
		out.Table = append(out.Table, bt)
	}
	// possible-type tables over the type map
	var abstracts []graphql.Type
	var objects []*graphql.Object
	for _, k := range sortedKeys(tm) {
		switch x := tm[k].(type) {
		case *graphql.Interface, *graphql.Union:
			if !isNilPtr(x) {
				abstracts = append(abstracts, tm[k])
			}
		case *graphql.Object:
			if x != nil {
				objects = append(objects, x)
			}
		}
	}
	for _, a := range abstracts {
		ab := a.(graphql.Abstract)
		ps := []int{}
		for _, o := range s.PossibleTypes(ab) {
			if o != nil {
				ps = append(ps, d.id(o))
			}
		}
		out.PossibleTypes = append(out.PossibleTypes, []interface{}{d.id(a), ps})
		for _, o := range objects {
			if s.IsPossibleType(ab, o) {
				out.IsPossible = append(out.IsPossible, []int{d.id(a), d.id(o)})
			}
		}
	}
	// errors parked on the types of the type map (every lazy member has been forced by now)
	out.Parked = [][]interface{}{}
	for _, k := range sortedKeys(tm) {
		if v := tm[k]; !isNilPtr(v) {
			if e := v.Error(); e != nil {
				out.Parked = append(out.Parked, []interface{}{d.id(v), classify(e)})
			}
		}
	}
	// types discovered only through PossibleTypes need a table row too
	for len(out.Table) < len(d.order) {
		t := d.order[len(out.Table)]
		out.Table = append(out.Table, BType{Kind: kindOfGo(t), Name: t.Name(), Fields: []BField{}, InputFields: []BArg{}, Interfaces: []int{}, Members: []int{}, Values: []string{}})
	}
	return out, fault
}

// ---------------------------------------------------------------- canonical form of a dump (model's or real)

func (d *Dump) render(t *TR) string {
	if t == nil {
		return "<nil>"
	}
	switch t.K {
	case "ref":
		if t.ID < len(d.Table) {
			return d.Table[t.ID].Name + ":" + d.Table[t.ID].Kind
		}
		return fmt.Sprintf("?%d", t.ID)
	case "list":
		return "[" + d.render(t.Of) + "]"
	case "nonNull":
		return d.render(t.Of) + "!"
	}
	return "<nilptr " + t.NK + ">"
}

func (d *Dump) nameK(id int) string {
	if id < len(d.Table) {
		return d.Table[id].Name + ":" + d.Table[id].Kind
	}
	return fmt.Sprintf("?%d", id)
}

func toInt(v interface{}) int {
	switch x := v.(type) {
	case int:
		return x
	case float64:
		return int(x)
	case interface{ Int64() (int64, error) }:
		n, _ := x.Int64()
		return int(n)
	}
	return -1
}

// canon renders a dump by names: what the property determines about a built schema.
func (d *Dump) canon() map[string]interface{} {
	types := map[string]interface{}{}
	parked := map[int]string{}
	for _, p := range d.Parked {
		if len(p) == 2 {
			c, _ := p[1].(string)
			parked[toInt(p[0])] = c
		}
	}
	for _, e := range d.TypeMap {
		key, _ := e[0].(string)
		id := toInt(e[1])
		if id < 0 || id >= len(d.Table) {
			types[key] = "?"
			continue
		}
		t := d.Table[id]
		fs := []string{}
		for _, f := range t.Fields {
			as := []string{}
			for _, a := range f.Args {
				as = append(as, a.Name+": "+d.render(a.Type))
			}
			sort.Strings(as)
			fs = append(fs, f.Name+"("+strings.Join(as, ", ")+"): "+d.render(f.Type))
		}
		sort.Strings(fs)
		ins := []string{}
		for _, f := range t.InputFields {
			ins = append(ins, f.Name+": "+d.render(f.Type))
		}
		sort.Strings(ins)
		ifs := []string{}
		for _, j := range t.Interfaces {
			ifs = append(ifs, d.nameK(j))
		}
		sort.Strings(ifs)
		ms := []string{}
		for _, j := range t.Members {
			ms = append(ms, d.nameK(j))
		}
		sort.Strings(ms)
		if parked[id] != "" { // the field map of a type whose definition failed is whatever map iteration had reached
			fs, ins = []string{"<masked>"}, []string{"<masked>"}
		}
		types[key] = map[string]interface{}{"kind": t.Kind, "name": t.Name, "fields": fs, "inputFields": ins, "interfaces": ifs, "members": ms, "err": parked[id],
			"values": append([]string{}, t.Values...), "resolver": t.Resolver}
	}
	poss := map[string]interface{}{}
	for _, e := range d.PossibleTypes {
		a := toInt(e[0])
		names := []string{} // in the order the API returns them (type-name order for interfaces, declaration order for unions)
		if l, ok := e[1].([]interface{}); ok {
			for _, o := range l {
				names = append(names, d.nameK(toInt(o)))
			}
		} else if l, ok := e[1].([]int); ok {
			for _, o := range l {
				names = append(names, d.nameK(o))
			}
		}
		poss[d.nameK(a)] = names
	}
	isp := []string{}
	for _, e := range d.IsPossible {
		isp = append(isp, d.nameK(e[0])+" > "+d.nameK(e[1]))
	}
	sort.Strings(isp)
	rootName := func(p *int) interface{} {
		if p == nil {
			return nil
		}
		return d.nameK(*p)
	}
	das := []string{}
	for _, dir := range d.Directives {
		as := []string{}
		for _, a := range dir.Args {
			as = append(as, a.Name+": "+d.render(a.Type))
		}
		das = append(das, "@"+dir.Name+"("+strings.Join(as, ", ")+")")
	}
	return map[string]interface{}{"types": types, "possibleTypes": poss, "isPossible": isp, "directives": das,
		"query": rootName(d.Query), "mutation": rootName(d.Mutation), "subscription": rootName(d.Subscription)}
}

// jsonRound passes a value through JSON so that it has the generic shape of a decoded driver answer.
func jsonRound(v map[string]interface{}) map[string]interface{} {
	b, err := json.Marshal(v)
	if err != nil {
		return nil
	}
	var out map[string]interface{}
	if json.Unmarshal(b, &out) != nil {
		return nil
	}
	return out
}

// ---------------------------------------------------------------- one run of the real code

type realOutcome struct {
	OK      bool                   `json:"ok"`
	Err     string                 `json:"err,omitempty"`   // class
	Msg     string                 `json:"msg,omitempty"`   // message (for the reader; not compared)
	Panic   string                 `json:"panic,omitempty"` // recovered panic value
	Stage   string                 `json:"stage,omitempty"` // construct | NewSchema | AppendType#k | dump
	Dump    *Dump                  `json:"dump,omitempty"`
	Fault   string                 `json:"fault,omitempty"` // API incoherence seen while dumping
	Desc    map[string]interface{} `json:"-"`               // the real schema in the wire style of the translated schema
	Harness string                 `json:"harness,omitempty"`
}

// runReal builds fresh objects, calls NewSchema and then AppendType for each entry of order (stopping at the first
// error), and dumps the resulting schema. Everything runs under recover.
func runReal(cfg *Config, order []*TR) (out realOutcome) {
	stage := "construct"
	defer func() {
		if r := recover(); r != nil {
			if hf, ok := r.(harnessFault); ok {
				out = realOutcome{Harness: string(hf)}
				return
			}
			out = realOutcome{Panic: fmt.Sprint(r), Stage: stage}
		}
	}()
	sc, b := build(cfg)
	stage = "NewSchema"
	s, err := graphql.NewSchema(sc)
	if err != nil {
		return realOutcome{Err: classify(err), Msg: err.Error(), Stage: stage}
	}
	for k, t := range order {
		stage = fmt.Sprintf("AppendType#%d", k)
		if err := s.AppendType(b.mk(t)); err != nil {
			return realOutcome{Err: classify(err), Msg: err.Error(), Stage: stage}
		}
	}
	stage = "dump"
	d, fault := dumpSchema(&s)
	return realOutcome{OK: true, Dump: d, Fault: fault, Desc: jsonRound(descOfReal(&s))}
}
