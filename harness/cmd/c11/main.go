// C11 harness: schema configurations, valid and malformed, are turned into REAL constructor calls
// (graphql.NewObject / NewList / … — the builder in config.go can express everything the Go API accepts, unlike
// gq.Build) and handed to graphql.NewSchema / Schema.AppendType under recover. Compared with the Lean model
// (lean/GqlModel/SchemaBuild.lean through drv_c11): ok / error CLASS / panic, and when ok the whole dump of the real
// schema (TypeMap, Type(name), Fields with types and args, Interfaces(), Types(), PossibleTypes, IsPossibleType for
// every abstract x object pair) against the model's dump; the decidable predicate `Consistent` (S) is evaluated by
// the Lean driver on the dump of the REAL schema. All AppendType orders of <= 4 extra types are enumerated and
// compared with supplying the types up front.
package main

import (
	"encoding/json"
	"fmt"
	"sort"
	"strings"

	"verif/harness/hx"
)

type modelOutcome struct {
	OK         bool                   `json:"ok"`
	Err        string                 `json:"err,omitempty"`
	AssertErrs []string               `json:"assertErrs,omitempty"` // every class the assertion loops (ranging over Go maps) can report first
	Dump       *Dump                  `json:"dump,omitempty"`
	Consistent *bool                  `json:"consistent,omitempty"`
	Parts      map[string]bool        `json:"parts,omitempty"`
	Schema     map[string]interface{} `json:"schema,omitempty"` // BuiltSchema.toSchema of the model's result (bridge)
}

type driverResp struct {
	Wf      bool         `json:"wf"`
	Outcome modelOutcome `json:"outcome"`
	Real    *struct {
		Consistent bool            `json:"consistent"`
		Parts      map[string]bool `json:"parts"`
	} `json:"real"`
}

type caseT struct {
	Config *Config  `json:"config"`
	Order  []*TR    `json:"order"`
	Tags   []string `json:"tags,omitempty"`
}

type harness struct {
	run *hx.Run
	drv *hx.Driver
}

func (h *harness) ask(cfg *Config, order []*TR, real *Dump) (*driverResp, error) {
	if order == nil {
		order = []*TR{}
	}
	req := map[string]interface{}{"config": cfg, "appendOrder": order}
	if real != nil {
		req["real"] = real
	}
	var resp driverResp
	if err := h.drv.Ask(req, &resp); err != nil {
		return nil, err
	}
	return &resp, nil
}

func sameOutcome(real *realOutcome, m *modelOutcome) bool {
	switch {
	case real.Panic != "":
		return !m.OK && m.Err == "panic"
	case !real.OK:
		if !m.OK && m.Err != real.Err && strings.HasPrefix(m.Err, "iface") {
			for _, e := range m.AssertErrs {
				if e == real.Err {
					return true
				}
			}
		}
		return !m.OK && m.Err == real.Err
	default:
		return m.OK && m.Dump != nil && hx.Canon(real.Dump.canon()) == hx.Canon(m.Dump.canon())
	}
}

// shuffled permutes everything the Go code ranges over as a map (fields, input fields, directive arguments): the
// model takes list order for map order, so "some order of the model agrees" is the comparison for first-error classes.
func shuffled(cfg *Config, r *hx.Rng) *Config {
	c := cfg.clone()
	for ti := range c.Types {
		t := &c.Types[ti]
		for i := len(t.Fields) - 1; i > 0; i-- {
			j := r.Intn(i + 1)
			t.Fields[i], t.Fields[j] = t.Fields[j], t.Fields[i]
		}
		for i := len(t.InputFields) - 1; i > 0; i-- {
			j := r.Intn(i + 1)
			t.InputFields[i], t.InputFields[j] = t.InputFields[j], t.InputFields[i]
		}
	}
	for _, d := range c.Directives {
		if d != nil {
			for i := len(d.Args) - 1; i > 0; i-- {
				j := r.Intn(i + 1)
				d.Args[i], d.Args[j] = d.Args[j], d.Args[i]
			}
		}
	}
	return c
}

func outcomeTag(o *realOutcome) string {
	switch {
	case o.Panic != "":
		return "real:panic"
	case !o.OK:
		return "real:err:" + o.Err
	default:
		return "real:ok"
	}
}

// check runs one configuration (plus AppendType sequence) through both sides. It returns the real outcome.
func (h *harness) check(c caseT, nontrivial bool) *realOutcome {
	run := h.run
	real := runReal(c.Config, c.Order)
	if real.Harness != "" {
		run.CheckError("harness fault: " + real.Harness)
		return nil
	}
	resp, err := h.ask(c.Config, c.Order, real.Dump)
	if err != nil {
		run.CheckError(err.Error())
		return nil
	}
	if !resp.Wf {
		run.CheckError("generator produced a configuration the Go API cannot express: " + hx.Canon(c))
		return nil
	}
	m := resp.Outcome
	for _, t := range c.Tags {
		run.Tag(t)
	}
	run.Tag(outcomeTag(&real))
	key := hx.Canon(c.Config) + "|" + hx.Canon(c.Order)
	run.Case(key, nontrivial, map[string]interface{}{"tags": c.Tags, "types": len(c.Config.Types), "appended": len(c.Order), "outcome": outcomeTag(&real)})

	replay := func(extra map[string]interface{}) map[string]interface{} {
		out := map[string]interface{}{"case": c, "real": real, "model": m}
		for k, v := range extra {
			out[k] = v
		}
		return out
	}

	match := sameOutcome(&real, &m)
	if !match && !(real.OK && m.OK) {
		// the first error depends on Go's map iteration order: look for an order of the model that agrees
		r := hx.NewRng(uint64(len(key))*7919 + 17)
		for k := 0; k < 40 && !match; k++ {
			c2 := shuffled(c.Config, r)
			resp2, err := h.ask(c2, c.Order, nil)
			if err != nil {
				run.CheckError(err.Error())
				return nil
			}
			m2 := resp2.Outcome
			if sameOutcome(&real, &m2) {
				match = true
				run.Tag("first-error-depends-on-map-order")
			}
		}
	}
	if !match {
		note := "graphql.NewSchema/AppendType and the model disagree: " + outcomeTag(&real) + " (" + real.Msg + real.Panic + ")"
		if m.OK {
			note += ", model ok"
			if real.OK {
				note += " with a different schema dump (type map / fields / interfaces / possible types)"
			}
		} else {
			note += ", model err:" + m.Err
		}
		run.Violation(note, replay(map[string]interface{}{"real_canon": canonOrNil(real.Dump), "model_canon": canonOrNil(m.Dump)}), false)
		return &real
	}
	// P: an error, or a consistent schema; never a panic
	if real.Panic != "" {
		run.Violation("schema construction panicked at "+real.Stage+": "+real.Panic, replay(nil), false)
		return &real
	}
	if real.OK {
		if real.Fault != "" {
			run.Violation("incoherent schema API: "+real.Fault, replay(nil), false)
			return &real
		}
		if resp.Real == nil {
			run.CheckError("driver did not evaluate Consistent on the real dump")
			return &real
		}
		if !resp.Real.Consistent {
			var bad []string
			for k, v := range resp.Real.Parts {
				if !v {
					bad = append(bad, k)
				}
			}
			sort.Strings(bad)
			run.Violation("NewSchema/AppendType returned an inconsistent schema (failing parts of Consistent: "+strings.Join(bad, ",")+")", replay(map[string]interface{}{"real_parts": resp.Real.Parts}), false)
		} else if real.Desc != nil && m.Schema != nil && hx.Canon(canonSchema(real.Desc)) != hx.Canon(canonSchema(m.Schema)) {
			run.Violation("the translated schema (BuiltSchema.toSchema of the model's result) differs from the same rendering of the real schema", replay(map[string]interface{}{"real_schema": canonSchema(real.Desc), "translated_schema": canonSchema(m.Schema)}), false)
		} else if m.Consistent != nil && !*m.Consistent {
			run.Violation("the model's schema is inconsistent although the model succeeded (theorem newSchema_ok_consistent contradicted: model/driver fault)", replay(nil), true)
		}
	}
	return &real
}

func canonOrNil(d *Dump) interface{} {
	if d == nil {
		return nil
	}
	return d.canon()
}

func permutations(n int) [][]int {
	var out [][]int
	var rec func(cur []int, used []bool)
	rec = func(cur []int, used []bool) {
		if len(cur) == n {
			out = append(out, append([]int{}, cur...))
			return
		}
		for i := 0; i < n; i++ {
			if !used[i] {
				used[i] = true
				rec(append(cur, i), used)
				used[i] = false
			}
		}
	}
	rec(nil, make([]bool, n))
	return out
}

// appendScenario: base configuration + extra types; every order of AppendType against supplying them up front.
func (h *harness) appendScenario(base *Config, xs []*TR, tags []string) {
	run := h.run
	up := base.clone()
	up.Extra = append(up.Extra, xs...)
	upReal := h.check(caseT{Config: up, Tags: append(append([]string{}, tags...), "append:upfront")}, true)
	if upReal == nil {
		return
	}
	baseReal := runReal(base, nil)
	if !baseReal.OK {
		run.Tag("append:base-rejected")
		return
	}
	upCanon := ""
	if upReal.OK {
		upCanon = hx.Canon(upReal.Dump.canon())
	}
	for _, p := range permutations(len(xs)) {
		order := make([]*TR, len(xs))
		for i, k := range p {
			order[i] = xs[k]
		}
		o := h.check(caseT{Config: base, Order: order, Tags: append(append([]string{}, tags...), fmt.Sprintf("append:order-of-%d", len(xs)))}, true)
		if o == nil || run.TooManyViolations() {
			return
		}
		if o.Panic != "" {
			continue // already judged by check
		}
		if o.OK != upReal.OK {
			run.Violation(fmt.Sprintf("AppendType in order %v: %s, but supplying the same types in SchemaConfig.Types: %s", p, outcomeTag(o), outcomeTag(upReal)),
				map[string]interface{}{"case": caseT{Config: base, Order: order, Tags: tags}, "appended": o, "upfront": upReal}, false)
			return
		}
		if o.OK && hx.Canon(o.Dump.canon()) != upCanon {
			run.Violation(fmt.Sprintf("AppendType in order %v gives a different schema than supplying the types in SchemaConfig.Types", p),
				map[string]interface{}{"case": caseT{Config: base, Order: order, Tags: tags}, "appended_canon": o.Dump.canon(), "upfront_canon": upReal.Dump.canon()}, false)
			return
		}
	}
}

// extraTypes adds up to 4 types that the base does not reach and returns references to them.
func extraTypes(cfg *Config, r *hx.Rng) ([]*TR, []string) {
	n := r.Range(1, 4)
	var xs []*TR
	var tags []string
	var newObjs []int
	ifs := cfg.idsOfKind("INTERFACE")
	for k := 0; k < n; k++ {
		name := fmt.Sprintf("X%d", k)
		switch r.Intn(8) {
		case 0, 1, 2: // implementer of an existing interface
			if len(ifs) == 0 {
				id := cfg.add(obj(name, fieldOf("x", Ref(r.Intn(5)))))
				newObjs = append(newObjs, id)
				xs = append(xs, Ref(id))
				continue
			}
			iface := ifs[r.Intn(len(ifs))]
			t := TypeC{Kind: "OBJECT", Name: name, Refs: []*int{ip(iface)}, Resolver: true, Form: r.Pick([]string{"direct", "thunk"}), RefsForm: r.Pick([]string{"direct", "thunk"})}
			for _, f := range cfg.typ(iface).Fields {
				nf := FieldC{Name: f.Name, Present: true, Type: f.Type.clone()}
				for _, a := range f.Args {
					nf.Args = append(nf.Args, ArgC{Name: a.Name, Present: true, Type: a.Type.clone()})
				}
				if nf.Args == nil {
					nf.Args = []ArgC{}
				}
				t.Fields = append(t.Fields, nf)
			}
			if len(newObjs) > 0 && r.Chance(1, 2) {
				t.Fields = append(t.Fields, fieldOf("prev", Ref(newObjs[r.Intn(len(newObjs))])))
			}
			// covariance through a possible type that is itself new (reachable only through this implementer)
			for fi := range t.Fields {
				leaf := t.Fields[fi].Type.leaf()
				if leaf >= nBuiltin && cfg.kindOf(leaf) == "INTERFACE" && r.Chance(1, 2) {
					y := TypeC{Kind: "OBJECT", Name: fmt.Sprintf("%sP%d", name, fi), Refs: []*int{ip(leaf)}, Resolver: true}
					for _, f := range cfg.typ(leaf).Fields {
						nf := FieldC{Name: f.Name, Present: true, Type: f.Type.clone(), Args: []ArgC{}}
						for _, a := range f.Args {
							nf.Args = append(nf.Args, ArgC{Name: a.Name, Present: true, Type: a.Type.clone()})
						}
						y.Fields = append(y.Fields, nf)
					}
					c := t.Fields[fi].Type.clone()
					replaceLeaf(c, cfg.add(y))
					t.Fields[fi].Type = c
					tags = append(tags, "append:covariant-new-possible-type")
				}
			}
			id := cfg.add(t)
			newObjs = append(newObjs, id)
			xs = append(xs, Ref(id))
			tags = append(tags, "append:implementer")
		case 3: // object chain
			t := obj(name, fieldOf("x", Ref(r.Intn(5))))
			if len(newObjs) > 0 {
				t.Fields = append(t.Fields, fieldOf("prev", ListOf(Ref(newObjs[r.Intn(len(newObjs))]))))
			}
			id := cfg.add(t)
			newObjs = append(newObjs, id)
			xs = append(xs, Ref(id))
		case 4: // union over new / old objects
			objs := cfg.idsOfKind("OBJECT")
			u := unionT(name, objs[r.Intn(len(objs))])
			if len(newObjs) > 0 {
				u.Refs = append(u.Refs, ip(newObjs[r.Intn(len(newObjs))]))
			}
			xs = append(xs, Ref(cfg.add(u)))
			tags = append(tags, "append:union")
		case 5: // wrapped reference
			id := cfg.add(enumT(name, "A", "B"))
			xs = append(xs, ListOf(NN(Ref(id))))
			tags = append(tags, "append:wrapped")
		case 6: // a type the base already has
			xs = append(xs, Ref(nBuiltin+r.Intn(len(cfg.Types))))
			tags = append(tags, "append:already-present")
		default: // defective
			switch r.Intn(4) {
			case 0:
				id := cfg.add(obj(cfg.Types[r.Intn(len(cfg.Types))].Name, fieldOf("x", Ref(0))))
				xs = append(xs, Ref(id))
				tags = append(tags, "append:duplicate-name")
			case 1:
				if len(ifs) > 0 {
					t := TypeC{Kind: "OBJECT", Name: name, Refs: []*int{ip(ifs[0])}, Resolver: true, Fields: []FieldC{fieldOf("unrelated", Ref(0))}}
					xs = append(xs, Ref(cfg.add(t)))
					tags = append(tags, "append:non-conforming")
				}
			case 2:
				xs = append(xs, Ref(cfg.add(obj(name))))
				tags = append(tags, "append:no-fields")
			default:
				id := cfg.add(inputT(name, argOf("a", NN(NN(Ref(0))))))
				xs = append(xs, Ref(id))
				tags = append(tags, "append:hidden-parked-error")
			}
		}
	}
	return xs, tags
}

func main() {
	run := hx.Begin("C11")
	drv, err := hx.StartDriver(run.DriverBin)
	if err != nil {
		run.CheckError("cannot start driver: " + err.Error())
		run.Finish()
		return
	}
	defer drv.Close()
	h := &harness{run: run, drv: drv}
	run.Res.Rule = "configurations = gen.SchemaGen output re-expressed as constructor calls (random thunk/direct forms, covariant implementers, unreachable types, custom directives) with 0, 1 or 2 single-aspect malformations out of 37 kinds (duplicate names across kinds and with built-ins, invalid names for every kind / member, empty and absent and unknown-typed member sets, nil members, nil / typed-nil types, List/NonNull of nil and NonNull of NonNull at any depth, kind mismatches, nine interface-conformance breaks, roots, scalars, unions, directives, defects behind thunk cycles or reachable only through Types) + 76 hand-written families; AppendType: every order of 1..4 extra types against supplying them up front; non-trivial = hand-written family, or >= 3 user types; distinct by (configuration, append order); histories: AddFieldConfig on objects / interfaces / input objects (good and bad fields: wrong kind, bad names, nil configs, bad wrappers, types not yet in the type map, overwritten interface fields; plain-map and thunked Fields; before or after NewSchema; registered or fresh targets) followed by AppendType of the mutated / a referring / an unrelated type or nothing, every prefix checked against the model (lean/GqlModel/SchemaLive.lean), against Consistent, and against NewSchema on the same final configuration"

	if run.ReplayIn != "" {
		var rp struct {
			Case    caseT     `json:"case"`
			History *histCase `json:"history"`
		}
		if err := hx.LoadReplay(run.ReplayIn, &rp); err != nil || (rp.Case.Config == nil && rp.History == nil) {
			run.CheckError(fmt.Sprint("cannot load replay: ", err))
		} else if rp.History != nil {
			h.checkPrefix(*rp.History)
		} else {
			h.check(rp.Case, true)
		}
		run.Finish()
		return
	}

	for _, f := range families() {
		h.check(caseT{Config: f.cfg, Order: f.app, Tags: []string{"family"}}, true)
		if len(f.app) > 0 {
			h.appendScenario(f.cfg, f.app, []string{"family-append"})
		}
	}
	n := run.N(1400, 60000)
	for i := 0; i < n && !run.TooManyViolations(); i++ {
		r := hx.Fork(run.Seed, i)
		cfg, tags := validBase(r)
		k := []int{0, 1, 1, 1, 1, 2}[r.Intn(6)]
		for j := 0; j < k; j++ {
			if t := perturb(cfg, r); t != "" {
				tags = append(tags, t)
			} else {
				j-- // did not apply: draw again (bounded by the PRNG moving on)
				if r.Chance(1, 8) {
					break
				}
			}
		}
		if k == 0 {
			tags = append(tags, "unperturbed")
		}
		dedupKeys(cfg)
		h.check(caseT{Config: cfg, Tags: tags}, len(cfg.Types) >= 3)
	}
	m := run.N(45, 2500)
	for i := 0; i < m && !run.TooManyViolations(); i++ {
		r := hx.Fork(run.Seed, 1_000_000+i)
		base, _ := validBase(r)
		base.Extra = []*TR{}
		xs, tags := extraTypes(base, r)
		h.appendScenario(base, xs, tags)
	}
	// histories: type objects mutated after construction (AddFieldConfig), then AppendType
	for _, f := range historyFamilies() {
		if run.TooManyViolations() {
			break
		}
		h.checkHistory(histCase{Config: f.cfg, Steps: f.steps, Tags: []string{"history-family"}})
	}
	nh := run.N(220, 12000)
	for i := 0; i < nh && !run.TooManyViolations(); i++ {
		r := hx.Fork(run.Seed, 2_000_000+i)
		if c, ok := genHistory(r); ok {
			dedupKeys(c.Config)
			h.checkHistory(c)
		}
	}
	_ = json.Marshal
	run.Finish()
}
