package main

// Configuration generators: valid configurations (converted from gen.SchemaGen output, then enriched with
// covariant implementers, thunk / direct forms, unreachable types), single-aspect perturbations, and hand-written
// malformed families.

import (
	"fmt"

	"verif/harness/gen"
	"verif/harness/gq"
	"verif/harness/hx"
)

var builtinID = map[string]int{"String": 0, "Int": 1, "Float": 2, "Boolean": 3, "ID": 4}

func fromExpr(te *gq.TypeExpr, ids map[string]int) *TR {
	switch te.Kind {
	case "list":
		return ListOf(fromExpr(te.Of, ids))
	case "nonNull":
		return NN(fromExpr(te.Of, ids))
	}
	if id, ok := ids[te.Name]; ok {
		return Ref(id)
	}
	if id, ok := builtinID[te.Name]; ok {
		return Ref(id)
	}
	panic(harnessFault("unknown type name " + te.Name))
}

func fromTypeString(s string, ids map[string]int) *TR {
	te, err := gq.ParseType(s)
	if err != nil {
		panic(harnessFault(err.Error()))
	}
	return fromExpr(te, ids)
}

// fromDesc converts a well-formed schema description into a configuration (forms chosen at random).
func fromDesc(d *gq.SchemaDesc, r *hx.Rng) *Config {
	ids := map[string]int{}
	for i, t := range d.Types {
		ids[t.Name] = nBuiltin + i
	}
	form := func() string {
		if r.Chance(1, 2) {
			return "thunk"
		}
		return "direct"
	}
	cfg := &Config{Extra: []*TR{}, Directives: []*DirC{}}
	args := func(as []gq.ArgDesc) []ArgC {
		out := []ArgC{}
		for _, a := range as {
			out = append(out, ArgC{Name: a.Name, Present: true, Type: fromTypeString(a.Type, ids)})
		}
		return out
	}
	for _, t := range d.Types {
		tc := TypeC{Kind: t.Kind, Name: t.Name, Form: form(), RefsForm: form(), Fields: []FieldC{}, InputFields: []ArgC{},
			Refs: []*int{}, Values: []ValC{}, Resolver: true, Serialize: true, ParseValue: true, ParseLiteral: true}
		switch t.Kind {
		case "OBJECT":
			tc.Resolver = t.IsTypeOf
			for _, in := range t.Interfaces {
				tc.Refs = append(tc.Refs, ip(ids[in]))
			}
			if len(tc.Refs) == 0 && r.Chance(1, 2) {
				tc.RefsForm = "absent"
			}
		case "INTERFACE", "UNION":
			tc.Resolver = t.ResolveType
			for _, m := range t.Members {
				tc.Refs = append(tc.Refs, ip(ids[m]))
			}
		}
		for _, f := range t.Fields {
			tc.Fields = append(tc.Fields, FieldC{Name: f.Name, Present: true, Type: fromTypeString(f.Type, ids), Args: args(f.Args)})
		}
		tc.InputFields = args(t.InputFields)
		for _, v := range t.Values {
			tc.Values = append(tc.Values, ValC{Name: v.Name, Present: true})
		}
		cfg.Types = append(cfg.Types, tc)
	}
	cfg.Query = ip(ids[d.Query])
	if d.Mutation != nil {
		cfg.Mutation = ip(ids[*d.Mutation])
	}
	if d.Subscription != nil {
		cfg.Subscription = ip(ids[*d.Subscription])
	}
	return cfg
}

func (c *Config) idsOfKind(kind string) []int {
	var out []int
	for i, t := range c.Types {
		if t.Kind == kind {
			out = append(out, nBuiltin+i)
		}
	}
	return out
}

func (c *Config) typ(id int) *TypeC { return &c.Types[id-nBuiltin] }

func (c *Config) implementersOf(iface int) []int {
	var out []int
	for i, t := range c.Types {
		if t.Kind == "OBJECT" {
			for _, r := range t.Refs {
				if r != nil && *r == iface {
					out = append(out, nBuiltin+i)
				}
			}
		}
	}
	return out
}

func (c *Config) add(t TypeC) int {
	if t.Form == "" {
		t.Form = "direct"
	}
	if t.RefsForm == "" {
		t.RefsForm = "direct"
	}
	if t.Fields == nil {
		t.Fields = []FieldC{}
	}
	if t.InputFields == nil {
		t.InputFields = []ArgC{}
	}
	if t.Refs == nil {
		t.Refs = []*int{}
	}
	if t.Values == nil {
		t.Values = []ValC{}
	}
	c.Types = append(c.Types, t)
	return nBuiltin + len(c.Types) - 1
}

func obj(name string, fields ...FieldC) TypeC {
	return TypeC{Kind: "OBJECT", Name: name, Fields: fields, RefsForm: "absent", Resolver: true}
}
func fieldOf(name string, t *TR, args ...ArgC) FieldC {
	if args == nil {
		args = []ArgC{}
	}
	return FieldC{Name: name, Present: true, Type: t, Args: args}
}
func argOf(name string, t *TR) ArgC { return ArgC{Name: name, Present: true, Type: t} }
func scalarT(name string) TypeC {
	return TypeC{Kind: "SCALAR", Name: name, Serialize: true, ParseValue: true, ParseLiteral: true}
}
func enumT(name string, vals ...string) TypeC {
	t := TypeC{Kind: "ENUM", Name: name}
	for _, v := range vals {
		t.Values = append(t.Values, ValC{Name: v, Present: true})
	}
	return t
}
func inputT(name string, fs ...ArgC) TypeC {
	return TypeC{Kind: "INPUT_OBJECT", Name: name, InputFields: fs}
}
func ifaceT(name string, fields ...FieldC) TypeC {
	return TypeC{Kind: "INTERFACE", Name: name, Fields: fields, Resolver: true}
}
func unionT(name string, members ...int) TypeC {
	t := TypeC{Kind: "UNION", Name: name, Resolver: true}
	for _, m := range members {
		t.Refs = append(t.Refs, ip(m))
	}
	return t
}

// validBase: a valid configuration.
func validBase(r *hx.Rng) (*Config, []string) {
	g := &gen.SchemaGen{R: r, Size: r.Range(1, 5)}
	cfg := fromDesc(g.Schema(), r)
	tags := []string{}
	// enrichment 1: covariant implementers (object field narrower than the interface field)
	for _, iface := range cfg.idsOfKind("INTERFACE") {
		impls := cfg.implementersOf(iface)
		if len(impls) == 0 || !r.Chance(1, 2) {
			continue
		}
		it := cfg.typ(iface)
		for fi := range it.Fields {
			f := &it.Fields[fi]
			leaf := f.Type.leaf()
			for _, o := range impls {
				ot := cfg.typ(o)
				for oi := range ot.Fields {
					of := &ot.Fields[oi]
					if of.Name != f.Name {
						continue
					}
					switch r.Intn(4) {
					case 0: // non-null narrowing at the top
						if of.Type != nil && of.Type.K != "nonNull" {
							of.Type = NN(of.Type)
							tags = append(tags, "valid:covariant-nonnull")
						}
					case 1: // abstract leaf replaced by a possible object
						if leaf >= nBuiltin {
							var cands []int
							switch cfg.kindOf(leaf) {
							case "INTERFACE":
								cands = cfg.implementersOf(leaf)
							case "UNION":
								for _, m := range cfg.typ(leaf).Refs {
									if m != nil {
										cands = append(cands, *m)
									}
								}
							}
							if len(cands) > 0 {
								replaceLeaf(of.Type, cands[r.Intn(len(cands))])
								tags = append(tags, "valid:covariant-possible-type")
							}
						}
					case 2: // extra optional argument on the implementer
						of.Args = append(of.Args, argOf("extraOpt", Ref(r.Intn(5))))
						tags = append(tags, "valid:extra-optional-arg")
					}
				}
			}
		}
	}
	// enrichment 2: SchemaConfig.Types — none, all, or a subset; plus an unreachable type now and then
	switch r.Intn(3) {
	case 0:
		for i := range cfg.Types {
			cfg.Extra = append(cfg.Extra, Ref(nBuiltin+i))
		}
	case 1:
		for i := range cfg.Types {
			if r.Chance(1, 3) {
				cfg.Extra = append(cfg.Extra, Ref(nBuiltin+i))
			}
		}
	}
	if r.Chance(1, 4) {
		id := cfg.add(obj("Lonely", fieldOf("x", Ref(r.Intn(5)))))
		if r.Chance(1, 2) {
			ifs := cfg.idsOfKind("INTERFACE")
			if len(ifs) > 0 { // unreachable implementer of an existing interface
				it := cfg.typ(ifs[0])
				lt := cfg.typ(id)
				lt.RefsForm = "direct"
				lt.Refs = []*int{ip(ifs[0])}
				for _, f := range it.Fields {
					lt.Fields = append(lt.Fields, FieldC{Name: f.Name, Present: true, Type: f.Type.clone(), Args: append([]ArgC{}, f.Args...)})
				}
				tags = append(tags, "valid:unreachable-implementer")
			}
		}
		cfg.Extra = append(cfg.Extra, Ref(id))
		tags = append(tags, "valid:unreachable-type-in-Types")
	}
	if r.Chance(1, 6) { // custom directives
		d := &DirC{Name: "custom", Locations: 1 + r.Intn(2), Args: []ArgC{argOf("a", Ref(0)), argOf("b", NN(Ref(3)))}}
		if r.Chance(1, 2) { // an input object that only a directive argument refers to
			in := cfg.add(inputT("DirIn", argOf("n", Ref(1)), argOf("e", ListOf(Ref(4)))))
			d.Args = append(d.Args, argOf("c", ListOf(NN(Ref(in)))))
			tags = append(tags, "valid:type-only-in-directive-arg")
		}
		cfg.Directives = append(cfg.Directives, d)
		tags = append(tags, "valid:custom-directive")
	}
	if r.Chance(1, 8) && cfg.Mutation == nil { // subscription root
		id := cfg.add(obj("S", fieldOf("tick", Ref(1))))
		cfg.Subscription = ip(id)
		tags = append(tags, "valid:subscription")
	}
	return cfg, tags
}

// addQueryField appends a field to the query root under a name the root does not have yet.
func addQueryField(cfg *Config, f FieldC) {
	if cfg.Query == nil {
		return
	}
	q := cfg.typ(*cfg.Query)
	name := f.Name
	for n := 2; ; n++ {
		clash := false
		for _, g := range q.Fields {
			if g.Name == name {
				clash = true
			}
		}
		if !clash {
			break
		}
		name = fmt.Sprintf("%s%d", f.Name, n)
	}
	f.Name = name
	q.Fields = append(q.Fields, f)
}

func replaceLeaf(t *TR, id int) {
	for t != nil {
		if t.K == "ref" {
			t.ID = id
			return
		}
		t = t.Of
	}
}

// ---------------------------------------------------------------- positions of type expressions

type pos struct {
	ti, fi, ai int // type index; field index (or -1); argument index (or -1);  fi<0 → input field ai
	extra      int // index into Extra, or -1
}

func (c *Config) positions() []pos {
	var out []pos
	for ti, t := range c.Types {
		for fi, f := range t.Fields {
			out = append(out, pos{ti, fi, -1, -1})
			for ai := range f.Args {
				out = append(out, pos{ti, fi, ai, -1})
			}
		}
		for ai := range t.InputFields {
			out = append(out, pos{ti, -1, ai, -1})
		}
	}
	for i := range c.Extra {
		out = append(out, pos{-1, -1, -1, i})
	}
	return out
}

func (c *Config) at(p pos) **TR {
	switch {
	case p.extra >= 0:
		return &c.Extra[p.extra]
	case p.fi < 0:
		return &c.Types[p.ti].InputFields[p.ai].Type
	case p.ai < 0:
		return &c.Types[p.ti].Fields[p.fi].Type
	default:
		return &c.Types[p.ti].Fields[p.fi].Args[p.ai].Type
	}
}

func (p pos) where() string {
	switch {
	case p.extra >= 0:
		return "Types"
	case p.fi < 0:
		return "inputField"
	case p.ai < 0:
		return "field"
	default:
		return "arg"
	}
}

var badNames = []string{"", "bad-name", "1x", "é", "a b", "x\n", "_", "__ok", "a.b"}

// wrapDeep puts f(x) at a random depth inside the expression.
func wrapDeep(r *hx.Rng, t *TR, f func(*TR) *TR) *TR {
	if t != nil && (t.K == "list" || t.K == "nonNull") && r.Chance(1, 2) {
		c := *t
		c.Of = wrapDeep(r, t.Of, f)
		return &c
	}
	return f(t)
}

// perturb applies one malformation; returns its tag ("" if it did not apply to this configuration).
func perturb(cfg *Config, r *hx.Rng) string {
	n := len(cfg.Types)
	if n == 0 {
		return ""
	}
	pick := func(kind string) int {
		ids := cfg.idsOfKind(kind)
		if len(ids) == 0 {
			return -1
		}
		return ids[r.Intn(len(ids))]
	}
	kinds := []string{"SCALAR", "OBJECT", "INTERFACE", "UNION", "ENUM", "INPUT_OBJECT"}
	ps := cfg.positions()
	switch r.Intn(37) {
	case 0: // duplicate name across (or within) kinds
		a, b := r.Intn(n), r.Intn(n)
		if a == b {
			return ""
		}
		cfg.Types[a].Name = cfg.Types[b].Name
		if cfg.Types[a].Kind == cfg.Types[b].Kind {
			return "dup-name-same-kind"
		}
		return "dup-name-across-kinds"
	case 1: // user type named like a built-in
		cfg.Types[r.Intn(n)].Name = r.Pick([]string{"String", "Boolean", "__Type", "__Schema", "Int", "__TypeKind", "ID"})
		return "dup-name-builtin"
	case 2: // invalid name, every kind
		id := pick(kinds[r.Intn(len(kinds))])
		if id < 0 {
			return ""
		}
		cfg.typ(id).Name = r.Pick(badNames)
		return "bad-name:" + cfg.typ(id).Kind
	case 3: // empty field / value / member sets
		t := &cfg.Types[r.Intn(n)]
		switch t.Kind {
		case "OBJECT", "INTERFACE":
			t.Fields = []FieldC{}
		case "INPUT_OBJECT":
			t.InputFields = []ArgC{}
		case "ENUM":
			t.Values = []ValC{}
		case "UNION":
			t.Refs = []*int{}
		default:
			return ""
		}
		return "empty-set:" + t.Kind
	case 4: // members supplied as nothing / as a value of an unknown type
		t := &cfg.Types[r.Intn(n)]
		f := r.Pick([]string{"absent", "unknown"})
		switch t.Kind {
		case "OBJECT":
			if r.Chance(1, 2) {
				t.Form = f
				return "fields-" + f + ":OBJECT"
			}
			t.RefsForm = f
			return "interfaces-" + f
		case "INTERFACE", "INPUT_OBJECT":
			t.Form = f
			return "fields-" + f + ":" + t.Kind
		case "UNION":
			t.RefsForm = f
			return "members-" + f
		}
		return ""
	case 5: // nil members
		t := &cfg.Types[r.Intn(n)]
		switch t.Kind {
		case "OBJECT", "INTERFACE":
			if len(t.Fields) == 0 {
				return ""
			}
			f := &t.Fields[r.Intn(len(t.Fields))]
			if len(f.Args) > 0 && r.Chance(1, 2) {
				f.Args[r.Intn(len(f.Args))].Present = false
				return "nil-arg-config"
			}
			if t.Kind == "OBJECT" && len(t.Refs) > 0 && r.Chance(1, 2) {
				t.Refs[r.Intn(len(t.Refs))] = nil
				return "nil-interface"
			}
			if r.Chance(1, 3) {
				for i := range t.Fields {
					t.Fields[i].Present = false
				}
				return "all-fields-nil"
			}
			f.Present = false
			return "nil-field-config"
		case "INPUT_OBJECT":
			if len(t.InputFields) == 0 {
				return ""
			}
			t.InputFields[r.Intn(len(t.InputFields))].Present = false
			return "nil-input-field-config"
		case "ENUM":
			if len(t.Values) == 0 {
				return ""
			}
			t.Values[r.Intn(len(t.Values))].Present = false
			return "nil-enum-value"
		case "UNION":
			if len(t.Refs) == 0 {
				return ""
			}
			t.Refs[r.Intn(len(t.Refs))] = nil
			return "nil-union-member"
		}
		return ""
	case 6: // nil type at a position
		if len(ps) == 0 {
			return ""
		}
		p := ps[r.Intn(len(ps))]
		*cfg.at(p) = nil
		return "nil-type:" + p.where()
	case 7, 8: // wrapper of nil at some depth
		if len(ps) == 0 {
			return ""
		}
		p := ps[r.Intn(len(ps))]
		w := r.Pick([]string{"list", "nonNull"})
		*cfg.at(p) = wrapDeep(r, *cfg.at(p), func(*TR) *TR {
			if w == "list" {
				return ListOf(nil)
			}
			return NN(nil)
		})
		return w + "-of-nil:" + p.where() + depthTag(*cfg.at(p))
	case 9, 10, 11: // non-null of non-null at some depth
		if len(ps) == 0 {
			return ""
		}
		p := ps[r.Intn(len(ps))]
		*cfg.at(p) = wrapDeep(r, *cfg.at(p), func(t *TR) *TR {
			if t != nil && t.K == "nonNull" {
				return NN(t)
			}
			return NN(NN(t))
		})
		if r.Chance(1, 3) {
			*cfg.at(p) = ListOf(*cfg.at(p))
		}
		return "nonnull-of-nonnull:" + p.where() + depthTag(*cfg.at(p))
	case 12, 13: // kind mismatch
		if len(ps) == 0 {
			return ""
		}
		p := ps[r.Intn(len(ps))]
		if p.extra >= 0 {
			return ""
		}
		var id int
		if p.where() == "field" {
			id = pick("INPUT_OBJECT")
			if id < 0 {
				id = cfg.add(inputT("InX", argOf("a", Ref(0))))
			}
		} else {
			id = pick(r.Pick([]string{"OBJECT", "INTERFACE", "UNION"}))
			if id < 0 {
				return ""
			}
		}
		if (*cfg.at(p)).leaf() < 0 {
			return ""
		}
		c := (*cfg.at(p)).clone()
		replaceLeaf(c, id)
		*cfg.at(p) = c
		return "kind-mismatch:" + p.where() + ":" + cfg.kindOf(id)
	case 14, 15, 16, 17: // interface conformance
		ifs := cfg.idsOfKind("INTERFACE")
		if len(ifs) == 0 {
			return ""
		}
		iface := ifs[r.Intn(len(ifs))]
		impls := cfg.implementersOf(iface)
		it := cfg.typ(iface)
		if len(impls) == 0 || len(it.Fields) == 0 {
			return ""
		}
		o := cfg.typ(impls[r.Intn(len(impls))])
		f := it.Fields[r.Intn(len(it.Fields))]
		oi := -1
		for k := range o.Fields {
			if o.Fields[k].Name == f.Name {
				oi = k
			}
		}
		if oi < 0 {
			return ""
		}
		of := &o.Fields[oi]
		switch r.Intn(9) {
		case 0:
			o.Fields = append(o.Fields[:oi], o.Fields[oi+1:]...)
			hasFiller := false
			for _, g := range o.Fields {
				if g.Name == "filler" {
					hasFiller = true
				}
			}
			if !hasFiller {
				o.Fields = append(o.Fields, fieldOf("filler", Ref(0)))
			}
			return "iface:field-missing"
		case 1:
			of.Type = Ref((f.Type.leaf() + 1) % 5) // an unrelated scalar
			return "iface:field-type-unrelated"
		case 2:
			of.Type = ListOf(of.Type)
			return "iface:field-type-list-of-subtype"
		case 3:
			if f.Type == nil || f.Type.K != "nonNull" {
				it.Fields[0].Type = NN(stripNN(it.Fields[0].Type))
				for _, im := range impls { // keep the other implementers valid, loosen only one
					ot := cfg.typ(im)
					for k := range ot.Fields {
						if ot.Fields[k].Name == it.Fields[0].Name {
							ot.Fields[k].Type = NN(stripNN(ot.Fields[k].Type))
						}
					}
				}
				for k := range o.Fields {
					if o.Fields[k].Name == it.Fields[0].Name {
						o.Fields[k].Type = stripNN(o.Fields[k].Type)
					}
				}
				return "iface:field-nullable-where-nonnull"
			}
			of.Type = stripNN(of.Type)
			return "iface:field-nullable-where-nonnull"
		case 4: // supertype instead of subtype: interface field typed with an object, implementer with its interface
			leaf := f.Type.leaf()
			if leaf >= nBuiltin && cfg.kindOf(leaf) == "OBJECT" {
				for _, r0 := range cfg.typ(leaf).Refs {
					if r0 != nil {
						c := of.Type.clone()
						replaceLeaf(c, *r0)
						of.Type = c
						return "iface:field-supertype"
					}
				}
			}
			return ""
		case 5:
			if len(f.Args) == 0 {
				return ""
			}
			of.Args = of.Args[:0]
			return "iface:arg-missing"
		case 6:
			if len(of.Args) == 0 {
				return ""
			}
			a := &of.Args[r.Intn(len(of.Args))]
			if r.Chance(1, 2) {
				if a.Type != nil && a.Type.K == "nonNull" {
					a.Type = a.Type.Of
				} else {
					a.Type = NN(a.Type)
				}
				return "iface:arg-type-nullability"
			}
			c := a.Type.clone()
			replaceLeaf(c, (a.Type.leaf()+1)%5)
			a.Type = c
			return "iface:arg-type-named"
		case 7:
			for _, a := range of.Args {
				if a.Name == "extraReq" {
					return ""
				}
			}
			of.Args = append(of.Args, argOf("extraReq", NN(Ref(r.Intn(5)))))
			return "iface:extra-required-arg"
		case 8: // object claims an interface it has none of the fields of
			other := cfg.add(ifaceT("IOther", fieldOf("zzz", Ref(0))))
			o.Refs = append(o.Refs, ip(other))
			o.RefsForm = "direct"
			return "iface:field-missing"
		}
		return ""
	case 18: // missing query root
		cfg.Query = nil
		return "no-query"
	case 19: // invalid root names
		switch r.Intn(3) {
		case 0:
			if cfg.Query != nil {
				cfg.typ(*cfg.Query).Name = r.Pick(badNames[:6])
				return "bad-name:query-root"
			}
		case 1:
			id := cfg.add(obj(r.Pick(badNames[:6]), fieldOf("m", Ref(0))))
			cfg.Mutation = ip(id)
			return "bad-name:mutation-root"
		case 2:
			id := cfg.add(obj(r.Pick(badNames[:6]), fieldOf("s", Ref(0))))
			cfg.Subscription = ip(id)
			return "bad-name:subscription-root"
		}
		return ""
	case 20, 21: // invalid member names
		t := &cfg.Types[r.Intn(n)]
		bad := r.Pick(badNames[:6])
		switch t.Kind {
		case "OBJECT", "INTERFACE":
			if len(t.Fields) == 0 {
				return ""
			}
			f := &t.Fields[r.Intn(len(t.Fields))]
			if len(f.Args) > 0 && r.Chance(1, 2) {
				f.Args[r.Intn(len(f.Args))].Name = bad
				return "bad-name:arg"
			}
			f.Name = bad
			return "bad-name:field"
		case "INPUT_OBJECT":
			if len(t.InputFields) == 0 {
				return ""
			}
			if r.Chance(1, 3) {
				for i := range t.InputFields {
					t.InputFields[i].Name = fmt.Sprintf("bad-%d", i)
				}
				return "bad-name:all-input-fields"
			}
			t.InputFields[r.Intn(len(t.InputFields))].Name = bad
			return "bad-name:input-field"
		case "ENUM":
			if len(t.Values) == 0 {
				return ""
			}
			t.Values[r.Intn(len(t.Values))].Name = bad
			return "bad-name:enum-value"
		}
		return ""
	case 22: // scalar functions
		id := pick("SCALAR")
		if id < 0 {
			id = cfg.add(scalarT("Sx"))
			addQueryField(cfg, fieldOf("sx", Ref(id), argOf("a", Ref(id))))
		}
		t := cfg.typ(id)
		switch r.Intn(3) {
		case 0:
			t.Serialize = false
			return "scalar:no-serialize"
		case 1:
			t.ParseValue = false
			return "scalar:parseLiteral-only"
		default:
			t.ParseLiteral = false
			return "scalar:parseValue-only"
		}
	case 23: // union member without isTypeOf and union without resolveType
		id := pick("UNION")
		if id < 0 {
			return ""
		}
		u := cfg.typ(id)
		u.Resolver = false
		for _, m := range u.Refs {
			if m != nil {
				cfg.typ(*m).Resolver = false
				break
			}
		}
		return "union:no-resolver"
	case 24, 25: // typed nil pointers
		if len(ps) == 0 {
			return ""
		}
		p := ps[r.Intn(len(ps))]
		k := "OBJECT"
		if p.where() == "arg" || p.where() == "inputField" {
			k = r.Pick([]string{"SCALAR", "ENUM", "INPUT_OBJECT"})
		} else {
			k = r.Pick([]string{"OBJECT", "SCALAR", "INTERFACE", "UNION", "ENUM", "LIST", "NON_NULL"})
		}
		if r.Chance(1, 2) {
			*cfg.at(p) = NilPtr(k)
			return "typed-nil:" + p.where()
		}
		*cfg.at(p) = wrapDeep(r, *cfg.at(p), func(*TR) *TR { return ListOf(NilPtr(k)) })
		return "typed-nil-wrapped:" + p.where()
	case 26: // directives
		switch r.Intn(10) {
		case 0:
			cfg.Directives = append(cfg.Directives, nil)
			return "directive:nil"
		case 1:
			cfg.Directives = append(cfg.Directives, &DirC{Name: "d", Locations: 1, Args: []ArgC{argOf("ok", Ref(0)), {Name: "x", Present: false}}})
			return "directive:nil-arg"
		case 2:
			cfg.Directives = append(cfg.Directives, &DirC{Name: r.Pick(badNames[:6]), Locations: 1, Args: []ArgC{}})
			return "directive:bad-name"
		case 3:
			cfg.Directives = append(cfg.Directives, &DirC{Name: "d", Locations: 0, Args: []ArgC{}})
			return "directive:no-locations"
		case 4:
			cfg.Directives = append(cfg.Directives, &DirC{Name: "d", Locations: 1, Args: []ArgC{argOf("bad-arg", Ref(0))}})
			return "directive:bad-arg-name"
		case 5:
			cfg.Directives = append(cfg.Directives, &DirC{Name: "d", Locations: 1, Args: []ArgC{argOf("x", nil)}})
			return "directive-arg:nil-type"
		case 6:
			cfg.Directives = append(cfg.Directives, &DirC{Name: "d", Locations: 1, Args: []ArgC{argOf("x", NilPtr(r.Pick([]string{"SCALAR", "ENUM", "INPUT_OBJECT"})))}})
			return "directive-arg:typed-nil"
		case 7:
			id := pick(r.Pick([]string{"OBJECT", "INTERFACE", "UNION"}))
			if id < 0 {
				return ""
			}
			t := Ref(id)
			if r.Chance(1, 2) {
				t = ListOf(NN(t))
			}
			cfg.Directives = append(cfg.Directives, &DirC{Name: "d", Locations: 1, Args: []ArgC{argOf("x", t)}})
			return "directive-arg:kind-mismatch"
		case 8:
			t := r.Pick([]string{"nn", "list", "nnnil"})
			var e *TR
			switch t {
			case "nn":
				e = ListOf(NN(NN(Ref(0))))
			case "list":
				e = ListOf(ListOf(nil))
			default:
				e = NN(nil)
			}
			cfg.Directives = append(cfg.Directives, &DirC{Name: "d", Locations: 1, Args: []ArgC{argOf("x", e)}})
			return "directive-arg:bad-wrapper"
		default:
			var id int
			switch r.Intn(3) {
			case 0:
				id = cfg.add(inputT("bad-in", argOf("a", Ref(0))))
			case 1:
				id = cfg.add(enumT("DirEmptyE"))
			default:
				id = cfg.add(inputT("DirEmptyIn"))
			}
			cfg.Directives = append(cfg.Directives, &DirC{Name: "d", Locations: 1, Args: []ArgC{argOf("x", ListOf(Ref(id)))}})
			return "directive-arg:defective-type"
		}
	case 27: // nil / typed nil entries in Types
		if r.Chance(1, 2) {
			cfg.Extra = append(cfg.Extra, nil)
			return "Types:nil-entry"
		}
		cfg.Extra = append(cfg.Extra, NilPtr(r.Pick([]string{"OBJECT", "LIST", "ENUM"})))
		return "Types:typed-nil-entry"
	case 28: // a defective type that only SchemaConfig.Types reaches
		var t TypeC
		tag := ""
		switch r.Intn(5) {
		case 0:
			t, tag = obj("Lone"), "unreachable:object-no-fields"
		case 1:
			t, tag = enumT("LoneE"), "unreachable:empty-enum"
		case 2:
			t, tag = unionT("LoneU"), "unreachable:empty-union"
		case 3:
			t, tag = inputT("LoneIn"), "unreachable:empty-input"
		default:
			t, tag = scalarT("bad-scalar"), "unreachable:bad-name-scalar"
		}
		id := cfg.add(t)
		e := Ref(id)
		if r.Chance(1, 3) {
			e = ListOf(e)
			tag += "-in-list"
		}
		cfg.Extra = append(cfg.Extra, e)
		return tag
	case 29: // defective type behind a thunked cycle
		a := cfg.add(TypeC{Kind: "OBJECT", Name: "CycA", Form: "thunk", RefsForm: "absent", Resolver: true})
		b := cfg.add(TypeC{Kind: "OBJECT", Name: "CycB", Form: "thunk", RefsForm: "absent", Resolver: true})
		bad := cfg.add(obj("CycBad"))
		cfg.typ(a).Fields = []FieldC{fieldOf("b", ListOf(Ref(b)))}
		cfg.typ(b).Fields = []FieldC{fieldOf("a", NN(Ref(a))), fieldOf("bad", Ref(bad))}
		addQueryField(cfg, fieldOf("cyc", Ref(a)))
		return "cycle:defect-behind-thunks"
	case 30: // invalid-named type referenced only below a wrapper or from an input position
		if len(ps) == 0 {
			return ""
		}
		p := ps[r.Intn(len(ps))]
		if p.extra >= 0 {
			return ""
		}
		var id int
		if p.where() == "field" {
			switch r.Intn(3) {
			case 0:
				id = cfg.add(obj("bad-obj", fieldOf("a", Ref(0))))
			case 1:
				id = cfg.add(enumT("bad-enum", "A"))
			default:
				id = cfg.add(scalarT("bad-scalar"))
			}
			if r.Chance(2, 3) {
				*cfg.at(p) = ListOf(Ref(id))
			} else {
				*cfg.at(p) = Ref(id)
			}
		} else {
			switch r.Intn(3) {
			case 0:
				id = cfg.add(inputT("bad-in", argOf("a", Ref(0))))
			case 1:
				id = cfg.add(enumT("bad-enum", "A"))
			default:
				id = cfg.add(scalarT("bad-scalar"))
			}
			*cfg.at(p) = Ref(id)
		}
		return "bad-name-referenced:" + p.where() + depthTag(*cfg.at(p))
	case 31: // parked non-name error in an input position
		if len(ps) == 0 {
			return ""
		}
		p := ps[r.Intn(len(ps))]
		if p.where() == "field" || p.extra >= 0 {
			return ""
		}
		var id int
		if r.Chance(1, 2) {
			id = cfg.add(enumT("EmptyE"))
		} else {
			s := scalarT("NoSer")
			s.Serialize = false
			id = cfg.add(s)
		}
		*cfg.at(p) = Ref(id)
		return "parked-error-in-input-position:" + p.where()
	case 32: // two types both fine, same name, one reachable only through Types
		t := cfg.Types[r.Intn(n)]
		c := t
		c.Fields = append([]FieldC{}, t.Fields...)
		id := cfg.add(c)
		cfg.Extra = append(cfg.Extra, Ref(id))
		return "dup-name-clone-in-Types"
	case 33: // a union listing a member twice / two members with one name
		id := pick("UNION")
		if id < 0 {
			return ""
		}
		u := cfg.typ(id)
		if len(u.Refs) == 0 || u.Refs[0] == nil {
			return ""
		}
		if r.Chance(1, 2) {
			u.Refs = append(u.Refs, u.Refs[0])
			return "union:member-twice"
		}
		m := cfg.typ(*u.Refs[0])
		c := *m
		c.Fields = append([]FieldC{}, m.Fields...)
		u.Refs = append(u.Refs, ip(cfg.add(c)))
		return "union:two-members-one-name"
	case 34: // an object declaring an interface twice
		ifs := cfg.idsOfKind("INTERFACE")
		if len(ifs) == 0 {
			return ""
		}
		impls := cfg.implementersOf(ifs[r.Intn(len(ifs))])
		if len(impls) == 0 {
			return ""
		}
		o := cfg.typ(impls[r.Intn(len(impls))])
		o.Refs = append(o.Refs, o.Refs[r.Intn(len(o.Refs))])
		return "iface:declared-twice"
	case 35: // reserved enum value names
		id := pick("ENUM")
		if id < 0 {
			return ""
		}
		e := cfg.typ(id)
		if len(e.Values) == 0 {
			return ""
		}
		e.Values[r.Intn(len(e.Values))].Name = r.Pick([]string{"true", "false", "null", "TRUE", "nullx"})
		return "enum:reserved-value-name"
	default: // self-referential and mutually recursive valid additions (no defect): must stay ok
		a := cfg.add(TypeC{Kind: "OBJECT", Name: "RecA", Form: r.Pick([]string{"thunk", "direct"}), RefsForm: "absent", Resolver: true})
		cfg.typ(a).Fields = []FieldC{fieldOf("self", ListOf(NN(Ref(a)))), fieldOf("n", Ref(1))}
		in := cfg.add(TypeC{Kind: "INPUT_OBJECT", Name: "RecIn", Form: r.Pick([]string{"thunk", "direct"})})
		cfg.typ(in).InputFields = []ArgC{argOf("again", Ref(in)), argOf("n", Ref(1))}
		addQueryField(cfg, fieldOf("rec", Ref(a), argOf("in", Ref(in))))
		return "valid:recursive-types"
	}
}

// dedupKeys removes duplicate keys inside every Go map of the configuration (fields, arguments, input fields, enum
// values, directive arguments): a Go map cannot hold them; the builder would let the last one win, so the last is kept.
func dedupKeys(c *Config) {
	dedupArgs := func(as []ArgC) []ArgC {
		last := map[string]int{}
		for i, a := range as {
			last[a.Name] = i
		}
		out := as[:0:0]
		for i, a := range as {
			if last[a.Name] == i {
				out = append(out, a)
			}
		}
		if out == nil {
			out = []ArgC{}
		}
		return out
	}
	for ti := range c.Types {
		t := &c.Types[ti]
		last := map[string]int{}
		for i, f := range t.Fields {
			last[f.Name] = i
		}
		fs := []FieldC{}
		for i, f := range t.Fields {
			if last[f.Name] == i {
				f.Args = dedupArgs(f.Args)
				fs = append(fs, f)
			}
		}
		t.Fields = fs
		t.InputFields = dedupArgs(t.InputFields)
		lastV := map[string]int{}
		for i, v := range t.Values {
			lastV[v.Name] = i
		}
		vs := []ValC{}
		for i, v := range t.Values {
			if lastV[v.Name] == i {
				vs = append(vs, v)
			}
		}
		t.Values = vs
	}
	for _, d := range c.Directives {
		if d != nil {
			d.Args = dedupArgs(d.Args)
		}
	}
}

func stripNN(t *TR) *TR {
	if t != nil && t.K == "nonNull" {
		return t.Of
	}
	return t
}

func depthTag(t *TR) string {
	d := 0
	for t != nil && (t.K == "list" || t.K == "nonNull") {
		d++
		t = t.Of
	}
	if d >= 3 {
		return ":deep"
	}
	return ""
}

// ---------------------------------------------------------------- hand-written families

type family struct {
	name string
	cfg  *Config
	app  []*TR // types appended after construction
}

func qOnly(fields ...FieldC) *Config {
	c := &Config{Extra: []*TR{}, Directives: []*DirC{}}
	q := c.add(obj("Q", fields...))
	c.Query = ip(q)
	return c
}

func families() []family {
	var out []family
	add := func(name string, c *Config, app ...*TR) { out = append(out, family{name, c, app}) }
	S, I, B := Ref(0), Ref(1), Ref(3)
	add("minimal", qOnly(fieldOf("f", S)))
	{ // D-11c
		c := qOnly()
		in := c.add(inputT("In", argOf("a", S)))
		c.typ(*c.Query).Fields = []FieldC{fieldOf("f", Ref(in))}
		add("D-11c:input-object-as-field-type", c)
		c = qOnly()
		o := c.add(obj("O", fieldOf("a", S)))
		c.typ(*c.Query).Fields = []FieldC{fieldOf("f", S, argOf("x", Ref(o)))}
		add("D-11c:object-as-arg-type", c)
		c = qOnly()
		o = c.add(obj("O", fieldOf("a", S)))
		in = c.add(inputT("In", argOf("a", Ref(o))))
		c.typ(*c.Query).Fields = []FieldC{fieldOf("f", S, argOf("x", Ref(in)))}
		add("D-11c:object-as-input-field-type", c)
		c = qOnly()
		u := c.add(unionT("U", *c.Query))
		c.typ(*c.Query).Fields = []FieldC{fieldOf("f", S, argOf("x", ListOf(NN(Ref(u)))))}
		add("D-11c:union-in-list-as-arg-type", c)
	}
	// D-11d
	add("D-11d:[String!!]", qOnly(fieldOf("f", ListOf(NN(NN(S))))))
	add("String!!-direct", qOnly(fieldOf("f", NN(NN(S)))))
	add("D-11d:String!!-as-arg", qOnly(fieldOf("f", S, argOf("x", NN(NN(S))))))
	add("D-11d:two-String!!-args", qOnly(fieldOf("f", S, argOf("x", NN(NN(S))), argOf("y", NN(NN(S))))))
	add("D-11d:[[nil]]", qOnly(fieldOf("f", ListOf(ListOf(nil)))))
	add("D-11d:List(nil)-as-arg", qOnly(fieldOf("f", S, argOf("x", ListOf(nil)))))
	add("D-11d:NonNull(nil)-in-list", qOnly(fieldOf("f", ListOf(NN(nil)))))
	add("D-11d:deep", qOnly(fieldOf("f", NN(ListOf(NN(ListOf(NN(NN(NN(I))))))))))
	{
		c := qOnly()
		s := c.add(scalarT("bad-name"))
		c.typ(*c.Query).Fields = []FieldC{fieldOf("f", S, argOf("x", Ref(s)))}
		add("D-11d:bad-named-scalar-as-arg", c)
		c = qOnly()
		o := c.add(obj("bad-name", fieldOf("a", S)))
		c.typ(*c.Query).Fields = []FieldC{fieldOf("f", ListOf(Ref(o)))}
		add("D-11d:bad-named-object-in-list", c)
		c = qOnly()
		e := c.add(enumT("bad-name", "A"))
		in := c.add(inputT("In", argOf("a", Ref(e))))
		c.typ(*c.Query).Fields = []FieldC{fieldOf("f", S, argOf("x", Ref(in)))}
		add("D-11d:bad-named-enum-as-input-field", c)
		c = qOnly()
		e = c.add(enumT("E"))
		c.typ(*c.Query).Fields = []FieldC{fieldOf("f", S, argOf("x", Ref(e)))}
		add("empty-enum-as-arg", c)
		c = qOnly(fieldOf("f", S))
		e = c.add(enumT("E"))
		c.Extra = []*TR{Ref(e)}
		add("empty-enum-in-Types", c)
	}
	// D-11f
	add("D-11f:typed-nil-object-field", qOnly(fieldOf("f", NilPtr("OBJECT"))))
	add("D-11f:typed-nil-scalar-arg", qOnly(fieldOf("f", S, argOf("x", NilPtr("SCALAR")))))
	add("D-11f:list-of-typed-nil", qOnly(fieldOf("f", ListOf(NilPtr("OBJECT")))))
	{
		c := qOnly(fieldOf("f", S))
		c.Directives = []*DirC{{Name: "d", Locations: 1, Args: []ArgC{{Name: "x", Present: false}}}}
		add("D-11f:directive-nil-arg", c)
		c = qOnly(fieldOf("f", S))
		c.Directives = []*DirC{{Name: "d", Locations: 1, Args: []ArgC{argOf("x", NilPtr("SCALAR"))}}}
		add("D-11g:directive-arg-typed-nil", c)
		c = qOnly(fieldOf("f", S))
		c.Directives = []*DirC{{Name: "d", Locations: 1, Args: []ArgC{argOf("x", nil)}}}
		add("D-11g:directive-arg-nil-type", c)
		c = qOnly(fieldOf("f", S))
		o := c.add(obj("O", fieldOf("a", S)))
		c.Directives = []*DirC{{Name: "d", Locations: 1, Args: []ArgC{argOf("x", Ref(o))}}}
		add("D-11g:directive-arg-object-type", c)
		c = qOnly(fieldOf("f", S))
		in := c.add(inputT("OnlyInDirective", argOf("a", I)))
		c.Directives = []*DirC{{Name: "d", Locations: 2, Args: []ArgC{argOf("x", ListOf(Ref(in))), argOf("a", NN(B))}}}
		add("directive-arg:input-object-only-there", c)
		c = qOnly(fieldOf("f", S))
		c.Directives = []*DirC{nil}
		add("D-11f:nil-directive", c)
		add("D-11f:AppendType(nil)", qOnly(fieldOf("f", S)), nil)
		add("D-11f:AppendType(typed-nil)", qOnly(fieldOf("f", S)), NilPtr("OBJECT"))
		c = qOnly(fieldOf("f", S))
		c.Extra = []*TR{nil, NilPtr("OBJECT"), NilPtr("LIST")}
		add("D-11a:nil-entries-in-Types", c)
	}
	{ // roots
		c := qOnly(fieldOf("f", S))
		c.Query = nil
		add("no-query", c)
		c = qOnly()
		add("query-without-fields", c)
		c = qOnly(fieldOf("f", S))
		c.typ(*c.Query).Fields[0].Present = false
		add("query-all-fields-nil", c)
		c = qOnly(fieldOf("f", S))
		m := c.add(obj("", fieldOf("m", S)))
		c.Mutation = ip(m)
		add("mutation-unnamed", c)
		c = qOnly(fieldOf("f", S))
		m = c.add(obj("Q", fieldOf("m", S)))
		c.Mutation = ip(m)
		add("mutation-same-name-as-query", c)
		c = qOnly(fieldOf("f", S))
		c.Mutation = c.Query
		c.Subscription = c.Query
		add("one-object-for-all-roots", c)
	}
	{ // interfaces
		mk := func(ifaceField, objField FieldC, extraObjFields ...FieldC) *Config {
			c := qOnly()
			i := c.add(ifaceT("I", ifaceField))
			fs := append([]FieldC{objField}, extraObjFields...)
			o := c.add(TypeC{Kind: "OBJECT", Name: "O", Fields: fs, Refs: []*int{ip(i)}, Resolver: true})
			c.typ(*c.Query).Fields = []FieldC{fieldOf("i", Ref(i)), fieldOf("o", Ref(o))}
			return c
		}
		add("iface:exact", mk(fieldOf("a", S, argOf("x", I)), fieldOf("a", S, argOf("x", I))))
		add("iface:nonnull-narrowing", mk(fieldOf("a", S), fieldOf("a", NN(S))))
		add("iface:list-nonnull-inner", mk(fieldOf("a", ListOf(S)), fieldOf("a", ListOf(NN(S)))))
		add("iface:nullable-where-nonnull", mk(fieldOf("a", NN(S)), fieldOf("a", S)))
		add("iface:list-vs-named", mk(fieldOf("a", S), fieldOf("a", ListOf(S))))
		add("iface:named-vs-list", mk(fieldOf("a", ListOf(S)), fieldOf("a", S)))
		add("iface:missing-field", mk(fieldOf("a", S), fieldOf("b", S)))
		add("iface:missing-arg", mk(fieldOf("a", S, argOf("x", I)), fieldOf("a", S)))
		add("iface:arg-nonnull-differs", mk(fieldOf("a", S, argOf("x", I)), fieldOf("a", S, argOf("x", NN(I)))))
		add("iface:arg-type-differs", mk(fieldOf("a", S, argOf("x", I)), fieldOf("a", S, argOf("x", S))))
		add("iface:arg-list-differs", mk(fieldOf("a", S, argOf("x", ListOf(I))), fieldOf("a", S, argOf("x", ListOf(NN(I))))))
		add("iface:extra-optional-arg", mk(fieldOf("a", S), fieldOf("a", S, argOf("y", B))))
		add("iface:extra-required-arg", mk(fieldOf("a", S), fieldOf("a", S, argOf("y", NN(B)))))
		add("iface:extra-arg-list-of-nonnull", mk(fieldOf("a", S), fieldOf("a", S, argOf("y", ListOf(NN(B))))))
		// covariance through the interface itself and through a union
		c := qOnly()
		i := c.add(ifaceT("I"))
		o := c.add(TypeC{Kind: "OBJECT", Name: "O", Refs: []*int{ip(i)}, Resolver: true, Form: "thunk"})
		c.typ(i).Fields = []FieldC{fieldOf("self", Ref(i))}
		c.typ(i).Form = "thunk"
		c.typ(o).Fields = []FieldC{fieldOf("self", Ref(o))}
		c.typ(*c.Query).Fields = []FieldC{fieldOf("o", Ref(o))}
		add("iface:covariant-self", c)
		c = c.clone()
		o2 := c.add(TypeC{Kind: "OBJECT", Name: "P", Fields: []FieldC{fieldOf("x", S)}, RefsForm: "absent", Resolver: true})
		c.typ(o).Fields = []FieldC{fieldOf("self", Ref(o2))}
		add("iface:object-not-implementing-as-field-type", c)
		c = qOnly()
		a := c.add(obj("A", fieldOf("x", S)))
		u := c.add(unionT("U", a))
		i = c.add(ifaceT("I", fieldOf("u", Ref(u))))
		o = c.add(TypeC{Kind: "OBJECT", Name: "O", Fields: []FieldC{fieldOf("u", Ref(a))}, Refs: []*int{ip(i)}, Resolver: true})
		c.typ(*c.Query).Fields = []FieldC{fieldOf("o", Ref(o))}
		add("iface:covariant-union-member", c)
		c = c.clone()
		c.typ(u).Refs = []*int{c.Query}
		add("iface:not-a-union-member", c)
		// interface declared twice
		c = mk(fieldOf("a", S), fieldOf("a", S))
		ot := c.typ(c.idsOfKind("OBJECT")[1])
		ot.Refs = append(ot.Refs, ot.Refs[0])
		add("iface:declared-twice", c)
		// implementer reachable only through Types
		c = qOnly()
		i = c.add(ifaceT("I", fieldOf("a", S)))
		o = c.add(TypeC{Kind: "OBJECT", Name: "O", Fields: []FieldC{fieldOf("a", S)}, Refs: []*int{ip(i)}, Resolver: true})
		c.typ(*c.Query).Fields = []FieldC{fieldOf("i", Ref(i))}
		add("iface:implementer-not-reachable", c)
		c = c.clone()
		c.Extra = []*TR{Ref(o)}
		add("iface:implementer-in-Types", c)
		c = c.clone()
		c.typ(o).Fields = []FieldC{fieldOf("b", S)}
		add("iface:bad-implementer-in-Types", c)
	}
	{ // unions
		c := qOnly()
		a := c.add(obj("A", fieldOf("x", S)))
		u := c.add(unionT("U", a, a))
		c.typ(*c.Query).Fields = []FieldC{fieldOf("u", Ref(u))}
		add("union:member-twice", c)
		c = c.clone()
		c.typ(u).Resolver = false
		c.typ(a).Resolver = false
		add("union:no-resolver-no-isTypeOf", c)
		c = c.clone()
		c.typ(a).Resolver = true
		c.typ(a).Name = "bad-name"
		add("union:member-bad-name-no-resolver", c)
		c = c.clone()
		c.typ(u).Resolver = true
		add("union:member-bad-name", c)
		c = c.clone()
		c.typ(a).Name = "A"
		c.typ(u).RefsForm = "thunk"
		c.typ(u).Refs = []*int{nil, ip(a)}
		add("union:nil-member-thunk", c)
	}
	{ // duplicates
		c := qOnly()
		a := c.add(obj("A", fieldOf("x", S)))
		b := c.add(enumT("A", "V"))
		c.typ(*c.Query).Fields = []FieldC{fieldOf("a", Ref(a)), fieldOf("b", Ref(b))}
		add("dup:object-enum", c)
		c = qOnly()
		s := c.add(scalarT("String"))
		c.typ(*c.Query).Fields = []FieldC{fieldOf("a", Ref(s))}
		add("dup:user-String", c)
		c = qOnly(fieldOf("a", S))
		s = c.add(scalarT("__Type"))
		c.Extra = []*TR{Ref(s)}
		add("dup:user-__Type-in-Types", c)
		c = qOnly(fieldOf("a", S))
		c.Extra = []*TR{Ref(*c.Query), Ref(*c.Query), ListOf(Ref(*c.Query))}
		add("dup:same-object-twice-is-fine", c)
	}
	{ // AppendType
		c := qOnly()
		i := c.add(ifaceT("I", fieldOf("a", S)))
		c.typ(*c.Query).Fields = []FieldC{fieldOf("i", Ref(i))}
		a := c.add(TypeC{Kind: "OBJECT", Name: "A", Fields: []FieldC{fieldOf("a", S)}, Refs: []*int{ip(i)}, Resolver: true})
		b := c.add(TypeC{Kind: "OBJECT", Name: "B", Fields: []FieldC{fieldOf("a", NN(S))}, Refs: []*int{ip(i)}, Resolver: true})
		add("append:two-implementers (D-11e)", c, Ref(a), Ref(b))
		add("append:same-twice", c, Ref(a), Ref(a))
		c2 := c.clone()
		c2.typ(b).Fields = []FieldC{fieldOf("zzz", S)}
		add("append:non-conforming", c2, Ref(a), Ref(b))
		c3 := c.clone()
		c3.typ(b).Name = "A"
		add("append:duplicate-name", c3, Ref(a), Ref(b))
		add("append:wrapper", c, ListOf(NN(Ref(a))))
		add("append:bad-wrapper", c, NN(NN(Ref(a))))
		add("append:builtin", c, Ref(1))
		// the appended implementer narrows a field to a possible type that is itself new
		c = qOnly()
		j := c.add(ifaceT("J", fieldOf("x", S)))
		i = c.add(ifaceT("I", fieldOf("f", Ref(j)), fieldOf("l", ListOf(NN(Ref(j))))))
		c.typ(*c.Query).Fields = []FieldC{fieldOf("i", Ref(i)), fieldOf("j", Ref(j))}
		y := c.add(TypeC{Kind: "OBJECT", Name: "Y", Fields: []FieldC{fieldOf("x", S)}, Refs: []*int{ip(j)}, Resolver: true})
		x := c.add(TypeC{Kind: "OBJECT", Name: "X", Fields: []FieldC{fieldOf("f", Ref(y)), fieldOf("l", ListOf(NN(Ref(y))))}, Refs: []*int{ip(i)}, Resolver: true, Form: "thunk"})
		add("append:covariant-new-possible-type", c, Ref(x))
		add("append:covariant-new-possible-type-both", c, Ref(y), Ref(x))
	}
	return out
}
