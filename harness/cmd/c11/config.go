package main

// The configuration language of lean/GqlModel/SchemaBuild.lean (wire format of lean/Driver/C11.lean) and the
// builder that turns a configuration into REAL constructor calls (graphql.NewObject, NewList, …), malformed or not.

import (
	"encoding/json"
	"fmt"

	"github.com/graphql-go/graphql"
	"github.com/graphql-go/graphql/language/ast"
)

// ---------------------------------------------------------------- type expressions

// TR is a type expression: nil pointer of *TR = untyped nil.
type TR struct {
	K  string // ref | list | nonNull | nilptr
	ID int    // ref
	Of *TR    // list / nonNull (nil = NewList(nil))
	NK string // nilptr: kind of the typed nil pointer
}

func Ref(id int) *TR   { return &TR{K: "ref", ID: id} }
func ListOf(t *TR) *TR { return &TR{K: "list", Of: t} }
func NN(t *TR) *TR     { return &TR{K: "nonNull", Of: t} }
func NilPtr(k string) *TR {
	return &TR{K: "nilptr", NK: k}
}

func (t *TR) MarshalJSON() ([]byte, error) {
	if t == nil {
		return []byte("null"), nil
	}
	switch t.K {
	case "ref":
		return json.Marshal(t.ID)
	case "list":
		return json.Marshal(map[string]*TR{"list": t.Of})
	case "nonNull":
		return json.Marshal(map[string]*TR{"nonNull": t.Of})
	case "nilptr":
		return json.Marshal(map[string]string{"nilptr": t.NK})
	}
	return nil, fmt.Errorf("bad TR kind %q", t.K)
}

func (t *TR) UnmarshalJSON(b []byte) error {
	var n int
	if json.Unmarshal(b, &n) == nil {
		*t = TR{K: "ref", ID: n}
		return nil
	}
	var m map[string]json.RawMessage
	if err := json.Unmarshal(b, &m); err != nil {
		return err
	}
	dec := func(raw json.RawMessage) (*TR, error) {
		if string(raw) == "null" {
			return nil, nil
		}
		x := &TR{}
		if err := x.UnmarshalJSON(raw); err != nil {
			return nil, err
		}
		return x, nil
	}
	if raw, ok := m["list"]; ok {
		of, err := dec(raw)
		*t = TR{K: "list", Of: of}
		return err
	}
	if raw, ok := m["nonNull"]; ok {
		of, err := dec(raw)
		*t = TR{K: "nonNull", Of: of}
		return err
	}
	if raw, ok := m["nilptr"]; ok {
		var k string
		err := json.Unmarshal(raw, &k)
		*t = TR{K: "nilptr", NK: k}
		return err
	}
	return fmt.Errorf("bad type reference %s", string(b))
}

func (t *TR) clone() *TR {
	if t == nil {
		return nil
	}
	c := *t
	c.Of = t.Of.clone()
	return &c
}

func (t *TR) String() string {
	if t == nil {
		return "nil"
	}
	switch t.K {
	case "ref":
		return fmt.Sprintf("#%d", t.ID)
	case "list":
		return "[" + t.Of.String() + "]"
	case "nonNull":
		return t.Of.String() + "!"
	}
	return "nilptr(" + t.NK + ")"
}

// leaf returns the id of the named type the expression ends in (-1 if none).
func (t *TR) leaf() int {
	for t != nil {
		switch t.K {
		case "ref":
			return t.ID
		case "list", "nonNull":
			t = t.Of
		default:
			return -1
		}
	}
	return -1
}

// ---------------------------------------------------------------- configuration

type ArgC struct {
	Name    string `json:"name"`
	Present bool   `json:"present"`
	Type    *TR    `json:"type"`
}

type FieldC struct {
	Name    string `json:"name"`
	Present bool   `json:"present"`
	Type    *TR    `json:"type"`
	Args    []ArgC `json:"args"`
}

type ValC struct {
	Name    string
	Present bool
}

func (v ValC) MarshalJSON() ([]byte, error) { return json.Marshal([]interface{}{v.Name, v.Present}) }
func (v *ValC) UnmarshalJSON(b []byte) error {
	var a []interface{}
	if err := json.Unmarshal(b, &a); err != nil || len(a) != 2 {
		return fmt.Errorf("bad [name,present] %s", string(b))
	}
	v.Name, _ = a[0].(string)
	v.Present, _ = a[1].(bool)
	return nil
}

type TypeC struct {
	Kind         string   `json:"kind"`
	Name         string   `json:"name"`
	Form         string   `json:"form"` // direct thunk absent unknown
	Fields       []FieldC `json:"fields"`
	InputFields  []ArgC   `json:"inputFields"`
	RefsForm     string   `json:"refsForm"`
	Refs         []*int   `json:"refs"`
	Resolver     bool     `json:"resolver"`
	Values       []ValC   `json:"values"`
	Serialize    bool     `json:"serialize"`
	ParseValue   bool     `json:"parseValue"`
	ParseLiteral bool     `json:"parseLiteral"`
}

type DirC struct {
	Name      string `json:"name"`
	Locations int    `json:"locations"`
	Args      []ArgC `json:"args"`
}

type Config struct {
	Types        []TypeC `json:"types"`
	Query        *int    `json:"query"`
	Mutation     *int    `json:"mutation"`
	Subscription *int    `json:"subscription"`
	Extra        []*TR   `json:"extra"`
	Directives   []*DirC `json:"directives"`
}

const nBuiltin = 13

var builtinNames = []string{"String", "Int", "Float", "Boolean", "ID", "__Schema", "__Type", "__TypeKind", "__Field",
	"__InputValue", "__EnumValue", "__Directive", "__DirectiveLocation"}
var builtinKinds = []string{"SCALAR", "SCALAR", "SCALAR", "SCALAR", "SCALAR", "OBJECT", "OBJECT", "ENUM", "OBJECT",
	"OBJECT", "OBJECT", "OBJECT", "ENUM"}

func builtinObjs() []graphql.Type {
	return []graphql.Type{graphql.String, graphql.Int, graphql.Float, graphql.Boolean, graphql.ID, graphql.SchemaType,
		graphql.TypeType, graphql.TypeKindEnumType, graphql.FieldType, graphql.InputValueType, graphql.EnumValueType,
		graphql.DirectiveType, graphql.DirectiveLocationEnumType}
}

func ip(i int) *int { return &i }

func (c *Config) clone() *Config {
	b, _ := json.Marshal(c)
	out := &Config{}
	if err := json.Unmarshal(b, out); err != nil {
		panic(err)
	}
	return out
}

// kindOf: kind of the type object with the global id.
func (c *Config) kindOf(id int) string {
	if id < nBuiltin {
		return builtinKinds[id]
	}
	if id-nBuiltin < len(c.Types) {
		return c.Types[id-nBuiltin].Kind
	}
	return ""
}

func (c *Config) nameOfID(id int) string {
	if id < nBuiltin {
		return builtinNames[id]
	}
	if id-nBuiltin < len(c.Types) {
		return c.Types[id-nBuiltin].Name
	}
	return ""
}

// ---------------------------------------------------------------- builder (real constructor calls)

type builder struct {
	cfg  *Config
	objs []graphql.Type // by global id
}

func nilPtrOf(kind string) graphql.Type {
	switch kind {
	case "SCALAR":
		return (*graphql.Scalar)(nil)
	case "OBJECT":
		return (*graphql.Object)(nil)
	case "INTERFACE":
		return (*graphql.Interface)(nil)
	case "UNION":
		return (*graphql.Union)(nil)
	case "ENUM":
		return (*graphql.Enum)(nil)
	case "INPUT_OBJECT":
		return (*graphql.InputObject)(nil)
	case "LIST":
		return (*graphql.List)(nil)
	case "NON_NULL":
		return (*graphql.NonNull)(nil)
	}
	panic("harness: bad nilptr kind " + kind)
}

// mk builds the type expression with fresh wrapper objects for every occurrence.
func (b *builder) mk(t *TR) graphql.Type {
	if t == nil {
		return nil
	}
	switch t.K {
	case "ref":
		return b.objs[t.ID]
	case "list":
		return graphql.NewList(b.mk(t.Of))
	case "nonNull":
		return graphql.NewNonNull(b.mk(t.Of))
	case "nilptr":
		return nilPtrOf(t.NK)
	}
	panic("harness: bad TR")
}

// mkField: the *graphql.Field of a field configuration (nil for present=false).
func (b *builder) mkField(f FieldC) *graphql.Field {
	if !f.Present {
		return nil
	}
	gf := &graphql.Field{Type: b.mk(f.Type)}
	if len(f.Args) > 0 {
		gf.Args = graphql.FieldConfigArgument{}
		for _, a := range f.Args {
			if !a.Present {
				gf.Args[a.Name] = nil
			} else {
				gf.Args[a.Name] = &graphql.ArgumentConfig{Type: b.mk(a.Type)}
			}
		}
	}
	return gf
}

type harnessFault string

// build performs the constructor calls of the configuration. It may panic if the LIBRARY panics inside a
// constructor (NewDirective); harness faults panic with a harnessFault value.
func build(cfg *Config) (graphql.SchemaConfig, *builder) {
	b := &builder{cfg: cfg, objs: builtinObjs()}
	type filler func()
	var fill []filler
	isTypeOf := func(graphql.IsTypeOfParams) bool { return true }
	resolveType := func(graphql.ResolveTypeParams) *graphql.Object { return nil }
	for i := range cfg.Types {
		tc := &cfg.Types[i]
		switch tc.Kind {
		case "SCALAR":
			sc := graphql.ScalarConfig{Name: tc.Name}
			if tc.Serialize {
				sc.Serialize = func(v interface{}) interface{} { return v }
			}
			if tc.ParseValue {
				sc.ParseValue = func(v interface{}) interface{} { return v }
			}
			if tc.ParseLiteral {
				sc.ParseLiteral = func(v ast.Value) interface{} { return nil }
			}
			b.objs = append(b.objs, graphql.NewScalar(sc))
		case "ENUM":
			vals := graphql.EnumValueConfigMap{}
			for _, v := range tc.Values {
				if v.Present {
					vals[v.Name] = &graphql.EnumValueConfig{}
				} else {
					vals[v.Name] = nil
				}
			}
			b.objs = append(b.objs, graphql.NewEnum(graphql.EnumConfig{Name: tc.Name, Values: vals}))
		case "OBJECT", "INTERFACE":
			m := graphql.Fields{}
			var fieldsCfg interface{}
			switch tc.Form {
			case "direct":
				fieldsCfg = m
			case "thunk":
				fieldsCfg = graphql.FieldsThunk(func() graphql.Fields { return m })
			case "absent":
				fieldsCfg = nil
			default:
				fieldsCfg = 42
			}
			fill = append(fill, func() {
				for _, f := range tc.Fields {
					if !f.Present {
						m[f.Name] = nil
						continue
					}
					m[f.Name] = b.mkField(f)
				}
			})
			if tc.Kind == "INTERFACE" {
				ic := graphql.InterfaceConfig{Name: tc.Name, Fields: fieldsCfg}
				if tc.Resolver {
					ic.ResolveType = resolveType
				}
				b.objs = append(b.objs, graphql.NewInterface(ic))
				continue
			}
			ifs := make([]*graphql.Interface, len(tc.Refs))
			var ifCfg interface{}
			switch tc.RefsForm {
			case "direct":
				ifCfg = ifs
			case "thunk":
				ifCfg = graphql.InterfacesThunk(func() []*graphql.Interface { return ifs })
			case "absent":
				ifCfg = nil
			default:
				ifCfg = "x"
			}
			fill = append(fill, func() {
				for k, r := range tc.Refs {
					if r == nil {
						continue
					}
					x, ok := b.objs[*r].(*graphql.Interface)
					if !ok {
						panic(harnessFault(fmt.Sprintf("interface ref %d of %s is not an interface", *r, tc.Name)))
					}
					ifs[k] = x
				}
			})
			oc := graphql.ObjectConfig{Name: tc.Name, Fields: fieldsCfg, Interfaces: ifCfg}
			if tc.Resolver {
				oc.IsTypeOf = isTypeOf
			}
			b.objs = append(b.objs, graphql.NewObject(oc))
		case "UNION":
			ms := make([]*graphql.Object, len(tc.Refs))
			var mCfg interface{}
			switch tc.RefsForm {
			case "direct":
				mCfg = ms
			case "thunk":
				mCfg = graphql.UnionTypesThunk(func() []*graphql.Object { return ms })
			case "absent":
				mCfg = nil
			default:
				mCfg = 42
			}
			fill = append(fill, func() {
				for k, r := range tc.Refs {
					if r == nil {
						continue
					}
					x, ok := b.objs[*r].(*graphql.Object)
					if !ok {
						panic(harnessFault(fmt.Sprintf("member ref %d of %s is not an object", *r, tc.Name)))
					}
					ms[k] = x
				}
			})
			uc := graphql.UnionConfig{Name: tc.Name, Types: mCfg}
			if tc.Resolver {
				uc.ResolveType = resolveType
			}
			b.objs = append(b.objs, graphql.NewUnion(uc))
		case "INPUT_OBJECT":
			m := graphql.InputObjectConfigFieldMap{}
			var fieldsCfg interface{}
			switch tc.Form {
			case "direct":
				fieldsCfg = m
			case "thunk":
				fieldsCfg = graphql.InputObjectConfigFieldMapThunk(func() graphql.InputObjectConfigFieldMap { return m })
			case "absent":
				fieldsCfg = nil
			default:
				fieldsCfg = 42
			}
			fill = append(fill, func() {
				for _, f := range tc.InputFields {
					if !f.Present {
						m[f.Name] = nil
					} else {
						m[f.Name] = &graphql.InputObjectFieldConfig{Type: b.mk(f.Type)}
					}
				}
			})
			b.objs = append(b.objs, graphql.NewInputObject(graphql.InputObjectConfig{Name: tc.Name, Fields: fieldsCfg}))
		default:
			panic(harnessFault("bad kind " + tc.Kind))
		}
	}
	for _, f := range fill {
		f()
	}
	sc := graphql.SchemaConfig{}
	root := func(p *int) *graphql.Object {
		if p == nil {
			return nil
		}
		o, ok := b.objs[*p].(*graphql.Object)
		if !ok {
			panic(harnessFault("root is not an object"))
		}
		return o
	}
	sc.Query, sc.Mutation, sc.Subscription = root(cfg.Query), root(cfg.Mutation), root(cfg.Subscription)
	for _, t := range cfg.Extra {
		sc.Types = append(sc.Types, b.mk(t))
	}
	for _, d := range cfg.Directives {
		if d == nil {
			sc.Directives = append(sc.Directives, nil)
			continue
		}
		dc := graphql.DirectiveConfig{Name: d.Name}
		for i := 0; i < d.Locations; i++ {
			dc.Locations = append(dc.Locations, graphql.DirectiveLocationField)
		}
		if len(d.Args) > 0 {
			dc.Args = graphql.FieldConfigArgument{}
			for _, a := range d.Args {
				if a.Present {
					dc.Args[a.Name] = &graphql.ArgumentConfig{Type: b.mk(a.Type)}
				} else {
					dc.Args[a.Name] = nil
				}
			}
		}
		sc.Directives = append(sc.Directives, graphql.NewDirective(dc))
	}
	return sc, b
}
