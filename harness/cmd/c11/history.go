package main

// Histories: type objects mutated through the public API after their construction (Object / Interface /
// InputObject.AddFieldConfig), before or after they entered a schema, followed by AppendType of that type, a
// referring type or an unrelated type. Model: lean/GqlModel/SchemaLive.lean. Checked for every prefix of a history:
// outcome class and full dump against the model, Consistent on the real dump, and "history = the same final
// configuration supplied to NewSchema up front" on the real code.

import (
	"encoding/json"
	"fmt"
	"sort"
	"strings"

	"github.com/graphql-go/graphql"

	"verif/harness/hx"
)

type HStep struct {
	Op     string  // addField | addInputField | newSchema | append
	Target int     // addField / addInputField
	Field  *FieldC // addField
	Input  *ArgC   // addInputField
	Type   *TR     // append
	Front  bool    // model only: where the new key goes in the list standing for the Go map's iteration order
}

func (s HStep) MarshalJSON() ([]byte, error) {
	m := map[string]interface{}{"op": s.Op}
	switch s.Op {
	case "addField":
		m["target"], m["field"], m["front"] = s.Target, s.Field, s.Front
	case "addInputField":
		m["target"], m["field"], m["front"] = s.Target, s.Input, s.Front
	case "append":
		m["type"] = s.Type
	}
	return json.Marshal(m)
}

func (s *HStep) UnmarshalJSON(b []byte) error {
	var raw struct {
		Op     string          `json:"op"`
		Target int             `json:"target"`
		Field  json.RawMessage `json:"field"`
		Type   json.RawMessage `json:"type"`
		Front  bool            `json:"front"`
	}
	if err := json.Unmarshal(b, &raw); err != nil {
		return err
	}
	*s = HStep{Op: raw.Op, Target: raw.Target, Front: raw.Front}
	switch raw.Op {
	case "addField":
		s.Field = &FieldC{}
		return json.Unmarshal(raw.Field, s.Field)
	case "addInputField":
		s.Input = &ArgC{}
		return json.Unmarshal(raw.Field, s.Input)
	case "append":
		if string(raw.Type) != "null" && len(raw.Type) > 0 {
			s.Type = &TR{}
			return s.Type.UnmarshalJSON(raw.Type)
		}
	}
	return nil
}

func (s HStep) String() string {
	switch s.Op {
	case "addField":
		return fmt.Sprintf("#%d.AddFieldConfig(%q: %s)", s.Target, s.Field.Name, s.Field.Type)
	case "addInputField":
		return fmt.Sprintf("#%d.AddFieldConfig(%q: %s)", s.Target, s.Input.Name, s.Input.Type)
	case "append":
		return "AppendType(" + s.Type.String() + ")"
	}
	return "NewSchema"
}

// applyMutation performs one AddFieldConfig on the real objects.
func applyMutation(b *builder, s HStep) {
	switch s.Op {
	case "addField":
		switch x := b.objs[s.Target].(type) {
		case *graphql.Object:
			x.AddFieldConfig(s.Field.Name, b.mkField(*s.Field))
		case *graphql.Interface:
			x.AddFieldConfig(s.Field.Name, b.mkField(*s.Field))
		default:
			panic(harnessFault("addField target is neither object nor interface"))
		}
	case "addInputField":
		x, ok := b.objs[s.Target].(*graphql.InputObject)
		if !ok {
			panic(harnessFault("addInputField target is not an input object"))
		}
		var fc *graphql.InputObjectFieldConfig
		if s.Input.Present {
			fc = &graphql.InputObjectFieldConfig{Type: b.mk(s.Input.Type)}
		}
		x.AddFieldConfig(s.Input.Name, fc)
	}
}

// runRealHistory executes the steps on fresh objects (no observation in between) and dumps the schema at the end.
func runRealHistory(cfg *Config, steps []HStep) (out realOutcome) {
	stage := "construct"
	defer func() {
		if r := recover(); r != nil {
			if hf, ok := r.(harnessFault); ok {
				out = realOutcome{Harness: string(hf)}
				return
			}
			out = realOutcome{Panic: fmt.Sprint(r), Stage: stage}
		}
	}()
	sc, b := build(cfg)
	var s *graphql.Schema
	for k, st := range steps {
		stage = fmt.Sprintf("step#%d %s", k, st.Op)
		switch st.Op {
		case "addField", "addInputField":
			applyMutation(b, st)
		case "newSchema":
			x, err := graphql.NewSchema(sc)
			if err != nil {
				return realOutcome{Err: classify(err), Msg: err.Error(), Stage: stage}
			}
			s = &x
		case "append":
			if s == nil {
				panic(harnessFault("append before newSchema"))
			}
			if err := s.AppendType(b.mk(st.Type)); err != nil {
				return realOutcome{Err: classify(err), Msg: err.Error(), Stage: stage}
			}
		}
	}
	if s == nil {
		panic(harnessFault("history without newSchema"))
	}
	stage = "dump"
	d, fault := dumpSchema(s)
	return realOutcome{OK: true, Dump: d, Fault: fault}
}

// runRealUpfront: every mutation first, then NewSchema with the appended types in SchemaConfig.Types.
func runRealUpfront(cfg *Config, steps []HStep) (out realOutcome) {
	stage := "construct"
	defer func() {
		if r := recover(); r != nil {
			if hf, ok := r.(harnessFault); ok {
				out = realOutcome{Harness: string(hf)}
				return
			}
			out = realOutcome{Panic: fmt.Sprint(r), Stage: stage}
		}
	}()
	sc, b := build(cfg)
	for _, st := range steps {
		if st.Op == "addField" || st.Op == "addInputField" {
			applyMutation(b, st)
		}
	}
	for _, st := range steps {
		if st.Op == "append" {
			sc.Types = append(sc.Types, b.mk(st.Type))
		}
	}
	stage = "NewSchema"
	s, err := graphql.NewSchema(sc)
	if err != nil {
		return realOutcome{Err: classify(err), Msg: err.Error(), Stage: stage}
	}
	stage = "dump"
	d, fault := dumpSchema(&s)
	return realOutcome{OK: true, Dump: d, Fault: fault}
}

type histOutcome struct {
	modelOutcome
	FailedAt *int            `json:"failedAt,omitempty"`
	Parked   [][]interface{} `json:"parked,omitempty"`
}

func (o *histOutcome) model() *modelOutcome {
	m := o.modelOutcome
	if m.Dump != nil {
		m.Dump.Parked = o.Parked
	}
	return &m
}

type histResp struct {
	Wf                bool        `json:"wf"`
	Hist              histOutcome `json:"hist"`
	Upfront           histOutcome `json:"upfront"`
	MutatesRegistered bool        `json:"mutatesRegistered"`
	Real              *struct {
		Consistent bool            `json:"consistent"`
		Parts      map[string]bool `json:"parts"`
	} `json:"real"`
}

func (h *harness) askHistory(cfg *Config, steps []HStep, real *Dump) (*histResp, error) {
	req := map[string]interface{}{"config": cfg, "history": steps}
	if real != nil {
		req["real"] = real
	}
	var resp histResp
	if err := h.drv.Ask(req, &resp); err != nil {
		return nil, err
	}
	return &resp, nil
}

type histCase struct {
	Config *Config  `json:"config"`
	Steps  []HStep  `json:"steps"`
	Tags   []string `json:"tags,omitempty"`
}

func describe(steps []HStep) string {
	parts := []string{}
	for _, s := range steps {
		parts = append(parts, s.String())
	}
	return strings.Join(parts, "; ")
}

// variants: orders of the model that stand for Go's freedom in iterating maps (fields of every type shuffled, the
// added key in front or at the back).
func (h *harness) histVariants(c histCase, k int, r *hx.Rng) (*Config, []HStep) {
	cfg := c.Config
	if k >= 2 {
		cfg = shuffled(c.Config, r)
	}
	steps := append([]HStep{}, c.Steps...)
	for i := range steps {
		if steps[i].Op == "addField" || steps[i].Op == "addInputField" {
			steps[i].Front = k%2 == 1
		}
	}
	return cfg, steps
}

// checkPrefix runs one history (a prefix of a generated one) on both sides.
func (h *harness) checkPrefix(c histCase) {
	run := h.run
	real := runRealHistory(c.Config, c.Steps)
	up := runRealUpfront(c.Config, c.Steps)
	if real.Harness != "" || up.Harness != "" {
		run.CheckError("harness fault: " + real.Harness + up.Harness)
		return
	}
	resp, err := h.askHistory(c.Config, c.Steps, real.Dump)
	if err != nil {
		run.CheckError(err.Error())
		return
	}
	if !resp.Wf {
		run.CheckError("history generator produced a configuration the Go API cannot express: " + hx.Canon(c))
		return
	}
	for _, t := range c.Tags {
		run.Tag(t)
	}
	run.Tag("history:" + outcomeTag(&real))
	key := "H|" + hx.Canon(c.Config) + "|" + hx.Canon(c.Steps)
	run.Case(key, true, map[string]interface{}{"tags": c.Tags, "history": describe(c.Steps), "outcome": outcomeTag(&real), "upfront": outcomeTag(&up)})
	replay := func(extra map[string]interface{}) map[string]interface{} {
		out := map[string]interface{}{"history": c, "described": describe(c.Steps), "real": real, "real_upfront": up,
			"model": resp.Hist, "model_upfront": resp.Upfront, "mutatesRegistered": resp.MutatesRegistered}
		for k, v := range extra {
			out[k] = v
		}
		return out
	}
	// 1. the real code against the (HEAD-faithful) model, history and up front
	match := sameOutcome(&real, resp.Hist.model()) && sameOutcome(&up, resp.Upfront.model())
	if !match {
		r := hx.NewRng(uint64(len(key))*104729 + 7)
		for k := 1; k < 48 && !match; k++ {
			cfg2, steps2 := h.histVariants(c, k, r)
			r2, err := h.askHistory(cfg2, steps2, nil)
			if err != nil {
				run.CheckError(err.Error())
				return
			}
			if sameOutcome(&real, r2.Hist.model()) && sameOutcome(&up, r2.Upfront.model()) {
				match = true
				run.Tag("history:outcome-depends-on-map-order")
			}
		}
	}
	if !match {
		note := "history [" + describe(c.Steps) + "]: real " + outcomeTag(&real) + " (" + real.Msg + real.Panic + "), up front " + outcomeTag(&up)
		if resp.Hist.OK {
			note += "; model ok"
		} else {
			note += "; model err:" + resp.Hist.Err
		}
		if resp.Upfront.OK {
			note += ", up front ok"
		} else {
			note += ", up front err:" + resp.Upfront.Err
		}
		run.Violation("the library and the model disagree on a mutation history: "+note,
			replay(map[string]interface{}{"real_canon": canonOrNil(real.Dump), "model_canon": canonOrNil(resp.Hist.model().Dump)}), false)
		return
	}
	// 2. the property on the real code: never a panic; when the history is accepted, the schema is consistent and is
	// the schema NewSchema builds from the same final configuration
	if real.Panic != "" || up.Panic != "" {
		run.Violation("a mutation history panicked: "+real.Panic+up.Panic+" ["+describe(c.Steps)+"]", replay(nil), false)
		return
	}
	if !real.OK {
		return
	}
	var bad []string
	if real.Fault != "" {
		bad = append(bad, "API incoherence: "+real.Fault)
	}
	if resp.Real == nil {
		run.CheckError("driver did not evaluate Consistent on the real dump")
		return
	}
	if !resp.Real.Consistent {
		var parts []string
		for k, v := range resp.Real.Parts {
			if !v {
				parts = append(parts, k)
			}
		}
		sort.Strings(parts)
		bad = append(bad, "schema inconsistent ("+strings.Join(parts, ",")+")")
	}
	if len(real.Dump.Parked) > 0 {
		bad = append(bad, "a type of the type map carries a parked error")
	}
	if !up.OK {
		bad = append(bad, "NewSchema rejects the same final configuration ("+up.Err+")")
	} else if hx.Canon(real.Dump.canon()) != hx.Canon(up.Dump.canon()) {
		bad = append(bad, "NewSchema builds a different schema from the same final configuration")
	}
	if len(bad) == 0 {
		return
	}
	if resp.MutatesRegistered {
		run.KnownFinding("mutatedTypeNotRevalidated", "a type object changed by AddFieldConfig after it entered the type map is not walked again: AppendType returns at once for a registered type (and nothing tells the schema when no AppendType follows), so new field types stay unregistered and invalid fields unreported, unlike NewSchema on the same final configuration")
		run.Tag("history:accepted-but-not-as-upfront(known)")
		return
	}
	run.Violation("accepted mutation history ["+describe(c.Steps)+"]: "+strings.Join(bad, "; "), replay(nil), false)
}

// checkHistory checks every prefix that ends in NewSchema / AppendType, and the whole history.
func (h *harness) checkHistory(c histCase) {
	seen := false
	for k := range c.Steps {
		if c.Steps[k].Op == "newSchema" {
			seen = true
		}
		last := k == len(c.Steps)-1
		if seen && (last || c.Steps[k].Op == "newSchema" || c.Steps[k].Op == "append") {
			h.checkPrefix(histCase{Config: c.Config, Steps: c.Steps[:k+1], Tags: c.Tags})
			if h.run.TooManyViolations() {
				return
			}
		}
	}
}
