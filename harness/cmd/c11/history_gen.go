package main

import (
	"fmt"

	"verif/harness/hx"
)

func addF(target int, f FieldC) HStep { return HStep{Op: "addField", Target: target, Field: &f} }
func addIn(target int, a ArgC) HStep  { return HStep{Op: "addInputField", Target: target, Input: &a} }
func appendT(t *TR) HStep             { return HStep{Op: "append", Type: t} }
func newSchemaStep() HStep            { return HStep{Op: "newSchema"} }
func hist(steps ...HStep) []HStep     { return steps }
func (c *Config) q() *TypeC           { return c.typ(*c.Query) }
func directObj(name string, fs ...FieldC) TypeC {
	t := obj(name, fs...)
	t.Form = "direct"
	return t
}

type histFamily struct {
	name  string
	cfg   *Config
	steps []HStep
}

// historyFamilies: the histories named in the reports (seeded change C11-9, the HEAD findings) and their neighbours.
func historyFamilies() []histFamily {
	var out []histFamily
	add := func(name string, c *Config, steps ...HStep) { out = append(out, histFamily{name, c, steps}) }
	S, I := Ref(0), Ref(1)
	base := func() (c *Config, o, in, iface int) {
		c = qOnly()
		iface = c.add(ifaceT("I", fieldOf("a", S)))
		o = c.add(TypeC{Kind: "OBJECT", Name: "O", Fields: []FieldC{fieldOf("a", S)}, Refs: []*int{ip(iface)}, Resolver: true})
		in = c.add(inputT("In", argOf("t", S)))
		c.q().Fields = []FieldC{fieldOf("o", Ref(o), argOf("in", Ref(in)))}
		return
	}
	{ // InputObject.AddFieldConfig (seeded change C11-9 and neighbours)
		c, o, in, _ := base()
		add("hist:input-bad-kind-then-append-it", c, newSchemaStep(), addIn(in, argOf("owner", Ref(o))), appendT(Ref(in)))
		x := c.clone()
		ref := x.add(directObj("Refers", fieldOf("f", S, argOf("in", Ref(in)))))
		add("hist:input-bad-kind-then-append-referring", x, newSchemaStep(), addIn(in, argOf("owner", Ref(o))), appendT(Ref(ref)))
		add("hist:input-bad-kind-then-append-unrelated", x, newSchemaStep(), addIn(in, argOf("owner", Ref(o))), appendT(Ref(2)))
		add("hist:input-bad-kind-no-append", c, newSchemaStep(), addIn(in, argOf("owner", Ref(o))))
		add("hist:input-bad-kind-before-newSchema", c, addIn(in, argOf("owner", Ref(o))), newSchemaStep())
		add("hist:input-bad-then-repaired", c, newSchemaStep(), addIn(in, argOf("owner", Ref(o))), addIn(in, argOf("owner", S)), appendT(Ref(in)))
		add("hist:input-good-builtin", c, newSchemaStep(), addIn(in, argOf("n", ListOf(NN(I)))), appendT(Ref(in)))
		y := c.clone()
		e := y.add(enumT("E", "A", "B"))
		add("hist:input-good-new-enum-then-append-it", y, newSchemaStep(), addIn(in, argOf("e", Ref(e))), appendT(Ref(in)))
		add("hist:input-good-new-enum-then-append-enum", y, newSchemaStep(), addIn(in, argOf("e", Ref(e))), appendT(Ref(e)))
		add("hist:input-good-new-enum-no-append", y, newSchemaStep(), addIn(in, argOf("e", Ref(e))))
		add("hist:input-bad-name", c, newSchemaStep(), addIn(in, argOf("bad-name", S)), appendT(Ref(in)))
		add("hist:input-empty-name", c, newSchemaStep(), addIn(in, argOf("", Ref(o))), appendT(Ref(in)))
		add("hist:input-nil-config", c, newSchemaStep(), addIn(in, ArgC{Name: "x", Present: false}), appendT(Ref(in)))
		add("hist:input-nil-type", c, newSchemaStep(), addIn(in, argOf("x", nil)), appendT(Ref(in)))
		add("hist:input-nn-of-nn", c, newSchemaStep(), addIn(in, argOf("x", NN(NN(S)))), appendT(Ref(in)))
		z := c.clone()
		z.typ(in).Form = "thunk"
		add("hist:input-thunk", z, newSchemaStep(), addIn(in, argOf("x", S)), appendT(Ref(in)))
		add("hist:input-thunk-no-append", z, newSchemaStep(), addIn(in, argOf("x", S)))
		add("hist:input-thunk-before-newSchema", z, addIn(in, argOf("x", S)), newSchemaStep())
	}
	{ // Object.AddFieldConfig
		c, o, in, _ := base()
		c.typ(o).Form = "direct"
		add("hist:object-bad-kind-then-append-it", c, newSchemaStep(), addF(o, fieldOf("bad", Ref(in))), appendT(Ref(o)))
		add("hist:object-bad-kind-no-append", c, newSchemaStep(), addF(o, fieldOf("bad", Ref(in))))
		add("hist:object-bad-kind-append-unrelated-then-it", c, newSchemaStep(), addF(o, fieldOf("bad", Ref(in))), appendT(Ref(2)), appendT(Ref(o)))
		add("hist:object-bad-kind-before-newSchema", c, addF(o, fieldOf("bad", Ref(in))), newSchemaStep())
		x := c.clone()
		n := x.add(directObj("New", fieldOf("x", S)))
		add("hist:object-good-new-type-then-append-it", x, newSchemaStep(), addF(o, fieldOf("n", Ref(n))), appendT(Ref(o)))
		add("hist:object-good-new-type-then-append-new", x, newSchemaStep(), addF(o, fieldOf("n", Ref(n))), appendT(Ref(n)))
		add("hist:object-good-new-type-no-append", x, newSchemaStep(), addF(o, fieldOf("n", Ref(n))))
		add("hist:object-good-new-arg-type", x, newSchemaStep(), addF(o, fieldOf("n", S, argOf("e", Ref(x.add(enumT("E2", "A")))))), appendT(Ref(o)))
		add("hist:object-overwrite-interface-field", c, newSchemaStep(), addF(o, fieldOf("a", I)), appendT(Ref(o)))
		add("hist:object-overwrite-interface-field-covariant", c, newSchemaStep(), addF(o, fieldOf("a", NN(S))), appendT(Ref(o)))
		add("hist:object-bad-field-name", c, newSchemaStep(), addF(o, fieldOf("bad-name", S)), appendT(Ref(o)))
		add("hist:object-nil-field", c, newSchemaStep(), addF(o, FieldC{Name: "x", Present: false, Args: []ArgC{}}), appendT(Ref(o)))
		y := c.clone()
		y.typ(o).Form = "thunk"
		add("hist:object-thunk-ignored", y, newSchemaStep(), addF(o, fieldOf("bad", Ref(in))), appendT(Ref(o)))
		// a fresh object mutated before it enters the map: the good order
		w := c.clone()
		fresh := w.add(directObj("Fresh", fieldOf("x", S)))
		n2 := w.add(directObj("New2", fieldOf("x", S)))
		add("hist:fresh-object-mutated-then-appended", w, newSchemaStep(), addF(fresh, fieldOf("n", Ref(n2))), appendT(Ref(fresh)))
		add("hist:fresh-object-bad-then-appended", w, newSchemaStep(), addF(fresh, fieldOf("n", Ref(in))), appendT(Ref(fresh)))
		add("hist:query-root-mutated", w, newSchemaStep(), addF(*w.Query, fieldOf("fresh", Ref(fresh))), appendT(Ref(*w.Query)))
	}
	{ // Interface.AddFieldConfig
		c, o, _, iface := base()
		c.typ(o).Form = "direct"
		c.typ(iface).Form = "direct"
		add("hist:iface-new-field-implementer-lacks", c, newSchemaStep(), addF(iface, fieldOf("extra", I)), appendT(Ref(iface)))
		add("hist:iface-new-field-then-implementer-too", c, newSchemaStep(), addF(iface, fieldOf("extra", I)), addF(o, fieldOf("extra", I)), appendT(Ref(o)))
		add("hist:iface-new-field-no-append", c, newSchemaStep(), addF(iface, fieldOf("extra", I)))
		x := c.clone()
		n := x.add(directObj("New", fieldOf("x", S)))
		add("hist:iface-and-implementer-new-type", x, newSchemaStep(), addF(iface, fieldOf("n", Ref(n))), addF(o, fieldOf("n", Ref(n))), appendT(Ref(iface)), appendT(Ref(o)))
		add("hist:iface-bad-kind", x, newSchemaStep(), addF(iface, fieldOf("bad", Ref(x.add(inputT("In2", argOf("a", S)))))), appendT(Ref(2)))
	}
	return out
}

// genHistory: a random history over a valid base configuration.
func genHistory(r *hx.Rng) (histCase, bool) {
	cfg, _ := validBase(r)
	cfg.Extra = []*TR{}
	tags := []string{}
	// candidate targets: registered types with a plain-map Fields (sometimes thunked), plus a fresh one
	var targets []int
	for i := range cfg.Types {
		k := cfg.Types[i].Kind
		if k == "OBJECT" || k == "INTERFACE" || k == "INPUT_OBJECT" {
			if r.Chance(3, 4) {
				cfg.Types[i].Form = "direct"
			}
			targets = append(targets, nBuiltin+i)
		}
	}
	fresh := cfg.add(directObj("FreshO", fieldOf("x", Ref(r.Intn(5)))))
	freshIn := cfg.add(inputT("FreshIn", argOf("x", Ref(r.Intn(5)))))
	targets = append(targets, fresh, freshIn)
	newObj := cfg.add(directObj("NewO", fieldOf("x", Ref(0))))
	newEnum := cfg.add(enumT("NewE", "A", "B"))
	newIn := cfg.add(inputT("NewIn", argOf("x", Ref(1))))
	anyOf := func(kind string) int {
		ids := cfg.idsOfKind(kind)
		return ids[r.Intn(len(ids))]
	}
	var steps []HStep
	nMut := r.Range(1, 3)
	pre := r.Chance(1, 4) // some mutations before NewSchema
	if !pre {
		steps = append(steps, newSchemaStep())
	}
	var mutated []int
	// at most one defective mutation per history (with several, which error surfaces first is Go's map order);
	// the others are good fields or no-ops
	defect := r.Intn(nMut + 1) // == nMut: none
	for m := 0; m < nMut; m++ {
		t := targets[r.Intn(len(targets))]
		mutated = append(mutated, t)
		name := fmt.Sprintf("h%d", m)
		kindTag := ""
		if cfg.kindOf(t) == "INPUT_OBJECT" {
			var a ArgC
			pickIn := r.Intn(3)
			if m == defect {
				pickIn = 3 + r.Intn(6)
				if pickIn == 6 {
					pickIn = 8
				}
			} else if r.Chance(1, 6) {
				pickIn = 6
			}
			switch pickIn {
			case 0:
				a, kindTag = argOf(name, Ref(r.Intn(5))), "good-builtin"
			case 1:
				a, kindTag = argOf(name, ListOf(Ref(newEnum))), "good-new-type"
			case 2:
				a, kindTag = argOf(name, Ref(newIn)), "good-new-type"
			case 3:
				a, kindTag = argOf(name, Ref(anyOf("OBJECT"))), "bad-kind"
			case 4:
				a, kindTag = argOf(name, NN(NN(Ref(0)))), "bad-wrapper"
			case 5:
				a, kindTag = argOf("bad-name", Ref(0)), "bad-name"
			case 6:
				a, kindTag = ArgC{Name: name, Present: false}, "nil-config"
			case 7:
				a, kindTag = argOf(name, nil), "nil-type"
			default:
				if fs := cfg.typ(t).InputFields; len(fs) > 0 { // overwrite an existing field
					a, kindTag = argOf(fs[r.Intn(len(fs))].Name, Ref(r.Intn(5))), "overwrite"
				} else {
					a, kindTag = argOf(name, Ref(0)), "good-builtin"
				}
			}
			steps = append(steps, addIn(t, a))
			tags = append(tags, "history:mutate-input:"+kindTag)
		} else {
			var f FieldC
			pickOut := r.Intn(4)
			if m == defect {
				pickOut = 4 + r.Intn(6)
				if pickOut == 7 {
					pickOut = 9
				}
			} else if r.Chance(1, 6) {
				pickOut = 7
			}
			switch pickOut {
			case 0:
				f, kindTag = fieldOf(name, Ref(r.Intn(5))), "good-builtin"
			case 1:
				f, kindTag = fieldOf(name, ListOf(NN(Ref(newObj)))), "good-new-type"
			case 2:
				f, kindTag = fieldOf(name, Ref(0), argOf("a", Ref(newEnum))), "good-new-arg-type"
			case 3:
				f, kindTag = fieldOf(name, Ref(anyOf("OBJECT"))), "good-registered-type"
			case 4:
				f, kindTag = fieldOf(name, Ref(newIn)), "bad-kind"
			case 5:
				f, kindTag = fieldOf(name, Ref(0), argOf("a", Ref(anyOf("OBJECT")))), "bad-arg-kind"
			case 6:
				f, kindTag = fieldOf("bad-name", Ref(0)), "bad-name"
			case 7:
				f, kindTag = FieldC{Name: name, Present: false, Args: []ArgC{}}, "nil-config"
			case 8:
				f, kindTag = fieldOf(name, ListOf(nil)), "bad-wrapper"
			default:
				if fs := cfg.typ(t).Fields; len(fs) > 0 { // overwrite (possibly an interface field)
					f, kindTag = fieldOf(fs[r.Intn(len(fs))].Name, Ref(r.Intn(5))), "overwrite"
				} else {
					f, kindTag = fieldOf(name, Ref(0)), "good-builtin"
				}
			}
			steps = append(steps, addF(t, f))
			tags = append(tags, "history:mutate-"+map[string]string{"OBJECT": "object", "INTERFACE": "interface"}[cfg.kindOf(t)]+":"+kindTag)
		}
		if pre && m == 0 {
			steps = append(steps, newSchemaStep())
			pre = false
			tags = append(tags, "history:mutation-before-NewSchema")
		}
	}
	if pre {
		steps = append(steps, newSchemaStep())
	}
	// appends
	nApp := r.Intn(3)
	for a := 0; a < nApp; a++ {
		switch r.Intn(4) {
		case 0, 1:
			t := mutated[r.Intn(len(mutated))]
			steps = append(steps, appendT(Ref(t)))
			tags = append(tags, "history:append-mutated-type")
		case 2:
			t := mutated[r.Intn(len(mutated))]
			var ref TypeC
			if cfg.kindOf(t) == "INPUT_OBJECT" {
				ref = directObj(fmt.Sprintf("Ref%d", a), fieldOf("f", Ref(0), argOf("in", Ref(t))))
			} else {
				ref = directObj(fmt.Sprintf("Ref%d", a), fieldOf("f", ListOf(Ref(t))))
			}
			steps = append(steps, appendT(Ref(cfg.add(ref))))
			tags = append(tags, "history:append-referring-type")
		default:
			steps = append(steps, appendT(Ref([]int{newObj, newEnum, newIn, 1, 2}[r.Intn(5)])))
			tags = append(tags, "history:append-unrelated-type")
		}
	}
	if nApp == 0 {
		tags = append(tags, "history:no-append")
	}
	return histCase{Config: cfg, Steps: steps, Tags: tags}, true
}
