package main

// The translated schema (lean/GqlModel/SchemaBuildBridge.lean: BuiltSchema.toSchema of the model's result, sent by
// the driver in the style of the gq wire format) against the same rendering of the REAL schema: type names and
// kinds, fields with types and arguments, interfaces, union members, enum values, input fields, roots, directives,
// and the possible types the shared vocabulary derives (GqlModel.Schema.possibleTypes) against Schema.PossibleTypes.

import (
	"sort"

	"github.com/graphql-go/graphql"
)

var metaTypeNames = map[string]bool{"__Schema": true, "__Type": true, "__TypeKind": true, "__Field": true,
	"__InputValue": true, "__EnumValue": true, "__Directive": true, "__DirectiveLocation": true}

var builtinScalarNames = map[string]bool{"Int": true, "Float": true, "String": true, "Boolean": true, "ID": true}

func typeString(t graphql.Type) string {
	if isNilPtr(t) {
		return ""
	}
	return t.String()
}

func argDescs(args []*graphql.Argument) []interface{} {
	out := []interface{}{}
	for _, a := range args {
		if a != nil {
			out = append(out, map[string]interface{}{"name": a.PrivateName, "type": typeString(a.Type)})
		}
	}
	return out
}

func fieldDescs(fm graphql.FieldDefinitionMap) []interface{} {
	names := make([]string, 0, len(fm))
	for n := range fm {
		names = append(names, n)
	}
	sort.Strings(names)
	out := []interface{}{}
	for _, n := range names {
		f := fm[n]
		out = append(out, map[string]interface{}{"name": f.Name, "type": typeString(f.Type), "args": argDescs(f.Args)})
	}
	return out
}

func optName(o *graphql.Object) interface{} {
	if o == nil {
		return nil
	}
	return o.Name()
}

// descOfReal renders the real schema in the wire style of the translated schema.
func descOfReal(s *graphql.Schema) map[string]interface{} {
	types := []interface{}{}
	possible := []interface{}{}
	tm := s.TypeMap()
	for _, k := range sortedKeys(tm) {
		if metaTypeNames[k] {
			continue
		}
		switch x := tm[k].(type) {
		case *graphql.Scalar:
			types = append(types, map[string]interface{}{"kind": "SCALAR", "name": x.Name(), "builtin": builtinScalarNames[x.Name()]})
		case *graphql.Object:
			ifs := []interface{}{}
			for _, i := range x.Interfaces() {
				ifs = append(ifs, i.Name())
			}
			types = append(types, map[string]interface{}{"kind": "OBJECT", "name": x.Name(), "interfaces": ifs, "fields": fieldDescs(x.Fields()), "isTypeOf": x.IsTypeOf != nil})
		case *graphql.Interface:
			types = append(types, map[string]interface{}{"kind": "INTERFACE", "name": x.Name(), "fields": fieldDescs(x.Fields()), "resolveType": x.ResolveType != nil})
			ps := []interface{}{}
			for _, o := range s.PossibleTypes(x) {
				ps = append(ps, o.Name())
			}
			possible = append(possible, map[string]interface{}{"abstract": x.Name(), "types": ps})
		case *graphql.Union:
			ms := []interface{}{}
			for _, o := range x.Types() {
				ms = append(ms, o.Name())
			}
			types = append(types, map[string]interface{}{"kind": "UNION", "name": x.Name(), "members": ms, "resolveType": x.ResolveType != nil})
			ps := []interface{}{}
			for _, o := range s.PossibleTypes(x) {
				ps = append(ps, o.Name())
			}
			possible = append(possible, map[string]interface{}{"abstract": x.Name(), "types": ps})
		case *graphql.Enum:
			vs := []interface{}{}
			for _, v := range x.Values() {
				vs = append(vs, v.Name)
			}
			types = append(types, map[string]interface{}{"kind": "ENUM", "name": x.Name(), "values": vs})
		case *graphql.InputObject:
			fm := x.Fields()
			names := make([]string, 0, len(fm))
			for n := range fm {
				names = append(names, n)
			}
			sort.Strings(names)
			fs := []interface{}{}
			for _, n := range names {
				fs = append(fs, map[string]interface{}{"name": fm[n].PrivateName, "type": typeString(fm[n].Type)})
			}
			types = append(types, map[string]interface{}{"kind": "INPUT_OBJECT", "name": x.Name(), "inputFields": fs})
		}
	}
	dirs := []interface{}{}
	for _, d := range s.Directives() {
		if d != nil {
			dirs = append(dirs, map[string]interface{}{"name": d.Name, "args": argDescs(d.Args)})
		}
	}
	return map[string]interface{}{"query": optName(s.QueryType()), "mutation": optName(s.MutationType()),
		"subscription": optName(s.SubscriptionType()), "types": types, "directives": dirs, "possible": possible}
}

func sortByName(l []interface{}) []interface{} {
	out := append([]interface{}{}, l...)
	sort.SliceStable(out, func(i, j int) bool {
		a, _ := out[i].(map[string]interface{})
		b, _ := out[j].(map[string]interface{})
		an, _ := a["name"].(string)
		bn, _ := b["name"].(string)
		return an < bn
	})
	return out
}

// canonSchema: types keyed by name, fields / input fields sorted by name, possible types as sorted name lists.
func canonSchema(v map[string]interface{}) map[string]interface{} {
	types := map[string]interface{}{}
	if l, ok := v["types"].([]interface{}); ok {
		for _, t := range l {
			m, _ := t.(map[string]interface{})
			c := map[string]interface{}{}
			for k, x := range m {
				c[k] = x
			}
			if fs, ok := m["fields"].([]interface{}); ok {
				c["fields"] = sortByName(fs)
			}
			if fs, ok := m["inputFields"].([]interface{}); ok {
				c["inputFields"] = sortByName(fs)
			}
			name, _ := m["name"].(string)
			if _, dup := types[name]; dup {
				types[name+"#duplicate"] = c
			} else {
				types[name] = c
			}
		}
	}
	poss := map[string]interface{}{}
	if l, ok := v["possible"].([]interface{}); ok {
		for _, p := range l {
			m, _ := p.(map[string]interface{})
			names := []string{}
			if ts, ok := m["types"].([]interface{}); ok {
				for _, t := range ts {
					n, _ := t.(string)
					names = append(names, n)
				}
			}
			sort.Strings(names)
			a, _ := m["abstract"].(string)
			poss[a] = names
		}
	}
	return map[string]interface{}{"query": v["query"], "mutation": v["mutation"], "subscription": v["subscription"],
		"types": types, "directives": v["directives"], "possible": poss}
}
