package main

// The real schema of streams (c) and (d).
//
//	interface Named { f: String }   union U = Obj | Other   type Other implements Named { as Obj without nn / no }
//	every object type also has: il: [Named]  ill: [[Named]]  iln: [[Named!]!]  u: U  ul: [U]  ull: [[U]]
//	(Named dispatches by ResolveType, U by the members' IsTypeOf; the concrete type of an abstract position is a hash of its address)
//	interface Named { f: String }
//	type Obj implements Named { f: String  g(z: Int): Int  b(x: Int, r: Int!): String  nn: String!  li: [Int!]
//	                            o: Obj  no: Obj!  l: [Obj]  ll: [[Obj]]  i: Named }
//	type Query              { the same without nn and no (no non-null field at the root) }
//
// Every resolver derives the *address* of its response position from its parent's address and the response
// key taken from the field node (alias or name) — never from ResolveInfo.Path — and decides by a hash of
// (fail seed, address) whether and how to fail. Each failure is recorded in world.failed when it happens.

import (
	"errors"
	"fmt"
	"hash/fnv"

	"github.com/graphql-go/graphql"
	"github.com/graphql-go/graphql/gqlerrors"
	"github.com/graphql-go/graphql/language/ast"
	"github.com/graphql-go/graphql/language/parser"
	"verif/harness/hx"
)

// node is the source value of every object position; typ is its concrete type ("Obj" or "Other").
type node struct {
	addr    string
	typ     string
	absList bool // element of a list of interface / union type
}

// concrete picks the runtime type of an abstract position from its address.
func concrete(w *world, addr string) string {
	if w.h(addr+"#type")%2 == 0 {
		return "Obj"
	}
	return "Other"
}

type world struct {
	seed       uint64
	failed     []string // addresses at which a failure was produced, in execution order
	calls      int      // resolver invocations
	curAbsList bool     // the resolver running now has an element of an abstract-typed list as its source
	modes      map[string]int
	// failures raised with a *gqlerrors.Error POINTER made by user code (hand-built with foreign nodes and path, or one of the
	// shared sentinels): the executor's pass-through relays them as supplied; relay lists what must arrive, per occurrence
	relay []relayT
}

type relayT struct {
	addr string
	msg  string
	path []interface{}
	locs [][2]int
}

// shared sentinel errors (process-wide, raised by many fields of many requests): without path and locations, with a path
// only, with locations only. HEAD relays them unchanged on every occurrence and never modifies them.
var sentinels []*gqlerrors.Error
var sentinelSnapshot string

func sentinelState() string {
	out := ""
	for _, e := range sentinels {
		out += fmt.Sprintf("%q|%v|%v|%v|%d|%v|%q;", e.Message, e.Locations, e.Path, e.Positions, len(e.Nodes), e.Source == nil, e.Stack)
	}
	return out
}

func initSentinels() {
	sentinels = []*gqlerrors.Error{
		gqlerrors.NewError("sentinel without path and locations", nil, "", nil, nil, nil),
		gqlerrors.NewErrorWithPath("sentinel with a path only", nil, "", nil, nil, []interface{}{"q", 1}, nil),
		gqlerrors.NewError("sentinel with locations only", []ast.Node{foreignField}, "", nil, nil, nil),
	}
	sentinelSnapshot = sentinelState()
}

func raiseSentinel(w *world, a string, k uint64) (interface{}, error) {
	e := sentinels[k%3]
	r := relayT{addr: a, msg: e.Message, path: e.Path, locs: [][2]int{}}
	for _, l := range e.Locations {
		r.locs = append(r.locs, [2]int{l.Line, l.Column})
	}
	w.relay = append(w.relay, r)
	if (k/3)%2 == 0 {
		w.fail(a, "sentinel:returned:"+e.Message)
		return nil, e
	}
	w.fail(a, "sentinel:panicked:"+e.Message)
	panic(e)
}

var theWorld *world

func (w *world) h(addr string) uint64 {
	f := fnv.New64a()
	f.Write([]byte(addr))
	return hx.NewRng(w.seed ^ f.Sum64()).U64()
}

func (w *world) fail(addr, mode string) {
	w.failed = append(w.failed, addr)
	w.modes[mode]++
	if w.curAbsList {
		w.modes["(failure directly below an element of a list of interface/union type)"]++
	}
}

func keyOf(p graphql.ResolveParams) string {
	n := p.Info.FieldASTs[0]
	if n.Alias != nil && n.Alias.Value != "" {
		return n.Alias.Value
	}
	return n.Name.Value
}

func addrOf(p graphql.ResolveParams) string {
	theWorld.calls++
	parent := ""
	theWorld.curAbsList = false
	if n, ok := p.Source.(*node); ok && n != nil {
		parent = n.addr
		theWorld.curAbsList = n.absList
	}
	return parent + "/" + keyOf(p)
}

// ---- errors taken from ANOTHER execution (gateway-style resolvers)

var innerSchema graphql.Schema
var foreignField ast.Node // field node `zzz` of the foreign document "{ aaaaaaaaaaaaaaa { zzz } }" (offset 20, 1:21)

var foreignPath = []interface{}{"x", 7, "y"}

const foreignDocText = "{ aaaaaaaaaaaaaaa { zzz } }"

func initForeign() error {
	item := graphql.NewObject(graphql.ObjectConfig{Name: "Item", Fields: graphql.Fields{
		"boom": &graphql.Field{Type: graphql.String, Resolve: func(p graphql.ResolveParams) (interface{}, error) {
			return nil, errors.New("inner boom")
		}},
	}})
	var err error
	innerSchema, err = graphql.NewSchema(graphql.SchemaConfig{Query: graphql.NewObject(graphql.ObjectConfig{Name: "Query", Fields: graphql.Fields{
		"items": &graphql.Field{Type: graphql.NewList(item), Resolve: func(p graphql.ResolveParams) (interface{}, error) {
			return []interface{}{1}, nil
		}},
	}})})
	if err != nil {
		return err
	}
	doc, err := parser.Parse(parser.ParseParams{Source: foreignDocText})
	if err != nil {
		return err
	}
	defer initSentinels()
	foreignField = doc.Definitions[0].(*ast.OperationDefinition).SelectionSet.Selections[0].(*ast.Field).SelectionSet.Selections[0].(*ast.Field)
	return nil
}

// innerFormatted runs a different document through graphql.Do (as a gateway resolver would) and returns its field
// error: message "inner boom", location 1:11, path [items 0 boom] — all belonging to the INNER request.
func innerFormatted() gqlerrors.FormattedError {
	res := graphql.Do(graphql.Params{Schema: innerSchema, RequestString: "{ items { boom } }"})
	if len(res.Errors) != 1 {
		panic("harness: inner request did not produce exactly one error")
	}
	return res.Errors[0]
}

// handBuilt is a located error made by user code with nodes, position and path of something else.
func handBuilt(addr string) *gqlerrors.Error {
	return gqlerrors.NewErrorWithPath("hand built "+addr, []ast.Node{foreignField}, "", nil, nil, foreignPath, errors.New("orig"))
}

// foreignFailure produces failure mode k (0..10) with an error taken from another execution. Every mode must end as
// ONE error of the outer response located at the outer field and carrying the outer path.
func foreignFailure(w *world, a string, k uint64) (interface{}, error) {
	switch k {
	case 0:
		w.fail(a, "foreign:formatted-error-of-inner-Do")
		return nil, innerFormatted()
	case 1:
		w.fail(a, "foreign:pointer-to-formatted-error")
		fe := innerFormatted()
		return nil, &fe
	case 2:
		w.fail(a, "foreign:hand-built-error-by-value")
		return nil, *handBuilt(a)
	case 3:
		w.fail(a, "foreign:wrapped-formatted-error")
		return nil, fmt.Errorf("wrapped: %w", innerFormatted())
	case 4:
		w.fail(a, "foreign:wrapped-hand-built-error")
		return nil, fmt.Errorf("wrapped: %w", handBuilt(a))
	case 5:
		w.fail(a, "foreign:panic-formatted-error")
		panic(innerFormatted())
	case 6:
		w.fail(a, "foreign:panic-hand-built-error-by-value")
		panic(*handBuilt(a))
	case 7:
		return func() (interface{}, error) {
			w.fail(a, "foreign:thunk-formatted-error")
			return nil, innerFormatted()
		}, nil
	case 8:
		return func() (interface{}, error) {
			w.fail(a, "foreign:thunk-hand-built-error")
			return nil, handBuilt(a)
		}, nil
	case 9:
		w.fail(a, "foreign:hand-built-error-POINTER")
		w.relay = append(w.relay, relayT{a, "hand built " + a, foreignPath, [][2]int{{1, 21}}})
		return nil, handBuilt(a)
	case 10:
		w.fail(a, "foreign:panic-hand-built-error-POINTER")
		w.relay = append(w.relay, relayT{a, "hand built " + a, foreignPath, [][2]int{{1, 21}}})
		panic(handBuilt(a))
	default:
		return raiseSentinel(w, a, k-11)
	}
}

func leafResolver(val interface{}) graphql.FieldResolveFn {
	return func(p graphql.ResolveParams) (interface{}, error) {
		w := theWorld
		a := addrOf(p)
		h := w.h(a)
		if h%4 != 0 {
			return val, nil
		}
		if (h/4)%2 == 1 {
			return foreignFailure(w, a, (h/8)%17)
		}
		switch (h / 8) % 5 {
		case 0:
			w.fail(a, "return-error")
			return nil, errors.New("boom " + a)
		case 1:
			w.fail(a, "panic-error")
			panic(fmt.Errorf("panic %s", a))
		case 2:
			w.fail(a, "panic-string")
			panic("panic string " + a)
		case 3:
			return func() (interface{}, error) {
				w.fail(a, "thunk-error")
				return nil, errors.New("thunk " + a)
			}, nil
		default:
			w.fail(a, "value-and-error")
			return val, errors.New("both " + a)
		}
	}
}

func nonNullLeafResolver(p graphql.ResolveParams) (interface{}, error) {
	w := theWorld
	a := addrOf(p)
	h := w.h(a)
	if h%5 != 0 {
		return "nn", nil
	}
	switch (h / 5) % 5 {
	case 4:
		return raiseSentinel(w, a, h/25)
	case 0:
		w.fail(a, "nonnull-error")
		return nil, errors.New("nn boom " + a)
	case 1:
		w.fail(a, "nonnull-foreign:formatted-error-of-inner-Do")
		return nil, innerFormatted()
	case 2:
		w.fail(a, "nonnull-foreign:wrapped-hand-built-error")
		return nil, fmt.Errorf("wrapped: %w", handBuilt(a))
	}
	w.fail(a, "nonnull-null")
	return nil, nil
}

func objResolver(nonNull bool, abstract bool) graphql.FieldResolveFn {
	return func(p graphql.ResolveParams) (interface{}, error) {
		w := theWorld
		a := addrOf(p)
		h := w.h(a)
		if h%9 == 0 {
			if nonNull && (h/9)%2 == 0 {
				w.fail(a, "nonnull-object-null")
				return nil, nil
			}
			w.fail(a, "object-error")
			return nil, errors.New("obj boom " + a)
		}
		if abstract {
			return &node{addr: a, typ: concrete(w, a)}, nil
		}
		return &node{addr: a, typ: "Obj"}, nil
	}
}

func mkNode(w *world, addr string, abstract bool) *node {
	if abstract {
		return &node{addr: addr, typ: concrete(w, addr), absList: true}
	}
	return &node{addr: addr, typ: "Obj"}
}

// listResolver: [Obj] or, with abstract, [Named] / [U] whose elements get their concrete type from their own address.
func listResolver(abstract bool) graphql.FieldResolveFn {
	return func(p graphql.ResolveParams) (interface{}, error) {
		w := theWorld
		a := addrOf(p)
		h := w.h(a)
		if h%13 == 0 {
			w.fail(a, "list-error")
			return nil, errors.New("list boom " + a)
		}
		n := int((h/13)%3) + 1
		out := make([]interface{}, n)
		for i := range out {
			out[i] = mkNode(w, fmt.Sprintf("%s/%d", a, i), abstract)
		}
		return out, nil
	}
}

// listListResolver: [[Obj]], [[Named]], [[Named!]!], [[U]]
func listListResolver(abstract bool) graphql.FieldResolveFn {
	return func(p graphql.ResolveParams) (interface{}, error) {
		w := theWorld
		a := addrOf(p)
		h := w.h(a)
		n := int(h%2) + 1
		out := make([]interface{}, n)
		for i := range out {
			m := int((h>>(8*uint(i+1)))%2) + 1
			inner := make([]interface{}, m)
			for j := range inner {
				inner[j] = mkNode(w, fmt.Sprintf("%s/%d/%d", a, i, j), abstract)
			}
			out[i] = inner
		}
		return out, nil
	}
}

func intListResolver(p graphql.ResolveParams) (interface{}, error) {
	w := theWorld
	a := addrOf(p)
	h := w.h(a)
	n := int(h%4) + 1
	out := make([]interface{}, n)
	for i := range out {
		out[i] = i + 10
	}
	if (h/4)%3 == 0 {
		idx := int((h / 12) % uint64(n))
		out[idx] = nil // [Int!]: the first null item fails the list
		w.fail(fmt.Sprintf("%s/%d", a, idx), "nonnull-item-null")
	}
	return out, nil
}

func buildSchema() (graphql.Schema, error) {
	if err := initForeign(); err != nil {
		return graphql.Schema{}, err
	}
	var objType, otherType *graphql.Object
	typeOf := func(v interface{}) string {
		if n, ok := v.(*node); ok && n != nil {
			return n.typ
		}
		return ""
	}
	// interface: dispatch by ResolveType
	named := graphql.NewInterface(graphql.InterfaceConfig{
		Name:   "Named",
		Fields: graphql.Fields{"f": &graphql.Field{Type: graphql.String}},
		ResolveType: func(p graphql.ResolveTypeParams) *graphql.Object {
			if typeOf(p.Value) == "Other" {
				return otherType
			}
			return objType
		},
	})
	objType = graphql.NewObject(graphql.ObjectConfig{Name: "Obj", Interfaces: []*graphql.Interface{named},
		IsTypeOf: func(p graphql.IsTypeOfParams) bool { return typeOf(p.Value) == "Obj" },
		Fields:   graphql.Fields{"nn": &graphql.Field{Type: graphql.NewNonNull(graphql.String), Resolve: nonNullLeafResolver}}})
	otherType = graphql.NewObject(graphql.ObjectConfig{Name: "Other", Interfaces: []*graphql.Interface{named},
		IsTypeOf: func(p graphql.IsTypeOfParams) bool { return typeOf(p.Value) == "Other" },
		Fields:   graphql.Fields{}})
	// union: no ResolveType, dispatch by the members' IsTypeOf
	union := graphql.NewUnion(graphql.UnionConfig{Name: "U", Types: []*graphql.Object{objType, otherType}})
	common := func(t *graphql.Object) {
		t.AddFieldConfig("f", &graphql.Field{Type: graphql.String, Resolve: leafResolver("v")})
		t.AddFieldConfig("g", &graphql.Field{Type: graphql.Int, Resolve: leafResolver(7),
			Args: graphql.FieldConfigArgument{"z": &graphql.ArgumentConfig{Type: graphql.Int}}})
		t.AddFieldConfig("b", &graphql.Field{Type: graphql.String, Resolve: leafResolver("b"),
			Args: graphql.FieldConfigArgument{"x": &graphql.ArgumentConfig{Type: graphql.Int}, "r": &graphql.ArgumentConfig{Type: graphql.NewNonNull(graphql.Int)}}})
		t.AddFieldConfig("li", &graphql.Field{Type: graphql.NewList(graphql.NewNonNull(graphql.Int)), Resolve: intListResolver})
		t.AddFieldConfig("o", &graphql.Field{Type: objType, Resolve: objResolver(false, false)})
		t.AddFieldConfig("l", &graphql.Field{Type: graphql.NewList(objType), Resolve: listResolver(false)})
		t.AddFieldConfig("ll", &graphql.Field{Type: graphql.NewList(graphql.NewList(objType)), Resolve: listListResolver(false)})
		t.AddFieldConfig("i", &graphql.Field{Type: named, Resolve: objResolver(false, true)})
		t.AddFieldConfig("il", &graphql.Field{Type: graphql.NewList(named), Resolve: listResolver(true)})
		t.AddFieldConfig("ill", &graphql.Field{Type: graphql.NewList(graphql.NewList(named)), Resolve: listListResolver(true)})
		t.AddFieldConfig("iln", &graphql.Field{Type: graphql.NewList(graphql.NewNonNull(graphql.NewList(graphql.NewNonNull(named)))), Resolve: listListResolver(true)})
		t.AddFieldConfig("u", &graphql.Field{Type: union, Resolve: objResolver(false, true)})
		t.AddFieldConfig("ul", &graphql.Field{Type: graphql.NewList(union), Resolve: listResolver(true)})
		t.AddFieldConfig("ull", &graphql.Field{Type: graphql.NewList(graphql.NewList(union)), Resolve: listListResolver(true)})
	}
	common(objType)
	common(otherType)
	objType.AddFieldConfig("no", &graphql.Field{Type: graphql.NewNonNull(objType), Resolve: objResolver(true, false)})
	query := graphql.NewObject(graphql.ObjectConfig{Name: "Query", Fields: graphql.Fields{}})
	common(query)
	return graphql.NewSchema(graphql.SchemaConfig{Query: query, Types: []graphql.Type{objType, otherType, union}})
}
