package main

// The real schema of streams (c) and (d).
//
//	interface Named { f: String }
//	type Obj implements Named { f: String  g(z: Int): Int  b(x: Int, r: Int!): String  nn: String!  li: [Int!]
//	                            o: Obj  no: Obj!  l: [Obj]  ll: [[Obj]]  i: Named }
//	type Query              { the same without nn and no (no non-null field at the root) }
//
// Every resolver derives the *address* of its response position from its parent's address and the response
// key taken from the field node (alias or name) — never from ResolveInfo.Path — and decides by a hash of
// (fail seed, address) whether and how to fail. Each failure is recorded in world.failed when it happens.

import (
	"errors"
	"fmt"
	"hash/fnv"

	"github.com/graphql-go/graphql"
	"verif/harness/hx"
)

type node struct{ addr string }

type world struct {
	seed   uint64
	failed []string // addresses at which a failure was produced, in execution order
	calls  int      // resolver invocations
	modes  map[string]int
}

var theWorld *world

func (w *world) h(addr string) uint64 {
	f := fnv.New64a()
	f.Write([]byte(addr))
	return hx.NewRng(w.seed ^ f.Sum64()).U64()
}

func (w *world) fail(addr, mode string) {
	w.failed = append(w.failed, addr)
	w.modes[mode]++
}

func keyOf(p graphql.ResolveParams) string {
	n := p.Info.FieldASTs[0]
	if n.Alias != nil && n.Alias.Value != "" {
		return n.Alias.Value
	}
	return n.Name.Value
}

func addrOf(p graphql.ResolveParams) string {
	theWorld.calls++
	parent := ""
	if n, ok := p.Source.(*node); ok && n != nil {
		parent = n.addr
	}
	return parent + "/" + keyOf(p)
}

func leafResolver(val interface{}) graphql.FieldResolveFn {
	return func(p graphql.ResolveParams) (interface{}, error) {
		w := theWorld
		a := addrOf(p)
		h := w.h(a)
		if h%4 != 0 {
			return val, nil
		}
		switch (h / 4) % 5 {
		case 0:
			w.fail(a, "return-error")
			return nil, errors.New("boom " + a)
		case 1:
			w.fail(a, "panic-error")
			panic(fmt.Errorf("panic %s", a))
		case 2:
			w.fail(a, "panic-string")
			panic("panic string " + a)
		case 3:
			return func() (interface{}, error) {
				w.fail(a, "thunk-error")
				return nil, errors.New("thunk " + a)
			}, nil
		default:
			w.fail(a, "value-and-error")
			return val, errors.New("both " + a)
		}
	}
}

func nonNullLeafResolver(p graphql.ResolveParams) (interface{}, error) {
	w := theWorld
	a := addrOf(p)
	h := w.h(a)
	if h%5 != 0 {
		return "nn", nil
	}
	if (h/5)%2 == 0 {
		w.fail(a, "nonnull-error")
		return nil, errors.New("nn boom " + a)
	}
	w.fail(a, "nonnull-null")
	return nil, nil
}

func objResolver(nonNull bool) graphql.FieldResolveFn {
	return func(p graphql.ResolveParams) (interface{}, error) {
		w := theWorld
		a := addrOf(p)
		h := w.h(a)
		if h%9 == 0 {
			if nonNull && (h/9)%2 == 0 {
				w.fail(a, "nonnull-object-null")
				return nil, nil
			}
			w.fail(a, "object-error")
			return nil, errors.New("obj boom " + a)
		}
		return &node{addr: a}, nil
	}
}

func listResolver(p graphql.ResolveParams) (interface{}, error) {
	w := theWorld
	a := addrOf(p)
	h := w.h(a)
	if h%13 == 0 {
		w.fail(a, "list-error")
		return nil, errors.New("list boom " + a)
	}
	n := int((h/13)%3) + 1
	out := make([]interface{}, n)
	for i := range out {
		out[i] = &node{addr: fmt.Sprintf("%s/%d", a, i)}
	}
	return out, nil
}

func listListResolver(p graphql.ResolveParams) (interface{}, error) {
	w := theWorld
	a := addrOf(p)
	h := w.h(a)
	n := int(h%3) + 1
	out := make([]interface{}, n)
	for i := range out {
		m := int((h>>(8*uint(i+1)))%3) + 1
		inner := make([]interface{}, m)
		for j := range inner {
			inner[j] = &node{addr: fmt.Sprintf("%s/%d/%d", a, i, j)}
		}
		out[i] = inner
	}
	return out, nil
}

func intListResolver(p graphql.ResolveParams) (interface{}, error) {
	w := theWorld
	a := addrOf(p)
	h := w.h(a)
	n := int(h%4) + 1
	out := make([]interface{}, n)
	for i := range out {
		out[i] = i + 10
	}
	if (h/4)%3 == 0 {
		idx := int((h / 12) % uint64(n))
		out[idx] = nil // [Int!]: the first null item fails the list
		w.fail(fmt.Sprintf("%s/%d", a, idx), "nonnull-item-null")
	}
	return out, nil
}

func buildSchema() (graphql.Schema, error) {
	var objType *graphql.Object
	named := graphql.NewInterface(graphql.InterfaceConfig{
		Name:        "Named",
		Fields:      graphql.Fields{"f": &graphql.Field{Type: graphql.String}},
		ResolveType: func(p graphql.ResolveTypeParams) *graphql.Object { return objType },
	})
	common := func(t *graphql.Object) {
		t.AddFieldConfig("f", &graphql.Field{Type: graphql.String, Resolve: leafResolver("v")})
		t.AddFieldConfig("g", &graphql.Field{Type: graphql.Int, Resolve: leafResolver(7),
			Args: graphql.FieldConfigArgument{"z": &graphql.ArgumentConfig{Type: graphql.Int}}})
		t.AddFieldConfig("b", &graphql.Field{Type: graphql.String, Resolve: leafResolver("b"),
			Args: graphql.FieldConfigArgument{"x": &graphql.ArgumentConfig{Type: graphql.Int}, "r": &graphql.ArgumentConfig{Type: graphql.NewNonNull(graphql.Int)}}})
		t.AddFieldConfig("li", &graphql.Field{Type: graphql.NewList(graphql.NewNonNull(graphql.Int)), Resolve: intListResolver})
		t.AddFieldConfig("o", &graphql.Field{Type: objType, Resolve: objResolver(false)})
		t.AddFieldConfig("l", &graphql.Field{Type: graphql.NewList(objType), Resolve: listResolver})
		t.AddFieldConfig("ll", &graphql.Field{Type: graphql.NewList(graphql.NewList(objType)), Resolve: listListResolver})
		t.AddFieldConfig("i", &graphql.Field{Type: named, Resolve: objResolver(false)})
	}
	objType = graphql.NewObject(graphql.ObjectConfig{Name: "Obj", Interfaces: []*graphql.Interface{named},
		Fields: graphql.Fields{"nn": &graphql.Field{Type: graphql.NewNonNull(graphql.String), Resolve: nonNullLeafResolver}}})
	common(objType)
	objType.AddFieldConfig("no", &graphql.Field{Type: graphql.NewNonNull(objType), Resolve: objResolver(true)})
	query := graphql.NewObject(graphql.ObjectConfig{Name: "Query", Fields: graphql.Fields{}})
	common(query)
	return graphql.NewSchema(graphql.SchemaConfig{Query: query, Types: []graphql.Type{objType}})
}
