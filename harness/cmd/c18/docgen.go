package main

// Schema-directed document generator for streams (c) and (d): it builds documents that are valid against
// the fixed schema of schema.go as a tree of selection sets over token lists, so that a fault can be
// inserted at a known node (stream c) and so that every field node's first token carries a mark naming
// its response key (stream d). The text itself is produced later by gen.Layout.

import (
	"fmt"

	"verif/harness/gen"
	"verif/harness/hx"
)

type scope int

const (
	scQuery scope = iota
	scObj
	scNamed
	scOther // type Other implements Named, member of union U
	scUnion // union U = Obj | Other: no fields of its own, only fragments
)

func (s scope) typeName() string { return [...]string{"Query", "Obj", "Named", "Other", "U"}[s] }

// type conditions (inline fragments, named fragments) that may be spread inside a selection set of the given scope
func (s scope) spreadable() []scope {
	switch s {
	case scQuery:
		return []scope{scQuery}
	case scObj:
		return []scope{scObj, scNamed, scUnion}
	case scOther:
		return []scope{scOther, scNamed, scUnion}
	}
	return []scope{scObj, scOther, scNamed, scUnion}
}

type item struct {
	head []gen.Tok
	sub  *selset
	leaf bool   // a leaf field without directives (candidate for duplication)
	key  string // response key of a field
}

type selset struct {
	sc      scope
	items   []*item
	wrapped bool // selection set of a field whose type is a list or non-null wrapper (l, ll, no)
}

// An inline fragment without type condition directly under a list- or non-null-typed field is rejected by the
// library's validation (type_info.go pushes the wrapped type; reported to the lead as a C02-class defect).
// While that stands the generator only emits typed inline fragments there. Set to false once /repo is fixed.
const avoidUntypedInlineUnderWrapped = false

type fragDef struct {
	private bool // holds one duplicate occurrence; never spread anywhere else
	name    string
	sc      scope
	body    *selset
}

type qgen struct {
	r         *hx.Rng
	exec      bool // stream d: no variables, merged duplicates allowed
	alias     int
	usedPlain map[string]bool
	frags     []*fragDef
	vars      map[string]string
	varOrder  []string
	sets      []*selset
	dupIn     int // further occurrences of a response key that are let in
	dupOut    int // further occurrences kept out by @skip / @include
}

func tk(text string, kind gen.TokKind) gen.Tok { return gen.Tok{Text: text, Kind: kind} }
func p(text string) gen.Tok                    { return tk(text, gen.TPunct) }
func nm(text string) gen.Tok                   { return tk(text, gen.TName) }
func num(text string) gen.Tok                  { return tk(text, gen.TNumber) }

type fieldSpec struct {
	name string
	args []string // argument names; "r" is required
	sub  scope    // for composite fields
	comp bool
}

var leafQuery = []fieldSpec{{name: "f"}, {name: "g", args: []string{"z"}}, {name: "b", args: []string{"x", "r"}}, {name: "li"}}
var leafObj = append([]fieldSpec{{name: "nn"}}, leafQuery...)
var compQuery = []fieldSpec{{name: "o", sub: scObj, comp: true}, {name: "l", sub: scObj, comp: true}, {name: "ll", sub: scObj, comp: true}, {name: "i", sub: scNamed, comp: true},
	// abstract types inside lists (and outside): interface Named, union U
	{name: "il", sub: scNamed, comp: true}, {name: "ill", sub: scNamed, comp: true}, {name: "iln", sub: scNamed, comp: true},
	{name: "u", sub: scUnion, comp: true}, {name: "ul", sub: scUnion, comp: true}, {name: "ull", sub: scUnion, comp: true}}
var compObj = append([]fieldSpec{{name: "no", sub: scObj, comp: true}}, compQuery...)

func (g *qgen) useVar(name, typ string) gen.Tok {
	if _, ok := g.vars[name]; !ok {
		g.vars[name] = typ
		g.varOrder = append(g.varOrder, name)
	}
	return nm(name)
}

func (g *qgen) intValue(required bool) []gen.Tok {
	if !g.exec && g.r.Chance(1, 4) {
		if required {
			return []gen.Tok{p("$"), g.useVar("w", "Int!")}
		}
		return []gen.Tok{p("$"), g.useVar("v", "Int")}
	}
	return []gen.Tok{num(g.r.Pick([]string{"0", "1", "-2", "37"}))}
}

// boolDirective: a @skip / @include that lets the selection in (include) or keeps it out, literal or driven by the
// variables $on (= true) and $off (= false) that the harness passes with every executing request.
func (g *qgen) boolDirective(include bool) []gen.Tok {
	mk := func(dir string, val []gen.Tok) []gen.Tok {
		return append(append([]gen.Tok{p("@"), nm(dir), p("("), nm("if"), p(":")}, val...), p(")"))
	}
	lit := func(b bool) []gen.Tok { return []gen.Tok{nm(fmt.Sprint(b))} }
	k := g.r.Intn(4)
	switch {
	case k == 0:
		return mk("include", lit(include))
	case k == 1:
		return mk("skip", lit(!include))
	case (k == 2) == include:
		// include: @include(if: $on) ; exclude: @skip(if: $on)
		if include {
			return mk("include", []gen.Tok{p("$"), g.useVar("on", "Boolean!")})
		}
		return mk("skip", []gen.Tok{p("$"), g.useVar("on", "Boolean!")})
	default:
		if include {
			return mk("skip", []gen.Tok{p("$"), g.useVar("off", "Boolean!")})
		}
		return mk("include", []gen.Tok{p("$"), g.useVar("off", "Boolean!")})
	}
}

func (g *qgen) directive() []gen.Tok {
	if !g.r.Chance(1, 6) {
		return nil
	}
	if g.exec {
		// executing documents: mostly letting in, sometimes keeping the selection out (then nothing below it runs)
		return g.boolDirective(!g.r.Chance(1, 4))
	}
	if !g.exec && g.r.Chance(1, 3) {
		return []gen.Tok{p("@"), nm("include"), p("("), nm("if"), p(":"), p("$"), g.useVar("t", "Boolean!"), p(")")}
	}
	if g.r.Chance(1, 2) {
		return []gen.Tok{p("@"), nm("include"), p("("), nm("if"), p(":"), nm("true"), p(")")}
	}
	return []gen.Tok{p("@"), nm("skip"), p("("), nm("if"), p(":"), nm("false"), p(")")}
}

func (g *qgen) field(sc scope, depth int, inFrag bool) *item {
	var specs []fieldSpec
	switch sc {
	case scQuery:
		specs = append(specs, leafQuery...)
		if depth > 0 {
			specs = append(specs, compQuery...)
			specs = append(specs, compQuery...)
		}
	case scObj:
		specs = append(specs, leafObj...)
		if depth > 0 {
			specs = append(specs, compObj...)
			specs = append(specs, compObj...)
		}
	case scOther:
		specs = append(specs, leafQuery...)
		if depth > 0 {
			specs = append(specs, compQuery...)
			specs = append(specs, compQuery...)
		}
	case scNamed:
		specs = []fieldSpec{{name: "f"}}
	}
	fs := specs[g.r.Intn(len(specs))]
	it := &item{}
	key := fs.name
	if g.usedPlain[fs.name] || g.r.Chance(3, 4) {
		g.alias++
		key = fmt.Sprintf("k%d", g.alias)
		it.head = append(it.head, nm(key), p(":"))
	} else {
		g.usedPlain[fs.name] = true
	}
	it.key = key
	it.head = append(it.head, nm(fs.name))
	it.head[0].Mark = "F:" + key
	if len(fs.args) > 0 {
		var args [][]gen.Tok
		for _, a := range fs.args {
			if a == "r" || g.r.Chance(1, 2) {
				args = append(args, append([]gen.Tok{nm(a), p(":")}, g.intValue(a == "r")...))
			}
		}
		if len(args) == 2 && g.r.Chance(1, 2) {
			args[0], args[1] = args[1], args[0]
		}
		if len(args) > 0 {
			it.head = append(it.head, p("("))
			for _, a := range args {
				it.head = append(it.head, a...)
			}
			it.head = append(it.head, p(")"))
		}
	}
	d := g.directive()
	it.head = append(it.head, d...)
	if fs.comp {
		it.sub = g.selsetW(fs.sub, depth-1, inFrag, fs.name == "l" || fs.name == "ll" || fs.name == "no")
	} else {
		it.leaf = d == nil
	}
	return it
}

func (g *qgen) inline(sc scope, depth int, inFrag bool, mustType bool) *item {
	it := &item{head: []gen.Tok{p("...")}}
	inner := sc
	opts := sc.spreadable()
	if g.r.Chance(2, 3) || mustType {
		inner = opts[g.r.Intn(len(opts))]
		it.head = append(it.head, nm("on"), nm(inner.typeName()))
	}
	it.head = append(it.head, g.directive()...)
	it.sub = g.selsetIn(inner, depth-1, inFrag)
	return it
}

func (g *qgen) spread(sc scope, depth int) *item {
	want := sc.spreadable()
	ws := want[g.r.Intn(len(want))]
	var fd *fragDef
	for _, f := range g.frags {
		if f.sc == ws && !f.private && g.r.Chance(1, 2) {
			fd = f
			break
		}
	}
	if fd == nil {
		fd = &fragDef{name: fmt.Sprintf("F%d", len(g.frags)+1), sc: ws}
		g.frags = append(g.frags, fd)
		fd.body = g.selsetIn(ws, depth-1, true)
	}
	it := &item{head: []gen.Tok{p("..."), nm(fd.name)}}
	it.head = append(it.head, g.directive()...)
	return it
}

func (g *qgen) selsetIn(sc scope, depth int, inFrag bool) *selset {
	return g.selsetW(sc, depth, inFrag, false)
}

func (g *qgen) selsetW(sc scope, depth int, inFrag bool, wrapped bool) *selset {
	s := &selset{sc: sc, wrapped: wrapped}
	g.sets = append(g.sets, s)
	n := g.r.Range(1, 3)
	for i := 0; i < n; i++ {
		k := g.r.Intn(10)
		if sc == scUnion {
			// a union has no fields: only fragments (typed, or untyped = the union again)
			if k < 3 && depth > 0 && !inFrag {
				s.items = append(s.items, g.spread(sc, depth))
			} else {
				s.items = append(s.items, g.inline(sc, depth, inFrag, g.r.Chance(9, 10)))
			}
			continue
		}
		switch {
		case k == 0 && depth > 0:
			s.items = append(s.items, g.inline(sc, depth, inFrag, wrapped && avoidUntypedInlineUnderWrapped))
		case k == 1 && depth > 0 && !inFrag:
			s.items = append(s.items, g.spread(sc, depth))
		default:
			s.items = append(s.items, g.field(sc, depth, inFrag))
		}
	}
	if g.exec && sc != scUnion && g.r.Chance(2, 5) {
		g.duplicates(s, sc)
	}
	return s
}

// duplicates adds one or two further occurrences of a leaf field of this selection set under the same response key (same field,
// same arguments): directly, inside an inline fragment (typed or not) or inside a named fragment; before or after the original;
// let in or kept out by a literal or variable-driven @skip / @include on the occurrence itself or on the fragment around it.
// The error of the merged field must name exactly the occurrences that are let in, in collection order: those get the mark
// "F:<key>#<n>" with n their order in this selection set; occurrences kept out get no mark.
func (g *qgen) duplicates(s *selset, sc scope) {
	var cands []*item
	for _, it := range s.items {
		if it.leaf {
			cands = append(cands, it)
		}
	}
	if len(cands) == 0 {
		return
	}
	orig := cands[g.r.Intn(len(cands))]
	type occ struct {
		at    *item // the item of s.items that carries the occurrence
		field *item // the field occurrence itself
		in    bool
	}
	occs := []occ{{orig, orig, true}}
	for n := g.r.Range(1, 2); n > 0; n-- {
		dup := &item{head: append([]gen.Tok{}, orig.head...), key: orig.key}
		in := g.r.Chance(1, 2)
		ownDirective := g.r.Chance(1, 2)
		var outer []gen.Tok // directive on the fragment around the occurrence
		if ownDirective {
			if !in || g.r.Chance(1, 2) {
				dup.head = append(dup.head, g.boolDirective(in)...)
			}
		} else if !in || g.r.Chance(1, 2) {
			outer = g.boolDirective(in)
		}
		at := dup
		switch k := g.r.Intn(4); {
		case ownDirective && k == 0:
			// bare
		case k <= 1:
			at = &item{head: append([]gen.Tok{p("...")}, outer...), sub: &selset{sc: sc, items: []*item{dup}}}
		case k == 2:
			at = &item{head: append([]gen.Tok{p("..."), nm("on"), nm(sc.typeName())}, outer...), sub: &selset{sc: sc, items: []*item{dup}}}
		default:
			fd := &fragDef{private: true, name: fmt.Sprintf("D%d", len(g.frags)+1), sc: sc, body: &selset{sc: sc, items: []*item{dup}}}
			g.frags = append(g.frags, fd)
			at = &item{head: append([]gen.Tok{p("..."), nm(fd.name)}, outer...)}
		}
		// position: before the original or at the end
		if g.r.Chance(1, 3) {
			for i, it := range s.items {
				if it == orig {
					s.items = append(s.items[:i], append([]*item{at}, s.items[i:]...)...)
					break
				}
			}
		} else {
			s.items = append(s.items, at)
		}
		occs = append(occs, occ{at, dup, in})
		if in {
			g.dupIn++
		} else {
			g.dupOut++
		}
	}
	n := 0
	for _, it := range s.items {
		for _, o := range occs {
			if o.at == it {
				if o.in {
					o.field.head[0].Mark = fmt.Sprintf("F:%s#%d", orig.key, n)
					n++
				} else {
					o.field.head[0].Mark = ""
				}
			}
		}
	}
}

func flatten(s *selset, open gen.Tok, out []gen.Tok) []gen.Tok {
	out = append(out, open)
	for _, it := range s.items {
		out = append(out, it.head...)
		if it.sub != nil {
			o := p("{")
			if len(it.head) > 0 && it.head[len(it.head)-1].Mark == "SUBMARK" {
				o.Mark = "E0"
			}
			out = flatten(it.sub, o, out)
		}
	}
	return append(out, p("}"))
}

// document assembles operation and fragment definitions into one token list.
func (g *qgen) document(root *selset) []gen.Tok {
	var op []gen.Tok
	if len(g.varOrder) > 0 || g.r.Chance(1, 2) {
		op = append(op, nm("query"))
		if g.r.Chance(1, 2) {
			op = append(op, nm("Op"))
		}
		if len(g.varOrder) > 0 {
			op = append(op, p("("))
			for _, v := range g.varOrder {
				vd := p("$")
				vd.Mark = "VD:" + v // start of the VariableDefinition node
				op = append(op, vd, nm(v), p(":"))
				t := g.vars[v]
				if t[len(t)-1] == '!' {
					op = append(op, nm(t[:len(t)-1]), p("!"))
				} else {
					op = append(op, nm(t))
				}
			}
			op = append(op, p(")"))
		}
		op = flatten(root, p("{"), op)
	} else {
		op = flatten(root, p("{"), nil)
	}
	op[0].Mark = "OP"
	var before, after []gen.Tok
	for _, f := range g.frags {
		d := []gen.Tok{nm("fragment"), nm(f.name), nm("on"), nm(f.sc.typeName())}
		d = flatten(f.body, p("{"), d)
		if g.r.Chance(1, 2) {
			before = append(before, d...)
		} else {
			after = append(after, d...)
		}
	}
	return append(append(before, op...), after...)
}

// newDoc generates the tree of a valid document; the caller may insert a fault before calling document.
func newDoc(r *hx.Rng, exec bool) (*qgen, *selset) {
	g := &qgen{r: r, exec: exec, usedPlain: map[string]bool{}, vars: map[string]string{}}
	maxDepth := 4
	if exec {
		maxDepth = 3 // nested lists of lists multiply the response size
	}
	root := g.selsetIn(scQuery, r.Range(1, maxDepth), false)
	return g, root
}

var faultKinds = []string{"unknownField", "unknownArg", "undefinedVar", "unknownFragment", "leafSubselection",
	"missingSubselection", "unknownDirective", "unknownTypeCondition", "missingRequiredArg", "duplicateArg", "variablePosition"}

// fault builds one invalid selection for the given scope; the tokens marked E0, E1 (and OP for undefinedVar) are the
// starts of the nodes the validator must report, in that order.
func (g *qgen) fault(kind string, sc scope, r *hx.Rng) (*item, []string, string) {
	g.alias++
	k := fmt.Sprintf("k%d", g.alias)
	mark := func(t gen.Tok, m string) gen.Tok { t.Mark = m; return t }
	aliased := func(first gen.Tok, rest ...gen.Tok) []gen.Tok {
		if r.Chance(2, 3) || g.usedPlain[first.Text] {
			return append([]gen.Tok{mark(nm(k), "E0"), p(":"), first}, rest...)
		}
		return append([]gen.Tok{mark(first, "E0")}, rest...)
	}
	if sc == scNamed && (kind == "missingSubselection" || kind == "missingRequiredArg" || kind == "duplicateArg") {
		kind = "unknownField"
	}
	if sc == scNamed && kind == "variablePosition" {
		kind = "unknownField"
	}
	if sc == scUnion && kind != "unknownFragment" && kind != "unknownTypeCondition" {
		kind = "unknownField" // a union has no fields to hang the other faults on
	}
	switch kind {
	case "variablePosition":
		// nullable $v: Int in the position of r: Int! -> VariablesInAllowedPosition names the variable definition, then the usage
		return &item{head: []gen.Tok{nm(k), p(":"), nm("b"), p("("), nm("r"), p(":"), mark(p("$"), "E0"), g.useVar("v", "Int"), p(")")}}, []string{"VD:v", "E0"}, kind
	case "unknownArg":
		switch {
		case sc == scNamed || r.Chance(1, 3):
			return &item{head: []gen.Tok{nm(k), p(":"), nm("f"), p("("), mark(nm("qq"), "E0"), p(":"), num("1"), p(")")}}, []string{"E0"}, kind
		case r.Chance(1, 2):
			return &item{head: []gen.Tok{nm(k), p(":"), nm("g"), p("("), nm("z"), p(":"), num("1"), mark(nm("qq"), "E0"), p(":"), num("2"), p(")")}}, []string{"E0"}, kind
		default:
			return &item{head: []gen.Tok{nm(k), p(":"), nm("b"), p("("), mark(nm("qq"), "E0"), p(":"), tk(`"s"`, gen.TString), nm("r"), p(":"), num("1"), p(")")}}, []string{"E0"}, kind
		}
	case "undefinedVar":
		if sc == scNamed || r.Chance(1, 2) {
			return &item{head: []gen.Tok{nm(k), p(":"), nm("f"), p("@"), nm("include"), p("("), nm("if"), p(":"), mark(p("$"), "E0"), nm("u"), p(")")}}, []string{"E0", "OP"}, kind
		}
		return &item{head: []gen.Tok{nm(k), p(":"), nm("g"), p("("), nm("z"), p(":"), mark(p("$"), "E0"), nm("u"), p(")")}}, []string{"E0", "OP"}, kind
	case "unknownFragment":
		h := []gen.Tok{p("..."), mark(nm("Nope"), "E0")}
		if r.Chance(1, 3) {
			h = append(h, p("@"), nm("skip"), p("("), nm("if"), p(":"), nm("false"), p(")"))
		}
		return &item{head: h}, []string{"E0"}, kind
	case "leafSubselection":
		h := []gen.Tok{nm(k), p(":"), nm("f")}
		h[len(h)-1].Mark = "SUBMARK"
		return &item{head: h, sub: &selset{sc: sc, items: []*item{{head: []gen.Tok{nm("f")}}}}}, []string{"E0"}, kind
	case "missingSubselection":
		return &item{head: aliased(nm(r.Pick([]string{"o", "l", "ll", "i"})))}, []string{"E0"}, kind
	case "unknownDirective":
		h := []gen.Tok{nm(k), p(":"), nm("f"), mark(p("@"), "E0"), nm("nope")}
		if r.Chance(1, 2) {
			h = append(h, p("("), nm("a"), p(":"), num("1"), p(")"))
		}
		return &item{head: h}, []string{"E0"}, kind
	case "unknownTypeCondition":
		return &item{head: []gen.Tok{p("..."), nm("on"), mark(nm("Nope"), "E0")}, sub: &selset{sc: sc, items: []*item{{head: []gen.Tok{nm("f")}}}}}, []string{"E0"}, kind
	case "missingRequiredArg":
		if r.Chance(1, 2) {
			return &item{head: aliased(nm("b"))}, []string{"E0"}, kind
		}
		return &item{head: aliased(nm("b"), p("("), nm("x"), p(":"), num("1"), p(")"))}, []string{"E0"}, kind
	case "duplicateArg":
		return &item{head: []gen.Tok{nm(k), p(":"), nm("g"), p("("), mark(nm("z"), "E0"), p(":"), num("1"), mark(nm("z"), "E1"), p(":"), num("2"), p(")")}}, []string{"E0", "E1"}, kind
	}
	// unknownField
	h := aliased(nm("zz"))
	if r.Chance(1, 3) {
		h = append(h, p("("), nm("a"), p(":"), num("1"), p(")"))
	}
	it := &item{head: h}
	if r.Chance(1, 3) {
		it.sub = &selset{sc: sc, items: []*item{{head: []gen.Tok{nm("f")}}}}
	}
	return it, []string{"E0"}, "unknownField"
}

// cycleDoc builds a document whose fragments contain exactly one spread cycle C0 -> C1 -> ... -> C(n-1) -> C0 (n = 1..3) and, inside
// the fragments on the cycle, further spreads that are NOT on the cycle and are never part of the reported path: leaf fragments
// (defined before or after, hence already visited or not when the cycle fragment is examined), a two-step acyclic chain, unknown
// names. Optionally an acyclic fragment P outside the cycle enters it at some Cj. NoFragmentCycles must report ONE error whose
// locations are the n spreads on the cycle in path order starting at the fragment through which the depth-first search (fragment
// definitions in document order) first enters the cycle; each unknown name adds one KnownFragmentNames error at the name.
// Returns the tokens and the expected location lists as marks.
func cycleDoc(r *hx.Rng) ([]gen.Tok, [][]string) {
	n := r.Range(1, 3)
	alias := 0
	fieldTok := func() []gen.Tok {
		alias++
		return []gen.Tok{nm(fmt.Sprintf("k%d", alias)), p(":"), nm("f")}
	}
	type def struct {
		name string
		toks []gen.Tok
		cyc  int // index on the cycle or -1
	}
	var defs []def
	var expect [][]string
	leafUsed := map[string]bool{}
	unk := 0
	extra := func() []gen.Tok {
		switch r.Intn(4) {
		case 0:
			leafUsed["L0"] = true
			return []gen.Tok{p("..."), nm("L0")}
		case 1:
			leafUsed["L1"] = true
			leafUsed["L0"] = true
			return []gen.Tok{p("..."), nm("L1")}
		case 2:
			leafUsed["L2"] = true
			return []gen.Tok{p("..."), nm("L2")}
		default:
			t := nm(fmt.Sprintf("Nope%d", unk))
			t.Mark = fmt.Sprintf("UNK%d", unk)
			expect = append(expect, []string{t.Mark})
			unk++
			return []gen.Tok{p("..."), t}
		}
	}
	body := func(cycleSpread []gen.Tok) []gen.Tok {
		var parts [][]gen.Tok
		for i := r.Intn(3); i > 0; i-- {
			parts = append(parts, fieldTok())
		}
		for i := r.Intn(3); i > 0; i-- {
			parts = append(parts, extra())
		}
		if cycleSpread != nil {
			parts = append(parts, cycleSpread)
		}
		if len(parts) == 0 {
			parts = append(parts, fieldTok())
		}
		for i := len(parts) - 1; i > 0; i-- {
			j := r.Intn(i + 1)
			parts[i], parts[j] = parts[j], parts[i]
		}
		out := []gen.Tok{p("{")}
		for _, pt := range parts {
			out = append(out, pt...)
		}
		return append(out, p("}"))
	}
	for i := 0; i < n; i++ {
		sp := p("...")
		sp.Mark = fmt.Sprintf("CY%d", i)
		d := def{name: fmt.Sprintf("C%d", i), cyc: i}
		d.toks = append([]gen.Tok{nm("fragment"), nm(d.name), nm("on"), nm("Obj")}, body([]gen.Tok{sp, nm(fmt.Sprintf("C%d", (i+1)%n))})...)
		defs = append(defs, d)
	}
	enterVia := -1
	if r.Chance(1, 3) {
		enterVia = r.Intn(n)
		d := def{name: "P", cyc: -1}
		d.toks = append([]gen.Tok{nm("fragment"), nm("P"), nm("on"), nm("Obj")}, body([]gen.Tok{p("..."), nm(fmt.Sprintf("C%d", enterVia))})...)
		defs = append(defs, d)
	}
	// the leaves are always defined (and used from the operation, so that NoUnusedFragments stays silent)
	defs = append(defs, def{name: "L0", cyc: -1, toks: append([]gen.Tok{nm("fragment"), nm("L0"), nm("on"), nm("Obj"), p("{")}, append(fieldTok(), p("}"))...)})
	defs = append(defs, def{name: "L1", cyc: -1, toks: append([]gen.Tok{nm("fragment"), nm("L1"), nm("on"), nm("Obj"), p("{")}, append(append(fieldTok(), p("..."), nm("L0")), p("}"))...)})
	defs = append(defs, def{name: "L2", cyc: -1, toks: append([]gen.Tok{nm("fragment"), nm("L2"), nm("on"), nm("Obj"), p("{")}, append(fieldTok(), p("}"))...)})
	// operation: reaches every fragment
	op := []gen.Tok{p("{"), nm("o"), p("{"), p("..."), nm("C0"), p("..."), nm("L1"), p("..."), nm("L2")}
	if enterVia >= 0 {
		op = append(op, p("..."), nm("P"))
	}
	op = append(op, p("}"), p("}"))
	// document order: random; the operation anywhere
	for i := len(defs) - 1; i > 0; i-- {
		j := r.Intn(i + 1)
		defs[i], defs[j] = defs[j], defs[i]
	}
	opAt := r.Intn(len(defs) + 1)
	var toks []gen.Tok
	entry := -1
	for i, d := range defs {
		if i == opAt {
			toks = append(toks, op...)
		}
		toks = append(toks, d.toks...)
		if entry < 0 {
			if d.cyc >= 0 {
				entry = d.cyc
			} else if d.name == "P" {
				entry = enterVia
			}
		}
	}
	if opAt == len(defs) {
		toks = append(toks, op...)
	}
	var cyc []string
	for i := 0; i < n; i++ {
		cyc = append(cyc, fmt.Sprintf("CY%d", (entry+i)%n))
	}
	expect = append(expect, cyc)
	return toks, expect
}
