// C18 harness: error locations and response paths.
//
// Stream a  EXHAUSTIVE  location.GetLocation vs the Lean model (M = loop, S = spec) and vs the harness's own forward
//
//	scan, for every string over {a, LF, CR} up to length 6 (quick) / 9 (thorough) and every offset 0..len+2,
//	plus the nil source.
//
// Stream b  syntax errors: documents of gen.DocGen (Exotic) that the real parser accepts, tokenised by the
//
//	harness's own tokenizer, mutated (illegal character, token deletion / insertion / swap, byte flip,
//	truncation) and laid out again with random LF/CR/CRLF/indentation/commas/comments. See caseB for what
//	is checked exactly and what is only one-sided.
//
// Stream c  validation errors: documents valid against the schema of schema.go with one faulty selection inserted
//
//	at a known place, laid out randomly; the error's locations must be the (line, column) of the start of
//	the offending nodes as the harness computes them from its own layout.
//
// Stream d  field errors of graphql.Do: resolvers fail at response positions chosen by a hash of their own address
//
//	(parent address + response key / list index, not ResolveInfo.Path); every error must carry exactly the
//	path of a position that failed (as multisets), the data at that path or at a prefix must be null, and
//	the locations must be the starts of the field nodes with that response key.
//
// Stream e  the erroneous requests of streams c and d served as sequences of layout variants (fresh layout, leading /
//
//	trailing padding, exact repetition; one or two documents interleaved) through ONE PlanCache (Normalize off / on,
//	MaxEntries default / 2 / 1) via PlanCache.Get + ExecutePlan; every answer is judged against the text of the
//	request that produced it.
//
// Stream p  the real ResponsePath.WithKey / AsArray against the Lean model on random key / index lists.
package main

import (
	"encoding/base64"
	"encoding/json"
	"fmt"
	"os"
	"sort"
	"strconv"
	"strings"
	"time"

	"github.com/graphql-go/graphql"
	"github.com/graphql-go/graphql/gqlerrors"
	"github.com/graphql-go/graphql/language/lexer"
	"github.com/graphql-go/graphql/language/location"
	"github.com/graphql-go/graphql/language/parser"
	"github.com/graphql-go/graphql/language/source"

	"verif/harness/gen"
	"verif/harness/hx"
)

type loc = [2]int

type caseT struct {
	Stream    string           `json:"stream"`
	Body      string           `json:"body"` // base64 of the request text
	Text      string           `json:"text,omitempty"`
	Pos       []int            `json:"pos,omitempty"` // a: offsets to query
	NilSrc    bool             `json:"nil_source,omitempty"`
	Kind      string           `json:"kind,omitempty"`       // b: mutation, c: fault
	LB        int              `json:"lb,omitempty"`         // b: lowest admissible error offset
	UB        int              `json:"ub,omitempty"`         // b: highest admissible error offset, -1 = unknown
	Expect    []int            `json:"expect,omitempty"`     // c: offsets of the nodes the error must name, in order
	ExpectAll [][]int          `json:"expect_all,omitempty"` // c (fragmentCycle): the complete set of errors, each as the offsets of its nodes in order
	FailSeed  uint64           `json:"fail_seed,omitempty"`
	Marks     map[string][]int `json:"marks,omitempty"` // d: response key -> offsets of its field nodes, collection order
	Keys      []interface{}    `json:"keys,omitempty"`  // p: keys (string) and list indices (number) passed to WithKey
	// e: a sequence of requests served through ONE PlanCache
	Steps      []stepT `json:"steps,omitempty"`
	Normalize  bool    `json:"normalize,omitempty"`
	MaxEntries int     `json:"max_entries,omitempty"`
}

// stepT is one request of a cache sequence: a layout variant of document Doc.
type stepT struct {
	Doc      int              `json:"doc"`
	Type     string           `json:"type"` // "c": one validation fault, "d": executes with failing resolvers
	Variant  string           `json:"variant"`
	Body     string           `json:"body"`
	Kind     string           `json:"kind,omitempty"`
	Expect   []int            `json:"expect,omitempty"`
	Marks    map[string][]int `json:"marks,omitempty"`
	FailSeed uint64           `json:"fail_seed,omitempty"`
}

var (
	run    *hx.Run
	drv    *hx.Driver
	schema graphql.Schema
)

func b64(s string) string { return base64.StdEncoding.EncodeToString([]byte(s)) }

type modelResp struct {
	M []loc `json:"M"`
	S []loc `json:"S"`
}

func model(body string, positions []int) (modelResp, error) {
	var m modelResp
	err := drv.Ask(map[string]interface{}{"body": b64(body), "positions": positions}, &m)
	if err == nil && (len(m.M) != len(positions) || len(m.S) != len(positions)) {
		err = fmt.Errorf("driver answered %d/%d locations for %d positions", len(m.M), len(m.S), len(positions))
	}
	return m, err
}

// modelCached memoises the driver's answers for the text of the current case (list items share field nodes).
var cacheBody string
var cache = map[int]modelResp{}

func modelCached(body string, pos int) (modelResp, error) {
	if body != cacheBody {
		cacheBody, cache = body, map[int]modelResp{}
	}
	if m, ok := cache[pos]; ok {
		return m, nil
	}
	m, err := model(body, []int{pos})
	if err == nil {
		cache[pos] = m
	}
	return m, err
}

func realLoc(body string, pos int, nilSrc bool) (l loc, panicked interface{}) {
	defer func() {
		if r := recover(); r != nil {
			panicked = fmt.Sprint(r)
		}
	}()
	var s *source.Source
	if !nilSrc {
		s = &source.Source{Body: []byte(body)}
	}
	sl := location.GetLocation(s, pos)
	return loc{sl.Line, sl.Column}, nil
}

func describe(c caseT) map[string]interface{} {
	body, _ := base64.StdEncoding.DecodeString(c.Body)
	return map[string]interface{}{"stream": c.Stream, "kind": c.Kind, "text": gen.Describe(string(body))}
}

func textOf(c caseT) string {
	b, err := base64.StdEncoding.DecodeString(c.Body)
	if err != nil {
		run.CheckError("bad base64 in case: " + err.Error())
	}
	return string(b)
}

// checkLocation is shared by all streams: a location the library attached to an error, together with the
// offset it was computed from, must be what the model computes for that offset, must be 1-based, must lie
// inside the text, and must be what the harness's independent forward scan says.
// It returns "" or the description of the violation (with details for the replay file).
func checkLocation(body string, lc *gen.LineCol, pos int, got loc) (string, map[string]interface{}) {
	m, err := modelCached(body, pos)
	if err != nil {
		run.CheckError(err.Error())
		return "", nil
	}
	det := map[string]interface{}{"position": pos, "go_location": got, "model_M": m.M[0], "model_S": m.S[0]}
	if m.M[0] != m.S[0] {
		return "MODEL: loop model and specification disagree (theorem getLocation_eq_spec contradicted)", det
	}
	if got != m.M[0] {
		return "location attached to the error is not GetLocation(body, position) of the model", det
	}
	if pos < 0 || pos > len(body) {
		return "error position outside the request text", det
	}
	// D-03a: after a multi-byte character the library's offsets are rune-based and may land anywhere (even on the
	// LF of a CR LF, column 0); the column oracles are not applied then, the line oracles are.
	na := gen.FirstNonASCII(body)
	asciiBefore := na < 0 || na >= pos
	if got[0] < 1 || (asciiBefore && got[1] < 1) {
		return "location is not 1-based", det
	}
	if got[0] > lc.Lines || (asciiBefore && got[1]-1 > lc.LineLen[got[0]]) {
		det["lines"] = lc.Lines
		det["line_length"] = lc.LineLen[got[0]]
		return "location lies outside the request text (line beyond the last line or column beyond the end of its line)", det
	}
	if want := (loc{lc.Line[pos], lc.Col[pos]}); got != want {
		det["harness_scan"] = want
		return "location differs from the harness's forward scan of the text", det
	}
	return "", nil
}

func violation(note string, c caseT, det map[string]interface{}) {
	c.Text = gen.Describe(textOf(c))
	modelFault := strings.HasPrefix(note, "MODEL:")
	run.Violation("stream "+c.Stream+": "+note, map[string]interface{}{"case": c, "observed": det}, modelFault)
}

// ---------------------------------------------------------------- stream a

func caseA(c caseT) {
	body := textOf(c)
	lc := gen.NewLineCol(body)
	mb := body
	if c.NilSrc {
		mb = ""
	}
	m, err := model(mb, c.Pos)
	if err != nil {
		run.CheckError(err.Error())
		return
	}
	for i, pos := range c.Pos {
		got, pan := realLoc(body, pos, c.NilSrc)
		det := map[string]interface{}{"position": pos, "go_location": got, "model_M": m.M[i], "model_S": m.S[i]}
		nontrivial := m.S[i][0] > 1
		run.Case(fmt.Sprintf("a|%q|%d|%v", body, pos, c.NilSrc), nontrivial, map[string]interface{}{"stream": "a", "text": body, "pos": pos, "location": got})
		one := c
		one.Pos = []int{pos}
		switch {
		case pan != nil:
			det["panic"] = pan
			violation("GetLocation panicked", one, det)
		case m.M[i] != m.S[i]:
			violation("MODEL: loop model and specification disagree (theorem getLocation_eq_spec contradicted)", one, det)
		case got != m.M[i]:
			violation("location.GetLocation differs from the model", one, det)
		case !c.NilSrc && pos <= len(body) && got != (loc{lc.Line[pos], lc.Col[pos]}):
			det["harness_scan"] = loc{lc.Line[pos], lc.Col[pos]}
			violation("location.GetLocation differs from the harness's forward scan", one, det)
		}
		if run.TooManyViolations() {
			return
		}
	}
}

func streamA() {
	maxLen := run.N(6, 9)
	alphabet := []byte{'a', '\n', '\r'}
	pairs := 0
	var rec func(prefix []byte)
	rec = func(prefix []byte) {
		if run.TooManyViolations() {
			return
		}
		pos := make([]int, 0, len(prefix)+3)
		for p := 0; p <= len(prefix)+2; p++ {
			pos = append(pos, p)
		}
		caseA(caseT{Stream: "a", Body: b64(string(prefix)), Pos: pos})
		pairs += len(pos)
		run.Tag("a:len=" + strconv.Itoa(len(prefix)))
		if len(prefix) < maxLen {
			for _, ch := range alphabet {
				rec(append(append([]byte{}, prefix...), ch))
			}
		}
	}
	rec(nil)
	caseA(caseT{Stream: "a", Body: b64("a\nb"), Pos: []int{0, 1, 2, 3, 7}, NilSrc: true})
	pairs += 5
	// sampled: texts with code points that other standards (and regexp classes) treat as line ends — U+2028, U+2029,
	// NEL, VT, FF — and with partial UTF-8 sequences; only LF, CR and CRLF end a line of a GraphQL document
	pieces := []string{"a", "\n", "\r", "\r\n", "\u2028", "\u2029", "\u0085", "\v", "\f", "é", "\xe2\x80", "\xa8", "#", " "}
	for i, n := 0, run.N(400, 20000); i < n && !run.TooManyViolations(); i++ {
		r := hx.Fork(run.Seed, 7000000+i)
		var sb strings.Builder
		for k, m := 0, r.Range(1, 8); k < m; k++ {
			sb.WriteString(pieces[r.Intn(len(pieces))])
		}
		body := sb.String()
		pos := make([]int, 0, len(body)+3)
		for p := 0; p <= len(body)+2; p++ {
			pos = append(pos, p)
		}
		caseA(caseT{Stream: "a", Body: b64(body), Pos: pos})
		pairs += len(pos)
		run.Tag("a:unicode-line-separator-sample")
	}
	run.Res.Extra["a_exhaustive_alphabet"] = "a, LF, CR"
	run.Res.Extra["a_exhaustive_max_len"] = maxLen
	run.Res.Extra["a_exhaustive_pairs"] = pairs
}

// ---------------------------------------------------------------- stream b

var illegal = []string{"?", "%", "^", "~", ";", "<", ">", "*", "/", "\\", "'", "`", "\x00", "\x01", "\x1f", "\x7f"}
var insertPool = []gen.Tok{p("{"), p("}"), p("("), p(")"), p("["), p("]"), p(":"), p("!"), p("$"), p("@"), p("="), p("|"), p("&"), p("..."),
	nm("a"), nm("on"), nm("query"), nm("fragment"), nm("type"), nm("true"), nm("null"), num("1"), num("-2.5e3"), tk(`"s"`, gen.TString), tk(`"""b"""`, gen.TString)}

func parseErr(body string) (e *gqlerrors.Error, ok bool, other error, panicked interface{}) {
	defer func() {
		if r := recover(); r != nil {
			panicked = fmt.Sprint(r)
		}
	}()
	_, err := parser.Parse(parser.ParseParams{Source: body})
	if err == nil {
		return nil, true, nil, nil
	}
	if ge, isG := err.(*gqlerrors.Error); isG {
		return ge, false, nil, nil
	}
	return nil, false, err, nil
}

// caseB checks one mutated text. Exactly this is checked for every syntax error the parser reports:
//  1. the error carries one position and one location, and checkLocation holds for them (always, also for
//     non-ASCII texts);
//     and, unless a byte >= 0x80 occurs before the reported position or before the bound (D-03a: rune-based offsets),
//  2. LB <= position: the text before LB is, by construction of the mutation, a prefix of the text of a document the
//     parser accepts (same tokens, other layout), so the first offending token cannot start before LB;
//  3. position <= UB where the harness knows the offending lexeme exactly (UB >= 0): an illegal character inserted at
//     a token boundary or inside a name / number / `...` (the text up to it is a valid prefix, no continuation with
//     that character exists), truncation (everything kept is a valid prefix, so only the end can be reported), and
//     `|` / `&` inserted between the tokens of an executable-only document (never viable there);
//  4. self-consistency, when the reported position does not directly adjoin the previous lexeme: parsing the text
//     truncated at the reported position does not report an error before it.
//
// Not checked: the upper bound for deletion / insertion / swap / byte-flip mutants (that needs a viable-prefix
// recogniser for the whole grammar, which is C03's model).
func caseB(c caseT) {
	body := textOf(c)
	e, ok, other, pan := parseErr(body)
	det := map[string]interface{}{}
	switch {
	case pan != nil:
		det["panic"] = pan
		run.Case("b|"+body, false, nil)
		violation("parser.Parse panicked", c, det)
		return
	case other != nil:
		det["error"] = other.Error()
		run.Case("b|"+body, false, nil)
		violation("parser.Parse returned an error that is not a *gqlerrors.Error", c, det)
		return
	case ok:
		run.Case("b|"+body, false, nil)
		run.Tag("b:" + c.Kind + ":still-valid")
		if na := gen.FirstNonASCII(body); (c.Kind == "illegal-char" || c.Kind == "insert-never-viable" || c.Kind == "insert-never-viable+malformed-next" || c.Kind == "rejected-token-then-malformed-lexeme") && (na < 0 || na >= c.UB) {
			// the harness claimed that no valid document starts with this text, yet the parser accepts it
			violation("the parser accepts a text into which a never-valid character or token was inserted outside strings and comments", c, det)
		}
		return
	}
	run.Tag("b:" + c.Kind + ":syntax-error")
	if len(e.Positions) != 1 || len(e.Locations) != 1 {
		det["positions"], det["locations"] = e.Positions, e.Locations
		run.Case("b|"+body, false, nil)
		violation("syntax error without exactly one position and one location", c, det)
		return
	}
	pos := e.Positions[0]
	got := loc{e.Locations[0].Line, e.Locations[0].Column}
	lc := gen.NewLineCol(body)
	run.Case("b|"+body, got[0] > 1, map[string]interface{}{"stream": "b", "kind": c.Kind, "text": gen.Describe(body), "position": pos, "location": got})
	if got[0] > 1 {
		run.Tag("b:error-after-line-1")
	}
	if strings.Contains(body[:min(pos, len(body))], "\r\n") {
		run.Tag("b:crlf-before-error")
	}
	if note, d := checkLocation(body, lc, pos, got); note != "" {
		d["message"] = firstLine(e.Message)
		violation(note, c, d)
		return
	}
	det["position"], det["go_location"], det["message"] = pos, got, firstLine(e.Message)
	bound := c.LB
	if pos > bound {
		bound = pos
	}
	if na := gen.FirstNonASCII(body); na >= 0 && na < bound {
		run.Tag("b:non-ascii-before-error(position oracle skipped)")
		return
	}
	if pos < c.LB {
		violation(fmt.Sprintf("syntax error reported at offset %d, before offset %d up to which the text is a prefix of a valid document", pos, c.LB), c, det)
		return
	}
	if c.UB >= 0 {
		run.Tag("b:exact-oracle")
		if pos > c.UB {
			violation(fmt.Sprintf("syntax error reported at offset %d, after the offending lexeme (which ends the valid prefix at offset %d)", pos, c.UB), c, det)
			return
		}
	}
	if pos > 0 && !strings.ContainsRune(" \t\n\r,!$&():=@[]{|}", rune(body[pos-1])) {
		// the reported position directly continues a name / number / string / dots: cutting there turns a prefix of a
		// longer lexeme into a complete token (`schema{subscrip\ion` vs `schema{subscrip`), the two parses are not comparable
		run.Tag("b:truncation-check-skipped(position adjoins the previous lexeme)")
		return
	}
	run.Tag("b:truncation-check")
	e2, ok2, other2, pan2 := parseErr(body[:pos])
	if pan2 != nil || other2 != nil {
		det["truncated"] = fmt.Sprint(pan2, other2)
		violation("parsing the text truncated at the reported position panicked or returned a foreign error", c, det)
		return
	}
	if !ok2 && len(e2.Positions) == 1 && e2.Positions[0] < pos {
		det["truncated_position"] = e2.Positions[0]
		det["truncated_message"] = firstLine(e2.Message)
		violation("the text truncated right before the reported position already has an error before that position", c, det)
	}
}

func firstLine(s string) string {
	if i := strings.IndexByte(s, '\n'); i >= 0 {
		return s[:i]
	}
	return s
}

// lexCross compares the harness tokenizer with the real lexer on a document the parser accepted.
func lexCross(src string, toks []gen.Tok, starts []int) string {
	lx := lexer.Lex(&source.Source{Body: []byte(src)})
	for i := 0; ; i++ {
		t, err := lx(0)
		if err != nil {
			return "real lexer fails: " + firstLine(err.Error())
		}
		if t.Kind == lexer.EOF {
			if i != len(toks) {
				return fmt.Sprintf("real lexer yields %d tokens, harness %d", i, len(toks))
			}
			return ""
		}
		if i >= len(toks) {
			return "real lexer yields more tokens"
		}
		if t.Start != starts[i] || t.End != starts[i]+len(toks[i].Text) {
			return fmt.Sprintf("token %d: real [%d,%d) harness [%d,%d)", i, t.Start, t.End, starts[i], starts[i]+len(toks[i].Text))
		}
	}
}

// inTopLevelParens: the insertion point before token k lies inside parentheses that are not nested in braces,
// i.e. in the variable definitions (or directive arguments) of an operation header.
func inTopLevelParens(toks []gen.Tok, k int) bool {
	braces, parens := 0, 0
	for _, t := range toks[:k] {
		switch t.Text {
		case "{":
			braces++
		case "}":
			braces--
		case "(":
			if braces == 0 {
				parens++
			}
		case ")":
			if braces == 0 {
				parens--
			}
		}
	}
	return braces == 0 && parens > 0
}

// malformedLexeme: a lexeme the lexer rejects, as a pseudo token (kind name, so that it is kept apart from names and numbers).
func malformedLexeme(r *hx.Rng) gen.Tok {
	if r.Chance(1, 2) {
		return tk(illegal[r.Intn(len(illegal))], gen.TName)
	}
	return tk(r.Pick([]string{"\"abc\n", "\"a\\qb\"", "1. ", "01", "1e ", "..", "-x", ".5", "\"\\u12G4\""}), gen.TName)
}

// rejectedThenMalformed: the parser must reject token K — every template's tokens before K are a prefix of a valid document and
// K is not viable after them (a reserved or unknown word where a particular name is required, a token of the wrong kind, the closing
// token of an empty list, a keyword that cannot follow a description) — and the lexeme FOLLOWING K is lexically malformed. A parser that
// consumes K (and thereby lexes the next lexeme) before judging it reports the later lexical error instead (seeded C18-7, D-18b, D-18c).
var rejectedTemplates = [][2][]gen.Tok{
	{{p("{"), nm("a"), p("}"), nm("fragment"), nm("on")}, {nm("Query"), p("{"), nm("a"), p("}")}},
	{{nm("fragment"), nm("on")}, {nm("on"), nm("T"), p("{"), nm("a"), p("}")}},
	{{nm("schema"), p("{"), nm("subscrip")}, {p(":"), nm("Q"), p("}")}},
	{{tk(`"d"`, gen.TString), nm("query")}, {p("{"), nm("a"), p("}")}},
	{{tk(`"d"`, gen.TString), nm("fragment")}, {nm("F"), nm("on"), nm("T"), p("{"), nm("a"), p("}")}},
	{{tk(`"""d"""`, gen.TString), nm("extend")}, {nm("type"), nm("T"), p("{"), nm("a"), p(":"), nm("Int"), p("}")}},
	{{tk(`"d"`, gen.TString), nm("schema")}, {p("{"), nm("query"), p(":"), nm("Q"), p("}")}},
	{{nm("extend"), nm("foo")}, {nm("T"), p("{"), nm("a"), p(":"), nm("Int"), p("}")}},
	{{nm("directive"), p("@"), nm("d"), nm("foo")}, {nm("FIELD")}},
	{{nm("fragment"), nm("F"), nm("foo")}, {nm("T"), p("{"), nm("a"), p("}")}},
	{{nm("foo")}, {p("{"), nm("a"), p("}")}},
	{{p("{"), nm("a"), p("}"), nm("foo")}, {}},
	{{p("{"), p("}")}, {}},
	{{p("{"), nm("a"), p("("), p(")")}, {p("}")}},
	{{nm("query"), p("("), p(")")}, {p("{"), nm("a"), p("}")}},
	{{nm("schema"), p("{"), p("}")}, {}},
	{{nm("query"), nm("Q"), nm("foo")}, {p("{"), nm("a"), p("}")}},
	{{p("{"), nm("a"), p(":"), p(":")}, {nm("b"), p("}")}},
	{{nm("type"), nm("T"), p("{"), nm("a"), p("{")}, {p("}")}},
	{{p("{"), p("..."), nm("on"), p("{")}, {nm("a"), p("}"), p("}")}},
	{{nm("union"), nm("U"), p("="), p("{")}, {}},
	{{p("{"), nm("a"), p("@"), p("(")}, {p("}")}},
	{{nm("query"), p("("), p("$"), p(":")}, {nm("Int"), p(")"), p("{"), nm("a"), p("}")}},
	{{p("{"), nm("a"), p("("), nm("x"), p(":"), p(")")}, {p("}")}},
	{{p("{"), nm("a"), p("("), nm("x"), p(":"), p("["), num("1"), p(")")}, {p("}")}},
	{{nm("input"), nm("I"), p("{"), nm("a"), p(":"), nm("Int"), p("="), p("$")}, {nm("v"), p("}")}},
	{{nm("mutation"), p("{"), nm("a"), p("}"), nm("subscription"), p("}")}, {}},
	{{nm("enum"), nm("E"), p("{"), nm("A"), p("}"), nm("scalar"), num("1")}, {}},
}

func genRejectedThenMalformed(r *hx.Rng) (caseT, bool) {
	t := rejectedTemplates[r.Intn(len(rejectedTemplates))]
	toks := append([]gen.Tok{}, t[0]...)
	k := len(toks) - 1
	toks = append(toks, malformedLexeme(r))
	toks = append(toks, t[1]...)
	text, st := gen.Layout(r, toks, gen.LayoutOpts{Dense: r.Chance(1, 3)})
	return caseT{Stream: "b", Kind: "rejected-token-then-malformed-lexeme", Body: b64(text), LB: st[k], UB: st[k]}, true
}

func genB(r *hx.Rng) (caseT, bool) {
	if r.Chance(1, 8) {
		return genRejectedThenMalformed(r)
	}
	g := &gen.DocGen{R: r, Size: r.Range(1, 4), Exec: r.Chance(3, 4), TypeSystem: r.Chance(1, 2), Exotic: true}
	src := g.Document()
	if _, ok, _, _ := parseErr(src); !ok {
		run.Tag("b:generated-document-rejected")
		return caseT{}, false
	}
	toks, starts, ok := gen.Tokenize(src)
	if !ok {
		run.CheckError("harness tokenizer rejects a document the parser accepts: " + strconv.Quote(src))
		return caseT{}, false
	}
	if d := lexCross(src, toks, starts); d != "" {
		run.CheckError("harness tokenizer and real lexer disagree on an accepted document (" + d + "): " + strconv.Quote(src))
		return caseT{}, false
	}
	o := gen.LayoutOpts{NonASCII: r.Chance(1, 10), Dense: r.Chance(1, 4)}
	c := caseT{Stream: "b", UB: -1}
	kinds := []string{"illegal-char", "illegal-char", "delete", "delete", "insert", "swap", "flip", "flip", "truncate"}
	if !g.TypeSystem {
		// `|` and `&` occur only in union / implements / directive-location lists: after a prefix of an executable-only
		// document they are never viable, so the error must be reported exactly at the inserted token
		kinds = append(kinds, "insert-never-viable", "insert-never-viable")
	}
	c.Kind = kinds[r.Intn(len(kinds))]
	var text string
	malformedNext := false
	switch c.Kind {
	case "delete", "insert", "swap", "insert-never-viable":
		k := r.Intn(len(toks))
		var nt []gen.Tok
		switch c.Kind {
		case "insert-never-viable":
			k = r.Intn(len(toks) + 1)
			nt = append(append(nt, toks[:k]...), p(r.Pick([]string{"|", "&"})))
			if r.Chance(1, 2) {
				// ... followed by a malformed lexeme: the rejected token, not the lexical error behind it, must be reported
				nt = append(nt, malformedLexeme(r))
				malformedNext = true
			}
			nt = append(nt, toks[k:]...)
		case "delete":
			nt = append(append(nt, toks[:k]...), toks[k+1:]...)
		case "insert":
			nt = append(append(append(nt, toks[:k]...), insertPool[r.Intn(len(insertPool))]), toks[k:]...)
		default:
			if len(toks) < 2 {
				return caseT{}, false
			}
			k = r.Intn(len(toks) - 1)
			if toks[k].Text == toks[k+1].Text {
				return caseT{}, false
			}
			nt = append(nt, toks...)
			nt[k], nt[k+1] = nt[k+1], nt[k]
		}
		var st []int
		text, st = gen.Layout(r, nt, o)
		if k < len(nt) {
			c.LB = st[k]
		} else {
			c.LB, c.UB = len(text), len(text)
		}
		if c.Kind == "insert-never-viable" {
			if malformedNext {
				c.Kind = "insert-never-viable+malformed-next"
			}
			c.UB = c.LB
			if inTopLevelParens(toks, k) {
				// D-03b (known finding of C03): parseType consumes whatever token follows the element type of a list
				// type without checking it, so inside variable definitions the error surfaces later or never
				c.Kind += "(variable-definitions: upper bound skipped, D-03b)"
				c.UB = -1
			}
		}
	case "illegal-char":
		var st []int
		text, st = gen.Layout(r, toks, o)
		k := r.Intn(len(toks))
		t := toks[k]
		q := st[k]
		c.LB = q
		switch w := r.Intn(3); {
		case w == 1:
			q = st[k] + len(t.Text)
			c.LB = q
		case w == 2 && len(t.Text) >= 2 && (t.Kind == gen.TName || t.Kind == gen.TNumber || t.Text == "..."):
			q = st[k] + 1 + r.Intn(len(t.Text)-1)
			c.LB = st[k]
		}
		c.UB = q
		text = text[:q] + illegal[r.Intn(len(illegal))] + text[q:]
	case "flip":
		var st []int
		text, st = gen.Layout(r, toks, o)
		q := r.Intn(len(text))
		nb := []byte{' ', '\n', '\r', '"', '#', '{', '}', '(', ')', '.', ':', '$', 'x', '0', '-', '?', '\\', ',', 0x01, 0xc3, '!', '@'}[r.Intn(22)]
		if text[q] == nb {
			return caseT{}, false
		}
		c.LB = q
		for i := len(st) - 1; i >= 0; i-- {
			if st[i] <= q {
				c.LB = st[i]
				if st[i] == q && i > 0 && st[i-1]+len(toks[i-1].Text) == q {
					// the flipped byte is the first byte of a token that directly follows another one: it may now
					// continue that one (`mutation{` -> `mutation0`)
					c.LB = st[i-1]
				}
				break
			}
		}
		text = text[:q] + string([]byte{nb}) + text[q+1:]
	case "truncate":
		var st []int
		text, st = gen.Layout(r, toks, o)
		cut := r.Intn(len(text) + 1)
		c.LB, c.UB = cut, cut
		for i, s := range st {
			if s < cut && cut < s+len(toks[i].Text) {
				c.LB = s
			}
		}
		text = text[:cut]
	}
	c.Body = b64(text)
	return c, true
}

// ---------------------------------------------------------------- stream c

func offsetsOf(toks []gen.Tok, starts []int, marks []string) ([]int, bool) {
	var out []int
	for _, m := range marks {
		found := -1
		for i, t := range toks {
			if t.Mark == m {
				found = starts[i]
				break
			}
		}
		if found < 0 {
			return nil, false
		}
		out = append(out, found)
	}
	return out, true
}

// faultyDoc: the tokens of a schema-valid document with one inserted fault, the marks of the nodes the error must name, the fault kind.
func faultyDoc(r *hx.Rng) ([]gen.Tok, []string, string) {
	g, root := newDoc(hx.NewRng(r.U64()), false)
	fr := hx.NewRng(r.U64())
	set := g.sets[fr.Intn(len(g.sets))]
	it, marks, kind := g.fault(faultKinds[fr.Intn(len(faultKinds))], set.sc, fr)
	at := fr.Intn(len(set.items) + 1)
	set.items = append(set.items[:at], append([]*item{it}, set.items[at:]...)...)
	return g.document(root), marks, kind
}

func genC(r *hx.Rng) (caseT, bool) {
	if r.Chance(1, 8) {
		toks, lists := cycleDoc(hx.NewRng(r.U64()))
		text, starts := gen.Layout(r, toks, gen.LayoutOpts{Dense: r.Chance(1, 4)})
		c := caseT{Stream: "c", Kind: "fragmentCycle", Body: b64(text)}
		for _, l := range lists {
			offs, ok := offsetsOf(toks, starts, l)
			if !ok {
				run.CheckError("generator lost a cycle mark")
				return caseT{}, false
			}
			c.ExpectAll = append(c.ExpectAll, offs)
		}
		return c, true
	}
	toks, marks, kind := faultyDoc(r)
	text, starts := gen.Layout(r, toks, gen.LayoutOpts{NonASCII: r.Chance(1, 12), Dense: r.Chance(1, 4)})
	exp, ok := offsetsOf(toks, starts, marks)
	if !ok {
		run.CheckError("generator lost a fault mark")
		return caseT{}, false
	}
	return caseT{Stream: "c", Kind: kind, Body: b64(text), Expect: exp}, true
}

// caseC: the document has exactly one fault, so exactly one validation error must come back, its locations must be
// the starts of the faulty nodes in the order the rule lists them; each location must satisfy checkLocation.
// With a byte >= 0x80 before the last expected node only checkLocation is applied (D-03a may shift name tokens and
// even change the token stream).
func caseC(c caseT) {
	body := textOf(c)
	lc := gen.NewLineCol(body)
	det := map[string]interface{}{}
	na := gen.FirstNonASCII(body)
	maxExp := 0
	for _, e := range c.Expect {
		if e > maxExp {
			maxExp = e
		}
	}
	ascii := na < 0                      // whole-document oracle (exactly one error) needs an ASCII text: D-03a may change the token stream after a multi-byte character
	nodeIntact := na < 0 || na >= maxExp // the faulty node itself lies before any multi-byte character
	doc, err := parser.Parse(parser.ParseParams{Source: body})
	if err != nil {
		run.Case("c|"+body, false, nil)
		if ascii {
			run.CheckError("stream c document does not parse: " + firstLine(err.Error()) + " " + strconv.Quote(body))
		} else {
			run.Tag("c:non-ascii:parse-error")
		}
		return
	}
	var vr graphql.ValidationResult
	func() {
		defer func() {
			if r := recover(); r != nil {
				det["panic"] = fmt.Sprint(r)
			}
		}()
		vr = graphql.ValidateDocument(&schema, doc, nil)
	}()
	if det["panic"] != nil {
		run.Case("c|"+body, false, nil)
		violation("ValidateDocument panicked", c, det)
		return
	}
	var gotAll [][]loc
	for _, fe := range vr.Errors {
		var ls []loc
		for _, l := range fe.Locations {
			ls = append(ls, loc{l.Line, l.Column})
		}
		gotAll = append(gotAll, ls)
		oe, _ := fe.OriginalError().(*gqlerrors.Error)
		if oe == nil || len(oe.Positions) != len(fe.Locations) {
			det["error"] = fe.Message
			run.Case("c|"+body, false, nil)
			violation("validation error without positions matching its locations", c, det)
			return
		}
		for i, pos := range oe.Positions {
			if note, d := checkLocation(body, lc, pos, ls[i]); note != "" {
				d["message"] = fe.Message
				run.Case("c|"+body, false, nil)
				violation(note, c, d)
				return
			}
		}
	}
	if c.ExpectAll != nil {
		// the complete set of errors is known: compare as multisets of ordered location lists
		var wantAll, gotCanon []string
		for _, l := range c.ExpectAll {
			ls := []loc{}
			for _, off := range l {
				ls = append(ls, loc{lc.Line[off], lc.Col[off]})
			}
			wantAll = append(wantAll, hx.Canon(ls))
		}
		for _, g := range gotAll {
			gotCanon = append(gotCanon, hx.Canon(g))
		}
		sort.Strings(wantAll)
		sort.Strings(gotCanon)
		run.Case("c|"+body, true, map[string]interface{}{"stream": "c", "kind": c.Kind, "text": gen.Describe(body), "expected": wantAll})
		run.Tag("c:" + c.Kind)
		run.Tag(fmt.Sprintf("c:%s:cycle-length=%d,other-errors=%d", c.Kind, len(c.ExpectAll[len(c.ExpectAll)-1]), len(c.ExpectAll)-1))
		if hx.Canon(gotCanon) != hx.Canon(wantAll) {
			det["errors"] = vr.Errors
			det["go_location_lists"] = gotCanon
			det["expected_location_lists"] = wantAll
			violation("the validation errors of a document with one fragment cycle are not located at exactly the spreads on the cycle in path order (plus one error per unknown fragment name)", c, det)
		}
		return
	}
	var want []loc
	for _, off := range c.Expect {
		want = append(want, loc{lc.Line[off], lc.Col[off]})
	}
	nontrivial := len(want) > 0 && want[0][0] > 1
	run.Case("c|"+body, nontrivial, map[string]interface{}{"stream": "c", "kind": c.Kind, "text": gen.Describe(body), "expected": want})
	run.Tag("c:" + c.Kind)
	det["errors"] = vr.Errors
	det["go_locations"] = gotAll
	det["expected_locations"] = want
	det["expected_offsets"] = c.Expect
	if !nodeIntact {
		run.Tag("c:non-ascii-before-node(node oracle skipped)")
		return
	}
	if !ascii {
		run.Tag("c:non-ascii-after-node(only the existence of the expected error is checked)")
		for _, g := range gotAll {
			if hx.Canon(g) == hx.Canon(want) {
				return
			}
		}
		violation("no validation error is located at the start of the offending node(s)", c, det)
		return
	}
	if len(gotAll) != 1 {
		violation(fmt.Sprintf("expected exactly one validation error for the single fault (%s), got %d", c.Kind, len(gotAll)), c, det)
		return
	}
	if hx.Canon(gotAll[0]) != hx.Canon(want) {
		violation("validation error is not located at the start of the offending node(s)", c, det)
	}
}

// ---------------------------------------------------------------- stream d

var lastDupIn, lastDupOut int // statistics of the document execDoc made last

func execDoc(r *hx.Rng) []gen.Tok {
	g, root := newDoc(hx.NewRng(r.U64()), true)
	lastDupIn, lastDupOut = g.dupIn, g.dupOut
	return g.document(root)
}

// fieldMarks: response key -> offsets of the field nodes that are let in, in collection order (mark "F:key" or "F:key#n").
func fieldMarks(toks []gen.Tok, starts []int) map[string][]int {
	type occ struct{ n, off int }
	byKey := map[string][]occ{}
	for i, t := range toks {
		if strings.HasPrefix(t.Mark, "F:") {
			key, n := t.Mark[2:], 0
			if j := strings.IndexByte(key, '#'); j >= 0 {
				n, _ = strconv.Atoi(key[j+1:])
				key = key[:j]
			}
			byKey[key] = append(byKey[key], occ{n, starts[i]})
		}
	}
	marks := map[string][]int{}
	for k, os := range byKey {
		sort.SliceStable(os, func(a, b int) bool { return os[a].n < os[b].n })
		for _, o := range os {
			marks[k] = append(marks[k], o.off)
		}
	}
	return marks
}

// execVars are passed with every executing request of streams d and e (the generator's @skip / @include use $on and $off).
var execVars = map[string]interface{}{"on": true, "off": false}

func genD(r *hx.Rng) (caseT, bool) {
	toks := execDoc(r)
	text, starts := gen.Layout(r, toks, gen.LayoutOpts{Dense: r.Chance(1, 4)})
	marks := fieldMarks(toks, starts)
	if lastDupOut > 0 {
		run.Tag("d:document-with-an-occurrence-of-a-merged-field-kept-out-by-@skip/@include")
	}
	if lastDupIn > 0 {
		run.Tag("d:document-with-a-further-included-occurrence-of-a-field")
	}
	return caseT{Stream: "d", Body: b64(text), FailSeed: r.U64() | 1, Marks: marks}, true
}

func pathString(p []interface{}) (string, string, bool) {
	s, lastKey := "", ""
	for _, k := range p {
		switch v := k.(type) {
		case string:
			s += "/" + v
			lastKey = v
		case int:
			s += "/" + strconv.Itoa(v)
		default:
			return "", "", false
		}
	}
	return s, lastKey, true
}

// nullAtPathOrPrefix walks the data along the path; ok when a null is met on the way or at the end.
func nullAtPathOrPrefix(data interface{}, p []interface{}) (bool, string) {
	cur := data
	for i, k := range p {
		if cur == nil {
			return true, ""
		}
		switch v := k.(type) {
		case string:
			m, ok := cur.(map[string]interface{})
			if !ok {
				return false, fmt.Sprintf("path element %d is a key but the data there is %T", i, cur)
			}
			nx, present := m[v]
			if !present {
				return false, fmt.Sprintf("path element %d: key %q is absent from the data", i, v)
			}
			cur = nx
		case int:
			l, ok := cur.([]interface{})
			if !ok {
				return false, fmt.Sprintf("path element %d is an index but the data there is %T", i, cur)
			}
			if v < 0 || v >= len(l) {
				return false, fmt.Sprintf("path element %d: index %d outside the list of length %d", i, v, len(l))
			}
			cur = l[v]
		}
	}
	if cur == nil {
		return true, ""
	}
	return false, "the data at the error path is not null and no prefix is null"
}

func caseD(c caseT) {
	body := textOf(c)
	lc := gen.NewLineCol(body)
	theWorld = &world{seed: c.FailSeed, modes: map[string]int{}}
	det := map[string]interface{}{}
	var res *graphql.Result
	func() {
		defer func() {
			if r := recover(); r != nil {
				det["panic"] = fmt.Sprint(r)
			}
		}()
		res = graphql.Do(graphql.Params{Schema: schema, RequestString: body, VariableValues: execVars})
	}()
	w := theWorld
	if det["panic"] != nil {
		run.Case("d|"+body, false, nil)
		violation("graphql.Do panicked", c, det)
		return
	}
	// resolver-supplied *gqlerrors.Error pointers are relayed as given (outside the property): weaker oracle inside splitForeignPointer
	resErrors, failed, relayed, fnote := splitForeignPointer(res, w)
	if fnote != "" {
		run.Case("d|"+body, false, nil)
		det["errors"] = res.Errors
		violation(fnote, c, det)
		return
	}
	if relayed > 0 {
		run.Res.Histogram["d:relayed-resolver-supplied-located-error(weaker oracle)"] += relayed
	}
	var gotPaths []string
	pathless := 0
	for _, e := range resErrors {
		if e.Path == nil {
			pathless++
			continue
		}
		s, _, _ := pathString(e.Path)
		gotPaths = append(gotPaths, s)
	}
	if pathless > 0 && w.calls > 0 {
		run.Case("d|"+body, false, nil)
		det["errors"] = res.Errors
		det["failed_positions"] = w.failed
		violation("an error raised during execution carries no path", c, det)
		return
	}
	if pathless > 0 {
		// parse / validation / planning errors: the generator promised a valid document
		run.Case("d|"+body, false, nil)
		run.CheckError("stream d document was rejected before execution: " + res.Errors[0].Message + " " + strconv.Quote(body))
		return
	}
	want := append([]string{}, failed...)
	sort.Strings(want)
	sortedGot := append([]string{}, gotPaths...)
	sort.Strings(sortedGot)
	deep, inList, merged := false, false, false
	for _, e := range resErrors {
		if len(e.Path) >= 3 {
			deep = true
		}
		for _, k := range e.Path {
			if _, isInt := k.(int); isInt {
				inList = true
			}
		}
		if len(e.Locations) > 1 {
			merged = true
		}
	}
	run.Case(fmt.Sprintf("d|%s|%d", body, c.FailSeed), len(res.Errors) > 0, map[string]interface{}{"stream": "d", "text": gen.Describe(body), "error_paths": gotPaths})
	switch {
	case len(res.Errors) == 0:
		run.Tag("d:no-failure")
	default:
		run.Tag("d:errors")
	}
	if deep {
		run.Tag("d:path-depth>=3")
	}
	if inList {
		run.Tag("d:path-through-list")
	}
	if merged {
		run.Tag("d:merged-field-nodes")
	}
	for m, n := range w.modes {
		run.Res.Histogram["d:mode:"+m] += n
	}
	det["failed_positions"] = w.failed
	det["error_paths"] = gotPaths
	det["data"] = res.Data
	if hx.Canon(sortedGot) != hx.Canon(want) {
		violation("the paths of the field errors are not exactly the response positions at which resolvers failed", c, det)
		return
	}
	for _, e := range resErrors {
		ps, lastKey, ok := pathString(e.Path)
		det["error"] = map[string]interface{}{"message": e.Message, "path": e.Path, "locations": e.Locations}
		if !ok {
			violation("error path contains an element that is neither string nor int", c, det)
			return
		}
		if ok, why := nullAtPathOrPrefix(res.Data, e.Path); !ok {
			det["why"] = why
			violation("field error at "+ps+": "+why, c, det)
			return
		}
		var wantLocs []loc
		for _, off := range c.Marks[lastKey] {
			wantLocs = append(wantLocs, loc{lc.Line[off], lc.Col[off]})
		}
		var gotLocs []loc
		for _, l := range e.Locations {
			gotLocs = append(gotLocs, loc{l.Line, l.Column})
		}
		det["expected_locations"] = wantLocs
		if hx.Canon(gotLocs) != hx.Canon(wantLocs) {
			violation("field error at "+ps+" is not located at the start of its field node(s)", c, det)
			return
		}
		if oe, _ := e.OriginalError().(*gqlerrors.Error); oe != nil && len(oe.Positions) == len(gotLocs) {
			for i, pos := range oe.Positions {
				if note, d := checkLocation(body, lc, pos, gotLocs[i]); note != "" {
					violation(note, c, d)
					return
				}
			}
		}
	}
}

// ---------------------------------------------------------------- stream e (requests served through one PlanCache)

// genE builds a sequence of requests for one shared PlanCache: one or two documents (each either with one validation
// fault or executing with failing resolvers), each in several layout variants — a fresh random layout of the same
// tokens, an earlier variant padded with leading / trailing white space, line terminators, commas or comments, or an
// exact repetition — interleaved. The expectations of every step are the offsets of the marked tokens in THAT step's text.
func genE(r *hx.Rng) (caseT, bool) {
	c := caseT{Stream: "e", Normalize: r.Chance(1, 2), MaxEntries: []int{0, 2, 1}[r.Intn(3)]}
	nd := r.Range(1, 2)
	var perDoc [][]stepT
	for d := 0; d < nd; d++ {
		typ := "d"
		if r.Chance(1, 2) {
			typ = "c"
		}
		var toks []gen.Tok
		var marks []string
		var kind string
		var fs uint64
		if typ == "c" {
			toks, marks, kind = faultyDoc(r)
		} else {
			toks = execDoc(r)
			fs = r.U64() | 1
		}
		type laid struct {
			text   string
			starts []int
		}
		var vs []laid
		var steps []stepT
		n := r.Range(2, 4)
		for v := 0; v < n; v++ {
			var l laid
			variant := "layout"
			switch k := r.Intn(4); {
			case v == 0 || k == 0:
				l.text, l.starts = gen.Layout(r, toks, gen.LayoutOpts{Dense: r.Chance(1, 3)})
			case k == 1:
				variant = "repeat"
				l = vs[r.Intn(len(vs))]
			default:
				variant = "pad"
				base := vs[r.Intn(len(vs))]
				pre, post := "", ""
				if r.Chance(3, 4) {
					pre = r.Pick([]string{" ", "\n", "\n\n    ", "\r\n", "\r", "\t", "\n  \r\n ", ",", "# c\n", "\r\n# x\r\n  "})
				}
				if r.Chance(1, 2) || pre == "" {
					post = r.Pick([]string{" ", "\n", "\r\n", "  \n\n", "\t", " # end", ","})
				}
				l.text = pre + base.text + post
				l.starts = make([]int, len(base.starts))
				for i, st := range base.starts {
					l.starts[i] = st + len(pre)
				}
			}
			vs = append(vs, l)
			st := stepT{Doc: d, Type: typ, Variant: variant, Body: b64(l.text), Kind: kind, FailSeed: fs}
			if typ == "c" {
				exp, ok := offsetsOf(toks, l.starts, marks)
				if !ok {
					run.CheckError("generator lost a fault mark")
					return caseT{}, false
				}
				st.Expect = exp
			} else {
				st.Marks = fieldMarks(toks, l.starts)
			}
			steps = append(steps, st)
		}
		perDoc = append(perDoc, steps)
	}
	// interleave, keeping each document's own order
	for len(perDoc) > 0 {
		i := r.Intn(len(perDoc))
		c.Steps = append(c.Steps, perDoc[i][0])
		perDoc[i] = perDoc[i][1:]
		if len(perDoc[i]) == 0 {
			perDoc = append(perDoc[:i], perDoc[i+1:]...)
		}
	}
	return c, true
}

func locsOf(e gqlerrors.FormattedError) []loc {
	ls := []loc{}
	for _, l := range e.Locations {
		ls = append(ls, loc{l.Line, l.Column})
	}
	return ls
}

// verdictValidation judges the errors PlanCache.Get returned for a document with one validation fault against the layout `body`.
func verdictValidation(body string, expect []int, errs []gqlerrors.FormattedError) (string, map[string]interface{}) {
	lc := gen.NewLineCol(body)
	want := []loc{}
	for _, off := range expect {
		want = append(want, loc{lc.Line[off], lc.Col[off]})
	}
	det := map[string]interface{}{"errors": errs, "expected_locations": want, "expected_offsets": expect}
	if len(errs) != 1 {
		return fmt.Sprintf("expected exactly one validation error for the single fault, got %d", len(errs)), det
	}
	if hx.Canon(locsOf(errs[0])) != hx.Canon(want) {
		return "validation error is not located at the start of the offending node(s) in this request's text", det
	}
	if oe, _ := errs[0].OriginalError().(*gqlerrors.Error); oe != nil && len(oe.Positions) == len(want) {
		for i, pos := range oe.Positions {
			if note, d := checkLocation(body, lc, pos, want[i]); note != "" {
				return note, d
			}
		}
	}
	return "", nil
}

// splitForeignPointer applies the weaker oracle for errors the library only relays (decision of the lead: a resolver that returns
// or panics with a *gqlerrors.Error POINTER hands over an already located error; its locations and path are user data, outside
// C18; the same pass-through carries the executor's own errors upwards). The same holds for the shared sentinel errors (no path and
// no locations / path only / locations only): HEAD relays them unchanged on EVERY occurrence — required exactly, per occurrence —
// and must leave the sentinel objects untouched (checked first). For every address whose resolver returned / panicked with a hand-built *gqlerrors.Error POINTER, if the response carries
// that very error with exactly its foreign locations (1:21 of another document) and foreign path [x 7 y], both the error and
// the address are taken out (and the data at the address must still be null). Everything else stays for the ordinary oracles.
func splitForeignPointer(res *graphql.Result, w *world) (errs []gqlerrors.FormattedError, failed []string, known int, note string) {
	errs = append(errs, res.Errors...)
	failed = append(failed, w.failed...)
	if st := sentinelState(); st != sentinelSnapshot {
		return errs, failed, 0, "a shared sentinel error object of the resolvers was modified by the library: now " + st + " was " + sentinelSnapshot
	}
	for _, rl := range w.relay {
		for i, e := range errs {
			if e.Message != rl.msg || hx.Canon(e.Path) != hx.Canon(rl.path) || hx.Canon(locsOf(e)) != hx.Canon(rl.locs) {
				continue
			}
			var ap []interface{}
			for _, k := range strings.Split(rl.addr, "/")[1:] {
				if n, err := strconv.Atoi(k); err == nil {
					ap = append(ap, n)
				} else {
					ap = append(ap, k)
				}
			}
			if ok, why := nullAtPathOrPrefix(res.Data, ap); !ok {
				return errs, failed, known, "field at " + rl.addr + " failed with a relayed error but " + why
			}
			errs = append(errs[:i:i], errs[i+1:]...)
			for j, f := range failed {
				if f == rl.addr {
					failed = append(failed[:j:j], failed[j+1:]...)
					break
				}
			}
			known++
			break
		}
	}
	return errs, failed, known, ""
}

// verdictExecution judges the result of ExecutePlan against the layout `body`: paths = failed positions, null at
// path or prefix, locations = starts of the field nodes with the response key in this request's text.
func verdictExecution(body string, marks map[string][]int, res *graphql.Result, w *world) (string, map[string]interface{}) {
	lc := gen.NewLineCol(body)
	det := map[string]interface{}{"failed_positions": w.failed, "data": res.Data}
	got := []string{}
	resErrors, failed, _, fnote := splitForeignPointer(res, w)
	if fnote != "" {
		return fnote, det
	}
	for _, e := range resErrors {
		if e.Path == nil {
			det["errors"] = res.Errors
			return "an error of an executed request carries no path", det
		}
		s, _, _ := pathString(e.Path)
		got = append(got, s)
	}
	det["error_paths"] = got
	want := append([]string{}, failed...)
	sort.Strings(want)
	sort.Strings(got)
	if hx.Canon(got) != hx.Canon(want) {
		return "the paths of the field errors are not exactly the response positions at which resolvers failed", det
	}
	for _, e := range resErrors {
		ps, lastKey, _ := pathString(e.Path)
		det["error"] = map[string]interface{}{"message": e.Message, "path": e.Path, "locations": e.Locations}
		if ok, why := nullAtPathOrPrefix(res.Data, e.Path); !ok {
			return "field error at " + ps + ": " + why, det
		}
		wantLocs := []loc{}
		for _, off := range marks[lastKey] {
			wantLocs = append(wantLocs, loc{lc.Line[off], lc.Col[off]})
		}
		det["expected_locations"] = wantLocs
		if hx.Canon(locsOf(e)) != hx.Canon(wantLocs) {
			return "field error at " + ps + " is not located at the start of its field node(s) in this request's text", det
		}
		if oe, _ := e.OriginalError().(*gqlerrors.Error); oe != nil && len(oe.Positions) == len(wantLocs) {
			for i, pos := range oe.Positions {
				if note, d := checkLocation(body, lc, pos, wantLocs[i]); note != "" {
					return note, d
				}
			}
		}
	}
	return "", nil
}

// caseE serves the steps in order through one PlanCache (Get, then ExecutePlan with the SynthArgs merged) and judges every
// answer against the text of the request that produced it.
func caseE(c caseT) {
	pc := graphql.NewPlanCache(graphql.PlanCacheOptions{Normalize: c.Normalize, MaxEntries: c.MaxEntries})
	mode := fmt.Sprintf("e:normalize=%v,max=%d", c.Normalize, c.MaxEntries)
	key := "e|" + mode
	for _, st := range c.Steps {
		key += "|" + st.Body
	}
	nontrivial := false
	for i, st := range c.Steps {
		for _, prev := range c.Steps[:i] {
			if prev.Doc == st.Doc && prev.Body != st.Body {
				nontrivial = true // a second layout of a document already served through this cache
			}
		}
	}
	run.Case(key, nontrivial, map[string]interface{}{"stream": "e", "normalize": c.Normalize, "max_entries": c.MaxEntries, "steps": len(c.Steps)})
	run.Tag(mode)
	populator := map[int]*stepT{}
	for i, st := range c.Steps {
		b, _ := base64.StdEncoding.DecodeString(st.Body)
		body := string(b)
		run.Tag("e:step:" + st.Type + ":" + st.Variant)
		var pr graphql.PlanResult
		var res *graphql.Result
		theWorld = &world{seed: st.FailSeed, modes: map[string]int{}}
		var pan interface{}
		var missesBefore, missesAfter uint64
		func() {
			defer func() {
				if r := recover(); r != nil {
					pan = fmt.Sprint(r)
				}
			}()
			_, missesBefore = pc.HitsMisses()
			pr = pc.Get(&schema, body, "")
			_, missesAfter = pc.HitsMisses()
			if len(pr.Errors) == 0 && pr.Plan != nil {
				args := map[string]interface{}{}
				for k, v := range execVars {
					args[k] = v
				}
				for k, v := range pr.SynthArgs {
					args[k] = v
				}
				res = graphql.ExecutePlan(pr.Plan, graphql.ExecuteParams{Schema: schema, Args: args})
			}
		}()
		w := theWorld
		judge := func(layout stepT) (string, map[string]interface{}) {
			lb, _ := base64.StdEncoding.DecodeString(layout.Body)
			if st.Type == "c" {
				return verdictValidation(string(lb), layout.Expect, pr.Errors)
			}
			return verdictExecution(string(lb), layout.Marks, res, w)
		}
		report := func(note string, det map[string]interface{}) {
			if det == nil {
				det = map[string]interface{}{}
			}
			det["step"] = i
			det["step_text"] = body
			hits, misses := pc.HitsMisses()
			det["cache_hits"], det["cache_misses"] = hits, misses
			c.Body = st.Body
			violation(fmt.Sprintf("request %d of a sequence through one PlanCache (Normalize=%v, MaxEntries=%d): %s", i+1, c.Normalize, c.MaxEntries, note), c, det)
		}
		switch {
		case pan != nil:
			report("PlanCache.Get / ExecutePlan panicked", map[string]interface{}{"panic": pan})
			return
		case st.Type == "d" && res == nil:
			if len(pr.Errors) > 0 {
				run.CheckError("stream e: executing document rejected by PlanCache.Get: " + pr.Errors[0].Message + " " + strconv.Quote(body))
			} else {
				run.CheckError("stream e: PlanCache.Get returned neither plan nor errors")
			}
			return
		}
		if !c.Normalize {
			// plain cache: every answer must be located in the text of the request that produced it
			if note, det := judge(st); note != "" {
				report(note, det)
				return
			}
			continue
		}
		// Normalising cache (known finding D-18e, class normalisedPlanCacheKeepsFirstLayoutPositions): layout variants share
		// one entry, and what holds exactly is: the answer is located in the text of the request that POPULATED the entry
		// (the latest request of this document that was a cache miss). Anything else is a violation.
		if missesAfter > missesBefore || populator[st.Doc] == nil {
			cp := st
			populator[st.Doc] = &cp
		} else {
			run.Tag("e:normalising-hit")
		}
		owner := *populator[st.Doc]
		if note, det := judge(owner); note != "" {
			if det == nil {
				det = map[string]interface{}{}
			}
			det["populating_request"] = owner
			report("(judged against the request that populated the cache entry) "+note, det)
			return
		}
		if owner.Body != st.Body {
			if note, _ := judge(st); note != "" {
				run.KnownFinding("normalisedPlanCacheKeepsFirstLayoutPositions", "a normalising PlanCache answers a re-laid-out request with the error locations of the layout that populated the entry: `{ ok boom }` then `\\n\\n    { ok boom }` -> second answer located 1:6 instead of 3:10")
				run.Tag("e:known-finding-step")
			}
		}
		continue
	}
	hits, _ := pc.HitsMisses()
	if hits > 0 {
		run.Tag("e:sequence-with-cache-hit")
	}
}

// ---------------------------------------------------------------- stream p (ResponsePath model vs real)

// caseP builds a real *graphql.ResponsePath by WithKey from the nil path and compares AsArray with the model.
func caseP(c caseT) {
	var rp *graphql.ResponsePath
	req := [][]interface{}{}
	for _, k := range c.Keys {
		if s, ok := k.(string); ok {
			rp = rp.WithKey(s)
			req = append(req, []interface{}{"k", s})
		} else {
			n := 0
			switch v := k.(type) {
			case int:
				n = v
			case float64:
				n = int(v)
			case json.Number:
				i, _ := v.Int64()
				n = int(i)
			}
			rp = rp.WithKey(n)
			req = append(req, []interface{}{"i", n})
		}
	}
	got := rp.AsArray()
	if got == nil {
		got = []interface{}{}
	}
	var m struct {
		AsArray []interface{} `json:"asArray"`
	}
	if err := drv.Ask(map[string]interface{}{"path": req}, &m); err != nil {
		run.CheckError(err.Error())
		return
	}
	if m.AsArray == nil {
		m.AsArray = []interface{}{}
	}
	run.Case("p|"+hx.Canon(req), len(req) >= 2, map[string]interface{}{"stream": "p", "keys": req})
	run.Tag("p:response-path")
	if hx.Canon(got) != hx.Canon(m.AsArray) {
		c.Body = b64("")
		run.Violation("stream p: ResponsePath.AsArray differs from the model", map[string]interface{}{"case": c, "observed": map[string]interface{}{"go": got, "model": m.AsArray}}, false)
	}
}

func genP(r *hx.Rng) (caseT, bool) {
	n := r.Intn(7)
	keys := []interface{}{}
	for i := 0; i < n; i++ {
		if r.Chance(1, 3) {
			keys = append(keys, r.Intn(5))
		} else {
			keys = append(keys, r.Pick([]string{"a", "k1", "k2", "o", "l", ""}))
		}
	}
	return caseT{Stream: "p", Keys: keys}, true
}

// ---------------------------------------------------------------- main

func dispatch(c caseT) {
	switch c.Stream {
	case "a":
		caseA(c)
	case "b":
		caseB(c)
	case "c":
		caseC(c)
	case "d":
		caseD(c)
	case "p":
		caseP(c)
	case "e":
		caseE(c)
	default:
		run.CheckError("unknown stream " + c.Stream)
	}
}

func main() {
	run = hx.Begin("C18")
	var err error
	drv, err = hx.StartDriver(run.DriverBin)
	if err != nil {
		run.CheckError("cannot start driver: " + err.Error())
		run.Finish()
		return
	}
	defer drv.Close()
	schema, err = buildSchema()
	if err != nil {
		run.CheckError("schema: " + err.Error())
		run.Finish()
		return
	}
	run.Res.Rule = "a: every string over {a,LF,CR} up to the tier's length x every offset 0..len+2, non-trivial = a line terminator starts before the offset; " +
		"b: DocGen(Exotic) documents mutated (illegal char / delete / insert / swap / flip / truncate) and re-laid out with random LF/CR/CRLF, indentation, commas, comments; non-trivial = a syntax error is reported after line 1; " +
		"c: schema-valid documents with one inserted fault of 10 kinds, random layout; non-trivial = the offending node is after line 1; " +
		"d: graphql.Do with hash-chosen failing response positions (errors, panics, failing thunks, null for non-null, null list items, nested lists, aliases, merged nodes, fragments, interface); non-trivial = at least one field error; distinct by full text (and fail seed)"

	if run.ReplayIn != "" {
		var rp struct {
			Case caseT `json:"case"`
		}
		if err := hx.LoadReplay(run.ReplayIn, &rp); err != nil {
			run.CheckError(err.Error())
		} else {
			dispatch(rp.Case)
		}
		run.Finish()
		return
	}

	t0 := time.Now()
	streamA()
	run.Res.Extra["a_wall_s"] = time.Since(t0).Seconds()

	type stream struct {
		name string
		n    int
		gen  func(*hx.Rng) (caseT, bool)
	}
	streams := []stream{
		{"b", run.N(4000, 200000), genB},
		{"c", run.N(1500, 60000), genC},
		{"d", run.N(1000, 50000), genD},
		{"p", run.N(300, 5000), genP},
		{"e", run.N(400, 30000), genE},
	}
	// directed cases of stream b (exact oracle known by hand)
	for _, d := range []struct {
		text   string
		lb, ub int
	}{
		{"{ }", 2, 2}, {"{ a( ) }", 5, 5}, {"query ( ) { a }", 8, 8}, {"schema { }", 9, 9},
		{"{\r\n  a(\r\n  )\r}", 11, 11}, {"", 0, 0}, {" \n# c", 5, 5}, {"{ a \"x\n}", 6, 6}, {"{ a(x: 1.) }", 9, 9},
		{"schema { subscrip }", 9, 9}, {"schema { subscrip ? }", 9, 9},
		{"{ }?", 2, 2}, {"{ a( )? }", 5, 5}, {"\"d\" query { a }", 4, 4}, {"\"d\" fragment F on T { a }", 4, 4},
		{"\"d\" { a }", 4, 4}, {"\"d\" foo", 4, 4}, {"fragment on on T { a }", 9, 9}, {"{ ... on ? }", 9, 9},
	} {
		dispatch(caseT{Stream: "b", Kind: "directed", Body: b64(d.text), LB: d.lb, UB: d.ub})
	}
	for si, s := range streams {
		if only := os.Getenv("C18_ONLY"); only != "" && only != s.name {
			continue
		}
		t1 := time.Now()
		made := 0
		for i := 0; i < s.n && !run.TooManyViolations(); i++ {
			r := hx.Fork(run.Seed+uint64(si+1)*0x1000003, i)
			c, ok := s.gen(r)
			if !ok {
				continue
			}
			made++
			dispatch(c)
		}
		run.Res.Extra[s.name+"_cases"] = made
		run.Res.Extra[s.name+"_wall_s"] = time.Since(t1).Seconds()
	}
	// D-03a (known finding of C03, column unit of C18): recorded, not judged here
	if e, ok, _, _ := parseErr("{ a #é\n ? }"); !ok && e != nil && len(e.Positions) == 1 {
		run.Res.Extra["d03a_probe"] = map[string]interface{}{"input": "{ a #é\n ? }", "byte_offset_of_?": 9, "reported_position": e.Positions[0]}
	}
	_ = json.Marshal
	run.Finish()
}
