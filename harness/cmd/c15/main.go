// C15 harness: drives the real graphql.Subscribe / ExecuteSubscription through a source channel, a context
// and a consumer that the harness controls step by step (logical synchronisation: blocking channel operations
// and goroutine-state inspection; the only timers are watchdogs that fire on a violation and a bounded settle
// for the goroutine count), records the run as a sequence of actions of the Lean model
// (GqlModel.Subscription), and lets the compiled model decide whether that sequence is a run of the model and
// what the consumer must have seen. Observed: delivered results (canonical JSON), closure of the result
// channel, goroutines created by ExecuteSubscription / ExecutePlan still alive, runtime.NumGoroutine().
package main

import (
	"bytes"
	"context"
	"encoding/json"
	"errors"
	"fmt"
	"os"
	"runtime"
	"strings"
	"time"

	"github.com/graphql-go/graphql"
	"github.com/graphql-go/graphql/language/ast"
	"github.com/graphql-go/graphql/language/parser"

	"verif/harness/hx"
)

const watchdog = 4 * time.Second

// ---------------------------------------------------------------- schema

type evT struct{ K, N int } // K: 0 resolves, 1 root resolver fails, 2 nullable leaf fails, 3 non-null leaf yields null

// Payload kinds 4..10 are values a sloppy "has the source closed?" test could mistake for closure (the zero value a
// receive from a closed channel yields is nil): they must be forwarded like any other event. The root resolver
// reports which value it was given as the source, so the expected result is independent per kind.
const (
	kNil = 4 + iota
	kEmptyMap
	kTypedNil
	kFalse
	kZeroInt
	kEmptyString
	kEmptySlice
	kPanic   // the root resolver panics (nullable root: field null + error; non-null root: data null + error)
	kNilRoot // the root resolver returns nil (nullable root: field null, no error; non-null root: data null + error)
	kindCount
)

func mkEvent(k, n int) interface{} {
	switch k {
	case kNil:
		return nil
	case kEmptyMap:
		return map[string]interface{}{}
	case kTypedNil:
		return (*evT)(nil)
	case kFalse:
		return false
	case kZeroInt:
		return 0
	case kEmptyString:
		return ""
	case kEmptySlice:
		return []interface{}{}
	}
	return evT{K: k, N: n}
}

// classify: what the root resolver sees for a payload that is not an evT. A nil root value reaches resolvers as an
// empty map (executePlannedSelection substitutes it), so kinds nil and empty map both yield 41.
func classify(src interface{}) (int, bool) {
	switch v := src.(type) {
	case nil:
		return 40, true
	case map[string]interface{}:
		if len(v) == 0 {
			return 41, true
		}
	case *evT:
		if v == nil {
			return 42, true
		}
	case bool:
		if !v {
			return 43, true
		}
	case int:
		if v == 0 {
			return 44, true
		}
	case string:
		if v == "" {
			return 45, true
		}
	case []interface{}:
		if len(v) == 0 {
			return 46, true
		}
	}
	return 0, false
}

type subMode struct {
	kind string           // what the Subscribe resolver does
	src  chan interface{} // the source channel for kind "stream"
	val  evT              // for kind "value"
	// selected: the subscription field the document selects. Only its Subscribe resolver hands out the source
	// channel; the Subscribe resolver of any other field hands out the decoy (a stream nobody writes to), so a
	// library that subscribes to the wrong field (e.g. looked up by alias) is noticed.
	selected string
	decoy    chan interface{}
	subArgs  string // canonical rendering of the arguments the selected field's Subscribe resolver received
}

var cur *subMode

func subscribeFor(name string) graphql.FieldResolveFn {
	return func(p graphql.ResolveParams) (interface{}, error) {
		switch cur.kind {
		case "stream":
			if name != cur.selected {
				return cur.decoy, nil
			}
			cur.subArgs = hx.Canon(p.Args) // the Subscribe resolver must get the coerced arguments, like Resolve
			return cur.src, nil
		case "value":
			return cur.val, nil
		case "subNil":
			return nil, nil
		case "subPanicErr":
			panic(errors.New("subscribe panicked"))
		case "subPanicStr":
			panic("subscribe panicked")
		}
		return nil, errors.New("cannot subscribe")
	}
}

func tickResolve(p graphql.ResolveParams) (interface{}, error) {
	e, ok := p.Source.(evT)
	if code, special := classify(p.Source); !ok && special {
		return evT{K: 0, N: code}, nil
	}
	if !ok {
		return nil, fmt.Errorf("unexpected root value %T", p.Source)
	}
	switch e.K {
	case 1:
		return nil, errors.New("root failed")
	case kPanic:
		panic(errors.New("root resolver panicked"))
	case kNilRoot:
		return nil, nil
	}
	return e, nil
}

// ---- documents with fragments at the root: an oracle for the set of root fields, written after the specification's
// CollectFields (a fragment spread is looked at only if its directives let it through; only then is the fragment
// marked visited), independent of the library's collectFields.

type dirT struct {
	skip bool // @skip, else @include
	val  bool
}
type selT struct {
	kind string // field | spread | inline
	name string // field name / fragment name / type condition of an inline fragment ("" = none)
	dirs []dirT
	sels []selT
}
type fragT struct {
	name string
	sels []selT
}
type fragDocT struct {
	root  []selT
	frags []fragT
}

func sk(v bool) dirT  { return dirT{true, v} }
func inc(v bool) dirT { return dirT{false, v} }
func fld(name string, d ...dirT) selT {
	return selT{kind: "field", name: name, dirs: d}
}
func spread(name string, d ...dirT) selT { return selT{kind: "spread", name: name, dirs: d} }
func inline(cond string, d []dirT, sels ...selT) selT {
	return selT{kind: "inline", name: cond, dirs: d, sels: sels}
}

var fragDocs = []fragDocT{
	{}, // 0 = none
	{[]selT{spread("F")}, []fragT{{"F", []selT{fld("tick")}}}},
	{[]selT{spread("F", sk(true)), spread("F")}, []fragT{{"F", []selT{fld("tick")}}}},
	{[]selT{spread("F", inc(false)), spread("F")}, []fragT{{"F", []selT{fld("tick")}}}},
	{[]selT{spread("F", sk(false)), spread("F", sk(true))}, []fragT{{"F", []selT{fld("tick")}}}},
	{[]selT{spread("F", sk(true))}, []fragT{{"F", []selT{fld("tick")}}}},
	{[]selT{inline("Subscription", nil, fld("tick"))}, nil},
	{[]selT{inline("", nil, fld("tick"))}, nil},
	{[]selT{inline("", []dirT{sk(true)}, fld("tock")), fld("tick")}, nil},
	{[]selT{inline("Subscription", []dirT{inc(false)}, fld("tick")), inline("", []dirT{inc(true)}, fld("tick"))}, nil},
	{[]selT{spread("A")}, []fragT{{"A", []selT{spread("B", sk(true)), spread("B")}}, {"B", []selT{fld("tick")}}}},
	{[]selT{spread("A"), spread("B")}, []fragT{{"A", []selT{spread("B", inc(false))}}, {"B", []selT{fld("tick")}}}},
	{[]selT{spread("A")}, []fragT{{"A", []selT{fld("tock", sk(true)), spread("B")}}, {"B", []selT{fld("tick")}}}},
	{[]selT{spread("F"), spread("G")}, []fragT{{"F", []selT{fld("tick")}}, {"G", []selT{fld("tock", sk(true))}}}},
	{[]selT{spread("F"), spread("G")}, []fragT{{"F", []selT{fld("tick")}}, {"G", []selT{fld("tock")}}}},
	{[]selT{fld("tick"), spread("F")}, []fragT{{"F", []selT{fld("tick")}}}},
	{[]selT{spread("F", sk(false), inc(true))}, []fragT{{"F", []selT{fld("tick")}}}},
	{[]selT{inline("", nil, inline("Subscription", []dirT{sk(false)}, spread("F")))}, []fragT{{"F", []selT{fld("tick")}}}},
	{[]selT{spread("F", sk(true)), spread("F", inc(false))}, []fragT{{"F", []selT{fld("tick")}}}},
	{[]selT{spread("F", inc(true)), spread("F", sk(true))}, []fragT{{"F", []selT{fld("tick")}}}},
	{[]selT{spread("F", sk(true)), spread("F", inc(false)), spread("F", inc(true))}, []fragT{{"F", []selT{fld("tick")}}}},
	{[]selT{spread("F", inc(false)), inline("", []dirT{sk(true)}, spread("F")), inline("Subscription", nil, spread("F"))}, []fragT{{"F", []selT{fld("tick")}}}},
	{[]selT{spread("A", sk(true)), spread("C")}, []fragT{{"A", []selT{spread("B")}}, {"B", []selT{fld("tick")}}, {"C", []selT{spread("A")}}}},
	{[]selT{spread("F", sk(true)), fld("tock", inc(false))}, []fragT{{"F", []selT{fld("tick")}}}},
}

// render: the document text and its variables; byVar: directive conditions come from variables $t (true) / $f (false)
func (d fragDocT) render(byVar bool) (string, map[string]interface{}) {
	usedT, usedF := false, false
	var dirs func(ds []dirT) string
	dirs = func(ds []dirT) string {
		out := ""
		for _, x := range ds {
			name := "include"
			if x.skip {
				name = "skip"
			}
			if byVar {
				if x.val {
					usedT = true
					out += " @" + name + "(if: $t)"
				} else {
					usedF = true
					out += " @" + name + "(if: $f)"
				}
			} else {
				out += fmt.Sprintf(" @%s(if: %v)", name, x.val)
			}
		}
		return out
	}
	var sels func(ss []selT) string
	sels = func(ss []selT) string {
		parts := []string{}
		for _, x := range ss {
			switch x.kind {
			case "field":
				sub := " { n twice must }"
				if x.name != "tick" {
					sub = " { n }"
				}
				parts = append(parts, x.name+dirs(x.dirs)+sub)
			case "spread":
				parts = append(parts, "..."+x.name+dirs(x.dirs))
			default:
				cond := ""
				if x.name != "" {
					cond = " on " + x.name
				}
				parts = append(parts, "..."+cond+dirs(x.dirs)+" { "+sels(x.sels)+" }")
			}
		}
		return strings.Join(parts, " ")
	}
	body := sels(d.root)
	frs := ""
	for _, f := range d.frags {
		frs += " fragment " + f.name + " on Subscription { " + sels(f.sels) + " }"
	}
	head, vars := "subscription S", map[string]interface{}{}
	defs := []string{}
	if usedT {
		defs = append(defs, "$t: Boolean!")
		vars["t"] = true
	}
	if usedF {
		defs = append(defs, "$f: Boolean!")
		vars["f"] = false
	}
	if len(defs) > 0 {
		head += "(" + strings.Join(defs, ", ") + ")"
	}
	return head + " { " + body + " }" + frs, vars
}

// rootFields: the specification's CollectFields on the root selection set: response keys in order of first occurrence
func (d fragDocT) rootFields() []string {
	keys := []string{}
	visited := map[string]bool{}
	selected := func(ds []dirT) bool {
		for _, x := range ds {
			if x.skip && x.val {
				return false
			}
			if !x.skip && !x.val {
				return false
			}
		}
		return true
	}
	var walk func(ss []selT)
	walk = func(ss []selT) {
		for _, x := range ss {
			if !selected(x.dirs) {
				continue
			}
			switch x.kind {
			case "field":
				seen := false
				for _, k := range keys {
					seen = seen || k == x.name
				}
				if !seen {
					keys = append(keys, x.name)
				}
			case "spread":
				if visited[x.name] {
					continue
				}
				visited[x.name] = true
				for _, f := range d.frags {
					if f.name == x.name {
						walk(f.sels)
					}
				}
			default:
				walk(x.sels) // every type condition used here is the subscription type itself
			}
		}
	}
	walk(d.root)
	return keys
}

// multiOp: the document with further operations around the selected one (always named S): 1 = S first, 2 = S in the
// middle, 3 = S last. The request then names the operation ("S"); subscribing and every per-event execution must use it.
func multiOp(query string, mode int) string {
	const q, e, m = `query Other { q }`, `subscription Else { tock { n } }`, `mutation Mut { bump }`
	switch mode {
	case 1:
		return query + " " + q + " " + m
	case 2:
		return e + " " + query + " " + q
	case 3:
		return m + " " + e + " " + query
	}
	return query
}

// aliased: the request text with the root field `field` given the alias `alias`
func aliased(query, field, alias string) string {
	if alias == "" {
		return query
	}
	return strings.Replace(query, "{ "+field, "{ "+alias+": "+field, 1)
}

// paintString: what the `paint` field resolves to: the event and the *internal* argument values the resolver saw
func paintString(n int, args map[string]interface{}) string {
	return fmt.Sprintf("e%d|%s", n, hx.Canon(args))
}

// Types whose variable coercion is not idempotent: coercing an already coerced value gives an error or another value.
var colorEnum = graphql.NewEnum(graphql.EnumConfig{Name: "Color", Values: graphql.EnumValueConfigMap{
	"RED": &graphql.EnumValueConfig{Value: 0}, "GREEN": &graphql.EnumValueConfig{Value: 1}, "BLUE": &graphql.EnumValueConfig{Value: 2}}})

// internal values are the names of *other* values: a second coercion silently yields a different value
var swapEnum = graphql.NewEnum(graphql.EnumConfig{Name: "Swap", Values: graphql.EnumValueConfigMap{
	"A": &graphql.EnumValueConfig{Value: "B"}, "B": &graphql.EnumValueConfig{Value: "C"}, "C": &graphql.EnumValueConfig{Value: "A"}}})

var wrapped = graphql.NewScalar(graphql.ScalarConfig{
	Name:       "Wrapped",
	Serialize:  func(v interface{}) interface{} { return v },
	ParseValue: func(v interface{}) interface{} { return fmt.Sprintf("w(%v)", v) },
	ParseLiteral: func(v ast.Value) interface{} {
		return fmt.Sprintf("w(%v)", v.GetValue())
	},
})

var paintInput = graphql.NewInputObject(graphql.InputObjectConfig{Name: "PaintInput", Fields: graphql.InputObjectConfigFieldMap{
	"color":  &graphql.InputObjectFieldConfig{Type: colorEnum},
	"swap":   &graphql.InputObjectFieldConfig{Type: swapEnum},
	"w":      &graphql.InputObjectFieldConfig{Type: wrapped},
	"colors": &graphql.InputObjectFieldConfig{Type: graphql.NewList(colorEnum)},
}})

// varCase: a subscription that takes variables. Args = the internal argument values the resolver must see for
// every event (computed by hand from the raw variables, independent of the library).
type varCase struct {
	query string
	vars  map[string]interface{}
	args  map[string]interface{}
}

var varCases = []varCase{
	{}, // index 0 = no variables: the `tick` document
	{`subscription S($c: Color) { paint(color: $c) }`, map[string]interface{}{"c": "GREEN"}, map[string]interface{}{"color": 1}},
	{`subscription S($c: Color = GREEN) { paint(color: $c) }`, map[string]interface{}{}, map[string]interface{}{"color": 1}},
	{`subscription S($c: Color!) { paint(color: $c) }`, map[string]interface{}{"c": "RED"}, map[string]interface{}{"color": 0}},
	{`subscription S($s: Swap) { paint(swap: $s) }`, map[string]interface{}{"s": "A"}, map[string]interface{}{"swap": "B"}},
	{`subscription S($s: Swap = C) { paint(swap: $s) }`, nil, map[string]interface{}{"swap": "A"}},
	{`subscription S($w: Wrapped) { paint(w: $w) }`, map[string]interface{}{"w": "x"}, map[string]interface{}{"w": "w(x)"}},
	{`subscription S($in: PaintInput) { paint(in: $in) }`,
		map[string]interface{}{"in": map[string]interface{}{"color": "BLUE", "swap": "B", "w": 5, "colors": []interface{}{"RED", "GREEN"}}},
		map[string]interface{}{"in": map[string]interface{}{"color": 2, "swap": "C", "w": "w(5)", "colors": []interface{}{0, 1}}}},
	{`subscription S($cs: [Color], $ss: [Swap!]) { paint(colors: $cs, swaps: $ss) }`,
		map[string]interface{}{"cs": []interface{}{"BLUE", "RED"}, "ss": []interface{}{"C", "A"}},
		map[string]interface{}{"colors": []interface{}{2, 0}, "swaps": []interface{}{"A", "B"}}},
	{`subscription S { paint(color: BLUE, swap: B) }`, nil, map[string]interface{}{"color": 2, "swap": "C"}},
	{`subscription S($c: Color, $s: Swap = A, $w: Wrapped) { paint(color: $c, swap: $s, w: $w) }`,
		map[string]interface{}{"c": "BLUE", "w": 3}, map[string]interface{}{"color": 2, "swap": "B", "w": "w(3)"}},
}

// handExpected: the canonical result of one event of a varCase, computed without the library
func handExpected(vc varCase, e [2]int, key string) string {
	if e[0] == 1 {
		return hx.Canon(map[string]interface{}{"data": map[string]interface{}{key: nil}, "errs": []errEntry{{Ctx: false, Path: []string{key}}}})
	}
	return hx.Canon(map[string]interface{}{"data": map[string]interface{}{key: paintString(e[1], vc.args)}, "errs": []errEntry{}})
}

func buildSchema() graphql.Schema {
	tick := graphql.NewObject(graphql.ObjectConfig{Name: "Tick", Fields: graphql.Fields{
		"n": &graphql.Field{Type: graphql.Int, Resolve: func(p graphql.ResolveParams) (interface{}, error) { return p.Source.(evT).N, nil }},
		"twice": &graphql.Field{Type: graphql.Int, Resolve: func(p graphql.ResolveParams) (interface{}, error) {
			e := p.Source.(evT)
			if e.K == 2 {
				return nil, errors.New("leaf failed")
			}
			return 2 * e.N, nil
		}},
		"must": &graphql.Field{Type: graphql.NewNonNull(graphql.Int), Resolve: func(p graphql.ResolveParams) (interface{}, error) {
			if p.Source.(evT).K == 3 {
				return nil, nil
			}
			return 1, nil
		}},
	}})
	schema, err := graphql.NewSchema(graphql.SchemaConfig{
		Query:    graphql.NewObject(graphql.ObjectConfig{Name: "Query", Fields: graphql.Fields{"q": &graphql.Field{Type: graphql.Int}}}),
		Mutation: graphql.NewObject(graphql.ObjectConfig{Name: "Mutation", Fields: graphql.Fields{"bump": &graphql.Field{Type: graphql.Int}}}),
		Subscription: graphql.NewObject(graphql.ObjectConfig{Name: "Subscription", Fields: graphql.Fields{
			"paint": &graphql.Field{Type: graphql.String,
				Args: graphql.FieldConfigArgument{
					"color":  &graphql.ArgumentConfig{Type: colorEnum},
					"swap":   &graphql.ArgumentConfig{Type: swapEnum},
					"w":      &graphql.ArgumentConfig{Type: wrapped},
					"in":     &graphql.ArgumentConfig{Type: paintInput},
					"colors": &graphql.ArgumentConfig{Type: graphql.NewList(colorEnum)},
					"swaps":  &graphql.ArgumentConfig{Type: graphql.NewList(graphql.NewNonNull(swapEnum))},
				},
				Subscribe: subscribeFor("paint"),
				Resolve: func(p graphql.ResolveParams) (interface{}, error) {
					e, ok := p.Source.(evT)
					if !ok {
						return nil, fmt.Errorf("unexpected root value %T", p.Source)
					}
					if e.K == 1 {
						return nil, errors.New("root failed")
					}
					return paintString(e.N, p.Args), nil
				},
			},
			"tick": &graphql.Field{Type: tick, Subscribe: subscribeFor("tick"), Resolve: tickResolve},
			// the same with a NON-NULL type: an event whose payload makes the field fail yields {data: null, errors}
			// — a legitimate result of that event; later events must still be delivered
			"strict": &graphql.Field{Type: graphql.NewNonNull(tick), Subscribe: subscribeFor("strict"), Resolve: tickResolve},
			// a second stream field, so that an alias can be the name of another subscription field
			"tock":  &graphql.Field{Type: tick, Subscribe: subscribeFor("tock"), Resolve: tickResolve},
			"nosub": &graphql.Field{Type: graphql.Int},
		}}),
	})
	if err != nil {
		panic(err)
	}
	return schema
}

const streamQuery = `subscription S { tick { n twice must } }`

// request kinds: how the request text / operation name / Subscribe resolver are set up, and which model request it is
type reqSpec struct {
	model string // stream | oneShot | invalid
	query string
	op    string
	sub   string // subMode.kind
	vars  map[string]interface{}
}

// Directives on the root field(s). The specification's rule: a field is selected iff it is not skipped
// (@skip(if: true)) and it is included (no @include(if: false)); both directives may be present.
// Code: "s"/"i" followed by T/F for @skip / @include on `tick` (either or both, e.g. "sFiT"); suffix "v" = the
// conditions come from variables; prefix "b:" / "a:" = a second root field `tock` that is EXCLUDED by directives of its
// own stands before / after `tick` (it then must not count as a root field, nor be subscribed to).
func dirDocument(code string) (query string, vars map[string]interface{}, included bool) {
	companion := ""
	if strings.HasPrefix(code, "b:") || strings.HasPrefix(code, "a:") {
		companion = code[:1]
		code = code[2:]
	}
	byVar := strings.HasSuffix(code, "v")
	code = strings.TrimSuffix(code, "v")
	included = true
	defs, dirs := []string{}, ""
	vars = map[string]interface{}{}
	for i := 0; i+1 < len(code); i += 2 {
		val := code[i+1] == 'T'
		name, v := "skip", "sk"
		if code[i] == 'i' {
			name, v = "include", "inc"
			if !val {
				included = false
			}
		} else if val {
			included = false
		}
		if byVar {
			defs = append(defs, "$"+v+": Boolean!")
			vars[v] = val
			dirs += fmt.Sprintf(" @%s(if: $%s)", name, v)
		} else {
			dirs += fmt.Sprintf(" @%s(if: %v)", name, val)
		}
	}
	other := ""
	if companion != "" {
		// excluded in three ways, chosen by the shape of the main field's directives
		switch len(code) % 3 {
		case 0:
			other = "tock @skip(if: true) { n }"
		case 1:
			other = "tock @include(if: false) { n }"
		default:
			if byVar {
				defs = append(defs, "$no: Boolean!")
				vars["no"] = false
				other = "tock @skip(if: false) @include(if: $no) { n }"
			} else {
				other = "tock @skip(if: false) @include(if: false) { n }"
			}
		}
	}
	head := "subscription S"
	if len(defs) > 0 {
		head += "(" + strings.Join(defs, ", ") + ")"
	}
	body := "tick" + dirs + " { n twice must }"
	switch companion {
	case "b":
		body = other + " " + body
	case "a":
		body = body + " " + other
	}
	return head + " { " + body + " }", vars, included
}

var reqSpecs = map[string]reqSpec{
	"stream":        {"stream", streamQuery, "", "stream", nil},
	"parseErr":      {"invalid", `subscription S { tick { n `, "", "stream", nil},
	"validationErr": {"invalid", `subscription S { tick { nope } }`, "", "stream", nil},
	"subErr":        {"oneShot", streamQuery, "", "subErr", nil},
	"subNil":        {"oneShot", streamQuery, "", "subNil", nil},
	"subPanicErr":   {"oneShot", streamQuery, "", "subPanicErr", nil},
	"subPanicStr":   {"oneShot", streamQuery, "", "subPanicStr", nil},
	"noSubscribeFn": {"oneShot", `subscription S { nosub }`, "", "stream", nil},
	"unknownOp":     {"oneShot", streamQuery, "Other", "stream", nil},
	"emptySel":      {"oneShot", `subscription S { tick @skip(if: true) { n } }`, "", "stream", nil},
	"missingVar":    {"oneShot", `subscription S($s: Boolean!) { tick @skip(if: $s) { n } }`, "", "stream", nil},
	"value":         {"oneShot", streamQuery, "", "value", nil},
}

// ---------------------------------------------------------------- canonical results

type errEntry struct {
	Ctx  bool     `json:"ctx"`
	Path []string `json:"path"`
}

func canonResult(r *graphql.Result) string {
	if r == nil {
		return "nil-result"
	}
	var data interface{}
	if r.Data != nil {
		b, err := json.Marshal(r.Data)
		if err != nil {
			return "unmarshalable-data:" + err.Error()
		}
		dec := json.NewDecoder(bytes.NewReader(b))
		dec.UseNumber()
		if err := dec.Decode(&data); err != nil {
			return "undecodable-data:" + err.Error()
		}
	}
	errs := []errEntry{}
	for _, e := range r.Errors {
		p := []string{}
		for _, k := range e.Path {
			p = append(p, fmt.Sprint(k))
		}
		errs = append(errs, errEntry{Ctx: e.Message == context.Canceled.Error() || e.Message == context.DeadlineExceeded.Error(), Path: p})
	}
	return hx.Canon(map[string]interface{}{"data": data, "errs": errs})
}

func recanon(raw json.RawMessage) string {
	var v interface{}
	dec := json.NewDecoder(bytes.NewReader(raw))
	dec.UseNumber()
	if dec.Decode(&v) != nil {
		return string(raw)
	}
	return hx.Canon(v)
}

const ctxCanon = `{"data":null,"errs":[{"ctx":true,"path":[]}]}`
const plainErrCanon = `{"data":null,"errs":[{"ctx":false,"path":[]}]}`

// ---------------------------------------------------------------- goroutine inspection

type ginfo struct {
	id      string
	state   string
	top     string
	created string
}

func goroutines() []ginfo {
	buf := make([]byte, 1<<16)
	for {
		n := runtime.Stack(buf, true)
		if n < len(buf) {
			buf = buf[:n]
			break
		}
		buf = make([]byte, 2*len(buf))
	}
	var out []ginfo
	for _, blk := range strings.Split(string(buf), "\n\n") {
		lines := strings.Split(blk, "\n")
		if len(lines) < 2 || !strings.HasPrefix(lines[0], "goroutine ") {
			continue
		}
		g := ginfo{}
		h := lines[0]
		if i := strings.Index(h, " ["); i > 0 {
			g.id = h[len("goroutine "):i]
			g.state = strings.TrimSuffix(h[i+2:], "]:")
		}
		g.top = lines[1]
		for _, l := range lines {
			if strings.HasPrefix(l, "created by ") {
				g.created = l
			}
		}
		out = append(out, g)
	}
	return out
}

var ignored = map[string]bool{} // goroutines leaked by earlier (violating) cases

func subGoroutines() (subs []ginfo, executors int) {
	for _, g := range goroutines() {
		if ignored[g.id] {
			continue
		}
		if strings.Contains(g.created, "graphql.ExecuteSubscription") {
			subs = append(subs, g)
		} else if strings.Contains(g.created, "graphql.ExecutePlan") {
			executors++
		}
	}
	return
}

func blockedState(s string) bool {
	return strings.HasPrefix(s, "select") || strings.HasPrefix(s, "chan send") || strings.HasPrefix(s, "chan receive")
}

// waitForwarder waits until the forwarding goroutine is gone, or blocked in a channel operation of its own
// (not inside Execute). wantGone: wait for it to be gone. Returns (gone, ok); ok=false when the watchdog fired.
func waitForwarder(wantGone bool) (gone bool, ok bool) {
	deadline := time.Now().Add(watchdog)
	for i := 0; ; i++ {
		subs, _ := subGoroutines()
		if len(subs) == 0 {
			return true, true
		}
		if !wantGone {
			parked := true
			for _, g := range subs {
				if !(blockedState(g.state) && strings.Contains(g.top, "graphql.ExecuteSubscription")) {
					parked = false
				}
			}
			if parked {
				return false, true
			}
		}
		if time.Now().After(deadline) {
			return false, false
		}
		if i < 20 {
			runtime.Gosched()
		} else {
			time.Sleep(50 * time.Microsecond)
		}
	}
}

// ---------------------------------------------------------------- a case

type caseT struct {
	Req      string   `json:"req"`      // key of reqSpecs
	Entry    string   `json:"entry"`    // subscribe | execute
	Events   [][2]int `json:"events"`   // [kind, n] of every event the source will emit
	Intents  string   `json:"intents"`  // P produce, O offer in the background, D deliver, R deliver racing cancel, C cancel, X close source, W wait for the forwarder to leave
	Consumer string   `json:"consumer"` // prompt | slow | stopped
	Finale   string   `json:"finale"`   // complete | cancel
	Flip     bool     `json:"flip"`     // R: let the cancelling goroutine run before the receive
	Vars     int      `json:"vars"`     // index into varCases (0 = the document without variables)
	Alias    string   `json:"alias"`    // alias of the root field ("" = none): fresh, or the name of another subscription field
	Dir      string   `json:"dir"`      // directives on the root field(s), see dirDocument ("" = none)
	Frag     int      `json:"frag"`     // index into fragDocs: root-level fragment spreads / inline fragments (0 = none)
	FragVar  bool     `json:"fragVar"`  // their directive conditions come from variables
	Root     string   `json:"root"`     // "" = the nullable root field tick; "strict" = the non-null root field strict: Tick!
	Multi    int      `json:"multi"`    // further operations in the document, the request names operation S: 1 S first, 2 middle, 3 last
}

type observation struct {
	Trace      []string `json:"trace"`
	Delivered  []string `json:"delivered"`
	Closed     bool     `json:"closed"`
	SubAlive   int      `json:"sub_goroutines_alive"`
	Executors  int      `json:"executor_goroutines_alive"`
	Goroutines int      `json:"goroutines_over_baseline"`
	Skipped    string   `json:"skipped_intents,omitempty"`
	Fault      string   `json:"fault,omitempty"`
}

type modelResp struct {
	Valid     bool              `json:"valid"`
	FailedAt  *int              `json:"failedAt"`
	FailedAct *string           `json:"failedAct"`
	Delivered []json.RawMessage `json:"delivered"`
	Closed    bool              `json:"closed"`
	Alive     bool              `json:"alive"`
	Terminal  bool              `json:"terminal"`
	Cancelled bool              `json:"cancelled"`
	Fwd       string            `json:"fwd"`
	Consumer  string            `json:"consumer"`
	Pending   int               `json:"pending"`
	Enabled   []string          `json:"enabled"`
}

type offerT struct {
	taken chan struct{}
	abort chan struct{}
	done  chan struct{}
}

type runner struct {
	c                 caseT
	spec              reqSpec
	schema            graphql.Schema
	ctx               context.Context
	cancelFn          context.CancelFunc
	src               chan interface{}
	ch                chan *graphql.Result
	started           bool
	next              int
	offer             *offerT
	holding           bool // the forwarder holds a result (stream) / the one-shot result is pending
	cancelled         bool
	srcClosed         bool
	done              bool // forwarder known to have left (or there never was one)
	stopped           bool // consumer stopped for good
	paused            bool
	obs               observation
	prodTrace         []int // index in Trace of every produce action
	slotProd          []int // delivered slot -> index into prodTrace
	cancelBeforeStart bool
}

func (r *runner) act(a string) { r.obs.Trace = append(r.obs.Trace, a) }

func (r *runner) start() {
	if r.started {
		return
	}
	r.started = true
	r.cancelBeforeStart = r.cancelled
	cur = &subMode{kind: r.spec.sub, src: r.src, val: evT{K: 0, N: 7}, selected: "tick", decoy: make(chan interface{})}
	if len(r.c.Events) > 0 {
		cur.val = evT{K: r.c.Events[0][0], N: r.c.Events[0][1]}
	}
	query, vars := r.spec.query, r.spec.vars
	if r.c.Vars > 0 && r.spec.model == "stream" {
		query, vars = varCases[r.c.Vars].query, varCases[r.c.Vars].vars
		cur.selected = "paint"
	}
	if r.c.Root == "strict" && r.c.Vars == 0 {
		cur.selected = "strict"
		query = strings.Replace(query, "{ tick", "{ strict", 1)
	}
	if r.spec.model == "stream" {
		query = aliased(query, cur.selected, r.c.Alias)
	}
	if r.c.Multi > 0 && r.spec.model == "stream" {
		query = multiOp(query, r.c.Multi)
		r.spec.op = "S"
	}
	if r.c.Entry == "execute" && r.spec.model != "invalid" {
		doc, err := parser.Parse(parser.ParseParams{Source: query})
		if err != nil {
			r.obs.Fault = "harness: request does not parse: " + err.Error()
			return
		}
		r.ch = graphql.ExecuteSubscription(graphql.ExecuteParams{Schema: r.schema, AST: doc, OperationName: r.spec.op, Args: vars, Context: r.ctx})
	} else {
		r.ch = graphql.Subscribe(graphql.Params{Schema: r.schema, RequestString: query, OperationName: r.spec.op, VariableValues: vars, Context: r.ctx})
	}
	switch r.spec.model {
	case "invalid":
		r.done = true
		r.holding = true // one buffered result
	case "oneShot":
		r.holding = true
	}
}

var _ = ast.NewDocument

// consumerMay: bring the consumer into the reading mood (model actions), false if it stopped for good
func (r *runner) consumerReads() bool {
	if r.stopped {
		return false
	}
	if r.paused {
		r.act("resume")
		r.paused = false
	}
	return true
}

func (r *runner) recordDelivered(res *graphql.Result) {
	r.obs.Delivered = append(r.obs.Delivered, canonResult(res))
	r.slotProd = append(r.slotProd, len(r.prodTrace)-1)
}

// afterTake: the forwarder has taken event r.next
func (r *runner) afterTake() {
	r.prodTrace = append(r.prodTrace, len(r.obs.Trace))
	r.act("produce")
	r.next++
	gone, ok := waitForwarder(false)
	if !ok {
		r.obs.Fault = "forwarder neither blocked in its own select nor gone " + watchdog.String() + " after it took an event"
		return
	}
	if gone && !r.cancelled {
		r.obs.Fault = fmt.Sprintf("the forwarding goroutine returned right after taking event %d (payload kind %d) although the context is live: the event produced no result (mistaken for the source closing?)", r.next-1, r.c.Events[r.next-1][0])
		r.done = true
		return
	}
	if gone {
		// only possible when the context is done: it left through the ctx.Done branch of the send
		r.act("observeCancel")
		r.done = true
		r.holding = false
	} else {
		r.holding = true
	}
}

func (r *runner) startOffer() {
	e := r.c.Events[r.next]
	o := &offerT{taken: make(chan struct{}), abort: make(chan struct{}), done: make(chan struct{})}
	r.offer = o
	src := r.src
	go func() {
		defer close(o.done)
		select {
		case src <- mkEvent(e[0], e[1]):
			close(o.taken)
		case <-o.abort:
		}
	}()
}

// settleOffer: with an offer outstanding and the forwarder back at its outer select, find out whether it took it
func (r *runner) settleOffer() {
	if r.offer == nil || r.done || r.obs.Fault != "" {
		return
	}
	deadline := time.Now().Add(watchdog)
	for i := 0; ; i++ {
		select {
		case <-r.offer.taken:
			r.offer = nil
			r.afterTake()
			return
		default:
		}
		if r.cancelled {
			if subs, _ := subGoroutines(); len(subs) == 0 {
				r.act("observeCancel")
				r.done = true
				return
			}
		}
		if time.Now().After(deadline) {
			r.obs.Fault = "an event offered on the source channel was not taken within " + watchdog.String() + " although the forwarder is idle"
			return
		}
		if i < 20 {
			runtime.Gosched()
		} else {
			time.Sleep(50 * time.Microsecond)
		}
	}
}

// receive: one receive of the consumer. Returns (result, closed, timedOut)
func (r *runner) receive() (*graphql.Result, bool, bool) {
	t := time.NewTimer(watchdog)
	defer t.Stop()
	select {
	case res, ok := <-r.ch:
		return res, !ok, false
	case <-t.C:
		return nil, false, true
	}
}

func (r *runner) forwarderLeft(reason string) {
	if r.cancelled {
		r.act("observeCancel")
	} else {
		r.act("finish") // if the source is not closed the model will reject this: the goroutine left for no reason
	}
	_ = reason
	r.done = true
	r.holding = false
}

func (r *runner) deliver() {
	if !r.consumerReads() {
		return
	}
	res, closed, timedOut := r.receive()
	switch {
	case timedOut:
		r.obs.Fault = "consumer's receive blocked for " + watchdog.String() + " although a result is pending"
	case closed:
		r.obs.Closed = true
		if r.spec.model == "invalid" {
			r.act("deliver") // the model will reject it: nothing was in the buffered channel
		} else {
			r.forwarderLeft("closed instead of a result")
		}
	default:
		r.act("deliver")
		r.recordDelivered(res)
		r.holding = false
		if r.spec.model != "stream" {
			if r.spec.model == "oneShot" {
				if _, ok := waitForwarder(true); !ok {
					r.obs.Fault = "goroutine still alive " + watchdog.String() + " after its one-shot result was received"
				}
			}
			r.done = true
		} else {
			r.settleOffer()
		}
	}
}

func (r *runner) doCancel() {
	r.cancelFn()
	r.cancelled = true
	r.act("cancel")
}

// applicable: is the intent meaningful in the actual state (the static schedule may have been overtaken by a race)
func (r *runner) applicable(in byte) bool {
	stream := r.spec.model == "stream"
	switch in {
	case 'P':
		return stream && !r.holding && !r.done && r.next < len(r.c.Events) && !r.srcClosed && r.offer == nil
	case 'O':
		return stream && r.holding && !r.done && r.next < len(r.c.Events) && r.offer == nil && !r.cancelled
	case 'D':
		return r.holding && !r.stopped
	case 'R':
		return r.holding && !r.stopped && !r.cancelled && r.spec.model != "invalid"
	case 'C':
		return !r.cancelled
	case 'X':
		return stream && !r.srcClosed && r.next == len(r.c.Events) && r.offer == nil
	case 'W':
		if r.done || r.spec.model == "invalid" {
			return false
		}
		return r.cancelled || (stream && r.srcClosed && !r.holding)
	case 'S': // consumer stops for good
		return !r.stopped
	case 'Z': // consumer pauses
		return !r.stopped && !r.paused
	}
	return false
}

func (r *runner) intent(in byte) {
	if in != 'C' && in != 'S' && in != 'Z' {
		r.start()
		if r.obs.Fault != "" {
			return
		}
	}
	switch in {
	case 'P':
		e := r.c.Events[r.next]
		if !r.cancelled {
			t := time.NewTimer(watchdog)
			select {
			case r.src <- mkEvent(e[0], e[1]):
				t.Stop()
				r.afterTake()
			case <-t.C:
				r.obs.Fault = "the forwarder did not take an event within " + watchdog.String() + " although it is idle and the context is live"
				return
			}
		} else {
			r.startOffer()
			r.settleOffer()
			if r.offer != nil {
				close(r.offer.abort)
				<-r.offer.done
				r.offer = nil
			}
		}
		if r.c.Consumer == "prompt" && r.holding && r.obs.Fault == "" {
			r.deliver()
		}
	case 'O':
		r.startOffer()
	case 'D':
		r.deliver()
	case 'R':
		if !r.consumerReads() {
			return
		}
		go r.cancelFn()
		if r.c.Flip {
			runtime.Gosched()
		}
		res, closed, timedOut := r.receive()
		r.cancelFn() // make sure it has happened before we go on
		r.cancelled = true
		switch {
		case timedOut:
			r.obs.Fault = "consumer's receive blocked for " + watchdog.String() + " although a result is pending"
		case closed:
			r.obs.Closed = true
			r.act("cancel")
			r.forwarderLeft("closed")
		default:
			r.act("deliver")
			r.recordDelivered(res)
			r.act("cancel")
			r.holding = false
			if r.spec.model == "oneShot" {
				if _, ok := waitForwarder(true); !ok {
					r.obs.Fault = "goroutine still alive " + watchdog.String() + " after its one-shot result was received"
				}
				r.done = true
			} else if r.offer != nil {
				// The consumer keeps reading while the forwarder, back at its outer select with the context
				// done and an event on offer, chooses; if it takes the event, Execute runs under the done context.
				res2, closed2, timedOut2 := r.receive()
				if timedOut2 {
					r.obs.Fault = "after cancellation the result channel was neither closed nor written for " + watchdog.String()
					return
				}
				// a delivered value implies the offer was taken; after a close the forwarder is gone, so retiring the
				// offering goroutine tells reliably whether its send had completed
				if closed2 {
					close(r.offer.abort)
				} else {
					select {
					case <-r.offer.done:
					case <-time.After(watchdog): // a value arrived although the offered event was never taken
						close(r.offer.abort)
					}
				}
				<-r.offer.done
				taken := false
				select {
				case <-r.offer.taken:
					taken = true
				default:
				}
				r.offer = nil
				if taken {
					r.prodTrace = append(r.prodTrace, len(r.obs.Trace))
					r.act("produce")
					r.next++
				}
				if closed2 {
					r.obs.Closed = true
					r.forwarderLeft("closed")
				} else {
					r.act("deliver") // (if nothing was taken the model rejects this)
					r.recordDelivered(res2)
					if _, ok := waitForwarder(true); !ok {
						r.obs.Fault = "forwarding goroutine still alive " + watchdog.String() + " after the context was cancelled"
						return
					}
					r.forwarderLeft("left after the last delivery")
				}
			}
		}
	case 'C':
		r.doCancel()
	case 'X':
		close(r.src)
		r.srcClosed = true
		r.act("closeSource")
	case 'W':
		if _, ok := waitForwarder(true); !ok {
			r.obs.Fault = "forwarding goroutine still alive " + watchdog.String() + " after " + map[bool]string{true: "the context was cancelled", false: "the source was closed and drained"}[r.cancelled] + " (no consumer help given)"
			return
		}
		r.forwarderLeft("waited")
	case 'S':
		r.act("stop")
		r.stopped = true
	case 'Z':
		r.act("pause")
		r.paused = true
	}
}

func (r *runner) finale() {
	r.start()
	if r.obs.Fault != "" {
		return
	}
	stream := r.spec.model == "stream"
	if r.c.Finale == "complete" && !r.cancelled && !r.stopped {
		// let everything complete: deliver what is pending, produce and deliver the rest, close the source
		for guard := 0; guard < 20 && r.obs.Fault == "" && !r.done; guard++ {
			switch {
			case r.holding:
				r.deliver()
			case r.offer != nil:
				r.settleOffer()
			case stream && r.next < len(r.c.Events) && !r.srcClosed:
				r.intent('P')
			case stream && !r.srcClosed:
				r.intent('X')
			case stream:
				r.intent('W')
			default:
				guard = 99
			}
		}
		if r.spec.model == "invalid" && r.holding && r.obs.Fault == "" {
			r.deliver()
		}
	} else {
		if !r.cancelled {
			r.doCancel()
		}
		if !r.done {
			if _, ok := waitForwarder(true); !ok {
				r.obs.Fault = "forwarding goroutine still alive " + watchdog.String() + " after the context was cancelled (no consumer help given)"
				return
			}
			if r.offer != nil {
				close(r.offer.abort)
				<-r.offer.done
				select {
				case <-r.offer.taken:
					r.prodTrace = append(r.prodTrace, len(r.obs.Trace))
					r.act("produce")
					r.next++
				default:
				}
				r.offer = nil
			}
			r.forwarderLeft("cancel finale")
		}
	}
}

// settle: final observations
func (r *runner) settle(baseline int) {
	if r.offer != nil {
		close(r.offer.abort)
		<-r.offer.done
		r.offer = nil
	}
	if r.obs.Fault == "" && (r.done || r.obs.Closed) {
		// The consumer may have seen the close a moment before the goroutine has finished returning (the close is
		// its last deferred call): bounded settle, like for the executor goroutines below.
		waitForwarder(true)
	}
	subs, _ := subGoroutines()
	r.obs.SubAlive = len(subs)
	if r.obs.Fault == "" && len(subs) == 0 && r.started && !r.obs.Closed {
		// nobody can send any more: a receive must report "closed" at once (a still buffered result counts as not closed)
		select {
		case _, ok := <-r.ch:
			r.obs.Closed = !ok
			if ok && r.spec.model != "invalid" {
				// (for parse/validation errors an unread result may still sit in the buffered channel: not closed yet)
				r.obs.Delivered = append(r.obs.Delivered, "unexpected-extra-result-at-settle")
			}
		default:
			r.obs.Closed = false
		}
	}
	// bounded settle for executor goroutines of Execute calls that were abandoned on ctx.Done
	deadline := time.Now().Add(watchdog)
	for i := 0; ; i++ {
		_, ex := subGoroutines()
		n := runtime.NumGoroutine()
		r.obs.Executors = ex
		r.obs.Goroutines = n - baseline - len(subs)
		if (ex == 0 && n-len(subs) <= baseline) || time.Now().After(deadline) {
			break
		}
		if i < 20 {
			runtime.Gosched()
		} else {
			time.Sleep(100 * time.Microsecond)
		}
	}
	if r.obs.Goroutines < 0 {
		r.obs.Goroutines = 0
	}
}

func (r *runner) cleanup() {
	r.cancelFn()
	if r.ch != nil {
		ch := r.ch
		go func() { // unblock anything still trying to send
			for range ch {
			}
		}()
	}
	if !r.srcClosed && r.src != nil {
		// nothing: the forwarder never blocks on the source after cancellation
	}
	time.Sleep(200 * time.Microsecond)
	for _, g := range goroutines() {
		if strings.Contains(g.created, "graphql.ExecuteSubscription") || strings.Contains(g.created, "graphql.ExecutePlan") {
			ignored[g.id] = true
		}
	}
}

// ---------------------------------------------------------------- main

func main() {
	run := hx.Begin("C15")
	// One P by default: every synchronisation below is logical, and goroutine-state inspection (runtime.Stack,
	// stop-the-world) is cheap and robust on a loaded machine. The thorough tier repeats a sample with 4 Ps.
	procs := 1
	if v := os.Getenv("C15_PROCS"); v != "" {
		fmt.Sscan(v, &procs)
	}
	runtime.GOMAXPROCS(procs)
	drv, err := hx.StartDriver(run.DriverBin)
	if err != nil {
		run.CheckError("cannot start driver: " + err.Error())
		run.Finish()
		return
	}
	defer drv.Close()
	schema := buildSchema()
	run.Res.Rule = "schedules = sequences of harness intents (P produce next event, O offer next event in the background, D consumer receives, R receive racing with cancel, C cancel, X close source, W wait for the forwarder to leave, S consumer stops, Z consumer pauses) enumerated depth-first under the model's enabledness, then a finale (complete: deliver/produce everything, close the source; or cancel: cancel and give no consumer help); requests: stream with 0..4 events of 11 payload kinds (ok, root resolver fails, nullable leaf fails, non-null leaf null, and the closure look-alikes nil, empty map, typed nil pointer, false, 0, \"\", empty slice — each also swept over every position of sequences of 1..4 events); a quarter of the stream cases (plus a sweep) subscribe with variables whose coercion is not idempotent (enum with int internal values, enum whose internal values are names of other values, custom scalar that rewrites its value, input object and lists of these, defaults, provided values, literals) and compare every delivered result with graphql.Execute of the same selection on the event with the same raw variables, cross-checked by a hand-computed expectation; a quarter of the stream cases (plus a sweep) give the single root field an alias — fresh, or the name of another subscription field (tock, paint, nosub, tick), whose Subscribe resolver hands out a decoy stream — and the results must be keyed by the alias and follow the SELECTED field's stream; a sweep puts @skip / @include / both (all truth combinations, literal and variable-driven) on the root field, alone and next to a second root field excluded by its own directives: the field is selected iff not skipped and included, otherwise exactly one error result; a sweep over documents with root-level fragment spreads / inline fragments (with and without type condition, nested, the same fragment spread several times) carrying @skip/@include, whose root field set is computed by an oracle written after the specification's CollectFields; the non-null root field strict: Tick! (a third of the plain stream cases plus a sweep) with payloads that null the whole data (resolver error, non-null leaf null, resolver panic, resolver returns nil) interleaved with succeeding events; the arguments the Subscribe resolver receives are compared with the coerced ones; a quarter of the stream cases (plus a sweep) put further operations (query, mutation, another subscription) around the selected one — first, middle, last — and name the operation, 9 one-shot failures inside the goroutine, non-channel value, parse and validation errors; entries graphql.Subscribe and ExecuteSubscription; the real run is recorded as model actions and validated by the compiled Lean model; non-trivial = the recorded run has >= 3 model actions (>= 1 for one-shot requests); distinct by (request, entry, events, intents, consumer, finale)"

	one := func(c caseT) {
		spec, okSpec := reqSpecs[c.Req]
		if !okSpec {
			run.CheckError("unknown request kind " + c.Req)
			return
		}
		if c.Dir != "" && c.Req == "stream" && c.Vars == 0 && c.Alias == "" {
			q, vars, included := dirDocument(c.Dir)
			spec.query, spec.vars = q, vars
			if !included {
				// no root field is selected: exactly one error result, then closed. Whether the request is turned
				// down by validation (buffered closed channel) or inside the goroutine is the library's choice.
				spec.model = "oneShot"
				doc, err := parser.Parse(parser.ParseParams{Source: q})
				if err != nil {
					run.CheckError("directive document does not parse: " + q)
					return
				}
				if !graphql.ValidateDocument(&schema, doc, nil).IsValid {
					spec.model = "invalid"
				}
			}
		}
		if c.Frag > 0 && c.Req == "stream" && c.Vars == 0 && c.Alias == "" && c.Dir == "" {
			if c.Frag >= len(fragDocs) {
				run.CheckError("unknown fragment document")
				return
			}
			q, vars := fragDocs[c.Frag].render(c.FragVar)
			spec.query, spec.vars = q, vars
			if rf := fragDocs[c.Frag].rootFields(); !(len(rf) == 1 && rf[0] == "tick") {
				// not exactly one root field (none, or two): exactly one error result, then closed
				spec.model = "oneShot"
				doc, err := parser.Parse(parser.ParseParams{Source: q})
				if err != nil {
					run.CheckError("fragment document does not parse: " + q)
					return
				}
				if !graphql.ValidateDocument(&schema, doc, nil).IsValid {
					spec.model = "invalid"
				}
			}
		}
		// subscriptions with variables: the reference result of every event = the same selection executed by
		// graphql.Execute on the event as root value with the same raw variables (what the property demands of
		// each delivered result), cross-checked with the hand-computed expectation
		reference := []string{}
		refFault := ""
		key := "tick" // response key of the root field
		if c.Vars > 0 {
			key = "paint"
		}
		if c.Root == "strict" && c.Vars == 0 {
			key = "strict"
		}
		if c.Alias != "" && spec.model == "stream" {
			key = c.Alias
		}
		if c.Vars > 0 && spec.model == "stream" {
			if c.Vars >= len(varCases) {
				run.CheckError("unknown variable case")
				return
			}
			vc := varCases[c.Vars]
			refOp := ""
			if c.Multi > 0 {
				refOp = "S"
			}
			doc, err := parser.Parse(parser.ParseParams{Source: multiOp(aliased(vc.query, "paint", c.Alias), c.Multi)})
			if err != nil {
				run.CheckError("variable case does not parse: " + err.Error())
				return
			}
			for _, e := range c.Events {
				ref := canonResult(graphql.Execute(graphql.ExecuteParams{Schema: schema, Root: mkEvent(e[0], e[1]), AST: doc, OperationName: refOp, Args: vc.vars, Context: context.Background()}))
				reference = append(reference, ref)
				if hand := handExpected(vc, e, key); hand != ref && refFault == "" {
					refFault = "graphql.Execute of the selection on the event with the raw variables gives " + ref + ", the independent expectation is " + hand
				}
			}
			for i := 0; i < 50; i++ {
				if _, ex := subGoroutines(); ex == 0 {
					break
				}
				runtime.Gosched()
			}
		}
		runtime.Gosched()
		baseline := runtime.NumGoroutine()
		ctx, cancel := context.WithCancel(context.Background())
		r := &runner{c: c, spec: spec, schema: schema, ctx: ctx, cancelFn: cancel, src: make(chan interface{})}
		r.obs.Trace = []string{}
		r.obs.Delivered = []string{}
		for i := 0; i < len(c.Intents) && r.obs.Fault == ""; i++ {
			in := c.Intents[i]
			if in != 'C' && in != 'S' && in != 'Z' {
				r.start()
			}
			if !r.applicable(in) {
				r.obs.Skipped += string(in)
				continue
			}
			r.intent(in)
		}
		if r.obs.Fault == "" {
			r.finale()
		}
		r.settle(baseline)

		// produce flags: a delivered context error means Execute ran under the done context
		trace := append([]string{}, r.obs.Trace...)
		for slot, d := range r.obs.Delivered {
			if spec.model == "stream" && d == ctxCanon && slot < len(r.slotProd) && r.slotProd[slot] >= 0 {
				trace[r.prodTrace[r.slotProd[slot]]] = "produceCtx"
			}
		}
		var req map[string]interface{}
		switch spec.model {
		case "stream":
			req = map[string]interface{}{"kind": "stream", "events": c.Events}
			if c.Vars > 0 {
				ev := make([][2]int, len(c.Events))
				for i := range ev {
					ev[i] = [2]int{99, i}
				}
				req["events"] = ev
			}
		case "invalid":
			req = map[string]interface{}{"kind": "invalid", "r": map[string]interface{}{"t": "opaque", "s": plainErrCanon}}
		default:
			res := map[string]interface{}{"t": "opaque", "s": plainErrCanon}
			if c.Req == "value" {
				res = map[string]interface{}{"t": "mapped", "k": cur.val.K, "n": cur.val.N}
				if (r.cancelBeforeStart || strings.Contains(c.Intents, "R")) && len(r.obs.Delivered) > 0 && r.obs.Delivered[0] == ctxCanon {
					res = map[string]interface{}{"t": "ctx"} // Execute ran under the done context (C16)
				}
			}
			req = map[string]interface{}{"kind": "oneShot", "r": res}
		}
		var m modelResp
		if err := drv.Ask(map[string]interface{}{"req": req, "acts": trace, "expect": reference, "key": key, "nonNull": c.Root == "strict" && c.Vars == 0}, &m); err != nil {
			run.CheckError(err.Error())
			r.cleanup()
			return
		}
		want := []string{}
		for _, d := range m.Delivered {
			want = append(want, recanon(d))
		}

		run.Tag("req:" + c.Req)
		run.Tag("consumer:" + c.Consumer)
		run.Tag("finale:" + c.Finale)
		run.Tag(fmt.Sprintf("events:%d", len(c.Events)))
		if spec.model == "stream" {
			for _, e := range c.Events {
				if e[0] >= kNil && c.Vars == 0 {
					run.Tag(fmt.Sprintf("payload-kind:%d", e[0]))
				}
			}
		}
		run.Tag(fmt.Sprintf("delivered:%d", len(r.obs.Delivered)))
		if r.cancelBeforeStart {
			run.Tag("cancel-before-subscribe")
		}
		if m.Cancelled {
			run.Tag("cancelled")
		} else if m.Terminal {
			run.Tag("ran-to-completion")
		}
		for _, a := range trace {
			if a == "produceCtx" {
				run.Tag("execute-saw-done-context")
				break
			}
		}
		if strings.Contains(c.Intents, "R") {
			run.Tag("deliver-racing-cancel")
		}
		if r.obs.Skipped != "" {
			run.Tag("intents-overtaken-by-race")
		}
		nontrivial := len(trace) >= 3 || (spec.model != "stream" && len(trace) >= 1)
		run.Case(hx.Canon(c), nontrivial, map[string]interface{}{"case": c, "trace": trace, "delivered": len(r.obs.Delivered)})

		replay := map[string]interface{}{"case": c, "observed": r.obs, "model_trace": trace, "model": m, "reference": reference}
		if c.Alias != "" && spec.model == "stream" {
			if c.Alias == "t" || c.Alias == "p" {
				run.Tag("alias:fresh")
			} else {
				run.Tag("alias:name-of-another-subscription-field")
			}
			replay["document"] = aliased(map[bool]string{false: streamQuery, true: varCases[c.Vars].query}[c.Vars > 0], map[bool]string{false: "tick", true: "paint"}[c.Vars > 0], c.Alias)
		}
		if c.Multi > 0 && spec.model == "stream" {
			run.Tag(fmt.Sprintf("multi-operation-document:selected-%s", []string{"", "first", "middle", "last"}[c.Multi]))
		}
		if c.Frag > 0 {
			run.Tag("root-fragments:" + map[bool]string{true: "one-root-field", false: "not-exactly-one-root-field"}[spec.model == "stream"])
			replay["document"], replay["variables"], replay["root_fields_by_the_specification"] = spec.query, spec.vars, fragDocs[c.Frag].rootFields()
		}
		if c.Root == "strict" && c.Vars == 0 {
			run.Tag("non-null-root-field")
			for _, e := range c.Events {
				if e[0] == 1 || e[0] == 3 || e[0] == kPanic || e[0] == kNilRoot {
					run.Tag("non-null-root-field:event-with-null-data")
					break
				}
			}
		}
		if c.Dir != "" {
			run.Tag("root-directives:" + map[bool]string{true: "field-selected", false: "field-excluded"}[spec.model == "stream"])
			if strings.Contains(c.Dir, ":") {
				run.Tag("root-directives:with-excluded-second-root-field")
			}
			replay["document"], replay["variables"] = spec.query, spec.vars
		}
		if c.Vars > 0 {
			run.Tag(fmt.Sprintf("variables:case-%d", c.Vars))
			replay["query"], replay["variables"] = varCases[c.Vars].query, varCases[c.Vars].vars
		}
		bad := ""
		subArgsFault := ""
		if c.Vars > 0 && spec.model == "stream" && r.started && cur.subArgs != "" {
			if want := hx.Canon(varCases[c.Vars].args); cur.subArgs != want {
				subArgsFault = "the Subscribe resolver received the arguments " + cur.subArgs + ", the coerced arguments (what Resolve receives for the same field) are " + want
			}
		}
		switch {
		case refFault != "":
			bad = refFault
		case subArgsFault != "":
			bad = subArgsFault
		case r.obs.Fault != "":
			bad = r.obs.Fault
		case !m.Valid:
			bad = fmt.Sprintf("the observed run is not a run of the model: action %d (%s) is not enabled there (model state: forwarder %s, cancelled %v, pending %d, consumer %s)", *m.FailedAt, *m.FailedAct, m.Fwd, m.Cancelled, m.Pending, m.Consumer)
		case hx.Canon(want) != hx.Canon(r.obs.Delivered):
			bad = "delivered results differ from the model's (one mapped result per source event, in order)"
			if c.Vars > 0 {
				bad += "; the subscription takes variables: each result must equal graphql.Execute of the same selection on the event with the same raw variables (see query, variables, reference in the replay)"
			}
		case m.Closed != r.obs.Closed:
			bad = fmt.Sprintf("result channel closed: observed %v, model %v", r.obs.Closed, m.Closed)
		case m.Alive:
			bad = "harness fault: the finale left the model's forwarder alive"
		case r.obs.SubAlive != 0:
			bad = fmt.Sprintf("%d goroutine(s) created by ExecuteSubscription still alive although the model's forwarder has returned", r.obs.SubAlive)
		case r.obs.Executors != 0:
			bad = fmt.Sprintf("%d executor goroutine(s) of abandoned Execute calls still alive after settle", r.obs.Executors)
		case r.obs.Goroutines > 0:
			bad = fmt.Sprintf("runtime.NumGoroutine() is %d above the baseline after settle", r.obs.Goroutines)
		case c.Finale == "complete" && !m.Cancelled && spec.model == "stream" && !r.stopped && (!m.Terminal || len(r.obs.Delivered) != len(c.Events)):
			bad = "a run to completion with a reading consumer and no cancellation did not deliver every event and close"
		}
		if bad != "" && c.Alias != "" && spec.model == "stream" {
			bad += fmt.Sprintf("; the root field carries the alias %q (document in the replay): the subscription must follow the stream of the SELECTED field %q, whose Subscribe resolver alone hands out the source channel", c.Alias, cur.selected)
		}
		if bad != "" && c.Multi > 0 && spec.model == "stream" {
			bad += "; the document holds several operations and the request names operation \"S\": subscribing AND every per-event execution must run operation S"
		}
		if bad != "" && c.Frag > 0 {
			bad += fmt.Sprintf("; document %s variables %s: by the specification's CollectFields the root fields are %v", spec.query, hx.Canon(spec.vars), fragDocs[c.Frag].rootFields())
		}
		if bad != "" && c.Root == "strict" {
			bad += "; the root field is non-null (strict: Tick!): an event whose payload makes it fail yields {data: null, errors} and every later event must still be delivered"
		}
		if bad != "" && c.Dir != "" {
			bad += fmt.Sprintf("; document %s variables %s: a root field is selected iff it is not skipped and it is included — here `tick` is %s", spec.query, hx.Canon(spec.vars), map[bool]string{true: "selected (its events must be delivered)", false: "excluded (exactly one error result, no subscription)"}[spec.model == "stream"])
		}
		if bad != "" {
			if strings.HasPrefix(bad, "harness fault") {
				run.CheckError(bad + " " + hx.Canon(replay))
			} else {
				run.Violation(bad, replay, false)
			}
			r.cleanup()
			return
		}
		cancel()
	}

	if run.ReplayIn != "" {
		var rp struct {
			Case caseT `json:"case"`
		}
		if err := hx.LoadReplay(run.ReplayIn, &rp); err != nil {
			run.CheckError(err.Error())
		} else {
			one(rp.Case)
		}
		run.Finish()
		return
	}

	// ---- enumeration
	maxLen := run.N(8, 14)
	maxEvents := run.N(4, 5)
	budget := run.N(5000, 300000) // cases; the enumeration is subsampled deterministically when larger
	type mirror struct {
		next, n                                             int
		holding, cancelled, srcClosed, done, offer, stopped bool
		paused                                              bool
	}
	var all []caseT
	var dfs func(m mirror, sofar string, consumer string, emit func(string, mirror))
	dfs = func(m mirror, sofar string, consumer string, emit func(string, mirror)) {
		emit(sofar, m)
		if len(sofar) >= maxLen {
			return
		}
		try := func(in byte, f func(*mirror)) {
			mm := m
			f(&mm)
			dfs(mm, sofar+string(in), consumer, emit)
		}
		if !m.holding && !m.done && m.next < m.n && !m.srcClosed && !m.offer {
			try('P', func(x *mirror) {
				if x.cancelled {
					x.done = true // the idle forwarder leaves (the race is practically never won)
					return
				}
				x.next++
				if consumer != "prompt" {
					x.holding = true
				}
			})
		}
		if consumer != "prompt" {
			if m.holding && !m.done && m.next < m.n && !m.offer && !m.cancelled {
				try('O', func(x *mirror) { x.offer = true })
			}
			if m.holding && !m.stopped {
				try('D', func(x *mirror) {
					if x.cancelled {
						x.done, x.holding = true, false
						return
					}
					x.holding = false
					if x.offer {
						x.offer, x.holding = false, true
						x.next++
					}
				})
				if !m.cancelled {
					try('R', func(x *mirror) { x.cancelled, x.holding, x.done, x.offer = true, false, true, false })
				}
			}
		}
		if !m.cancelled {
			try('C', func(x *mirror) { x.cancelled = true })
		}
		if !m.srcClosed && m.next == m.n && !m.offer {
			try('X', func(x *mirror) { x.srcClosed = true })
		}
		if !m.done && (m.cancelled || (m.srcClosed && !m.holding)) {
			try('W', func(x *mirror) { x.done, x.holding = true, false })
		}
		if consumer == "stopped" && !m.stopped && !m.done {
			try('S', func(x *mirror) { x.stopped = true })
		}
		if consumer == "slow" && !m.stopped && !m.paused && !m.done && m.holding {
			try('Z', func(x *mirror) { x.paused = true })
		}
	}
	for n := 0; n <= maxEvents; n++ {
		for _, consumer := range []string{"prompt", "slow", "stopped"} {
			dfs(mirror{n: n}, "", consumer, func(s string, m mirror) {
				if consumer == "stopped" && !strings.Contains(s, "S") && len(s) < maxLen {
					return // the stopping consumer must stop somewhere (unless the schedule is full: finale cancels anyway)
				}
				for _, fin := range []string{"complete", "cancel"} {
					if fin == "complete" && (m.cancelled || m.stopped || consumer == "stopped") {
						continue
					}
					ev := make([][2]int, n)
					all = append(all, caseT{Req: "stream", Events: ev, Intents: s, Consumer: consumer, Finale: fin})
				}
			})
		}
	}
	// one-shot and invalid requests: every schedule over D, R, C, W, S (length <= 3)
	var oneShots []caseT
	for _, rk := range []string{"parseErr", "validationErr", "subErr", "subNil", "subPanicErr", "subPanicStr", "noSubscribeFn", "unknownOp", "emptySel", "missingVar", "value"} {
		for _, s := range []string{"", "D", "C", "CD", "DC", "R", "S", "SC", "CS", "CW", "SCW", "CWD", "DD", "ZC", "CDW", "DW"} {
			for _, fin := range []string{"complete", "cancel"} {
				for _, entry := range []string{"subscribe", "execute"} {
					if entry == "execute" && (rk == "parseErr" || rk == "validationErr") {
						continue
					}
					cons := "slow"
					if strings.Contains(s, "S") {
						cons = "stopped"
					}
					oneShots = append(oneShots, caseT{Req: rk, Entry: entry, Events: [][2]int{{0, 5}}, Intents: s, Consumer: cons, Finale: fin})
				}
			}
		}
	}
	total := len(all)
	stride := 1
	if total > budget {
		stride = (total + budget - 1) / budget
	}
	run.Res.Extra["stream_schedules_enumerated"] = total
	run.Res.Extra["stream_schedule_stride"] = stride
	run.Res.Extra["max_intents"] = maxLen
	run.Res.Exhaustive = false
	idx := 0
	for _, c := range oneShots {
		if run.TooManyViolations() {
			break
		}
		one(c)
		idx++
	}
	// every closure-lookalike payload (and the zero evT) at every position of sequences of 1..4 events, run to
	// completion with a prompt and with a slow consumer, and cancelled right after the special event was delivered
	for n := 1; n <= 4 && !run.TooManyViolations(); n++ {
		for pos := 0; pos < n; pos++ {
			for kind := 0; kind < kindCount; kind++ {
				if kind >= 1 && kind <= 3 {
					continue
				}
				for _, v := range []struct{ consumer, intents, finale string }{
					{"prompt", "", "complete"},
					{"slow", strings.Repeat("PD", pos+1), "complete"},
					{"slow", strings.Repeat("PD", pos+1), "cancel"},
					{"stopped", strings.Repeat("PD", pos) + "PS", "cancel"},
				} {
					for _, entry := range []string{"subscribe", "execute"} {
						ev := make([][2]int, n)
						for k := range ev {
							ev[k] = [2]int{0, 10 + k}
						}
						ev[pos] = [2]int{kind, 0}
						one(caseT{Req: "stream", Entry: entry, Events: ev, Intents: v.intents, Consumer: v.consumer, Finale: v.finale})
						run.Tag("closure-lookalike-payload-sweep")
					}
				}
			}
		}
	}
	// @skip / @include on the root field: each alone and both, all truth combinations, literal and variable-driven,
	// alone and next to a second root field that its own directives exclude
	for _, comp := range []string{"", "b:", "a:"} {
		for _, d := range []string{"sT", "sF", "iT", "iF", "sTiT", "sTiF", "sFiT", "sFiF", "iTsF", "iFsF"} {
			for _, byVar := range []string{"", "v"} {
				code := comp + d + byVar
				_, _, included := dirDocument(code)
				pats := []struct{ consumer, intents, finale string }{{"slow", "D", "complete"}, {"slow", "C", "cancel"}, {"stopped", "S", "cancel"}}
				if included {
					pats = []struct{ consumer, intents, finale string }{{"prompt", "", "complete"}, {"slow", "PDP", "cancel"}, {"slow", "PDPDX", "complete"}}
				}
				for _, v := range pats {
					for _, entry := range []string{"subscribe", "execute"} {
						if run.TooManyViolations() {
							break
						}
						one(caseT{Req: "stream", Entry: entry, Events: [][2]int{{0, 41}, {2, 42}}, Intents: v.intents, Consumer: v.consumer, Finale: v.finale, Dir: code})
						run.Tag("root-directives-sweep")
					}
				}
			}
		}
	}
	// documents with several operations (queries, mutations, other subscriptions around the selected one, which
	// stands first / in the middle / last) and an operation name
	for multi := 1; multi <= 3; multi++ {
		for _, doc := range []caseT{{}, {Vars: 1}, {Vars: 7}, {Alias: "t"}, {Root: "strict"}, {Frag: 2}, {Dir: "sFiTv"}} {
			for _, v := range []struct{ consumer, intents, finale string }{{"prompt", "", "complete"}, {"slow", "PDP", "cancel"}, {"slow", "PDPDX", "complete"}} {
				for _, entry := range []string{"subscribe", "execute"} {
					if run.TooManyViolations() {
						break
					}
					c := doc
					c.Req, c.Entry, c.Events, c.Intents, c.Consumer, c.Finale, c.Multi = "stream", entry, [][2]int{{0, 71}, {1, 72}, {0, 73}}, v.intents, v.consumer, v.finale, multi
					one(c)
					run.Tag("multi-operation-sweep")
				}
			}
		}
	}
	// fragment spreads and inline fragments at the root, carrying @skip / @include, the same fragment spread several
	// times with different conditions, nested fragments; literal and variable-driven
	for fi := 1; fi < len(fragDocs); fi++ {
		for _, byVar := range []bool{false, true} {
			rf := fragDocs[fi].rootFields()
			pats := []struct{ consumer, intents, finale string }{{"slow", "D", "complete"}, {"slow", "C", "cancel"}, {"stopped", "S", "cancel"}}
			if len(rf) == 1 && rf[0] == "tick" {
				pats = []struct{ consumer, intents, finale string }{{"prompt", "", "complete"}, {"slow", "PDP", "cancel"}, {"slow", "PDPDX", "complete"}}
			}
			for _, v := range pats {
				for _, entry := range []string{"subscribe", "execute"} {
					if run.TooManyViolations() {
						break
					}
					one(caseT{Req: "stream", Entry: entry, Events: [][2]int{{0, 51}, {1, 52}}, Intents: v.intents, Consumer: v.consumer, Finale: v.finale, Frag: fi, FragVar: byVar})
					run.Tag("root-fragments-sweep")
				}
			}
		}
	}
	// non-null root field: events whose payload nulls the whole data, interleaved with succeeding events
	for _, bad := range []int{1, 3, kPanic, kNilRoot} {
		for _, shape := range [][]int{{0, -1, 0, -1, 0}, {-1, 0, 0}, {0, 0, -1}, {-1, -1, 0, -1}, {-1}} {
			for _, v := range []struct{ consumer, intents, finale string }{{"prompt", "", "complete"}, {"slow", "PDPD", "complete"}, {"slow", "PDPDP", "cancel"}} {
				for _, entry := range []string{"subscribe", "execute"} {
					for _, root := range []string{"strict", ""} {
						if run.TooManyViolations() {
							break
						}
						ev := make([][2]int, len(shape))
						for k, x := range shape {
							ev[k] = [2]int{0, 60 + k}
							if x < 0 {
								ev[k][0] = bad
							}
						}
						one(caseT{Req: "stream", Entry: entry, Events: ev, Intents: v.intents, Consumer: v.consumer, Finale: v.finale, Root: root})
						run.Tag("failing-payload-sweep")
					}
				}
			}
		}
	}
	// aliased root fields: fresh aliases and aliases that are the name of ANOTHER subscription field (with and
	// without arguments / variables); the delivered sequence must be the mapped prefix of the SELECTED field's stream
	for _, av := range []struct {
		vars  int
		alias string
	}{{0, "t"}, {0, "tock"}, {0, "paint"}, {0, "nosub"}, {1, "p"}, {1, "tick"}, {1, "tock"}, {7, "p"}, {7, "tock"}, {9, "tick"}, {10, "nosub"}} {
		for n := 0; n <= 3 && !run.TooManyViolations(); n++ {
			for _, v := range []struct{ consumer, intents, finale string }{
				{"prompt", "", "complete"},
				{"slow", strings.Repeat("PD", n), "complete"},
				{"slow", "PD", "cancel"},
				{"stopped", "PS", "cancel"},
			} {
				for _, entry := range []string{"subscribe", "execute"} {
					ev := make([][2]int, n)
					for k := range ev {
						ev[k] = [2]int{0, 30 + k}
					}
					if n == 3 {
						ev[2][0] = 1
					}
					one(caseT{Req: "stream", Entry: entry, Events: ev, Intents: v.intents, Consumer: v.consumer, Finale: v.finale, Vars: av.vars, Alias: av.alias})
					run.Tag("alias-sweep")
				}
			}
		}
	}
	// every variable case with 1..3 events, run to completion (prompt / slow consumer), cancelled mid-stream, and
	// with a consumer that stops
	for vi := 1; vi < len(varCases) && !run.TooManyViolations(); vi++ {
		for n := 1; n <= 3; n++ {
			for _, v := range []struct{ consumer, intents, finale string }{
				{"prompt", "", "complete"},
				{"slow", strings.Repeat("PD", n), "complete"},
				{"slow", "PD", "cancel"},
				{"stopped", "PS", "cancel"},
			} {
				for _, entry := range []string{"subscribe", "execute"} {
					ev := make([][2]int, n)
					for k := range ev {
						ev[k] = [2]int{0, 20 + k}
					}
					if n == 3 {
						ev[1][0] = 1
					}
					one(caseT{Req: "stream", Entry: entry, Events: ev, Intents: v.intents, Consumer: v.consumer, Finale: v.finale, Vars: vi})
					run.Tag("variables-sweep")
				}
			}
		}
	}
	off := int(run.Seed) % stride
	entries := []string{"subscribe", "execute"}
	passes := [][2]int{{procs, stride}}
	if run.Thorough() {
		passes = append(passes, [2]int{4, stride * 4})
	}
	for _, pass := range passes {
		runtime.GOMAXPROCS(pass[0])
		stride := pass[1]
		run.Tag(fmt.Sprintf("pass:GOMAXPROCS=%d", pass[0]))
		for i := off; i < total && !run.TooManyViolations(); i += stride {
			for ei, entry := range entries {
				if 2*total > budget && ei != (i/stride+int(run.Seed))%2 {
					continue // budget allows one entry point per schedule only: alternate
				}
				c := all[i]
				rg := hx.Fork(run.Seed, 2*i+ei)
				c.Entry = entry
				c.Flip = rg.Chance(1, 2)
				c.Events = make([][2]int, len(all[i].Events))
				for k := range c.Events {
					kind := 0
					if rg.Chance(1, 2) {
						kind = rg.Range(1, kindCount-1)
					}
					c.Events[k] = [2]int{kind, rg.Range(0, 99)}
				}
				if rg.Chance(1, 4) { // a quarter of the schedules alias the root field
					c.Alias = []string{"t", "tock", "paint", "nosub", "tick"}[rg.Intn(5)]
				}
				if rg.Chance(1, 4) { // a quarter of the schedules run a subscription that takes variables
					c.Vars = 1 + rg.Intn(len(varCases)-1)
					for k := range c.Events {
						c.Events[k][0] = rg.Intn(2) * rg.Intn(2) // kind 0, sometimes 1
					}
				}
				if (c.Vars > 0 && c.Alias == "paint") || (c.Vars == 0 && c.Alias == "tick") {
					c.Alias = "" // an alias equal to the field's own name is no alias
				}
				if rg.Chance(1, 4) {
					c.Multi = 1 + rg.Intn(3) // several operations in the document, the request names S
				}
				if c.Vars == 0 && c.Alias == "" && rg.Chance(1, 3) {
					c.Root = "strict" // the non-null root field
				}
				one(c)
				idx++
			}
		}
	}
	run.Finish()
}
