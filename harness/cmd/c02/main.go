// C02 harness: validation accepts exactly the documents that satisfy every rule.
//
// Per case: a generated schema (gen.SchemaGen → gq.Build), a document = a VALID document from the schema-directed
// generator (gen.ValidDoc) or that document after one to three typed mutations (gen.Mutate), parsed by the real
// parser. The real side runs graphql.ValidateDocument with EACH of the 24 exported rules alone, with
// graphql.SpecifiedRules, and graphql.Do. The Lean driver (drv_c02) evaluates, per modelled rule, M (the rule as
// coded) and S (the rule as the spec edition states it).
//
// Compared (observables the property determines; messages dropped):
//   - per modelled rule: the multiset of errors, each error = the list of [start,end] of the nodes handed to
//     reportError, real == M exactly (so "reported ⇔ violated" and "located at the offending nodes" for M);
//   - S vs M: equal except on the recorded deviation classes, which are counted as findings (class per rule and
//     direction) — they fail the check until the lead lists or repairs them;
//   - error Locations (line, column) of every real error == positions of its nodes;
//   - all rules together == union of the single-rule runs (real code);
//   - graphql.Do: invalid ⇒ Data == nil, same errors, execution never starts; valid ⇒ execution starts;
//   - the model's type map, introspection table and specified directives == the real schema's.
package main

import (
	"context"
	"encoding/json"
	"fmt"
	"os"
	"reflect"
	"runtime/debug"
	"runtime/pprof"
	"sort"
	"strings"
	"time"

	"github.com/graphql-go/graphql"
	"github.com/graphql-go/graphql/gqlerrors"
	"github.com/graphql-go/graphql/language/ast"
	"github.com/graphql-go/graphql/language/parser"
	"github.com/graphql-go/graphql/language/source"

	"verif/harness/astjson"
	"verif/harness/gen"
	"verif/harness/gq"
	"verif/harness/hx"
)

var rules = []struct {
	Name string
	Fn   graphql.ValidationRuleFn
}{
	{"ArgumentsOfCorrectType", graphql.ArgumentsOfCorrectTypeRule},
	{"DefaultValuesOfCorrectType", graphql.DefaultValuesOfCorrectTypeRule},
	{"FieldsOnCorrectType", graphql.FieldsOnCorrectTypeRule},
	{"FragmentsOnCompositeTypes", graphql.FragmentsOnCompositeTypesRule},
	{"KnownArgumentNames", graphql.KnownArgumentNamesRule},
	{"KnownDirectives", graphql.KnownDirectivesRule},
	{"KnownFragmentNames", graphql.KnownFragmentNamesRule},
	{"KnownTypeNames", graphql.KnownTypeNamesRule},
	{"LoneAnonymousOperation", graphql.LoneAnonymousOperationRule},
	{"NoFragmentCycles", graphql.NoFragmentCyclesRule},
	{"NoUndefinedVariables", graphql.NoUndefinedVariablesRule},
	{"NoUnusedFragments", graphql.NoUnusedFragmentsRule},
	{"NoUnusedVariables", graphql.NoUnusedVariablesRule},
	{"OverlappingFieldsCanBeMerged", graphql.OverlappingFieldsCanBeMergedRule},
	{"PossibleFragmentSpreads", graphql.PossibleFragmentSpreadsRule},
	{"ProvidedNonNullArguments", graphql.ProvidedNonNullArgumentsRule},
	{"ScalarLeafs", graphql.ScalarLeafsRule},
	{"UniqueArgumentNames", graphql.UniqueArgumentNamesRule},
	{"UniqueFragmentNames", graphql.UniqueFragmentNamesRule},
	{"UniqueInputFieldNames", graphql.UniqueInputFieldNamesRule},
	{"UniqueOperationNames", graphql.UniqueOperationNamesRule},
	{"UniqueVariableNames", graphql.UniqueVariableNamesRule},
	{"VariablesAreInputTypes", graphql.VariablesAreInputTypesRule},
	{"VariablesInAllowedPosition", graphql.VariablesInAllowedPositionRule},
}

type errT = [][2]int // the nodes of one error

type ruleResp struct {
	Violated  bool   `json:"violated"`
	Locs      errT   `json:"locs"`
	S         []errT `json:"S"`
	M         []errT `json:"M"`
	Mviolated bool   `json:"Mviolated"`
}

type modelResp struct {
	Rules           map[string]ruleResp `json:"rules"`
	TypeMap         []string            `json:"typeMap"`
	UniqueFragNames bool                `json:"uniqueFragNames"`
	UniqueArgNames  bool                `json:"uniqueArgNames"`
	Validate        []errT              `json:"validate"` // the combined model `validate` (all 24 rules as coded)
	Side            struct {
		SchemaInputsOk    bool `json:"schemaInputsOk"`
		AbstractInhabited bool `json:"abstractInhabited"`
		SideB             bool `json:"sideB"`
	} `json:"side"`
}

// rules of worker c02b whose S is defined only for documents with unique fragment names
var graphRules = map[string]bool{"NoFragmentCycles": true, "NoUnusedFragments": true, "NoUndefinedVariables": true,
	"NoUnusedVariables": true, "VariablesInAllowedPosition": true, "OverlappingFieldsCanBeMerged": true}

type caseT struct {
	Schema    *gq.SchemaDesc                    `json:"schema"`
	Doc       string                            `json:"doc"`
	Mutations []string                          `json:"mutations"`
	Variables map[string]map[string]interface{} `json:"variables,omitempty"`
	OpName    string                            `json:"opName"`
}

func canonErrs(es []errT) []string {
	out := make([]string, 0, len(es))
	for _, e := range es {
		out = append(out, hx.Canon(e))
	}
	sort.Strings(out)
	return out
}

// nodesOf renders the nodes of a real validation error; ok=false when the error carries no nodes.
func nodesOf(e gqlerrors.FormattedError) (errT, []ast.Node, bool) {
	oe, ok := e.OriginalError().(*gqlerrors.Error)
	if !ok || oe == nil {
		return nil, nil, false
	}
	out := errT{}
	for _, n := range oe.Nodes {
		if n == nil || reflect.ValueOf(n).IsNil() || n.GetLoc() == nil {
			out = append(out, [2]int{-1, -1})
			continue
		}
		out = append(out, [2]int{n.GetLoc().Start, n.GetLoc().End})
	}
	return out, oe.Nodes, true
}

type realRun struct {
	Errs     []errT
	Messages []string
	Panic    string
	LocBad   string
}

func validateReal(schema *graphql.Schema, doc *ast.Document, src *source.Source, fns []graphql.ValidationRuleFn) (rr realRun) {
	defer func() {
		if r := recover(); r != nil {
			rr.Panic = fmt.Sprint(r)
		}
	}()
	res := graphql.ValidateDocument(schema, doc, fns)
	if res.IsValid != (len(res.Errors) == 0) {
		rr.LocBad = "IsValid disagrees with len(Errors)"
	}
	for _, e := range res.Errors {
		ns, _, ok := nodesOf(e)
		if !ok {
			rr.LocBad = "error without nodes: " + e.Message
			continue
		}
		rr.Errs = append(rr.Errs, ns)
		rr.Messages = append(rr.Messages, e.Message)
		// Locations (the public observable) must be the line/column of the nodes' starts
		if len(e.Locations) != len(ns) {
			rr.LocBad = fmt.Sprintf("%d locations for %d nodes: %s", len(e.Locations), len(ns), e.Message)
			continue
		}
		for i, n := range ns {
			if n[0] < 0 {
				continue
			}
			wl, wc := lineCol(src.Body, n[0])
			if e.Locations[i].Line != wl || e.Locations[i].Column != wc {
				rr.LocBad = fmt.Sprintf("location %v is not the position of node %v: %s", e.Locations[i], n, e.Message)
			}
		}
	}
	return rr
}

// lineCol: 1-based line and (byte) column of a byte offset; line terminators \n, \r, \r\n.
func lineCol(body []byte, pos int) (int, int) {
	line, start := 1, 0
	for i := 0; i < pos && i < len(body); i++ {
		if body[i] == '\n' || body[i] == '\r' {
			if body[i] == '\r' && i+1 < len(body) && body[i+1] == '\n' {
				i++
			}
			line++
			start = i + 1
		}
	}
	return line, pos - start + 1
}

// execExt records whether execution started.
type execExt struct{ started *bool }

func (x execExt) Init(ctx context.Context, p *graphql.Params) context.Context { return ctx }
func (x execExt) Name() string                                                { return "c02" }
func (x execExt) ParseDidStart(ctx context.Context) (context.Context, graphql.ParseFinishFunc) {
	return ctx, func(error) {}
}
func (x execExt) ValidationDidStart(ctx context.Context) (context.Context, graphql.ValidationFinishFunc) {
	return ctx, func([]gqlerrors.FormattedError) {}
}
func (x execExt) ExecutionDidStart(ctx context.Context) (context.Context, graphql.ExecutionFinishFunc) {
	*x.started = true
	return ctx, func(*graphql.Result) {}
}
func (x execExt) ResolveFieldDidStart(ctx context.Context, i *graphql.ResolveInfo) (context.Context, graphql.ResolveFieldFinishFunc) {
	return ctx, func(interface{}, error) {}
}
func (x execExt) HasResult() bool                       { return false }
func (x execExt) GetResult(context.Context) interface{} { return nil }

var baseRejected int
var drvTime, buildTime, valTime, doTime time.Duration

var hooks = gq.Hooks{
	IsTypeOf: func(string) graphql.IsTypeOfFn { return func(graphql.IsTypeOfParams) bool { return true } },
	ResolveType: func(string, map[string]*graphql.Object) graphql.ResolveTypeFn {
		return func(graphql.ResolveTypeParams) *graphql.Object { return nil }
	},
}

type verdict struct {
	Real     map[string][]string `json:"real"`  // rule → canonical errors
	Model    map[string][]string `json:"model"` // rule → canonical errors of M
	Spec     map[string][]string `json:"spec"`  // rule → canonical errors of S
	All      []string            `json:"all"`
	Problems []string            `json:"problems"`
}

func main() {
	run := hx.Begin("C02")
	debug.SetGCPercent(800) // the visitor allocates heavily; fewer collections, same results
	if pf := os.Getenv("C02_PPROF"); pf != "" {
		f, _ := os.Create(pf)
		pprof.StartCPUProfile(f)
		defer pprof.StopCPUProfile()
	}
	drv, err := hx.StartDriver(run.DriverBin)
	if err != nil {
		run.CheckError("cannot start driver: " + err.Error())
		run.Finish()
		return
	}
	defer drv.Close()
	run.Res.Rule = "schemas from gen.SchemaGen (sizes 1..5); documents = gen.ValidDoc (schema-directed, valid by construction) and the same document after 1-3 typed mutations (gen.Mutate, 46 kinds aimed at the 24 rules); parsed by the real parser; non-trivial = parses and has >= 3 selections; distinct by (schema, document text)"

	if msg := checkTables(drv); msg != "" {
		run.Violation("model tables differ from the library: "+msg, map[string]string{"tables": msg}, true)
	}

	modelled := map[string]bool{}
	unmodelled := map[string]bool{}

	one := func(c caseT) {
		tb := time.Now()
		b, err := gq.Build(c.Schema, hooks)
		buildTime += time.Since(tb)
		if err != nil {
			run.CheckError("schema does not build: " + err.Error())
			return
		}
		src := source.NewSource(&source.Source{Body: []byte(c.Doc), Name: "GraphQL request"})
		doc, perr := parser.Parse(parser.ParseParams{Source: src})
		if perr != nil {
			run.Tag("parse-rejected")
			run.CheckError("generated document does not parse: " + perr.Error() + " :: " + c.Doc)
			return
		}
		v := verdict{Real: map[string][]string{}, Model: map[string][]string{}, Spec: map[string][]string{}}
		problem := func(f string, a ...interface{}) { v.Problems = append(v.Problems, fmt.Sprintf(f, a...)) }

		// real: each rule alone, then all together
		union := []string{}
		for _, r := range rules {
			rr := validateReal(&b.Schema, doc, src, []graphql.ValidationRuleFn{r.Fn})
			if rr.Panic != "" {
				problem("rule %s panicked: %s", r.Name, rr.Panic)
			}
			if rr.LocBad != "" {
				problem("rule %s: %s", r.Name, rr.LocBad)
			}
			v.Real[r.Name] = canonErrs(rr.Errs)
			for i, e := range rr.Errs {
				union = append(union, rr.Messages[i]+" "+hx.Canon(e))
			}
		}
		all := validateReal(&b.Schema, doc, src, graphql.SpecifiedRules)
		if all.Panic != "" {
			problem("SpecifiedRules panicked: %s", all.Panic)
		}
		for i, e := range all.Errs {
			v.All = append(v.All, all.Messages[i]+" "+hx.Canon(e))
		}
		sort.Strings(v.All)
		sort.Strings(union)
		if strings.Join(v.All, "\n") != strings.Join(union, "\n") {
			problem("all rules together differ from the union of the single-rule runs")
		}
		realValid := len(all.Errs) == 0 && all.Panic == ""

		valTime += time.Since(tb)
		td := time.Now()
		defer func() { _ = td }()
		// graphql.Do
		started := false
		sc := b.Schema
		sc.AddExtensions(execExt{&started})
		vars := map[string]interface{}{}
		for k, x := range c.Variables[c.OpName] {
			vars[k] = gq.FromWire(x)
		}
		var res *graphql.Result
		func() {
			defer func() {
				if r := recover(); r != nil {
					problem("graphql.Do panicked: %v", r)
				}
			}()
			done := make(chan struct{})
			go func() {
				defer close(done)
				defer func() {
					if r := recover(); r != nil {
						problem("graphql.Do panicked: %v", r)
					}
				}()
				res = graphql.Do(graphql.Params{Schema: sc, RequestString: c.Doc, OperationName: c.OpName, VariableValues: vars})
			}()
			select {
			case <-done:
			case <-time.After(5 * time.Second):
				problem("graphql.Do did not return within 5s")
			}
		}()
		if res != nil {
			if realValid {
				if !started {
					// the one legitimate way: the operation's kind has no root type in the schema (an execution-time
					// error raised before ExecutionDidStart; no validation rule of this edition covers it)
					noRoot := len(res.Errors) == 1 && strings.HasPrefix(res.Errors[0].Message, "Schema is not configured for") &&
						(c.Schema.Mutation == nil || c.Schema.Subscription == nil)
					if noRoot {
						run.Tag("do:operation-kind-without-root-type")
					} else {
						problem("valid document, but graphql.Do did not start executing (errors %v)", res.Errors)
					}
				}
			} else {
				if started || res.Data != nil || len(res.Errors) == 0 {
					problem("invalid document, but graphql.Do started=%v data=%v errors=%d", started, res.Data, len(res.Errors))
				}
				msgs, want := []string{}, []string{}
				for _, e := range res.Errors {
					msgs = append(msgs, e.Message)
				}
				want = append(want, all.Messages...)
				if hx.Canon(msgs) != hx.Canon(want) {
					problem("graphql.Do errors differ from ValidateDocument's")
				}
			}
		}

		doTime += time.Since(td)
		// model
		var resp modelResp
		t0 := time.Now()
		defer func() { drvTime += time.Since(t0) }()
		if err := drv.Ask(map[string]interface{}{"schema": c.Schema, "doc": astjson.Document(doc)}, &resp); err != nil {
			run.CheckError("driver: " + err.Error())
			return
		}
		// type map
		realTM := []string{}
		for n := range b.Schema.TypeMap() {
			realTM = append(realTM, n)
		}
		sort.Strings(realTM)
		modelTM := append([]string{}, resp.TypeMap...)
		sort.Strings(modelTM)
		if hx.Canon(realTM) != hx.Canon(modelTM) {
			problem("type map: real %v model %v", realTM, modelTM)
		}
		// the combined model `validate` (Props/C02All.all_rules_iff) against the real SpecifiedRules run
		if hx.Canon(canonErrs(resp.Validate)) != hx.Canon(canonErrs(all.Errs)) {
			problem("SpecifiedRules: real %v  model validate %v", canonErrs(all.Errs), canonErrs(resp.Validate))
		}
		// decidable side conditions of all_rules_iff
		if !resp.Side.SchemaInputsOk {
			problem("side condition schemaInputsOkB is false for a schema the library built")
		}
		switch {
		case !resp.Side.AbstractInhabited:
			run.Tag("all_rules_iff-side:abstract-type-without-possible-type")
		case !resp.Side.SideB:
			run.Tag("all_rules_iff-side:overlap-sideB-false")
		default:
			run.Tag("all_rules_iff-side-conditions-hold")
			if realValid {
				run.Tag("all_rules_iff-applies-to-accepted-document")
			}
		}
		modelValid := true
		for _, r := range rules {
			mr, ok := resp.Rules[r.Name]
			if !ok {
				unmodelled[r.Name] = true
				if len(v.Real[r.Name]) > 0 {
					run.Tag("unmodelled-rule-reports:" + r.Name)
				}
				continue
			}
			modelled[r.Name] = true
			v.Model[r.Name] = canonErrs(mr.M)
			v.Spec[r.Name] = canonErrs(mr.S)
			if hx.Canon(v.Model[r.Name]) != hx.Canon(v.Real[r.Name]) {
				problem("rule %s: real %v  model(M) %v", r.Name, v.Real[r.Name], v.Model[r.Name])
			} else if graphRules[r.Name] && !resp.UniqueFragNames {
				run.Tag("graph-rule-S-undefined(duplicate fragment names)")
			} else if r.Name == "OverlappingFieldsCanBeMerged" && !resp.UniqueArgNames {
				run.Tag("overlap-S-undefined(duplicate argument names)")
			} else if hx.Canon(v.Spec[r.Name]) != hx.Canon(v.Model[r.Name]) {
				// the code (= M) deviates from the rule as specified: a finding class per rule and direction.
				// For c02b's rules S lists offending nodes, M the nodes Go reports (a superset for conflicts with
				// sub-fields, cycles ...): there only "reported ⇔ violated" and S-nodes ⊆ reported nodes are demanded.
				sub := func(a, b []string) bool {
					m := map[string]int{}
					for _, x := range b {
						m[x]++
					}
					for _, x := range a {
						if m[x] == 0 {
							return false
						}
						m[x]--
					}
					return true
				}
				dir := ""
				if graphRules[r.Name] {
					switch {
					case len(v.Spec[r.Name]) == 0:
						dir = "spurious"
					case len(v.Model[r.Name]) == 0:
						dir = "missed"
					default:
						have := map[[2]int]bool{}
						for _, e := range mr.M {
							for _, l := range e {
								have[l] = true
							}
						}
						for _, l := range mr.Locs {
							if !have[l] {
								dir = "locations"
							}
						}
					}
				} else {
					switch {
					case sub(v.Spec[r.Name], v.Model[r.Name]):
						dir = "spurious" // reports an error the rule as specified does not have
					case sub(v.Model[r.Name], v.Spec[r.Name]):
						dir = "missed" // rule violated at a node the code does not report
					default:
						dir = "differs"
					}
				}
				if dir == "locations" {
					run.Tag("graph-rule-S-node-not-among-reported:" + r.Name) // compared in detail by harness c02overlap
				} else if dir != "" {
					class := r.Name + "-" + dir
					run.KnownFinding(class, fmt.Sprintf("%s: code reports %v, rule as specified %v on %q", r.Name, v.Model[r.Name], v.Spec[r.Name], c.Doc))
					run.Tag("finding:" + class)
				}
			}
			if len(v.Real[r.Name]) > 0 {
				run.Tag("reports:" + r.Name)
			}
			if mr.Violated {
				modelValid = false
			}
		}
		if len(unmodelled) == 0 && modelValid != realValid {
			run.Tag("S-valid-differs-from-real")
		}
		if realValid {
			run.Tag("valid")
		} else {
			run.Tag("invalid")
		}
		for _, m := range c.Mutations {
			run.Tag("mutation:" + m)
		}
		if len(c.Mutations) == 0 {
			run.Tag("base-document")
			if !realValid {
				run.Tag("base-document-rejected")
				for _, r := range rules {
					if len(v.Real[r.Name]) > 0 {
						run.Tag("base-document-rejected-by:" + r.Name)
					}
				}
				if baseRejected < 5 {
					baseRejected++
					run.Res.Extra[fmt.Sprintf("base_rejected_%d", baseRejected)] = map[string]interface{}{"doc": c.Doc, "errors": all.Messages, "schema": c.Schema}
				}
			}
		}
		nSel := strings.Count(c.Doc, "{")
		run.Case(hx.Canon(c.Schema)+"\x00"+c.Doc, nSel >= 2 && strings.Count(c.Doc, " ") >= 6, map[string]interface{}{"doc": c.Doc, "mutations": c.Mutations, "valid": realValid})
		if len(v.Problems) > 0 {
			run.Violation(strings.Join(v.Problems, " ; "), map[string]interface{}{"case": c, "verdict": v}, false)
		}
	}

	if run.ReplayIn != "" {
		var rp struct {
			Case caseT `json:"case"`
		}
		if err := hx.LoadReplay(run.ReplayIn, &rp); err != nil {
			run.CheckError("cannot load replay: " + err.Error())
		} else if rp.Case.Schema == nil {
			run.Tag("replay-file-of-another-unit") // e.g. a replay written by harness c02overlap
		} else {
			one(rp.Case)
		}
		finish(run, modelled, unmodelled)
		return
	}

	// fixed regression documents (the findings of this property and the D-02a shape)
	for _, c := range fixedCases() {
		one(c)
	}

	n := run.N(500, 12000)
	kinds := gen.MutationKindNames()
	for i := 0; i < n && !run.TooManyViolations(); i++ {
		r := hx.Fork(run.Seed, i)
		sd, text, meta := mkCase(r, i)
		opName := ""
		if len(meta.Doc.Ops) > 0 {
			opName = meta.Doc.Ops[0].Name
		}
		for f, k := range meta.Features {
			if k > 0 {
				run.Tag("feature:" + f)
			}
		}
		one(caseT{Schema: sd, Doc: text, Variables: meta.Variables, OpName: opName})
		// mutated variants: kinds in rotation so that every kind is exercised, plus random second / third mutations
		view := gen.NewSchemaView(sd)
		for variant := 0; variant < 2; variant++ {
			r2 := hx.Fork(run.Seed^0x5bd1e995, i*2+variant)
			doc2 := regen(run.Seed, i) // a private copy of the same IR
			applied := []string{}
			nm := 1 + r2.Intn(3)
			for j := 0; j < nm; j++ {
				k := kinds[(i*2+variant+j*7)%len(kinds)]
				if j > 0 {
					k = kinds[r2.Intn(len(kinds))]
				} else if variant == 1 && i%3 == 0 {
					// every third document: several faults inside ONE literal (sibling positions, random order)
					k = "multiFaultLiteral"
				}
				if gen.Mutate(r2, view, doc2.Doc, k) {
					applied = append(applied, k)
				} else {
					run.Tag("mutation-not-applicable:" + k)
				}
			}
			if len(applied) == 0 {
				continue
			}
			on := ""
			if len(doc2.Doc.Ops) > 0 {
				on = doc2.Doc.Ops[0].Name
			}
			one(caseT{Schema: sd, Doc: doc2.Doc.Render(), Mutations: applied, Variables: doc2.Variables, OpName: on})
		}
	}
	finish(run, modelled, unmodelled)
}

// mkCase: schema (SchemaGen + custom directives for every location + disjoint abstract types + list-shaped
// arguments + a subscription root) and a valid document for it, from the stream of case i.
func mkCase(r *hx.Rng, i int) (*gq.SchemaDesc, string, *gen.ValidMeta) {
	sd := (&gen.SchemaGen{R: r, Size: 1 + i%5}).Schema()
	gen.AddCustomDirectives(r, sd)
	gen.AddDisjointAbstract(r, sd)
	gen.AddListShapes(r, sd)
	gen.AddSubscriptionRoot(r, sd)
	text, meta := gen.ValidDocWith(r, sd, 1+(i/5)%6, gen.ValidDocOpts{Subscriptions: true})
	return sd, text, meta
}

// regen rebuilds schema + valid document IR of case i (a private copy for mutation).
func regen(seed uint64, i int) *gen.ValidMeta {
	r := hx.Fork(seed, i)
	_, _, meta := mkCase(r, i)
	return meta
}

func finish(run *hx.Run, modelled, unmodelled map[string]bool) {
	ms, us := []string{}, []string{}
	for k := range modelled {
		ms = append(ms, k)
	}
	for k := range unmodelled {
		us = append(us, k)
	}
	sort.Strings(ms)
	sort.Strings(us)
	run.Res.Extra["driver_wall_s"] = drvTime.Seconds()
	run.Res.Extra["build_val_do_s"] = []float64{buildTime.Seconds(), valTime.Seconds(), doTime.Seconds()}
	run.Res.Extra["modelled_rules"] = ms
	run.Res.Extra["rules_without_model"] = us
	if len(us) > 0 {
		run.Res.Assumptions = append(run.Res.Assumptions, "rules exercised on the real code but not yet compared with a model: "+strings.Join(us, ", "))
	}
	run.Finish()
}

// checkTables compares the model's introspection types, meta fields and specified directives with the library's.
func checkTables(drv *hx.Driver) string {
	var resp struct {
		Types []struct {
			Kind   string   `json:"kind"`
			Name   string   `json:"name"`
			Values []string `json:"values"`
			Fields []struct {
				Name string `json:"name"`
				Type string `json:"type"`
				Args []struct {
					Name string `json:"name"`
					Type string `json:"type"`
				} `json:"args"`
			} `json:"fields"`
		} `json:"types"`
		Directives []struct {
			Name      string   `json:"name"`
			Locations []string `json:"locations"`
			Args      []struct {
				Name string `json:"name"`
				Type string `json:"type"`
			} `json:"args"`
		} `json:"directives"`
	}
	if err := drv.Ask(map[string]interface{}{"introspection": true}, &resp); err != nil {
		return "driver: " + err.Error()
	}
	model := map[string]string{}
	for _, t := range resp.Types {
		parts := []string{}
		for _, f := range t.Fields {
			as := []string{}
			for _, a := range f.Args {
				as = append(as, a.Name+":"+a.Type)
			}
			sort.Strings(as)
			parts = append(parts, f.Name+"("+strings.Join(as, ",")+"):"+f.Type)
		}
		parts = append(parts, t.Values...)
		sort.Strings(parts)
		model[t.Name] = t.Kind + " " + strings.Join(parts, " ")
	}
	real := map[string]string{}
	for _, t := range gen.IntrospectionTypes() {
		parts := []string{}
		for _, f := range t.Fields {
			as := []string{}
			for _, a := range f.Args {
				as = append(as, a.Name+":"+a.Type)
			}
			sort.Strings(as)
			parts = append(parts, f.Name+"("+strings.Join(as, ",")+"):"+f.Type)
		}
		for _, v := range t.Values {
			parts = append(parts, v.Name)
		}
		sort.Strings(parts)
		real[t.Name] = t.Kind + " " + strings.Join(parts, " ")
	}
	if hx.Canon(model) != hx.Canon(real) {
		a, _ := json.Marshal(model)
		b, _ := json.Marshal(real)
		return "introspection types: model " + string(a) + " real " + string(b)
	}
	md, rd := []string{}, []string{}
	for _, d := range resp.Directives {
		as := []string{}
		for _, a := range d.Args {
			as = append(as, a.Name+":"+a.Type)
		}
		l := append([]string{}, d.Locations...)
		sort.Strings(l)
		md = append(md, d.Name+"("+strings.Join(as, ",")+")"+strings.Join(l, "|"))
	}
	for _, d := range graphql.SpecifiedDirectives {
		as := []string{}
		for _, a := range d.Args {
			as = append(as, a.Name()+":"+a.Type.String())
		}
		l := append([]string{}, d.Locations...)
		sort.Strings(l)
		rd = append(rd, d.Name+"("+strings.Join(as, ",")+")"+strings.Join(l, "|"))
	}
	sort.Strings(md)
	sort.Strings(rd)
	if hx.Canon(md) != hx.Canon(rd) {
		return fmt.Sprintf("specified directives: model %v real %v", md, rd)
	}
	return ""
}

// fixedCases: hand-written documents over a fixed schema (regressions for the findings and for D-02a).
func fixedCases() []caseT {
	sd := &gq.SchemaDesc{Query: "Q", Types: []gq.TypeDesc{
		{Kind: "INPUT_OBJECT", Name: "In", InputFields: []gq.ArgDesc{{Name: "x", Type: "Int"}, {Name: "n", Type: "In"}}},
		{Kind: "OBJECT", Name: "O0", Fields: []gq.FieldDesc{{Name: "f", Type: "String", Args: []gq.ArgDesc{{Name: "a", Type: "Int"}}}, {Name: "g", Type: "Int"}}},
		{Kind: "OBJECT", Name: "Q", Fields: []gq.FieldDesc{
			{Name: "q0", Type: "[O0]"},
			{Name: "q1", Type: "O0", Args: []gq.ArgDesc{{Name: "a", Type: "Int"}, {Name: "i", Type: "In"}}},
			{Name: "a", Type: "String"}, {Name: "b", Type: "String"}}},
	}}
	docs := []string{
		`{ q0 { ... { f } } }`,
		`{ q1 { ... { f } } }`,
		`{ q1(i: {n: {x: 1, x: 2}}) { f } }`,
		`{ q1(i: {x: 1, x: 2}) { f } }`,
		`{ q1(a: 1) @unk(a: "x") { f } }`,
		`{ q1(a: 1) { ... @unk(a: "x") { f } } }`,
		`query ($v: [Nope]) { q1(a: 1) { f } }`,
		`query ($v: Nope) { a }`,
		`{ a } { b }`,
		`{ a ... on String { b } }`,
		`{ x: a ...F } fragment F on Q { ...G } fragment G on Q { x: b }`,
		`{ x: a ...F } fragment F on Q { x: b }`,
		`query ($v: Float) { a }`,
	}
	var out []caseT
	for _, d := range docs {
		out = append(out, caseT{Schema: sd, Doc: d, Mutations: []string{"fixed"}})
	}
	return out
}
