package main

import (
	"verif/harness/cycfam"
	"verif/harness/hx"
)

// Family cyclicBareFirst (harness/cycfam/barefirst.go) against schema hand/endless: `a: T` (object), `foo: Node`
// (interface), `bar: U` (union), `c: [T]` (list of two), `Query: Query` exist on T and Query.
var bareVocab = cycfam.BareVocab{
	Root:  []string{"a", "foo", "Query", "c"},
	Conds: []string{"T", "Query", "Node", "U"},
	Sub:   []string{"a", "foo", "bar", "c", "Query"},
	Leaf:  "id",
}

const bareBatch = 1000

// bareFirstJobs: the exhaustive one-fragment core, the hand-written members and a seeded random sample, each through
// Execute and PlanQuery+ExecutePlan (x2) WITHOUT validation on endless data. Batches for child processes: the resolvers'
// counters are process-wide (one document at a time there), and a document on which planning itself recursed without end
// would kill the process.
func bareFirstJobs(run *hx.Run) []job {
	var docs []batchDoc
	for _, d := range cycfam.BareFixed(bareVocab) {
		docs = append(docs, batchDoc{Src: d.Src, Tags: d.Tags})
	}
	bodyMax := 2
	if run.Thorough() {
		bodyMax = 3
	}
	for _, d := range cycfam.BareExhaustive1(bareVocab, 3, bodyMax) {
		docs = append(docs, batchDoc{Src: d.Src, Tags: d.Tags})
	}
	n := run.N(3000, 200000)
	for i := 0; i < n; i++ {
		r := hx.Fork(run.Seed^0xBA2EF125, i)
		nf := 2
		if r.Chance(1, 2) {
			nf = 3
		}
		d := cycfam.BareRandom(bareVocab, r, nf)
		docs = append(docs, batchDoc{Src: d.Src, Tags: d.Tags})
	}
	var jobs []job
	for from := 0; from < len(docs); from += bareBatch {
		to := from + bareBatch
		if to > len(docs) {
			to = len(docs)
		}
		for _, e := range []string{"Execute", "PlanQuery"} {
			jobs = append(jobs, job{Entry: e, Schema: endlessSchemaIndex, Vars: "null", Origin: cycfam.BareTag, Heavy: true, Batch: docs[from:to]})
		}
	}
	return jobs
}
