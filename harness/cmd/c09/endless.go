package main

// Schema hand/endless: the type names and composite fields of the hand-written schemas, over a data world that NEVER ends by
// itself - every composite field resolves to a non-nil object at every depth (`a`, `Query`: a fresh map; `foo`, `bar`: one
// of two shared maps that are reached again and again, i.e. self-referential data; `c`: a list of two objects; `x1`: a
// non-null list of one). On such data the depth of execution is whatever the PLAN allows: the descent-path guard of
// Plan.collectInto (repair D-09d) is the only thing that stops a fragment cycle through a field. The resolvers count their
// invocations and record the deepest response path they were called at; endlessCheck compares both with bounds that
// depend on the document alone:
//
//	depth  <=  2 + depthSet(operation) + (maxBodyDepth + 1) x #fragment definitions
//	           (Props/C09 exec_depth_bounded_by_selection bounds the paths of COMPLETED objects by 1 + ...; a resolver runs
//	           one level below a completed object)
//	calls  <=  #field nodes x sum_{d < depth bound} (L x K)^d     K = distinct response keys in the document,
//	           L = 2 if the document names a list field, else 1 (objects at depth d <= (L x K)^d, each resolves at most
//	           one field per response key <= #field nodes)
//
// So that a violation is a prompt report instead of a stack overflow, the resolvers give up (return nil) 8 levels below
// the depth bound and after endlessCallCap invocations; a document whose invocations reach the cap although its bound is
// larger is tagged, not judged, on the number of calls (its depth is still judged).

import (
	"fmt"
	"sync/atomic"

	"github.com/graphql-go/graphql"
	"github.com/graphql-go/graphql/language/ast"
)

const (
	endlessSchemaIndex = 4
	endlessCallCap     = 200000
)

var (
	endlessCalls    int64
	endlessMaxDepth int64
	endlessDepthCap int64 = 1 << 30
	endlessCallStop int64 = endlessCallCap
)

func endlessReset(depthCap int64, callStop int64) {
	atomic.StoreInt64(&endlessCalls, 0)
	atomic.StoreInt64(&endlessMaxDepth, 0)
	atomic.StoreInt64(&endlessDepthCap, depthCap)
	atomic.StoreInt64(&endlessCallStop, callStop)
}

func endlessSchema() graphql.Schema {
	var tT, query *graphql.Object
	var node *graphql.Interface
	var u *graphql.Union
	obj := func(typ string) map[string]interface{} {
		return map[string]interface{}{"__t": typ, "id": "i", "name": "n"}
	}
	sharedT, sharedQ := obj("T"), obj("Query")
	// enter = bookkeeping of one resolver invocation; false = give up (safety net, see above)
	enter := func(p graphql.ResolveParams) (depth int64, ok bool) {
		for q := p.Info.Path; q != nil; q = q.Prev {
			if _, isName := q.Key.(string); isName {
				depth++
			}
		}
		n := atomic.AddInt64(&endlessCalls, 1)
		for {
			m := atomic.LoadInt64(&endlessMaxDepth)
			if depth <= m || atomic.CompareAndSwapInt64(&endlessMaxDepth, m, depth) {
				break
			}
		}
		return depth, n < atomic.LoadInt64(&endlessCallStop) && depth < atomic.LoadInt64(&endlessDepthCap)
	}
	res := func(kind string) graphql.FieldResolveFn {
		return func(p graphql.ResolveParams) (interface{}, error) {
			d, ok := enter(p)
			if !ok {
				return nil, nil
			}
			switch kind {
			case "T":
				return obj("T"), nil
			case "Query":
				return obj("Query"), nil
			case "shared": // the same two maps over and over: self-referential data
				if d%2 == 0 {
					return sharedQ, nil
				}
				return sharedT, nil
			case "list2":
				return []interface{}{obj("T"), sharedT}, nil
			case "list1":
				return []interface{}{obj("T")}, nil
			case "thunk":
				return func() (interface{}, error) { return obj("T"), nil }, nil
			}
			return "s", nil
		}
	}
	common := func() graphql.Fields {
		return graphql.Fields{
			"a":     &graphql.Field{Type: tT, Resolve: res("T")},
			"foo":   &graphql.Field{Type: node, Resolve: res("shared")},
			"bar":   &graphql.Field{Type: u, Resolve: res("shared")},
			"c":     &graphql.Field{Type: graphql.NewList(tT), Resolve: res("list2")},
			"x1":    &graphql.Field{Type: graphql.NewNonNull(graphql.NewList(graphql.NewNonNull(tT))), Resolve: res("list1")},
			"Query": &graphql.Field{Type: query, Resolve: res("Query")},
			"T":     &graphql.Field{Type: tT, Resolve: res("thunk")},
			"b":     &graphql.Field{Type: graphql.String, Resolve: res("str")},
			"id":    &graphql.Field{Type: graphql.ID, Resolve: res("str")},
			"name":  &graphql.Field{Type: graphql.NewNonNull(graphql.String), Resolve: res("str")},
		}
	}
	byTag := func(v interface{}) *graphql.Object {
		if m, ok := v.(map[string]interface{}); ok && m["__t"] == "Query" {
			return query
		}
		return tT
	}
	node = graphql.NewInterface(graphql.InterfaceConfig{Name: "Node", Fields: graphql.FieldsThunk(func() graphql.Fields {
		return graphql.Fields{"id": &graphql.Field{Type: graphql.ID}, "name": &graphql.Field{Type: graphql.NewNonNull(graphql.String)},
			"a": &graphql.Field{Type: tT}, "foo": &graphql.Field{Type: node}, "c": &graphql.Field{Type: graphql.NewList(tT)}}
	}), ResolveType: func(p graphql.ResolveTypeParams) *graphql.Object { return byTag(p.Value) }})
	ifaces := graphql.InterfacesThunk(func() []*graphql.Interface { return []*graphql.Interface{node} })
	tT = graphql.NewObject(graphql.ObjectConfig{Name: "T", Interfaces: ifaces, Fields: graphql.FieldsThunk(common)})
	query = graphql.NewObject(graphql.ObjectConfig{Name: "Query", Interfaces: ifaces, Fields: graphql.FieldsThunk(common)})
	u = graphql.NewUnion(graphql.UnionConfig{Name: "U", Types: []*graphql.Object{tT, query}, ResolveType: func(p graphql.ResolveTypeParams) *graphql.Object { return byTag(p.Value) }})
	s, err := graphql.NewSchema(graphql.SchemaConfig{Query: query, Types: []graphql.Type{tT, node, u}})
	if err != nil {
		panic("endless schema does not build: " + err.Error())
	}
	return s
}

var endlessListFields = map[string]bool{"c": true, "x1": true}

type endlessBounds struct {
	Fields, Keys, Frags, OpDepth, BodyDepth int
	List                                    bool
	Depth, Calls                            int64
}

// endlessBoundsOf reads the bounds off the AST (the family's documents are a few levels deep: plain recursion is fine).
func endlessBoundsOf(doc *ast.Document, opName string) (b endlessBounds) {
	keys := map[string]bool{}
	var depthSet func(ss *ast.SelectionSet) int
	depthSet = func(ss *ast.SelectionSet) int {
		max := 0
		if ss == nil {
			return 0
		}
		for _, s := range ss.Selections {
			d := 0
			switch s := s.(type) {
			case *ast.Field:
				b.Fields++
				name := ""
				if s.Name != nil {
					name = s.Name.Value
				}
				if endlessListFields[name] {
					b.List = true
				}
				if s.Alias != nil {
					name = s.Alias.Value
				}
				keys[name] = true
				if s.SelectionSet != nil {
					d = 1 + depthSet(s.SelectionSet)
				}
			case *ast.InlineFragment:
				d = depthSet(s.SelectionSet)
			}
			if d > max {
				max = d
			}
		}
		return max
	}
	for _, def := range doc.Definitions {
		switch def := def.(type) {
		case *ast.OperationDefinition:
			if d := depthSet(def.SelectionSet); d > b.OpDepth { // every operation: an upper bound whichever is selected
				b.OpDepth = d
			}
		case *ast.FragmentDefinition:
			b.Frags++
			if d := depthSet(def.SelectionSet); d > b.BodyDepth {
				b.BodyDepth = d
			}
		}
	}
	b.Keys = len(keys)
	b.Depth = int64(2 + b.OpDepth + (b.BodyDepth+1)*b.Frags)
	fan := int64(b.Keys)
	if b.List {
		fan *= 2
	}
	if fan < 1 {
		fan = 1
	}
	sum, pow := int64(0), int64(1)
	for d := int64(0); d < b.Depth; d++ {
		sum += pow
		if sum > 1<<40 {
			break
		}
		pow *= fan
	}
	b.Calls = int64(b.Fields) * sum
	if b.Calls > 1<<40 {
		b.Calls = 1 << 40
	}
	return b
}

// endlessArm sets the safety nets for one execution; endlessCheck judges it and disarms.
func endlessArm(b endlessBounds) {
	stop := int64(endlessCallCap)
	if 4*b.Calls+64 < stop {
		stop = 4*b.Calls + 64
	}
	endlessReset(b.Depth+8, stop)
}

func endlessCheck(j job, b endlessBounds, o *outcome) {
	calls, depth := atomic.LoadInt64(&endlessCalls), atomic.LoadInt64(&endlessMaxDepth)
	if calls > o.Calls {
		o.Calls = calls
	}
	if depth > o.Depth {
		o.Depth = depth
	}
	o.DepthBound, o.CallBound = b.Depth, b.Calls
	endlessReset(1<<30, endlessCallCap)
	if o.Violation != "" {
		return
	}
	switch {
	case depth > b.Depth:
		o.Violation = fmt.Sprintf("the depth of execution follows the DATA: a resolver ran at response-path depth %d, the document (operation depth %d, %d fragment definition(s) of body depth <= %d) bounds it by %d (exec_depth_bounded_by_selection + 1); %d resolver invocations before the harness' data gave up (%s on endless data; self-referential data would never return)",
			depth, b.OpDepth, b.Frags, b.BodyDepth, b.Depth, calls, j.Entry)
	case calls > b.Calls:
		o.Violation = fmt.Sprintf("%d resolver invocations on endless data, the document (%d field nodes, %d response keys, depth bound %d) bounds them by %d (%s)",
			calls, b.Fields, b.Keys, b.Depth, b.Calls, j.Entry)
	case calls >= endlessCallCap:
		o.Detail = "endlessData:call-cap-reached"
	}
}
