package main

import (
	"verif/harness/cycfam"
	"verif/harness/hx"
)

// Family cyclicMixedExclusive against the hand-written schemas: `foo: Node` (interface) and `bar: U` (union) have the
// two object members T and Query; `a`, `foo` exist on T, Query and Node, `Query` on the two object types.
var cyclicVocab = cycfam.Vocab{
	Root:  []string{"foo", "bar"},
	Conds: []string{"T", "Query", "Node", "U"},
	NObj:  2,
	Sub:   []string{"a", "Query", "foo"},
	Leaf:  "id",
}

const cyclicBatch = 1500

// cyclicFamilyJobs: every two-fragment table (exhaustive, 8649 documents) through ValidateDocument and Do on schema
// hand/nil, plus a seeded random sample of richer tables (three fragments three times out of four) through
// ValidateDocument, Do and PlanCache.Get on hand/nil and hand/data. Each job is a batch for one child process: a
// document on which the validator recurses without end kills that process (fatal stack overflow), and the parent
// reports the document that was in flight.
func cyclicFamilyJobs(run *hx.Run) []job {
	var jobs []job
	emit := func(docs []batchDoc, schema int, entries ...string) {
		for from := 0; from < len(docs); from += cyclicBatch {
			to := from + cyclicBatch
			if to > len(docs) {
				to = len(docs)
			}
			for _, e := range entries {
				jobs = append(jobs, job{Entry: e, Schema: schema, Vars: "null", Origin: cycfam.Tag, Batch: docs[from:to]})
			}
		}
	}
	var docs []batchDoc
	for i := 0; i < cycfam.Count2(cyclicVocab); i++ {
		d := cycfam.Exhaustive2(cyclicVocab, i)
		docs = append(docs, batchDoc{Src: d.Src, Tags: append(d.Tags, cycfam.Tag+":exhaustive-N=2")})
	}
	emit(docs, 0, "Validate", "Do")
	n := run.N(1500, 100000)
	var rnd [2][]batchDoc
	for i := 0; i < n; i++ {
		r := hx.Fork(run.Seed^0xC1C11C, i)
		nf := 3
		if r.Chance(1, 4) {
			nf = 2
		}
		d := cycfam.Random(cyclicVocab, r, nf)
		rnd[i%2] = append(rnd[i%2], batchDoc{Src: d.Src, Tags: append(d.Tags, cycfam.Tag+":random")})
	}
	emit(rnd[0], 0, "Validate", "Do", "CacheGet")
	emit(rnd[1], 1, "Validate", "Do", "CacheGet")
	return jobs
}
