// C09 harness: no input makes a public entry point panic, hang or return a malformed result.
//
// Every job = (entry point, schema, document text, operation name, variables JSON, nil/zero parameter variant).
// A job runs under recover + a watchdog; results must be JSON-serialisable, carry no data when parsing or
// validation failed, and at least one error whenever data is absent. Jobs whose input is deeply nested or contains a
// fragment cycle run in a CHILD process (this binary re-executed with --child, the job on stdin), because a fatal
// stack overflow cannot be recovered: a dead child is a violation with that input as replay.
//
// Streams: (a) grammar-directed documents and their mutations, each AST the real parser accepts fed UNVALIDATED to
// every entry point; hand-written nasties; (b) a coverage-less mutational loop over a seed corpus.
package main

import (
	"bytes"
	"context"
	"encoding/json"
	"flag"
	"fmt"
	"io"
	"os"
	"os/exec"
	"path/filepath"
	"runtime"
	"runtime/debug"
	"sort"
	"strings"
	"sync"
	"syscall"
	"time"

	"github.com/graphql-go/graphql"
	"github.com/graphql-go/graphql/language/ast"
	"github.com/graphql-go/graphql/language/parser"
	"github.com/graphql-go/graphql/language/printer"

	"verif/harness/gen"
	"verif/harness/hx"
)

// ---------------------------------------------------------------- jobs

type job struct {
	Entry   string `json:"entry"`   // Parse Do Subscribe Validate PlanQuery Execute ExecuteSubscription CacheGet CacheGetNorm
	Variant string `json:"variant"` // "" or a nil/zero-parameter variant (nilschema nildoc nilplan zeroschema nilcache)
	Schema  int    `json:"schema"`
	Src     string `json:"src"`
	Op      string `json:"op"`
	Vars    string `json:"vars"` // JSON text of the variable map ("null" = nil map)
	Origin  string `json:"origin"`
	Heavy   bool   `json:"heavy,omitempty"` // polynomially expensive by design: run in a child process on the CPU clock
	// a BATCH of documents for one child process (family cyclicMixedExclusive: thousands of tiny documents, each of
	// which may kill the process): the child runs Batch[From:] in order and writes one outcome line per document, so
	// that the parent knows which document was in flight when the process died
	Batch []batchDoc `json:"batch,omitempty"`
	From  int        `json:"from,omitempty"`
	Tags  []string   `json:"tags,omitempty"` // histogram tags of the generator
}

type batchDoc struct {
	Src  string   `json:"src"`
	Tags []string `json:"tags,omitempty"`
}

// single = the job of document i of a batch (what is recorded and what a replay file holds)
func (j job) single(i int) job {
	s := j
	s.Batch, s.From = nil, 0
	s.Src, s.Tags = j.Batch[i].Src, j.Batch[i].Tags
	return s
}

type outcome struct {
	Violation string  `json:"violation,omitempty"` // rule that failed (panic, malformed result, …)
	Timeout   bool    `json:"timeout,omitempty"`
	Class     string  `json:"class"` // parse-error | invalid | plan-error | data | data+errors | no-data+errors | ok | …
	Parsed    bool    `json:"parsed"`
	Ms        float64 `json:"ms"`
	LimitMs   float64 `json:"limit_ms"`
	Detail    string  `json:"detail,omitempty"`
	Child     bool    `json:"child,omitempty"`
	CpuMs     float64 `json:"cpu_ms,omitempty"` // user+system time of the child process (load-independent)
	// schema hand/endless only (endless.go): resolver invocations and deepest response path of the most expensive
	// execution of the job, and the bounds the document alone gives for them
	Calls      int64 `json:"calls,omitempty"`
	Depth      int64 `json:"depth,omitempty"`
	DepthBound int64 `json:"depth_bound,omitempty"`
	CallBound  int64 `json:"call_bound,omitempty"`
}

// time bound: a polynomial in the input size with generous constants (lead's ruling on D-09e: validation is
// quadratic in nesting depth and in the number of conflicting pairs, the printer worse; polynomial is acceptable),
// capped so that a genuine hang is reported after two minutes at the latest:
//
//	15 s + 0.4 ms/byte + 150 µs x depth² + 2 µs x bytes²,  at most 120 s
//
// measured in wall-clock time for jobs run in this process and in CPU time for jobs run in a child process.
func timeLimit(j job) time.Duration {
	n := time.Duration(len(j.Src) + len(j.Vars))
	d := time.Duration(braceDepth(j.Src))
	if dv := time.Duration(braceDepth(j.Vars)); dv > d {
		d = dv
	}
	l := 15*time.Second + n*400*time.Microsecond + d*d*150*time.Microsecond + n*n*2*time.Microsecond
	if l > 120*time.Second || l < 0 {
		l = 120 * time.Second
	}
	return l
}

func decodeVars(s string) map[string]interface{} {
	if s == "" || s == "null" {
		return nil
	}
	var m map[string]interface{}
	if err := json.Unmarshal([]byte(s), &m); err != nil {
		return map[string]interface{}{"a": s}
	}
	return m
}

// shape checks one *graphql.Result; mustNoData = parsing or validation failed.
func shape(res *graphql.Result, mustNoData bool) (class, violation string) {
	if res == nil {
		return "nil-result", "the entry point returned a nil *Result"
	}
	b, err := json.Marshal(res)
	if err != nil {
		return "unserialisable", "json.Marshal(result) failed: " + err.Error()
	}
	var back struct {
		Data   json.RawMessage   `json:"data"`
		Errors []json.RawMessage `json:"errors"`
	}
	if err := json.Unmarshal(b, &back); err != nil {
		return "unserialisable", "the marshalled result is not valid JSON: " + err.Error()
	}
	hasData := len(back.Data) > 0 && string(back.Data) != "null"
	switch {
	case !hasData && len(back.Errors) == 0:
		return "no-data-no-error", "the result carries neither data nor an error"
	case hasData && mustNoData:
		return "data-after-failure", "the result carries data although parsing or validation failed"
	case hasData && len(back.Errors) == 0:
		return "data", ""
	case hasData:
		return "data+errors", ""
	}
	return "no-data+errors", ""
}

func drain(ch chan *graphql.Result, cancel context.CancelFunc, mustNoData bool, wait time.Duration) (class, violation string) {
	if ch == nil {
		return "nil-channel", "the entry point returned a nil channel"
	}
	n := 0
	class = "closed-empty"
	for n < 4 {
		select {
		case r, ok := <-ch:
			if !ok {
				cancel()
				return class, ""
			}
			n++
			c, v := shape(r, mustNoData)
			if v != "" {
				cancel()
				return c, v
			}
			class = "sub:" + c
		case <-time.After(wait):
			cancel()
			return "sub-silent", fmt.Sprintf("the subscription channel neither delivered nor closed within %v", wait)
		}
	}
	cancel()
	return class, ""
}

// execJob runs the job in this goroutine (panics are caught by the caller).
func execJob(j job) (o outcome) {
	sch := &schemas[j.Schema%len(schemas)].schema
	vars := decodeVars(j.Vars)
	root := map[string]interface{}{"__d": 0}
	var doc *ast.Document
	var perr error
	parseOK := false
	needAST := j.Entry != "Do" && j.Entry != "Subscribe" && j.Entry != "CacheGet" && j.Entry != "CacheGetNorm"
	textEntry := !needAST
	// what the front half says about this text (used for the "no data after failure" rule)
	func() {
		defer func() {
			if r := recover(); r != nil {
				perr = fmt.Errorf("parser panic: %v", r)
				o.Violation = fmt.Sprintf("parser.Parse panicked: %v", r)
			}
		}()
		doc, perr = parser.Parse(parser.ParseParams{Source: j.Src})
	}()
	if o.Violation != "" {
		return o
	}
	parseOK = perr == nil && doc != nil
	o.Parsed = parseOK
	if (perr == nil) != (doc != nil) {
		o.Violation = "parser.Parse returned neither/both a document and an error"
		return o
	}
	if j.Entry == "Parse" {
		if !parseOK {
			o.Class = "parse-error"
			if _, err := json.Marshal(graphql.Result{Errors: nil}); err != nil {
				o.Violation = err.Error()
			}
			return o
		}
		s := printer.Print(doc)
		if _, ok := s.(string); !ok {
			o.Violation = "printer.Print did not return a string"
		}
		o.Class = "parsed+printed"
		return o
	}
	if needAST && !parseOK && j.Variant != "nildoc" {
		o.Class = "parse-error"
		return o
	}
	valid := false
	if parseOK && textEntry {
		vr := graphql.ValidateDocument(sch, doc, nil)
		valid = vr.IsValid
	}
	mustNoData := textEntry && (!parseOK || !valid)
	// endless data (endless.go): executions of an unvalidated AST are judged on resolver invocations and depth as well
	endless := j.Schema%len(schemas) == endlessSchemaIndex && parseOK && j.Variant == ""
	var eb endlessBounds
	if endless {
		eb = endlessBoundsOf(doc, j.Op)
	}

	params := graphql.ExecuteParams{Schema: *sch, Root: root, AST: doc, OperationName: j.Op, Args: vars}
	switch j.Variant {
	case "zeroschema":
		params.Schema = graphql.Schema{}
	case "nildoc":
		params.AST = nil
	}
	switch j.Entry {
	case "Do":
		p := graphql.Params{Schema: *sch, RequestString: j.Src, OperationName: j.Op, VariableValues: vars, RootObject: root}
		if j.Variant == "zeroschema" {
			p.Schema = graphql.Schema{}
			mustNoData = false // validity was judged against the real schema
		}
		o.Class, o.Violation = shape(graphql.Do(p), mustNoData)
	case "Subscribe":
		ctx, cancel := context.WithCancel(context.Background())
		p := graphql.Params{Schema: *sch, RequestString: j.Src, OperationName: j.Op, VariableValues: vars, RootObject: root, Context: ctx}
		if j.Variant == "zeroschema" {
			p.Schema = graphql.Schema{}
			mustNoData = false
		}
		o.Class, o.Violation = drain(graphql.Subscribe(p), cancel, mustNoData, 2*timeLimit(j))
	case "Validate":
		s2, d2 := sch, doc
		if j.Variant == "nilschema" {
			s2 = nil
		}
		if j.Variant == "nildoc" {
			d2 = nil
		}
		if j.Variant == "zeroschema" {
			s2 = &graphql.Schema{}
		}
		vr := graphql.ValidateDocument(s2, d2, nil)
		if vr.IsValid != (len(vr.Errors) == 0) {
			o.Violation = fmt.Sprintf("ValidationResult.IsValid=%v with %d errors", vr.IsValid, len(vr.Errors))
		}
		if _, err := json.Marshal(vr); err != nil {
			o.Violation = "json.Marshal(ValidationResult) failed: " + err.Error()
		}
		o.Class = map[bool]string{true: "valid", false: "invalid"}[vr.IsValid]
	case "PlanQuery":
		s2, d2 := sch, doc
		if j.Variant == "nilschema" {
			s2 = nil
		}
		if j.Variant == "nildoc" {
			d2 = nil
		}
		if j.Variant == "zeroschema" {
			s2 = &graphql.Schema{}
		}
		plan, err := graphql.PlanQuery(s2, d2, j.Op)
		if (plan == nil) != (err != nil) {
			o.Violation = fmt.Sprintf("PlanQuery returned plan==nil:%v together with err==nil:%v", plan == nil, err == nil)
			return o
		}
		if j.Variant == "nilplan" {
			plan = nil
		}
		if plan == nil && j.Variant != "nilplan" {
			o.Class = "plan-error"
			return o
		}
		for i := 0; i < 2 && o.Violation == ""; i++ { // the second execution reuses the lazily planned sub-selections
			if endless {
				endlessArm(eb)
			}
			o.Class, o.Violation = shape(graphql.ExecutePlan(plan, params), false)
			if endless {
				endlessCheck(j, eb, &o)
			}
		}
	case "Execute":
		if endless {
			endlessArm(eb)
		}
		o.Class, o.Violation = shape(graphql.Execute(params), false)
		if endless {
			endlessCheck(j, eb, &o)
		}
	case "ExecuteSubscription":
		ctx, cancel := context.WithCancel(context.Background())
		params.Context = ctx
		o.Class, o.Violation = drain(graphql.ExecuteSubscription(params), cancel, false, 2*timeLimit(j))
	case "CacheGet", "CacheGetNorm":
		var pc *graphql.PlanCache
		if j.Variant != "nilcache" {
			pc = graphql.NewPlanCache(graphql.PlanCacheOptions{Normalize: j.Entry == "CacheGetNorm", MaxEntries: 4})
		}
		s2 := sch
		if j.Variant == "nilschema" {
			s2 = nil
		}
		for i := 0; i < 2 && o.Violation == ""; i++ { // miss, then hit
			pr := pc.Get(s2, j.Src, j.Op)
			if _, err := json.Marshal(pr.Errors); err != nil {
				o.Violation = "json.Marshal(PlanResult.Errors) failed: " + err.Error()
				break
			}
			switch {
			case pr.Plan == nil && len(pr.Errors) == 0:
				o.Violation = "PlanCache.Get returned neither a plan nor an error"
			case pr.Plan != nil && len(pr.Errors) != 0:
				o.Violation = "PlanCache.Get returned a plan together with errors"
			case pr.Plan != nil && mustNoData && j.Variant == "" && j.Entry == "CacheGet":
				o.Violation = "PlanCache.Get returned a plan although parsing or validation failed"
			case pr.Plan == nil:
				o.Class = "cache:errors"
			default:
				args := map[string]interface{}{}
				for k, v := range vars {
					args[k] = v
				}
				for k, v := range pr.SynthArgs {
					args[k] = v
				}
				params.Args = args
				var c string
				c, o.Violation = shape(graphql.ExecutePlan(pr.Plan, params), false)
				o.Class = "cache:" + c
			}
		}
	default:
		o.Violation = "unknown entry " + j.Entry
	}
	return o
}

func selfCPU() time.Duration {
	var ru syscall.Rusage
	if err := syscall.Getrusage(syscall.RUSAGE_SELF, &ru); err != nil {
		return 0
	}
	return time.Duration(ru.Utime.Nano() + ru.Stime.Nano())
}

// guardedExec = execJob with panics turned into an outcome.
func guardedExec(j job) (o outcome) {
	defer func() {
		if r := recover(); r != nil {
			st := string(debug.Stack())
			if i := strings.Index(st, "panic("); i >= 0 {
				st = st[i:]
			}
			if len(st) > 1500 {
				st = st[:1500]
			}
			o.Violation = fmt.Sprintf("PANIC escaped %s: %v", j.Entry, r)
			o.Class = "panic"
			o.Detail = st
		}
	}()
	return execJob(j)
}

// childBatch runs j.Batch[j.From:] in ONE goroutine (a goroutine and a ticker per document cost more than these tiny
// documents themselves) and writes one outcome line per document, unbuffered, so that what is on stdout when the
// process dies tells the parent which document was in flight. The main goroutine is the watchdog: when the current
// document exceeds its CPU-time limit it writes the timeout outcome for it and ends the process (the rest of the
// batch goes to a fresh one).
func childBatch(j job) {
	var mu sync.Mutex
	cur, curT0, curC0 := j.From, time.Now(), selfCPU()
	finished := make(chan struct{})
	emit := func(o outcome, t0 time.Time, c0 time.Duration, limit time.Duration) {
		o.Child = true
		o.Ms = float64(time.Since(t0).Microseconds()) / 1000
		o.CpuMs = float64((selfCPU() - c0).Microseconds()) / 1000
		o.LimitMs = float64(limit.Milliseconds())
		b, _ := json.Marshal(o)
		os.Stdout.Write(append(b, '\n'))
	}
	go func() {
		defer close(finished)
		for i := j.From; i < len(j.Batch); i++ {
			s := j.single(i)
			mu.Lock()
			cur, curT0, curC0 = i, time.Now(), selfCPU()
			t0, c0 := curT0, curC0
			mu.Unlock()
			o := guardedExec(s)
			mu.Lock()
			emit(o, t0, c0, timeLimit(s))
			mu.Unlock()
		}
	}()
	tick := time.NewTicker(100 * time.Millisecond)
	defer tick.Stop()
	for {
		select {
		case <-finished:
			return
		case <-tick.C:
			mu.Lock()
			s := j.single(cur)
			limit := timeLimit(s)
			if used := selfCPU() - curC0; used > limit || time.Since(curT0) > 20*limit {
				emit(outcome{Timeout: true, Class: "timeout", Violation: fmt.Sprintf("%s did not return within %v of CPU time (input %d bytes; used %v CPU, %v wall)", s.Entry, limit, len(s.Src)+len(s.Vars), used.Round(time.Millisecond), time.Since(curT0).Round(time.Millisecond))}, curT0, curC0, limit)
				os.Exit(0) // with the lock held: the abandoned goroutine cannot report this document a second time
			}
			mu.Unlock()
		}
	}
}

// runJob = execJob under recover and watchdog. In the parent the watchdog measures wall-clock time; in a child
// process (one job per process) it measures the CPU time of the process, which does not depend on the machine's load.
func runJob(j job, cpuClock bool) outcome {
	limit := timeLimit(j)
	done := make(chan outcome, 1)
	t0 := time.Now()
	c0 := selfCPU()
	go func() { done <- guardedExec(j) }()
	var o outcome
	if cpuClock {
		tick := time.NewTicker(100 * time.Millisecond)
		defer tick.Stop()
	wait:
		for {
			select {
			case o = <-done:
				break wait
			case <-tick.C:
				if used := selfCPU() - c0; used > limit || time.Since(t0) > 20*limit {
					o = outcome{Timeout: true, Class: "timeout", Violation: fmt.Sprintf("%s did not return within %v of CPU time (input %d bytes; used %v CPU, %v wall)", j.Entry, limit, len(j.Src)+len(j.Vars), used.Round(time.Millisecond), time.Since(t0).Round(time.Millisecond))}
					break wait
				}
			}
		}
		o.CpuMs = float64((selfCPU() - c0).Microseconds()) / 1000
	} else {
		select {
		case o = <-done:
		case <-time.After(limit):
			o = outcome{Timeout: true, Class: "timeout", Violation: fmt.Sprintf("%s did not return within %v (input %d bytes)", j.Entry, limit, len(j.Src)+len(j.Vars))}
		}
	}
	o.Ms = float64(time.Since(t0).Microseconds()) / 1000
	o.LimitMs = float64(limit.Milliseconds())
	return o
}

// ---------------------------------------------------------------- child process

func childMain() {
	debug.SetMaxStack(512 << 20) // die quickly on runaway recursion (the default is 1 GB)
	buildSchemas()
	in, _ := io.ReadAll(os.Stdin)
	var j job
	if err := json.Unmarshal(in, &j); err != nil {
		fmt.Fprintln(os.Stderr, "child: bad job:", err)
		os.Exit(3)
	}
	if len(j.Batch) > 0 {
		childBatch(j)
		return
	}
	o := runJob(j, true)
	o.Child = true
	b, _ := json.Marshal(o)
	os.Stdout.Write(b)
}

// runBatchChild runs j.Batch[from:] in one child process; outs = the outcomes it reported (in order), died = the
// process ended abnormally (so document from+len(outs) was in flight).
func runBatchChild(j job, from int) (outs []outcome, died bool, detail string) {
	exe, err := os.Executable()
	if err != nil {
		return nil, false, err.Error()
	}
	jj := j
	jj.From = from
	b, _ := json.Marshal(jj)
	ctx, cancel := context.WithTimeout(context.Background(), 15*time.Minute)
	defer cancel()
	cmd := exec.CommandContext(ctx, exe, "--child")
	cmd.Env = append(os.Environ(), "GOMAXPROCS=2")
	cmd.Stdin = bytes.NewReader(b)
	var stdout, stderr bytes.Buffer
	cmd.Stdout = &stdout
	cmd.Stderr = &tailWriter{max: 6000, buf: &stderr}
	err = cmd.Run()
	for _, line := range bytes.Split(stdout.Bytes(), []byte{'\n'}) {
		var o outcome
		if len(line) == 0 || json.Unmarshal(line, &o) != nil {
			break
		}
		o.Child = true
		outs = append(outs, o)
	}
	if len(outs) > len(j.Batch)-from {
		outs = outs[:len(j.Batch)-from]
	}
	head := stderr.String()
	if len(head) > 1200 {
		head = head[:1200]
	}
	if err != nil {
		return outs, true, fmt.Sprintf("%v: %s", err, head)
	}
	return outs, false, head
}

// runBatch runs every document of a batch job, a child process at a time. When a child dies, the document that was
// in flight is re-run ALONE in its own child process (runInChild): that outcome, with its single-document job, is
// what gets reported; the batch then continues behind it in a fresh process.
func runBatch(j job, stop func() bool, emit func(done)) {
	for from := 0; from < len(j.Batch) && !stop(); {
		outs, died, detail := runBatchChild(j, from)
		for k, o := range outs {
			emit(done{j.single(from + k), o}) // at once: stop() must see a violation before the next child starts
		}
		from += len(outs)
		if from >= len(j.Batch) {
			break
		}
		if !died && len(outs) > 0 && !outs[len(outs)-1].Timeout {
			died = true // the child stopped early without saying why: treat the next document as in flight
		}
		if !died && len(outs) > 0 {
			continue // stopped after a timeout: the rest goes to a fresh process
		}
		one := j.single(from)
		o := runInChild(one)
		if o.Violation == "" && o.Class != "harness-error" {
			if len(outs) == 0 && !died {
				o = outcome{Child: true, Class: "harness-error", Detail: "batch child reported nothing: " + detail}
			} else {
				o = outcome{Child: true, Class: "process-died", Detail: detail,
					Violation: "the process running a batch of documents through " + j.Entry + " DIED at this document, which passes when run alone in a fresh process (state carried over from the preceding documents?)"}
			}
		}
		emit(done{one, o})
		from++
	}
}

func runInChild(j job) outcome {
	exe, err := os.Executable()
	if err != nil {
		return outcome{Class: "harness-error", Detail: err.Error()}
	}
	b, _ := json.Marshal(j)
	ctx, cancel := context.WithTimeout(context.Background(), 21*timeLimit(j)+20*time.Second)
	defer cancel()
	cmd := exec.CommandContext(ctx, exe, "--child")
	cmd.Env = append(os.Environ(), "GOMAXPROCS=2") // keeps the CPU-time clock free of parallel-GC spinning
	cmd.Stdin = bytes.NewReader(b)
	var stdout, stderr bytes.Buffer
	cmd.Stdout = &stdout
	cmd.Stderr = &tailWriter{max: 6000, buf: &stderr}
	t0 := time.Now()
	err = cmd.Run()
	var o outcome
	if err == nil && json.Unmarshal(stdout.Bytes(), &o) == nil {
		o.Child = true
		return o
	}
	head := stderr.String()
	if len(head) > 1200 {
		head = head[:1200]
	}
	what := "the process running " + j.Entry + " DIED"
	if ctx.Err() != nil {
		what = "the process running " + j.Entry + " had to be killed (no answer)"
	}
	return outcome{Child: true, Class: "process-died", Ms: float64(time.Since(t0).Milliseconds()),
		Violation: fmt.Sprintf("%s: %v", what, err), Detail: head}
}

// tailWriter keeps the first max bytes (the fatal error message comes first; a stack-overflow trace is huge)
type tailWriter struct {
	max int
	buf *bytes.Buffer
}

func (w *tailWriter) Write(p []byte) (int, error) {
	if room := w.max - w.buf.Len(); room > 0 {
		if len(p) > room {
			w.buf.Write(p[:room])
		} else {
			w.buf.Write(p)
		}
	}
	return len(p), nil
}

// ---------------------------------------------------------------- risk classification (parent side)

func braceDepth(s string) int {
	d, max := 0, 0
	for i := 0; i < len(s); i++ {
		switch s[i] {
		case '{', '[', '(':
			d++
			if d > max {
				max = d
			}
		case '}', ']', ')':
			if d > 0 {
				d--
			}
		}
	}
	return max
}

// spreadsCyclic: the text mentions a fragment that (transitively) spreads itself. Works on the token level so
// that it never recurses over the AST: edges = (enclosing fragment definition) -> (spread name).
func spreadsCyclic(src string) bool {
	toks, _, ok := gen.Tokenize(src)
	if !ok {
		return false
	}
	edges := map[string][]string{}
	cur := ""
	depth := 0
	for i := 0; i < len(toks); i++ {
		t := toks[i].Text
		switch {
		case t == "{":
			depth++
		case t == "}":
			depth--
			if depth == 0 {
				cur = ""
			}
		case t == "fragment" && depth == 0 && i+1 < len(toks):
			cur = toks[i+1].Text
		case t == "..." && i+1 < len(toks) && toks[i+1].Text != "on" && toks[i+1].Text != "{" && toks[i+1].Text != "@":
			if cur != "" {
				edges[cur] = append(edges[cur], toks[i+1].Text)
			}
		}
	}
	state := map[string]int{}
	var visit func(n string, fuel int) bool
	visit = func(n string, fuel int) bool {
		if fuel == 0 || state[n] == 1 {
			return true
		}
		if state[n] == 2 {
			return false
		}
		state[n] = 1
		for _, m := range edges[n] {
			if visit(m, fuel-1) {
				return true
			}
		}
		state[n] = 2
		return false
	}
	for n := range edges {
		if visit(n, 10000) {
			return true
		}
	}
	return false
}

func risky(j job) bool {
	return j.Heavy || len(j.Src)+len(j.Vars) > 20000 || braceDepth(j.Src) > 500 || braceDepth(j.Vars) > 500 || spreadsCyclic(j.Src)
}

// ---------------------------------------------------------------- orchestration

type done struct {
	j job
	o outcome
}

type slowJob struct {
	Entry  string  `json:"entry"`
	Origin string  `json:"origin"`
	Bytes  int     `json:"bytes"`
	Ms     float64 `json:"ms"`
	CpuMs  float64 `json:"cpu_ms"`
	Limit  float64 `json:"limit_ms"`
}

type pool struct {
	slow     []slowJob
	run      *hx.Run
	jobs     chan job
	results  chan done
	wg       sync.WaitGroup
	agg      sync.WaitGroup
	timeouts int
	mu       sync.Mutex
}

func newPool(run *hx.Run, workers int) *pool {
	p := &pool{run: run, jobs: make(chan job, 256), results: make(chan done, 256)}
	for w := 0; w < workers; w++ {
		p.wg.Add(1)
		w := w
		go func() {
			defer p.wg.Done()
			inflight := ""
			if run.ReplayDir != "" && run.ReplayIn == "" {
				os.MkdirAll(run.ReplayDir, 0o755)
				inflight = filepath.Join(run.ReplayDir, fmt.Sprintf("inflight-%d.json", w))
			}
			for j := range p.jobs {
				var o outcome
				if len(j.Batch) > 0 {
					runBatch(j, p.stop, func(d done) { p.results <- d })
					continue
				}
				if risky(j) {
					o = runInChild(j)
				} else {
					if inflight != "" { // an unrecovered panic in a goroutine of the library kills this process
						b, _ := json.Marshal(map[string]interface{}{"property": "C09", "note": "job in flight when the harness process died", "replay": map[string]interface{}{"job": j}})
						os.WriteFile(inflight, b, 0o644)
					}
					o = runJob(j, false)
				}
				p.results <- done{j, o}
			}
			if inflight != "" {
				os.Remove(inflight)
			}
		}()
	}
	p.agg.Add(1)
	go func() {
		defer p.agg.Done()
		for d := range p.results {
			p.record(d.j, d.o)
		}
	}()
	return p
}

func (p *pool) submit(j job) { p.jobs <- j }

func (p *pool) close() {
	close(p.jobs)
	p.wg.Wait()
	close(p.results)
	p.agg.Wait()
}

func (p *pool) stop() bool {
	p.mu.Lock()
	defer p.mu.Unlock()
	return p.run.TooManyViolations() || p.timeouts >= 3
}

func trunc(s string, n int) string {
	if len(s) > n {
		return s[:n] + fmt.Sprintf("…(%d bytes)", len(s))
	}
	return s
}

func (p *pool) record(j job, o outcome) {
	run := p.run
	p.mu.Lock()
	defer p.mu.Unlock()
	entry := j.Entry
	if j.Variant != "" {
		entry += ":" + j.Variant
	}
	run.Tag("entry:" + entry)
	run.Tag("class:" + o.Class)
	run.Tag("origin:" + j.Origin)
	run.Tag("schema:" + schemas[j.Schema%len(schemas)].name)
	for _, t := range j.Tags {
		run.Tag(t)
	}
	if o.Child {
		run.Tag("ran-in-child-process")
	}
	if o.DepthBound > 0 {
		run.Tag("endlessData")
		run.Tag(fmt.Sprintf("endlessData:deepest-resolver=%d", o.Depth))
		run.Tag(fmt.Sprintf("endlessData:slack-to-depth-bound=%d", o.DepthBound-o.Depth))
		calls := "0"
		for lim := int64(10); o.Calls > 0; lim *= 10 {
			if o.Calls <= lim {
				calls = fmt.Sprintf("<=%d", lim)
				break
			}
		}
		run.Tag("endlessData:resolver-invocations" + calls)
		if o.Detail == "endlessData:call-cap-reached" {
			run.Tag(o.Detail)
		}
	}
	p.slow = append(p.slow, slowJob{entry, j.Origin, len(j.Src) + len(j.Vars), o.Ms, o.CpuMs, o.LimitMs})
	sort.Slice(p.slow, func(a, b int) bool { return p.slow[a].Ms > p.slow[b].Ms })
	if max := 12; len(p.slow) > max && os.Getenv("VERIF_C09_ONLY") != "nasty" {
		p.slow = p.slow[:max]
	}
	nontrivial := len(j.Src) > 0 && (o.Parsed || j.Entry == "Parse" || j.Entry == "Do" || j.Entry == "Subscribe" || strings.HasPrefix(j.Entry, "CacheGet"))
	key := hx.Canon(j)
	run.Case(key, nontrivial, map[string]interface{}{"entry": entry, "schema": schemas[j.Schema%len(schemas)].name, "src": trunc(j.Src, 120), "op": j.Op, "vars": trunc(j.Vars, 60), "class": o.Class, "ms": o.Ms})
	if o.Class == "harness-error" {
		run.CheckError("child process could not be started: " + o.Detail)
		return
	}
	if o.Violation != "" {
		if o.Timeout {
			p.timeouts++
		}
		if cls, what := knownFinding(j, o); cls != "" {
			run.KnownFinding(cls, what)
			return
		}
		jj := j
		run.Violation(o.Violation+" :: "+entry+" on "+trunc(j.Src, 200), map[string]interface{}{"job": jj, "outcome": o, "schema": schemas[j.Schema%len(schemas)].name}, false)
	}
}

// knownFinding maps a failing job to a finding class the lead has LISTED in KNOWN_FINDINGS.txt (none so far).
func knownFinding(j job, o outcome) (class, what string) {
	return "", ""
}

// the job streams draw on the first four schemas; hand/endless (index 4, endless.go) is used by the family cyclicBareFirst
// only, whose jobs run one at a time in child processes (its resolvers keep process-wide counters)
const streamSchemas = 4

var entries = []string{"Validate", "PlanQuery", "Execute", "ExecuteSubscription", "CacheGet", "CacheGetNorm", "Do", "Subscribe"}

// supervise runs the whole harness in a WORKER process. An unrecovered panic in a goroutine started by the library
// (or a fatal runtime error) kills that process; the supervisor then re-runs every job that was in flight, each in
// its own child process, and reports the ones that die again with their exact input.
func supervise() {
	run := hx.Begin("C09")
	exe, err := os.Executable()
	if err != nil {
		run.CheckError("os.Executable: " + err.Error())
		run.Finish()
		return
	}
	if run.ReplayDir != "" {
		old, _ := filepath.Glob(filepath.Join(run.ReplayDir, "inflight-*.json"))
		for _, f := range old {
			os.Remove(f)
		}
	}
	cmd := exec.Command(exe, append(append([]string{}, os.Args[1:]...), "--worker")...)
	var stderr bytes.Buffer
	cmd.Stdout = os.Stdout
	cmd.Stderr = &tailWriter{max: 4000, buf: &stderr}
	if err := cmd.Run(); err == nil {
		return // the worker wrote the result file
	} else {
		buildSchemas()
		run.Res.Rule = "worker process died (" + err.Error() + "); jobs in flight re-run one per child process"
		files, _ := filepath.Glob(filepath.Join(run.ReplayDir, "inflight-*.json"))
		sort.Strings(files)
		found := false
		jobs := []job{}
		for _, f := range files {
			var rp struct {
				Job job `json:"job"`
			}
			if hx.LoadReplay(f, &rp) != nil || rp.Job.Entry == "" {
				continue
			}
			jobs = append(jobs, rp.Job)
			o := runInChild(rp.Job)
			run.Case(hx.Canon(rp.Job), true, nil)
			if o.Violation != "" {
				found = true
				run.Violation("(the harness worker process died; reproduced alone) "+o.Violation+" :: "+rp.Job.Entry+" on "+trunc(rp.Job.Src, 200),
					map[string]interface{}{"job": rp.Job, "outcome": o, "schema": schemas[rp.Job.Schema%len(schemas)].name, "worker_stderr": stderr.String()}, false)
			}
			os.Remove(f)
		}
		if !found {
			run.Violation("the harness worker process died and none of the jobs in flight reproduces it alone: "+trunc(stderr.String(), 300),
				map[string]interface{}{"jobs_in_flight": jobs, "worker_stderr": stderr.String()}, true)
		}
		run.Finish()
	}
}

func main() {
	child := flag.Bool("child", false, "run one job from stdin (internal)")
	worker := flag.Bool("worker", false, "run the job stream in this process (internal; the default is to supervise a worker)")
	for _, a := range os.Args[1:] {
		switch a {
		case "--child", "-child":
			*child = true
		case "--worker", "-worker":
			*worker = true
		}
	}
	if *child {
		childMain()
		return
	}
	if !*worker {
		supervise()
		return
	}
	run := hx.Begin("C09") // parses the flags
	buildSchemas()
	run.Res.Rule = "job = (entry point or nil/zero-parameter variant, one of 4 schemas (a fifth, hand/endless, for the family cyclicBareFirst), document text, operation name, variables JSON); texts: grammar-directed documents and their mutations (byte flips, token insert/delete/duplicate, truncation, splices), hand-written nasties (fragment cycles of length 1-4 directly and through fields, unknown types, type-system definitions in requests, missing/ambiguous operations, 10k-deep nesting, 10k-wide sets, huge literals), generated family cyclicMixedExclusive (harness/cycfam: fragment tables of 2-3 fragments on different / the same object types and on the interface, spread side by side below an abstract field, bodies = subsets of {x: a { ...Fj }, ...Fj, plain field}: all 8649 two-fragment tables plus a seeded random sample with three fragments, through ValidateDocument, Do and PlanCache.Get in child processes), generated family cyclicBareFirst (harness/cycfam/barefirst.go: fragment cycles through fields in which occurrences of the composite field WITHOUT selection set stand before / after the ones with a sub-selection, in the operation, in fragment bodies and one level down - all ordered choices of <=3 (operation) x <=2 (fragment body; thorough <=3) of six letters for one fragment, hand-written neighbours of seeded change C09-13, a seeded random sample with 2-3 fragments, abstract / list fields, alias collisions and inline fragments - through Execute and PlanQuery+ExecutePlan x2 UNVALIDATED on a fifth schema hand/endless whose data never ends by itself (every composite field resolves to a fresh or a shared, self-referential object at every depth; lists of 1-2): besides the result shape, the deepest response path a resolver ran at must stay <= 2 + depth(operation) + (deepest fragment body + 1) x #fragments (exec_depth_bounded_by_selection + 1) and the resolver invocations <= #field nodes x sum_{d<that}(list length x #response keys)^d; the data gives up 8 levels below the depth bound / after 4 x the call bound (at most 200000 calls) so that a violation is reported promptly; child processes under the CPU watchdog), seed corpus (kitchen sinks, corpus/C09) under a coverage-less mutational loop; every AST the real parser accepts is fed UNVALIDATED to ValidateDocument, PlanQuery+ExecutePlan x2, Execute, ExecuteSubscription, and as text to Do, Subscribe, PlanCache.Get (normalize off/on, miss+hit); non-trivial = non-empty input that the parser accepted or that went through a text-level entry point; distinct by the whole job"

	if run.ReplayIn != "" {
		var rp struct {
			Job job `json:"job"`
		}
		if err := hx.LoadReplay(run.ReplayIn, &rp); err != nil {
			run.CheckError(err.Error())
		} else {
			p := newPool(run, 1)
			p.submit(rp.Job)
			p.close()
		}
		run.Finish()
		return
	}

	workers := runtime.NumCPU()
	if workers > 16 {
		workers = 16
	}
	if !run.Thorough() && workers > 8 {
		workers = 8
	}
	p := newPool(run, workers)
	t0 := time.Now()

	// (0) nil / zero parameters and hand-written nasties, every entry point, every schema
	for _, j := range nilParamJobs() {
		p.submit(j)
	}
	// (0') generated family cyclicMixedExclusive (cyclicfam.go): batches of tiny cyclic documents, a child process each
	famDocs := 0
	if only := os.Getenv("VERIF_C09_ONLY"); only == "" || only == "cyclic" {
		for _, j := range cyclicFamilyJobs(run) {
			if p.stop() {
				break
			}
			famDocs += len(j.Batch)
			p.submit(j)
		}
	}
	run.Res.Extra["cyclicMixedExclusive_jobs"] = famDocs
	// (0'') generated family cyclicBareFirst on endless data (barefirst.go): Execute and PlanQuery+ExecutePlan, unvalidated
	bareDocs := 0
	if only := os.Getenv("VERIF_C09_ONLY"); only == "" || only == "cyclic" || only == "barefirst" {
		for _, j := range bareFirstJobs(run) {
			if p.stop() {
				break
			}
			bareDocs += len(j.Batch)
			p.submit(j)
		}
	}
	run.Res.Extra["cyclicBareFirst_jobs"] = bareDocs
	if only := os.Getenv("VERIF_C09_ONLY"); only == "cyclic" || only == "barefirst" {
		p.close()
		run.Res.Extra["slowest_jobs"] = p.slow
		run.Finish()
		return
	}
	for _, n := range nasties(run.Thorough()) {
		for si := 0; si < streamSchemas; si++ {
			if n.big && (si > 1 || (si > 0 && !run.Thorough())) {
				continue
			}
			if !run.Thorough() && si == 3 {
				continue
			}
			for _, e := range append([]string{"Parse"}, entries...) {
				if p.stop() {
					break
				}
				if n.hang && !(si == 0 && (e == "Execute" || e == "PlanQuery")) {
					continue // each such job costs the whole watchdog interval when it fails
				}
				if n.only != nil && !contains(n.only, e) {
					continue
				}
				p.submit(job{Entry: e, Schema: si, Src: n.src, Op: n.op, Vars: n.vars, Origin: "nasty:" + n.name, Heavy: n.big})
			}
		}
	}
	if os.Getenv("VERIF_C09_ONLY") == "nasty" {
		p.close()
		run.Res.Extra["slowest_jobs"] = p.slow
		run.Finish()
		return
	}
	// (a) structured stream
	nDocs := run.N(400, 40000)
	for i := 0; i < nDocs && !p.stop(); i++ {
		r := hx.Fork(run.Seed, i)
		g := &gen.DocGen{R: r, Size: r.Range(1, 5), Exec: true, TypeSystem: r.Chance(1, 4), Exotic: r.Chance(1, 4)}
		src := g.Document()
		origin := "docgen"
		if r.Chance(1, 2) {
			src = mutate(r, src, r.Range(1, 3), nil)
			origin = "docgen-mutated"
		}
		doc, err := safeParse(src)
		p.submit(job{Entry: "Parse", Src: src, Origin: origin})
		si := r.Intn(streamSchemas)
		if r.Chance(1, 2) {
			si = r.Intn(2) // the hand-written schemas know the generator's names
		}
		op := pickOp(r, doc)
		vars := genVars(r, doc)
		if err != nil {
			// rejected texts still go through the text-level entry points
			p.submit(job{Entry: r.Pick([]string{"Do", "Subscribe", "CacheGet", "CacheGetNorm"}), Schema: si, Src: src, Op: op, Vars: vars, Origin: origin})
			continue
		}
		for _, e := range entries {
			p.submit(job{Entry: e, Schema: si, Src: src, Op: op, Vars: vars, Origin: origin})
		}
	}
	run.Res.Extra["structured_s"] = time.Since(t0).Seconds()

	// (b) coverage-less mutational loop over the seed corpus
	seeds := corpus()
	budget := 8 * time.Second
	if run.Thorough() {
		budget = 10 * time.Minute
	}
	t1 := time.Now()
	fuzzed := 0
	for i := 0; time.Since(t1) < budget && !p.stop(); i++ {
		r := hx.Fork(run.Seed^0xF022, i)
		src := mutate(r, seeds[r.Intn(len(seeds))], r.Range(1, 4), seeds)
		if len(src) > 1<<16 {
			src = src[:1<<16]
		}
		si := r.Intn(streamSchemas)
		var doc *ast.Document
		if r.Chance(1, 2) {
			doc, _ = safeParse(src)
		}
		j := job{Entry: r.Pick(append([]string{"Parse", "Do", "Do"}, entries...)), Schema: si, Src: src, Op: pickOp(r, doc), Vars: genVars(r, doc), Origin: "fuzz"}
		p.submit(j)
		fuzzed++
	}
	p.close()
	run.Res.Extra["fuzz_jobs"] = fuzzed
	run.Res.Extra["fuzz_budget_s"] = budget.Seconds()
	run.Res.Extra["workers"] = workers
	run.Res.Extra["seed_corpus"] = len(seeds)
	run.Res.Extra["slowest_jobs"] = p.slow
	run.Finish()
}

func contains(xs []string, x string) bool {
	for _, y := range xs {
		if y == x {
			return true
		}
	}
	return false
}

func safeParse(src string) (doc *ast.Document, err error) {
	defer func() {
		if r := recover(); r != nil {
			doc, err = nil, fmt.Errorf("panic: %v", r)
		}
	}()
	if braceDepth(src) > 500 {
		return nil, fmt.Errorf("deep: parsed in the child only")
	}
	return parser.Parse(parser.ParseParams{Source: src})
}

func corpus() []string {
	var out []string
	repo := os.Getenv("VERIF_REPO")
	if repo == "" {
		repo = "/repo"
	}
	for _, f := range []string{"kitchen-sink.graphql", "schema-kitchen-sink.graphql"} {
		if b, err := os.ReadFile(filepath.Join(repo, f)); err == nil {
			out = append(out, string(b))
		}
	}
	root := os.Getenv("VERIF_ROOT")
	if root == "" {
		root = "/verif"
	}
	files, _ := filepath.Glob(filepath.Join(root, "corpus", "C09", "*"))
	sort.Strings(files)
	for _, f := range files {
		if b, err := os.ReadFile(f); err == nil && len(b) > 0 {
			out = append(out, string(b))
		}
	}
	for _, n := range nasties(false) {
		if !n.big {
			out = append(out, n.src)
		}
	}
	return out
}
