package main

import (
	"encoding/json"
	"fmt"
	"strings"

	"github.com/graphql-go/graphql/language/ast"

	"verif/harness/hx"
)

type nasty struct {
	name, src, op, vars string
	big                 bool     // tens of kilobytes: run against fewer schemas
	hang                bool     // ran into the watchdog before repair D-09d: run once per entry point (each failure costs the whole interval)
	only                []string // restrict to these entry points (nil = all)
}

func repeat(n int, f func(i int) string) string {
	var b strings.Builder
	for i := 0; i < n; i++ {
		b.WriteString(f(i))
	}
	return b.String()
}

func deepList(n int) string { return strings.Repeat("[", n) + "1" + strings.Repeat("]", n) }

// nasties: hand-written documents aimed at the guards the property's anchors name.
func nasties(thorough bool) []nasty {
	// ValidateDocument is quadratic in nesting depth and in the number of conflicting field pairs, printer.Print is
	// worse than quadratic in depth (performance remarks in notes/agents/C09.md; polynomial is acceptable by the
	// lead's ruling on D-09e). Documents that go through them are therefore sized so that this polynomial cost fits
	// the tier's budget; the 10k-deep documents go to the entry points that take an UNVALIDATED AST.
	deep, wide, conflicting := 150, 1000, 60
	if thorough {
		deep, wide, conflicting = 400, 3000, 250
	}
	huge := 10000
	hugeLit := 3000 // nesting of literals / types / variable values handed to the unvalidated entry points (quick)
	hugeVar := 400  // getVariableValues builds nested error messages: quadratic in the depth of an invalid value
	if thorough {
		hugeLit, hugeVar = 10000, 1000
	}
	unvalidated := []string{"PlanQuery", "Execute", "ExecuteSubscription"}
	out := []nasty{
		// --- fragment cycles, length 1-4, directly and through fields (D-09a family)
		{name: "cycle1-direct", src: `{ ...F } fragment F on Query { ...F }`},
		{name: "cycle1-field", src: `{ ...F } fragment F on Query { a { ...F } }`},
		{name: "cycle1-field-T", src: `{ a { ...F } } fragment F on T { a { ...F } id }`},
		{name: "cycle2-direct", src: `{ ...F } fragment F on Query { ...G } fragment G on Query { ...F b }`},
		{name: "cycle2-field", src: `{ a { ...F } } fragment F on T { a { ...G } } fragment G on T { a { ...F } }`},
		{name: "cycle3-mixed", src: `{ ...A } fragment A on Query { a { ...B } ...C } fragment B on T { c { ...C ...A } } fragment C on Node { foo { ...A ...B } ... on T { ...C } }`},
		{name: "cycle4-iface", src: `{ foo { ...A } } fragment A on Node { foo { ...B } } fragment B on Node { foo { ...C } } fragment C on Node { ... on T { foo { ...D } } } fragment D on Node { foo { ...A } bar { ...A ...B } }`},
		{name: "cycle-inline-only", src: `{ ... { ... on Query { ...F } } } fragment F on Query { ... { ...F a { ...F } } }`},
		{name: "cycle-dynamic", src: `query($a: Boolean!) { ...F @include(if: $a) } fragment F on Query { a @skip(if: $a) { ...G } } fragment G on T { a { ...G ...F } }`, vars: `{"a": true}`},
		{name: "cycle-subscription", src: `subscription { a { ...F } } fragment F on T { a { ...F } }`},
		{name: "cycle-subscription-root", src: `subscription { ...F } fragment F on S { a { id } ...G } fragment G on S { ...F }`},
		{name: "cycle-mutation", src: `mutation { a { ...F } foo } fragment F on T { a { ...F } }`},
		{name: "cycle-dup-names", src: `{ ...F } fragment F on Query { a { ...F } } fragment F on Query { b ...F }`},
		{name: "cycle-two-ops", src: `query A { ...F } query B { a { ...F } } fragment F on Query { a { ...G } } fragment G on T { a { ...G } }`, op: "B"},
		// --- unknown types everywhere (D-09c regression: unknown type condition at the root level)
		{name: "unknown-cond-inline-root", src: `{ ... on Nope { a } }`},
		{name: "unknown-cond-fragment-root", src: `{ ...F } fragment F on Nope { a }`},
		{name: "unknown-cond-nested", src: `{ a { ...F ... on Nope { id } } foo { ... on Nope { id } ...F } } fragment F on Nope { id }`},
		{name: "unknown-var-types", src: `query($a: Nope, $b: [Nope!]!, $c: Nope = 1, $d: [[Nope]] = [[{a: 1}]]) { b(a: $a, b: $b, x1: $c, c: $d) }`, vars: `{"a": 1, "b": [null], "c": {"a": []}}`},
		{name: "unknown-fields-args-dirs", src: `{ nope(x: 1) @nope(y: $z) { nope } a(nope: {a: [1, $q]}) @skip @include(if: 1) @skip(if: "x") { id @deprecated } }`},
		{name: "cond-on-scalar-input-enum", src: `{ ... on String { a } ... on input { a } ... on Color { a } a { ... on Int { id } ...F } } fragment F on Color { id }`},
		// --- the nil variable type the parser lets through (D-03b / D-09b)
		{name: "nil-var-type", src: `query($a: ) { a { id } }`},
		{name: "nil-var-type-used", src: `query($a: ) { b(a: $a) }`, vars: `{"a": 1}`},
		{name: "nil-var-type-bracket", src: `query($a: ]) { b(a: $a) }`},
		{name: "bad-var-type-bracket", src: `query($a: [Int}) { b(a: $a) }`},
		{name: "nil-var-type-default", src: `query($a: = 1, $b: [) { b(a: $a, b: $b) }`},
		// --- type-system definitions inside executable requests, missing / ambiguous operations
		{name: "typedef-in-request", src: `type X { a: Int } { a { id } }`},
		{name: "schema-def-in-request", src: `schema { query: Query } extend type Query { z: Int } { a { id } }`},
		{name: "directive-def-in-request", src: `directive @d(a: Int = 1) on FIELD | QUERY query @d { a @d { id } }`},
		{name: "only-typedefs", src: `type X { a: Int } interface Y { b: X } union Z = X enum E { A } input I { a: Int = 1 } scalar S`},
		{name: "only-fragment", src: `fragment F on Query { a { id } }`},
		{name: "two-anonymous", src: `{ a { id } } { b }`},
		{name: "two-named-none-chosen", src: `query A { a { id } } query B { b }`},
		{name: "unknown-op-name", src: `query A { a { id } }`, op: "Z"},
		{name: "same-name-twice", src: `query A { a { id } } query A { b }`, op: "A"},
		{name: "mutation-and-subscription-roots", src: `mutation M { a { id } b foo } subscription S { a { id } b }`, op: "S"},
		{name: "subscription-many-roots", src: `subscription { a { id } b c { id } foo { id } }`},
		{name: "subscription-no-root", src: `subscription { ...F } fragment F on Nope { a }`},
		{name: "subscription-typename", src: `subscription { __typename }`},
		{name: "subscription-unknown-field", src: `subscription { nope }`},
		// --- directives and variables in odd places
		{name: "skip-everything", src: `query($a: Boolean = true) @skip(if: true) { a @skip(if: $a) { id } ... @skip(if: $a) { b } ...F @skip(if: $a) } fragment F on Query @skip(if: true) { b }`},
		{name: "var-kinds", src: `query($a: Int = "x", $b: [String!] = [1, null], $c: input = {a: {a: {id: null}}}, $d: Color = 1, $e: Boolean! = null, $f: [[Int]]! ) { b(a: $a, b: $b, x1: $c, c: $d, _y: $e) enum(a: $f) }`,
			vars: `{"a": 1.5, "b": "x", "c": {"a": {"a": {"a": 1}}, "b": [[]], "id": "1"}, "d": "on", "f": [1, [2, ["x"]], null]}`},
		{name: "var-in-default", src: `query($a: Int = $b, $b: Int = $a) { b(a: $a) }`},
		{name: "introspection-cycle-small", hang: true, src: `{ __type(name: "T") { ...F } } fragment F on __Type { fields { type { ...F } } }`},
		{name: "introspection-cycle", hang: true, src: `{ __schema { types { ...T } } __type(name: "T") { ...T } } fragment T on __Type { name fields { type { ...T } } ofType { ...T } interfaces { ...T } possibleTypes { ...T } }`},
		{name: "introspection-bad-arg", src: `{ __type(name: 1) { name } a: __type { name } __typename { x } __schema(x: 1) }`},
		{name: "aliases-and-typename", src: `{ __typename a: __typename a: id b: a { __typename: id } }`},
		{name: "empty-ish", src: `{ a { ...F } } fragment F on T { ... on T { ... { ... on Node { ...G } } } } fragment G on T { ... on Query { id } }`},
		{name: "numbers", src: `{ b(a: 99999999999999999999, id: 1e400) enum(a: -0) c(a: 0.0000000000000000000000001e-999) { id } }`},
		{name: "strings", src: "{ b(id: \"\\u0000\\ud800\\udfff\\\"\") a(id: \"\"\"\n  \\\"\"\"  \"\"\") { id } }"},
		{name: "unicode-bom", src: "\ufeff{ a #é\n { id } }"},
		// code points some editions (and regexp classes) count as line ends: the line counting of error locations and the
		// source highlighting of syntax errors must agree on them (seed C09-14: index out of range inside parser.Parse)
		{name: "unicode-line-separators", src: "{ a #\u2028"},
		{name: "unicode-line-separators-2", src: "{ a #\u2029\u2028\u0085\v\f }}"},
		{name: "unicode-line-separators-3", src: "\"\u2028\u2029"},
		{name: "unicode-line-separators-4", src: "{ a(s: \"\u2028\") #\u2029\r\n\u2028 ] "},
		{name: "empty", src: ``},
		{name: "blank", src: " \t\r\n,,, # only a comment"},
	}
	// --- sizes
	out = append(out,
		nasty{name: "deep-fields", big: true, src: strings.Repeat("{a", deep) + strings.Repeat("}", deep)},
		nasty{name: "deep-fields-valid", big: true, src: strings.Repeat("{a", deep/4) + "{id}" + strings.Repeat("}", deep/4)},
		nasty{name: "deep-inline", big: true, src: "{" + strings.Repeat("...{", deep) + "b" + strings.Repeat("}", deep) + "}"},
		nasty{name: "deep-list-literal", big: true, src: "{ b(b: " + deepList(deep) + ") }"},
		nasty{name: "deep-object-literal", big: true, src: "{ b(x1: " + strings.Repeat("{a:", deep) + "null" + strings.Repeat("}", deep) + ") }"},
		nasty{name: "deep-list-type", big: true, src: "query($a: " + strings.Repeat("[", deep) + "Int" + strings.Repeat("]", deep) + ") { b(a: $a) }"},
		nasty{name: "deep-variable-value", big: true, src: `query($c: input, $f: [[Int]]) { b(x1: $c) enum(a: $f) }`, vars: `{"c": ` + strings.Repeat(`{"a":`, deep/5) + `null` + strings.Repeat(`}`, deep/5) + `, "f": ` + deepList(deep/5) + `}`},
		nasty{name: "unbalanced-deep", big: true, src: strings.Repeat("{a(b:[", huge)},
		nasty{name: "10k-deep-fields", big: true, only: unvalidated, src: strings.Repeat("{a", huge) + strings.Repeat("}", huge)},
		nasty{name: "10k-deep-inline", big: true, only: unvalidated, src: "{" + strings.Repeat("...{", huge) + "b" + strings.Repeat("}", huge) + "}"},
		nasty{name: "10k-deep-list-literal", big: true, only: unvalidated, src: "{ b(b: " + deepList(hugeLit) + ") }"},
		nasty{name: "10k-deep-object-literal", big: true, only: unvalidated, src: "{ b(x1: " + strings.Repeat("{a:", hugeLit) + "null" + strings.Repeat("}", hugeLit) + ") a { id } }"},
		nasty{name: "10k-deep-list-type", big: true, only: unvalidated, src: "query($a: " + strings.Repeat("[", hugeLit) + "Int" + strings.Repeat("]", hugeLit) + ") { b(a: $a) }", vars: `{"a": 1}`},
		nasty{name: "deep-variable-value-unvalidated", big: true, only: unvalidated, src: `query($c: input, $f: [[Int]]) { b(x1: $c) enum(a: $f) }`, vars: `{"c": ` + strings.Repeat(`{"a":`, hugeVar) + `null` + strings.Repeat(`}`, hugeVar) + `, "f": ` + deepList(hugeLit) + `}`},
		nasty{name: "10k-wide-distinct", big: true, only: unvalidated, src: "{ " + repeat(huge, func(i int) string { return fmt.Sprintf("k%d: b ", i) }) + "}"},
		nasty{name: "10k-wide-same-key", big: true, only: unvalidated, src: "{ " + repeat(huge, func(i int) string { return "b " }) + "}"},
		nasty{name: "wide-distinct", big: true, src: "{ " + repeat(wide, func(i int) string { return fmt.Sprintf("k%d: b ", i) }) + "}"},
		nasty{name: "wide-same-key", big: true, src: "{ " + repeat(wide/2, func(i int) string { return "b " }) + "}"},
		nasty{name: "wide-same-key-conflicting", big: true, src: "{ " + repeat(conflicting, func(i int) string { return fmt.Sprintf("k: b(a: %d) ", i) }) + "}"},
		nasty{name: "wide-spreads", big: true, src: "{ " + repeat(wide/4, func(i int) string { return "...F " }) + "} fragment F on Query { b }"},
		nasty{name: "wide-fragments", big: true, src: "{ ...F0 } " + repeat(wide/8, func(i int) string { return fmt.Sprintf("fragment F%d on Query { b ...F%d } ", i, i+1) })},
		nasty{name: "wide-variables", big: true, src: "query(" + repeat(wide/5, func(i int) string { return fmt.Sprintf("$v%d: Int = %d ", i, i) }) + ") { b(a: $v0) }"},
		nasty{name: "wide-args-dirs", big: true, src: "{ b(" + repeat(wide/5, func(i int) string { return fmt.Sprintf("a%d: %d ", i, i) }) + ") " + repeat(wide/5, func(i int) string { return "@skip(if: false) " }) + "}"},
		nasty{name: "huge-string", big: true, src: `{ b(id: "` + strings.Repeat("x", 20*wide) + `") }`},
		nasty{name: "huge-block-string", big: true, src: `{ b(id: """` + strings.Repeat("  line\n", 3*wide) + `""") }`},
		nasty{name: "huge-int", big: true, src: `{ b(a: ` + strings.Repeat("9", 10*wide) + `) enum(a: 1.` + strings.Repeat("0", 10*wide) + `1) }`},
		nasty{name: "huge-name", big: true, src: `{ ` + strings.Repeat("n", 20*wide) + ` }`},
		nasty{name: "huge-comment", big: true, src: "{ a #" + strings.Repeat("c", 20*wide) + "\n { id } }"},
		nasty{name: "ladder-d19a", big: true, src: "{ ...F0 } " + repeat(40, func(i int) string {
			return fmt.Sprintf("fragment F%d on Query { x: a { ...G%d } y: a { ...G%d } } fragment G%d on T { x: a { ...G%d } y: a { ...G%d } } ", i, i, i, i, i+1, i+1)
		})},
	)
	return out
}

// nilParamJobs: nil / zero parameters at every entry point that takes a pointer or a struct.
func nilParamJobs() []job {
	src := `query Q($a: Int) { a(a: $a) { id ...F } } fragment F on T { name }`
	out := []job{}
	add := func(entry, variant string, srcs ...string) {
		for _, s := range srcs {
			for si := 0; si < 2; si++ {
				for _, op := range []string{"", "Q", "Nope"} {
					for _, vars := range []string{"null", "{}", `{"a": "x"}`} {
						out = append(out, job{Entry: entry, Variant: variant, Schema: si, Src: s, Op: op, Vars: vars, Origin: "nil-param"})
					}
				}
			}
		}
	}
	add("Validate", "nilschema", src)
	add("Validate", "nildoc", src)
	add("Validate", "zeroschema", src, `{ a }`, `{ ...F } fragment F on T { a }`, `query($a: Int) { a(a: $a) @skip(if: true) }`)
	add("PlanQuery", "nilschema", src)
	add("PlanQuery", "nildoc", src)
	add("PlanQuery", "zeroschema", src, `{ a }`, `mutation { a }`, `subscription { a }`)
	add("PlanQuery", "nilplan", src)
	add("Execute", "zeroschema", src, `{ a }`, `{ __typename }`, `{ __schema { types { name } } }`)
	add("Execute", "nildoc", src)
	add("ExecuteSubscription", "zeroschema", src, `subscription { a }`)
	add("ExecuteSubscription", "nildoc", src)
	add("Do", "zeroschema", src, `{ a }`, ``, `{`)
	add("Subscribe", "zeroschema", src, `subscription { a }`, `{`)
	add("CacheGet", "nilcache", src, `{`)
	add("CacheGet", "nilschema", src, `{`)
	add("CacheGetNorm", "nilschema", src, `{ b(a: 1) }`)
	add("CacheGetNorm", "nilcache", src)
	return out
}

var tokenPool = []string{"{", "}", "(", ")", "[", "]", ":", "!", "$", "@", "...", "=", "|", "&", "\"x\"", "\"\"\"b\n\"\"\"", "\"", "\"\"\"", "1", "1.5", "-0", "1e400", "true", "null",
	"on", "fragment", "query", "mutation", "subscription", "type", "schema", "extend", "implements", "interface", "union", "enum", "input", "scalar", "directive",
	"a", "b", "c", "T", "Query", "Node", "U", "Nope", "...F", "...on", "... on T", "@skip(if: true)", "@include(if: $a)", "@skip(if: $a)", "$a", "$a: Int", "$b: [T!]! = [1]", "#c\n", "\n", ",", "\ufeff", "\x00", "\xff", "é", "\u2028", "\u2029", "#\u2028", "\u0085", "\v", "\f", "\r", "\r\n", "\\u12", "{a{a{a", "}}}",
	"fragment F on T { a { ...F } }", "fragment G on Query { ...G ...F }", "__typename", "__schema { types { name } }", "a: a", "x: a { id }", "x: b"}

// mutate applies n random text mutations; splices draw on the other seeds when given.
func mutate(r *hx.Rng, s string, n int, seeds []string) string {
	b := []byte(s)
	for k := 0; k < n; k++ {
		switch r.Intn(9) {
		case 0: // byte flip
			if len(b) > 0 {
				i := r.Intn(len(b))
				b[i] ^= byte(1 << uint(r.Intn(8)))
			}
		case 1: // delete a short range
			if len(b) > 1 {
				i := r.Intn(len(b))
				j := i + 1 + r.Intn(8)
				if j > len(b) {
					j = len(b)
				}
				b = append(b[:i:i], b[j:]...)
			}
		case 2, 3: // insert a token
			i := 0
			if len(b) > 0 {
				i = r.Intn(len(b) + 1)
			}
			t := " " + r.Pick(tokenPool) + " "
			b = append(b[:i:i], append([]byte(t), b[i:]...)...)
		case 4: // truncate
			if len(b) > 0 {
				b = b[:r.Intn(len(b))]
			}
		case 5: // duplicate a slice
			if len(b) > 1 {
				i := r.Intn(len(b))
				j := i + 1 + r.Intn(40)
				if j > len(b) {
					j = len(b)
				}
				b = append(b[:j:j], append(append([]byte{}, b[i:j]...), b[j:]...)...)
			}
		case 6: // delete one token-ish word
			if i := strings.IndexAny(string(b), " \n"); i >= 0 && len(b) > i+1 {
				st := r.Intn(len(b))
				e := st
				for e < len(b) && b[e] != ' ' && b[e] != '\n' {
					e++
				}
				b = append(b[:st:st], b[e:]...)
			}
		case 7: // replace a byte by a structural character
			if len(b) > 0 {
				b[r.Intn(len(b))] = "{}()[]:!$@.=\"#\\ \n"[r.Intn(17)]
			}
		case 8: // splice with another seed
			if len(seeds) > 0 && len(b) > 0 {
				o := seeds[r.Intn(len(seeds))]
				if len(o) > 0 {
					i, j := r.Intn(len(b)), r.Intn(len(o))
					b = append(b[:i:i], []byte(o[j:])...)
				}
			}
		}
	}
	return string(b)
}

func pickOp(r *hx.Rng, doc *ast.Document) string {
	names := []string{}
	if doc != nil {
		for _, d := range doc.Definitions {
			if od, ok := d.(*ast.OperationDefinition); ok && od.Name != nil {
				names = append(names, od.Name.Value)
			}
		}
	}
	switch {
	case r.Chance(1, 8):
		return r.Pick([]string{"Nope", "query", "a", "\x00"})
	case len(names) > 0 && r.Chance(2, 3):
		return names[r.Intn(len(names))]
	}
	return ""
}

func genValue(r *hx.Rng, depth int) interface{} {
	switch r.Intn(9) {
	case 0:
		return nil
	case 1:
		return r.Chance(1, 2)
	case 2:
		return r.Intn(5)
	case 3:
		return []interface{}{1.5, -1e300, 4294967296.0, 2147483648.0}[r.Intn(4)]
	case 4:
		return r.Pick([]string{"", "x", "RED", "on", "1", "true", "\x00é"})
	case 5:
		if depth <= 0 {
			return []interface{}{}
		}
		n := r.Intn(3)
		out := []interface{}{}
		for i := 0; i < n; i++ {
			out = append(out, genValue(r, depth-1))
		}
		return out
	case 6:
		if depth <= 0 {
			return map[string]interface{}{}
		}
		out := map[string]interface{}{}
		for i := r.Intn(3); i > 0; i-- {
			out[r.Pick([]string{"a", "b", "id", "c", "nope"})] = genValue(r, depth-1)
		}
		return out
	case 7:
		var v interface{} = 1
		for i := 0; i < 50; i++ {
			if r.Chance(1, 2) {
				v = []interface{}{v}
			} else {
				v = map[string]interface{}{"a": v}
			}
		}
		return v
	}
	return r.Intn(3)
}

// genVars: an arbitrary JSON variable map: nil, empty, wrong kinds for the declared variables, noise names, deep nesting.
func genVars(r *hx.Rng, doc *ast.Document) string {
	switch r.Intn(6) {
	case 0:
		return "null"
	case 1:
		return "{}"
	}
	names := []string{"a", "b", "c", "foo", "id"}
	if doc != nil {
		for _, d := range doc.Definitions {
			if od, ok := d.(*ast.OperationDefinition); ok {
				for _, vd := range od.VariableDefinitions {
					if vd != nil && vd.Variable != nil && vd.Variable.Name != nil {
						names = append(names, vd.Variable.Name.Value, vd.Variable.Name.Value)
					}
				}
			}
		}
	}
	m := map[string]interface{}{}
	for i := r.Range(1, 4); i > 0; i-- {
		m[r.Pick(names)] = genValue(r, 3)
	}
	b, err := json.Marshal(m)
	if err != nil {
		return "{}"
	}
	return string(b)
}
