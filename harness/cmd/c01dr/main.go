// c01dr: correspondence between the real graphql.DefaultResolveFn (executor.go) and its Lean model
// GqlModel.DefaultResolve.defaultResolve (theorems: Props/C01Default.lean).
//
// Phase A (direct): generated parent values — structs built with reflect.StructOf (exported and unexported
// fields, json / graphql tags with options, names differing by case only), pointers to them, typed nil
// pointers, pointers to non-structs, map[string]interface{}, named and typed string-keyed maps reached by
// reflection, maps keyed by a named string type, FieldResolver implementations (value and pointer receivers),
// untyped nil, other kinds — are handed to graphql.DefaultResolveFn for a set of field names; result class and
// identity of the returned property are compared with the model (panics recovered and compared as such).
// Phase T (tables): a property table is rendered as a struct in a random way; when the model says the rendering
// is unambiguous (hypothesis of struct_encodes_table, evaluated by the driver) the REAL function must give back
// the table entry for every key, whatever the field order.
// Phase B (end to end): a schema whose object type T has NO Resolve functions is executed by graphql.Do /
// PlanQuery+ExecutePlan (plan executed twice) on parent values of all kinds (single and in lists, and as the
// request's root value); the response is compared with the response of a twin schema whose explicit resolvers
// return what the MODEL predicts for (parent, field). FieldResolver parents also echo and then scribble over the
// arguments they are handed (literal and variable-borne): every invocation must see the field's own coerced
// arguments (C20), whatever earlier invocations did to theirs.
package main

import (
	"encoding/json"
	"fmt"
	"reflect"
	"sort"
	"strconv"
	"strings"

	"github.com/graphql-go/graphql"
	"github.com/graphql-go/graphql/language/ast"
	"github.com/graphql-go/graphql/language/parser"
	"github.com/graphql-go/graphql/language/source"

	"verif/harness/hx"
)

// ---------------------------------------------------------------- descriptions (wire format of the driver)

type PV struct {
	T  string `json:"t"`
	ID int    `json:"id"`
}

type FieldD struct {
	Name     string `json:"name"`
	Exported bool   `json:"exported"`
	JSON     string `json:"json"`
	Graphql  string `json:"graphql"`
	Val      PV     `json:"val"`
	Concrete bool   `json:"concrete,omitempty"` // Go side only: field typed by its value instead of interface{}
}

type EntryD struct {
	Key string
	Val PV
}

func (e EntryD) MarshalJSON() ([]byte, error) { return json.Marshal([]interface{}{e.Key, e.Val}) }
func (e *EntryD) UnmarshalJSON(b []byte) error {
	var raw []json.RawMessage
	if err := json.Unmarshal(b, &raw); err != nil || len(raw) != 2 {
		return fmt.Errorf("bad entry")
	}
	if err := json.Unmarshal(raw[0], &e.Key); err != nil {
		return err
	}
	return json.Unmarshal(raw[1], &e.Val)
}

type SourceD struct {
	K        string   `json:"k"`
	Out      int      `json:"out"`
	Ptr      bool     `json:"ptr"`
	Fields   []FieldD `json:"fields"`
	KeyExact bool     `json:"keyExact"`
	Elem     string   `json:"elem"`
	Entries  []EntryD `json:"entries"`
	Variant  int      `json:"variant"` // Go side only: which concrete Go type renders this description
}

// MarshalJSON: nil slices go out as empty arrays (the driver reports a missing array instead of defaulting)
func (s SourceD) MarshalJSON() ([]byte, error) {
	type plain SourceD
	p := plain(s)
	if p.Fields == nil {
		p.Fields = []FieldD{}
	}
	if p.Entries == nil {
		p.Entries = []EntryD{}
	}
	return json.Marshal(p)
}

type driverReq struct {
	Source SourceD  `json:"source"`
	Names  []string `json:"names"`
	Keys   []string `json:"keys"`
}

type driverResp struct {
	Results     []string `json:"results"`
	WellFormed  bool     `json:"wellFormed"`
	Unambiguous *bool    `json:"unambiguous"`
	Error       string   `json:"error"`
}

// ---------------------------------------------------------------- Go rendering of property values

func plainVal(id int) interface{} {
	switch id % 4 {
	case 0:
		return "v" + strconv.Itoa(id)
	case 1:
		return id
	case 2:
		return []interface{}{id}
	default:
		return map[string]interface{}{"id": id}
	}
}

func func0(id int) func() interface{} {
	return func() interface{} { return "c" + strconv.Itoa(id) }
}

func funcErr(id int) func() (interface{}, error) {
	return func() (interface{}, error) { return "o" + strconv.Itoa(id), nil }
}

func funcInt(id int) func() int { return func() int { return id } }

func pvGo(v PV) interface{} {
	switch v.T {
	case "nil":
		return nil
	case "plain":
		return plainVal(v.ID)
	case "func0":
		return func0(v.ID)
	case "funcOther":
		if v.ID%2 == 0 {
			return funcErr(v.ID)
		}
		return funcInt(v.ID)
	}
	panic("bad PV " + v.T)
}

// canonical result string of what the real function returned (same alphabet as the driver's RES)
func decode(got interface{}) string {
	switch x := got.(type) {
	case nil:
		return "value:nil"
	case string:
		if len(x) > 1 {
			switch x[0] {
			case 'v':
				return "value:plain:" + x[1:]
			case 'c':
				return "called:" + x[1:]
			case 'R':
				return "resolved:" + x[1:]
			}
		}
		return "value:?string:" + x
	case int:
		return "value:plain:" + strconv.Itoa(x)
	case []interface{}:
		if len(x) == 1 {
			if n, ok := x[0].(int); ok {
				return "value:plain:" + strconv.Itoa(n)
			}
		}
	case map[string]interface{}:
		if n, ok := x["id"].(int); ok && len(x) == 1 {
			return "value:plain:" + strconv.Itoa(n)
		}
	case func() interface{}:
		if x == nil {
			return "value:nil"
		}
		if s, ok := x().(string); ok && strings.HasPrefix(s, "c") {
			return "value:func0:" + s[1:]
		}
	case func() (interface{}, error):
		if x == nil {
			return "value:nil"
		}
		v, _ := x()
		if s, ok := v.(string); ok && strings.HasPrefix(s, "o") {
			return "value:funcOther:" + s[1:]
		}
	case func() int:
		if x == nil {
			return "value:nil" // zero value of the map's element type
		}
		return "value:funcOther:" + strconv.Itoa(x())
	}
	return fmt.Sprintf("value:?%T", got)
}

// ---------------------------------------------------------------- Go rendering of parent values

type namedMap map[string]interface{}
type namedFnMap map[string]func() interface{}
type K string
type staticS struct{ A int }

type resV struct {
	out  int
	echo *echoLog
}

type resP struct {
	out  int
	echo *echoLog
}

// echoLog: what FieldResolver parents were told their arguments are (phase B)
type echoLog struct{ seen []string }

func resolveAs(out int, lg *echoLog, p graphql.ResolveParams) (interface{}, error) {
	if p.Info.FieldName == "echo" {
		s := hx.Canon(p.Args)
		if lg != nil {
			lg.seen = append(lg.seen, s)
		}
		scribble(p.Args)
		return s, nil
	}
	return "R" + strconv.Itoa(out), nil
}

func (r resV) Resolve(p graphql.ResolveParams) (interface{}, error)  { return resolveAs(r.out, r.echo, p) }
func (r *resP) Resolve(p graphql.ResolveParams) (interface{}, error) { return resolveAs(r.out, r.echo, p) }

// scribble writes into every container of an argument map (top-level keys, list items, input-object fields)
func scribble(args map[string]interface{}) {
	for k, v := range args {
		switch x := v.(type) {
		case []interface{}:
			for i := range x {
				if m, ok := x[i].(map[string]interface{}); ok {
					m["scribbled"] = true
				} else {
					x[i] = "scribbled"
				}
			}
		case map[string]interface{}:
			for kk, vv := range x {
				if l, ok := vv.([]interface{}); ok && len(l) > 0 {
					l[0] = "scribbled"
				} else {
					x[kk] = "scribbled"
				}
			}
			x["extra"] = 1
		default:
			args[k] = "scribbled"
		}
	}
	args["added"] = true
}

var ifaceT = reflect.TypeOf((*interface{})(nil)).Elem()

func tagOf(f FieldD) reflect.StructTag {
	var parts []string
	if f.JSON != "" || f.Concrete { // an empty tag value and an absent key both give Get == ""
		parts = append(parts, "json:"+strconv.Quote(f.JSON))
	}
	if f.Graphql != "" {
		parts = append(parts, "graphql:"+strconv.Quote(f.Graphql))
	}
	return reflect.StructTag(strings.Join(parts, " "))
}

func buildStruct(s SourceD) interface{} {
	sf := make([]reflect.StructField, len(s.Fields))
	vals := make([]interface{}, len(s.Fields))
	for i, f := range s.Fields {
		vals[i] = pvGo(f.Val)
		t := ifaceT
		if f.Concrete && vals[i] != nil {
			t = reflect.TypeOf(vals[i])
		}
		sf[i] = reflect.StructField{Name: f.Name, Type: t, Tag: tagOf(f)}
		if !f.Exported {
			sf[i].PkgPath = "verif/harness/cmd/c01dr"
		}
	}
	t := reflect.StructOf(sf)
	pv := reflect.New(t)
	for i, f := range s.Fields {
		if f.Exported && vals[i] != nil {
			pv.Elem().Field(i).Set(reflect.ValueOf(vals[i]))
		}
	}
	if s.Ptr {
		return pv.Interface()
	}
	return pv.Elem().Interface()
}

func build(s SourceD, lg *echoLog) interface{} {
	switch s.K {
	case "nil":
		return nil
	case "resolver":
		switch s.Variant % 3 {
		case 0:
			return resV{s.Out, lg}
		case 1:
			return &resV{s.Out, lg}
		default:
			return &resP{s.Out, lg}
		}
	case "struct":
		return buildStruct(s)
	case "nilPtr":
		switch s.Variant % 3 {
		case 0:
			return (*staticS)(nil)
		case 1:
			return (*int)(nil)
		default:
			return (*map[string]interface{})(nil)
		}
	case "ptrOther":
		switch s.Variant % 3 {
		case 0:
			m := map[string]interface{}{"id": "v0", "name": "v4"}
			return &m
		case 1:
			p := &staticS{1}
			return &p
		default:
			n := 5
			return &n
		}
	case "mapIface":
		m := map[string]interface{}{}
		for _, e := range s.Entries {
			m[e.Key] = pvGo(e.Val)
		}
		return m
	case "mapRefl":
		return buildReflMap(s)
	case "other":
		switch s.Variant % 6 {
		case 0:
			return 5
		case 1:
			return "name"
		case 2:
			return []interface{}{map[string]interface{}{"name": "v0"}}
		case 3:
			return map[int]interface{}{1: "v0"}
		case 4:
			return true
		default:
			return func() interface{} { return map[string]interface{}{"name": "v0"} }
		}
	}
	panic("bad source kind " + s.K)
}

func buildReflMap(s SourceD) interface{} {
	switch {
	case s.KeyExact && s.Elem == "iface":
		m := namedMap{}
		for _, e := range s.Entries {
			m[e.Key] = pvGo(e.Val)
		}
		return m
	case s.KeyExact && s.Elem == "func0":
		if s.Variant%2 == 0 {
			m := map[string]func() interface{}{}
			for _, e := range s.Entries {
				m[e.Key] = asFunc0(e.Val)
			}
			return m
		}
		m := namedFnMap{}
		for _, e := range s.Entries {
			m[e.Key] = asFunc0(e.Val)
		}
		return m
	case s.KeyExact && s.Elem == "other":
		switch s.Variant % 4 {
		case 0:
			m := map[string]string{}
			for _, e := range s.Entries {
				m[e.Key] = pvGo(e.Val).(string)
			}
			return m
		case 1:
			m := map[string]int{}
			for _, e := range s.Entries {
				m[e.Key] = pvGo(e.Val).(int)
			}
			return m
		case 2:
			m := map[string]func() int{}
			for _, e := range s.Entries {
				if e.Val.T == "nil" {
					m[e.Key] = nil
				} else {
					m[e.Key] = pvGo(e.Val).(func() int)
				}
			}
			return m
		default:
			m := map[string]func() (interface{}, error){}
			for _, e := range s.Entries {
				if e.Val.T == "nil" {
					m[e.Key] = nil
				} else {
					m[e.Key] = pvGo(e.Val).(func() (interface{}, error))
				}
			}
			return m
		}
	case !s.KeyExact && s.Elem == "iface":
		m := map[K]interface{}{}
		for _, e := range s.Entries {
			m[K(e.Key)] = pvGo(e.Val)
		}
		return m
	case !s.KeyExact && s.Elem == "func0":
		m := map[K]func() interface{}{}
		for _, e := range s.Entries {
			m[K(e.Key)] = asFunc0(e.Val)
		}
		return m
	default:
		m := map[K]string{}
		for _, e := range s.Entries {
			m[K(e.Key)] = pvGo(e.Val).(string)
		}
		return m
	}
}

func asFunc0(v PV) func() interface{} {
	if v.T == "nil" {
		return nil
	}
	return func0(v.ID)
}

// ---------------------------------------------------------------- generators

var keyPool = []string{"id", "name", "title", "n", "x", "Id", "NAME", "a_b", "aB", "ab", "Title", "kind", "k9", "_u"}

func goName(r *hx.Rng, key string, exported bool) string {
	b := []byte(key)
	for len(b) > 0 && (b[0] == '_' || (b[0] >= '0' && b[0] <= '9')) {
		b = b[1:]
	}
	if len(b) == 0 {
		b = []byte("f")
	}
	for i := range b { // random case of the tail: EqualFold must not care
		if r.Chance(1, 4) {
			if b[i] >= 'a' && b[i] <= 'z' {
				b[i] -= 32
			} else if b[i] >= 'A' && b[i] <= 'Z' {
				b[i] += 32
			}
		}
	}
	if exported {
		if b[0] >= 'a' && b[0] <= 'z' {
			b[0] -= 32
		}
	} else if b[0] >= 'A' && b[0] <= 'Z' {
		b[0] += 32
	}
	return string(b)
}

func genTag(r *hx.Rng) string {
	switch r.Intn(10) {
	case 0, 1, 2, 3:
		return ""
	case 4:
		return r.Pick(keyPool)
	case 5:
		return r.Pick(keyPool) + ",omitempty"
	case 6:
		return "-"
	case 7:
		return ",omitempty"
	case 8:
		return r.Pick(keyPool) + "," + r.Pick(keyPool)
	default:
		return strings.ToUpper(r.Pick(keyPool))
	}
}

func genPV(r *hx.Rng, id *int) PV {
	*id++
	switch r.Intn(10) {
	case 0:
		return PV{T: "nil"}
	case 1, 2:
		return PV{T: "func0", ID: *id}
	case 3:
		return PV{T: "funcOther", ID: *id}
	default:
		return PV{T: "plain", ID: *id}
	}
}

func genStruct(r *hx.Rng, id *int) SourceD {
	s := SourceD{K: "struct", Ptr: r.Chance(1, 2)}
	n := r.Intn(6)
	used := map[string]bool{}
	for i := 0; i < n; i++ {
		exported := !r.Chance(1, 7)
		name := goName(r, r.Pick(keyPool), exported)
		if r.Chance(1, 5) {
			name = goName(r, "F"+strconv.Itoa(i), exported)
		}
		if used[name] {
			continue
		}
		used[name] = true
		f := FieldD{Name: name, Exported: exported, JSON: genTag(r), Graphql: "", Val: PV{T: "nil"}}
		if r.Chance(1, 3) {
			f.Graphql = genTag(r)
		}
		if exported {
			f.Val = genPV(r, id)
			f.Concrete = r.Chance(1, 3)
		}
		s.Fields = append(s.Fields, f)
	}
	return s
}

func genEntries(r *hx.Rng, id *int, pick func() PV) []EntryD {
	var es []EntryD
	used := map[string]bool{}
	for i, n := 0, r.Intn(5); i < n; i++ {
		k := r.Pick(keyPool)
		if used[k] {
			continue
		}
		used[k] = true
		es = append(es, EntryD{k, pick()})
	}
	return es
}

func genSource(r *hx.Rng, id *int) SourceD {
	switch r.Intn(20) {
	case 0:
		return SourceD{K: "nil"}
	case 1:
		return SourceD{K: "resolver", Out: r.Intn(50), Variant: r.Intn(3)}
	case 2:
		return SourceD{K: "nilPtr", Variant: r.Intn(3)}
	case 3:
		return SourceD{K: "ptrOther", Variant: r.Intn(3)}
	case 4:
		return SourceD{K: "other", Variant: r.Intn(6)}
	case 5, 6, 7:
		return SourceD{K: "mapIface", Entries: genEntries(r, id, func() PV { return genPV(r, id) })}
	case 8, 9, 10, 11:
		return genReflMap(r, id)
	default:
		return genStruct(r, id)
	}
}

func genReflMap(r *hx.Rng, id *int) SourceD {
	s := SourceD{K: "mapRefl", KeyExact: !r.Chance(1, 4), Variant: r.Intn(4)}
	plainOf := func(mod int) func() PV {
		return func() PV {
			*id++
			for *id%4 != mod {
				*id++
			}
			return PV{T: "plain", ID: *id}
		}
	}
	switch r.Intn(3) {
	case 0:
		s.Elem = "iface"
		s.Entries = genEntries(r, id, func() PV { return genPV(r, id) })
	case 1:
		s.Elem = "func0"
		s.Entries = genEntries(r, id, func() PV {
			*id++
			if r.Chance(1, 6) {
				return PV{T: "nil"}
			}
			return PV{T: "func0", ID: *id}
		})
	default:
		s.Elem = "other"
		if !s.KeyExact {
			s.Entries = genEntries(r, id, plainOf(0))
			break
		}
		switch s.Variant % 4 {
		case 0:
			s.Entries = genEntries(r, id, plainOf(0))
		case 1:
			s.Entries = genEntries(r, id, plainOf(1))
		default:
			odd := s.Variant%4 == 2
			s.Entries = genEntries(r, id, func() PV { // no nil entries: a nil func of a concrete func type is not the nil interface
				*id++
				for (*id%2 == 1) != odd {
					*id++
				}
				return PV{T: "funcOther", ID: *id}
			})
		}
	}
	return s
}

func head(t string) string {
	if i := strings.IndexByte(t, ','); i >= 0 {
		return t[:i]
	}
	return t
}

func validName(n string) bool {
	if n == "" || strings.HasPrefix(n, "__") {
		return false
	}
	for i, c := range n {
		ok := c == '_' || (c >= 'a' && c <= 'z') || (c >= 'A' && c <= 'Z') || (i > 0 && c >= '0' && c <= '9')
		if !ok {
			return false
		}
	}
	return true
}

// names worth asking a source for: its keys / field names / tag heads in several spellings, plus absent ones
func namesFor(r *hx.Rng, s SourceD, max int) []string {
	set := map[string]bool{}
	add := func(n string) {
		if validName(n) {
			set[n] = true
		}
	}
	for _, f := range s.Fields {
		add(f.Name)
		add(strings.ToLower(f.Name))
		add(strings.ToUpper(f.Name))
		add(head(f.JSON))
		add(head(f.Graphql))
		add(strings.ToUpper(head(f.JSON)))
	}
	for _, e := range s.Entries {
		add(e.Key)
		add(strings.ToUpper(e.Key))
	}
	add(r.Pick(keyPool))
	add(r.Pick(keyPool))
	add("absent")
	names := make([]string, 0, len(set))
	for n := range set {
		names = append(names, n)
	}
	sort.Strings(names)
	for len(names) > max {
		i := r.Intn(len(names))
		names = append(names[:i], names[i+1:]...)
	}
	return names
}

// ---------------------------------------------------------------- phase A / T

func realResolve(src interface{}, name string) (res string) {
	defer func() {
		if rec := recover(); rec != nil {
			res = "panic"
		}
	}()
	v, err := graphql.DefaultResolveFn(graphql.ResolveParams{Source: src, Info: graphql.ResolveInfo{FieldName: name}})
	if err != nil {
		return "error:" + err.Error()
	}
	return decode(v)
}

type caseA struct {
	Phase  string   `json:"phase"`
	Source SourceD  `json:"source"`
	Names  []string `json:"names"`
	Keys   []string `json:"keys,omitempty"`
	Table  []PV     `json:"table,omitempty"`
}

func (h *harness) runA(c caseA) {
	var resp driverResp
	if err := h.drv.Ask(driverReq{Source: c.Source, Names: c.Names, Keys: c.Keys}, &resp); err != nil || resp.Error != "" {
		h.run.CheckError(fmt.Sprintf("driver: %v %s", err, resp.Error))
		return
	}
	if len(resp.Results) != len(c.Names) {
		h.run.CheckError("driver answered a different number of results")
		return
	}
	src := build(c.Source, nil)
	nontrivial := false
	for i, n := range c.Names {
		real := realResolve(src, n)
		if real != "value:nil" {
			nontrivial = true
		}
		h.run.Tag("A:" + c.Source.K + ":" + strings.SplitN(real, ":", 3)[0])
		if real != resp.Results[i] {
			h.run.Violation(fmt.Sprintf("DefaultResolveFn differs from the model for field %q on a %s source: real %s, model %s", n, c.Source.K, real, resp.Results[i]),
				map[string]interface{}{"case": c, "name": n, "real": real, "model": resp.Results[i]}, false)
			return
		}
		if resp.WellFormed && real == "panic" {
			h.run.Violation("DefaultResolveFn panicked on a well-formed source (no_panic_on_wellFormed)", map[string]interface{}{"case": c, "name": n}, false)
			return
		}
	}
	if c.Phase == "T" && resp.Unambiguous != nil {
		if *resp.Unambiguous {
			h.run.Tag("T:unambiguous")
			for i, k := range c.Keys {
				want := "value:" + c.Table[i].T
				switch c.Table[i].T {
				case "plain", "func0", "funcOther":
					want += ":" + strconv.Itoa(c.Table[i].ID)
				}
				if real := realResolve(src, k); real != want {
					h.run.Violation(fmt.Sprintf("a struct that encodes a property table unambiguously does not give back entry %q: real %s, table %s (struct_encodes_table)", k, real, want),
						map[string]interface{}{"case": c, "key": k, "real": real, "want": want}, false)
					return
				}
			}
		} else {
			h.run.Tag("T:ambiguous")
		}
	}
	h.run.Case(hx.Canon(c), nontrivial, c)
}

// genTable renders a property table as a struct: one field per key, matched through the Go name, the json tag or
// the graphql tag; fields shuffled; sometimes a distractor that makes the rendering ambiguous
func genTable(r *hx.Rng, id *int) caseA {
	n := r.Range(1, 5)
	var keys []string
	seen := map[string]bool{}
	for len(keys) < n {
		k := r.Pick(keyPool)
		if lk := strings.ToLower(strings.Trim(k, "_0123456789")); !seen[lk] && lk != "" {
			seen[lk] = true
			keys = append(keys, k)
		}
	}
	c := caseA{Phase: "T", Keys: keys}
	s := SourceD{K: "struct", Ptr: r.Chance(1, 2)}
	for i, k := range keys {
		*id++
		v := PV{T: "plain", ID: *id}
		if r.Chance(1, 5) {
			v = PV{T: "funcOther", ID: *id}
		}
		c.Table = append(c.Table, v)
		f := FieldD{Exported: true, Val: v, Concrete: r.Chance(1, 3)}
		switch r.Intn(3) {
		case 0:
			f.Name = goName(r, k, true)
		case 1:
			f.Name = "J" + strconv.Itoa(i)
			f.JSON = k
			if r.Chance(1, 2) {
				f.JSON += ",omitempty"
			}
		default:
			f.Name = "G" + strconv.Itoa(i)
			f.Graphql = k
			if r.Chance(1, 3) {
				f.JSON = "-"
			}
		}
		if r.Chance(1, 8) { // distractor: may collide with another key
			f.Graphql = r.Pick(keys)
		}
		s.Fields = append(s.Fields, f)
	}
	// the theorem fixes field i ↔ key i; a shuffle of the struct's fields is a permutation of both lists
	for i := len(keys) - 1; i > 0; i-- {
		j := r.Intn(i + 1)
		s.Fields[i], s.Fields[j] = s.Fields[j], s.Fields[i]
		c.Keys[i], c.Keys[j] = c.Keys[j], c.Keys[i]
		c.Table[i], c.Table[j] = c.Table[j], c.Table[i]
	}
	used := map[string]bool{}
	for _, f := range s.Fields { // StructOf rejects duplicate names
		if used[f.Name] {
			return genTable(r, id)
		}
		used[f.Name] = true
	}
	c.Source = s
	c.Names = append([]string{}, c.Keys...)
	return c
}

// ---------------------------------------------------------------- phase B: end to end

type caseB struct {
	Phase   string    `json:"phase"`
	Sources []SourceD `json:"sources"`
	Names   []string  `json:"names"`
	Root    *SourceD  `json:"root,omitempty"` // mapIface source used as the request's root value
	ArgMode int       `json:"argMode"`        // 0 literals, 1 variables, 2 mixed
	Entry   int       `json:"entry"`          // 0 Do, 1 PlanQuery + ExecutePlan twice
}

type twinSrc struct {
	idx  int
	echo *echoLog
	isR  bool
}

func materialize(res string) interface{} {
	parts := strings.Split(res, ":")
	num := func(i int) int { n, _ := strconv.Atoi(parts[i]); return n }
	switch parts[0] {
	case "panic":
		panic("twin: the model predicts a panic here")
	case "resolved":
		return "R" + parts[1]
	case "called":
		return "c" + parts[1]
	case "value":
		switch parts[1] {
		case "nil":
			return nil
		case "plain":
			return plainVal(num(2))
		case "func0":
			return func0(num(2))
		case "funcOther":
			if num(2)%2 == 0 {
				return funcErr(num(2))
			}
			return funcInt(num(2))
		}
	}
	panic("twin: cannot materialize " + res)
}

func inputType() *graphql.InputObject {
	return graphql.NewInputObject(graphql.InputObjectConfig{Name: "In", Fields: graphql.InputObjectConfigFieldMap{
		"k": &graphql.InputObjectFieldConfig{Type: graphql.String},
		"l": &graphql.InputObjectFieldConfig{Type: graphql.NewList(graphql.String)},
		"d": &graphql.InputObjectFieldConfig{Type: graphql.Int, DefaultValue: 7},
	}})
}

// schema: type T { <names>: String, echo(a:[String], o:In, n:Int, os:[In]): String }  Query { one: T, many: [T], <names>: String }
// twin == nil: T's and Query's property fields have NO Resolve (the default resolver runs on the real parents);
// twin != nil: explicit resolvers return what the model predicts.
func schemaB(c caseB, parents []interface{}, pred map[int]map[string]string, rootPred map[string]string, lgs []*echoLog) (graphql.Schema, error) {
	in := inputType()
	echoArgs := graphql.FieldConfigArgument{
		"a":  &graphql.ArgumentConfig{Type: graphql.NewList(graphql.String)},
		"o":  &graphql.ArgumentConfig{Type: in},
		"n":  &graphql.ArgumentConfig{Type: graphql.Int, DefaultValue: 3},
		"os": &graphql.ArgumentConfig{Type: graphql.NewList(in)},
	}
	twin := pred != nil
	tf := graphql.Fields{}
	qf := graphql.Fields{}
	for _, n := range c.Names {
		n := n
		f := &graphql.Field{Type: graphql.String}
		g := &graphql.Field{Type: graphql.String}
		if twin {
			f.Resolve = func(p graphql.ResolveParams) (interface{}, error) {
				return materialize(pred[p.Source.(twinSrc).idx][n]), nil
			}
			g.Resolve = func(p graphql.ResolveParams) (interface{}, error) { return materialize(rootPred[n]), nil }
		}
		tf[n] = f
		qf[n] = g
	}
	echo := &graphql.Field{Type: graphql.String, Args: echoArgs}
	if twin {
		echo.Resolve = func(p graphql.ResolveParams) (interface{}, error) {
			ts := p.Source.(twinSrc)
			if !ts.isR {
				return materialize(pred[ts.idx]["echo"]), nil
			}
			s := hx.Canon(p.Args)
			ts.echo.seen = append(ts.echo.seen, s)
			scribble(p.Args)
			return s, nil
		}
	}
	tf["echo"] = echo
	T := graphql.NewObject(graphql.ObjectConfig{Name: "T", Fields: tf})
	wrap := func(i int) interface{} {
		if twin {
			return twinSrc{i, lgs[i], c.Sources[i].K == "resolver"}
		}
		return parents[i]
	}
	qf["one"] = &graphql.Field{Type: T, Resolve: func(p graphql.ResolveParams) (interface{}, error) { return wrap(0), nil }}
	qf["many"] = &graphql.Field{Type: graphql.NewList(T), Resolve: func(p graphql.ResolveParams) (interface{}, error) {
		var l []interface{}
		for i := range c.Sources {
			l = append(l, wrap(i))
		}
		return l, nil
	}}
	Q := graphql.NewObject(graphql.ObjectConfig{Name: "Query", Fields: qf})
	return graphql.NewSchema(graphql.SchemaConfig{Query: Q})
}

func queryB(c caseB) (string, map[string]interface{}) {
	sel := strings.Join(c.Names, " ")
	var echo string
	vars := map[string]interface{}{}
	switch c.ArgMode {
	case 0:
		echo = `echo(a: ["x", "y"], o: {k: "v", l: ["p", "q"]}, os: [{k: "w"}, {l: ["r"]}])`
	case 1:
		echo = `echo(a: $a, o: $o, n: $n, os: $os)`
		vars = map[string]interface{}{"a": []interface{}{"x", "y"}, "o": map[string]interface{}{"k": "v", "l": []interface{}{"p"}}, "n": 4,
			"os": []interface{}{map[string]interface{}{"k": "w"}}}
	default:
		echo = `echo(a: ["x", $s], o: {k: $s, l: ["p"]}, n: 2)`
		vars = map[string]interface{}{"s": "sv"}
	}
	hdr := ""
	switch c.ArgMode {
	case 1:
		hdr = "query Q($a: [String], $o: In, $n: Int, $os: [In]) "
	case 2:
		hdr = "query Q($s: String) "
	}
	q := hdr + "{ " + sel + " one { " + sel + " " + echo + " } many { " + sel + " " + echo + " e2: " + echo + " } }"
	return q, vars
}

func canonResult(r *graphql.Result) string {
	type e struct {
		Path []interface{} `json:"path"`
	}
	var es []string
	for _, x := range r.Errors {
		es = append(es, hx.Canon(e{x.Path}))
	}
	sort.Strings(es)
	return hx.Canon(map[string]interface{}{"data": r.Data, "errorPaths": es})
}

func execB(c caseB, schema graphql.Schema, root map[string]interface{}) (outs []string, err string) {
	defer func() {
		if rec := recover(); rec != nil {
			err = fmt.Sprint("panic out of the library: ", rec)
		}
	}()
	q, vars := queryB(c)
	if c.Entry == 0 {
		r := graphql.Do(graphql.Params{Schema: schema, RequestString: q, VariableValues: vars, RootObject: root})
		return []string{canonResult(r)}, ""
	}
	doc, perr := parseDoc(q)
	if perr != "" {
		return nil, perr
	}
	plan, pe := graphql.PlanQuery(&schema, doc, "")
	if pe != nil {
		return nil, "PlanQuery: " + pe.Error()
	}
	for i := 0; i < 2; i++ {
		r := graphql.ExecutePlan(plan, graphql.ExecuteParams{Schema: schema, Root: root, AST: doc, Args: vars})
		outs = append(outs, canonResult(r))
	}
	return outs, ""
}

func parseDoc(q string) (*ast.Document, string) {
	doc, err := parser.Parse(parser.ParseParams{Source: source.NewSource(&source.Source{Body: []byte(q), Name: "c01dr"})})
	if err != nil {
		return nil, "parse: " + err.Error()
	}
	return doc, ""
}

func (h *harness) runB(c caseB) {
	// model predictions for every (parent, name) and for the root value
	pred := map[int]map[string]string{}
	ask := func(s SourceD) (map[string]string, bool) {
		var resp driverResp
		names := append(append([]string{}, c.Names...), "echo")
		if err := h.drv.Ask(driverReq{Source: s, Names: names}, &resp); err != nil || resp.Error != "" || len(resp.Results) != len(names) {
			h.run.CheckError(fmt.Sprintf("driver: %v %s", err, resp.Error))
			return nil, false
		}
		m := map[string]string{}
		for i, n := range names {
			m[n] = resp.Results[i]
		}
		return m, true
	}
	for i, s := range c.Sources {
		m, ok := ask(s)
		if !ok {
			return
		}
		pred[i] = m
	}
	rootPred := map[string]string{}
	for _, n := range c.Names {
		rootPred[n] = "value:nil"
	}
	var root map[string]interface{}
	if c.Root != nil {
		m, ok := ask(*c.Root)
		if !ok {
			return
		}
		rootPred = m
		root = build(*c.Root, nil).(map[string]interface{})
	} else {
		root = map[string]interface{}{} // Do turns a nil RootObject into an empty map as well
	}
	realLogs := make([]*echoLog, len(c.Sources))
	twinLogs := make([]*echoLog, len(c.Sources))
	parents := make([]interface{}, len(c.Sources))
	for i, s := range c.Sources {
		realLogs[i], twinLogs[i] = &echoLog{}, &echoLog{}
		parents[i] = build(s, realLogs[i])
	}
	realSchema, e1 := schemaB(c, parents, nil, nil, nil)
	twinSchema, e2 := schemaB(c, nil, pred, rootPred, twinLogs)
	if e1 != nil || e2 != nil {
		h.run.CheckError(fmt.Sprintf("schema: %v %v", e1, e2))
		return
	}
	realOut, rerr := execB(c, realSchema, root)
	twinOut, terr := execB(c, twinSchema, root)
	if terr != "" {
		h.run.CheckError("twin execution failed: " + terr)
		return
	}
	rep := map[string]interface{}{"case": c, "real": realOut, "twin": twinOut}
	if rerr != "" {
		h.run.Violation("executing default-resolved fields failed: "+rerr, rep, false)
		return
	}
	for i := range realOut {
		if realOut[i] != twinOut[i] {
			h.run.Violation(fmt.Sprintf("response with default-resolved fields differs from the response the model's predictions give (execution %d of the plan)", i+1), rep, false)
			return
		}
	}
	// every invocation of echo was told the field's own coerced arguments: all invocations of one request agree
	// pairwise per (argument list), and the real parents saw what the twin's explicit resolvers saw
	nEcho := 0
	for i := range c.Sources {
		nEcho += len(realLogs[i].seen)
		if hx.Canon(realLogs[i].seen) != hx.Canon(twinLogs[i].seen) {
			rep["realArgs"], rep["twinArgs"] = realLogs[i].seen, twinLogs[i].seen
			h.run.Violation(fmt.Sprintf("a FieldResolver parent reached through the default resolver was told other arguments than an explicit resolver of the same field (parent %d)", i), rep, false)
			return
		}
		for _, s := range realLogs[i].seen {
			if strings.Contains(s, "scribbled") || strings.Contains(s, "added") {
				rep["realArgs"] = realLogs[i].seen
				h.run.Violation("a FieldResolver parent was handed arguments that an earlier invocation had written to", rep, false)
				return
			}
		}
	}
	h.run.Tag("B:entry=" + []string{"Do", "plan-twice"}[c.Entry])
	h.run.Tag("B:argMode=" + strconv.Itoa(c.ArgMode))
	if nEcho > 1 {
		h.run.Tag("B:echo-invocations>1")
	}
	if c.Root != nil {
		h.run.Tag("B:root-value-default-resolved")
	}
	for _, s := range c.Sources {
		h.run.Tag("B:parent=" + s.K)
	}
	h.run.Case(hx.Canon(c), true, nil)
}

func genB(r *hx.Rng, id *int) caseB {
	c := caseB{Phase: "B", ArgMode: r.Intn(3), Entry: r.Intn(2)}
	set := map[string]bool{}
	for i, n := 0, r.Range(1, 4); i < n; i++ {
		var s SourceD
		for {
			s = genSource(r, id)
			// a nil parent is completed as null and a func-valued parent is not an object value: no field is resolved on them
			if s.K != "nil" && s.K != "nilPtr" && !(s.K == "other" && s.Variant%6 == 5) {
				break
			}
		}
		if r.Chance(1, 3) {
			s = SourceD{K: "resolver", Out: r.Intn(50), Variant: r.Intn(3)}
		}
		c.Sources = append(c.Sources, s)
		for _, n := range namesFor(r, s, 4) {
			if n != "echo" && n != "one" && n != "many" && n != "e2" {
				set[n] = true
			}
		}
	}
	if r.Chance(1, 2) {
		s := SourceD{K: "mapIface", Entries: genEntries(r, id, func() PV { return genPV(r, id) })}
		c.Root = &s
		for _, e := range s.Entries {
			if e.Key != "one" && e.Key != "many" {
				set[e.Key] = true
			}
		}
	}
	for n := range set {
		c.Names = append(c.Names, n)
	}
	sort.Strings(c.Names)
	if len(c.Names) > 8 {
		c.Names = c.Names[:8]
	}
	return c
}

// ---------------------------------------------------------------- main

type harness struct {
	run *hx.Run
	drv *hx.Driver
}

func main() {
	run := hx.Begin("C01")
	drv, err := hx.StartDriver(run.DriverBin)
	if err != nil {
		run.CheckError("cannot start driver: " + err.Error())
		run.Finish()
		return
	}
	defer drv.Close()
	h := &harness{run, drv}
	run.Res.Rule = "phase A/T: the queried names include at least one for which the real function returns something other than nil; phase B: every case (default-resolved fields executed end to end)"
	if run.ReplayIn != "" {
		var rp struct {
			Case json.RawMessage `json:"case"`
		}
		var ph struct {
			Phase string `json:"phase"`
		}
		if err := hx.LoadReplay(run.ReplayIn, &rp); err != nil || json.Unmarshal(rp.Case, &ph) != nil {
			run.CheckError("cannot read replay")
			run.Finish()
			return
		}
		if ph.Phase == "B" {
			var c caseB
			json.Unmarshal(rp.Case, &c)
			h.runB(c)
		} else {
			var c caseA
			json.Unmarshal(rp.Case, &c)
			h.runA(c)
		}
		run.Finish()
		return
	}
	for _, c := range fixedCases() {
		h.runA(c)
	}
	nA, nT, nB := run.N(3000, 200000), run.N(800, 50000), run.N(300, 20000)
	for i := 0; i < nA && !run.TooManyViolations(); i++ {
		r := hx.Fork(run.Seed, i)
		id := 0
		s := genSource(r, &id)
		h.runA(caseA{Phase: "A", Source: s, Names: namesFor(r, s, 8)})
	}
	for i := 0; i < nT && !run.TooManyViolations(); i++ {
		r := hx.Fork(run.Seed, 1000000+i)
		id := 0
		h.runA(genTable(r, &id))
	}
	for i := 0; i < nB && !run.TooManyViolations(); i++ {
		r := hx.Fork(run.Seed, 2000000+i)
		id := 0
		h.runB(genB(r, &id))
	}
	run.Res.Assumptions = append(run.Res.Assumptions,
		"default resolver: Go field names and GraphQL names are ASCII (strings.EqualFold's two non-ASCII folds onto k and s are outside the model); struct tags are well-formed key:\"value\" lists; embedded fields are ordinary fields named by their type")
	run.Finish()
}

// the shapes of executor_test / the probe that fixed the model, as fixed cases
func fixedCases() []caseA {
	pl := func(id int) PV { return PV{T: "plain", ID: id} }
	return []caseA{
		{Phase: "A", Source: SourceD{K: "nil"}, Names: []string{"a"}},
		{Phase: "A", Source: SourceD{K: "struct", Fields: []FieldD{{Name: "A", Exported: true, JSON: "x", Val: pl(4)}, {Name: "X", Exported: true, Val: pl(8)}}}, Names: []string{"x", "X", "a"}},
		{Phase: "A", Source: SourceD{K: "struct", Ptr: true, Fields: []FieldD{{Name: "name", Exported: false, Val: PV{T: "nil"}}, {Name: "Name", Exported: true, Val: pl(4)}}}, Names: []string{"name", "NAME"}},
		{Phase: "A", Source: SourceD{K: "struct", Fields: []FieldD{{Name: "Name", Exported: true, JSON: "nm,omitempty", Val: pl(4)}}}, Names: []string{"nm", "NM", "name", "NAME"}},
		{Phase: "A", Source: SourceD{K: "mapRefl", KeyExact: true, Elem: "iface", Entries: []EntryD{{"f", PV{T: "func0", ID: 7}}}}, Names: []string{"f"}},
		{Phase: "A", Source: SourceD{K: "mapRefl", KeyExact: true, Elem: "func0", Entries: []EntryD{{"f", PV{T: "func0", ID: 7}}, {"g", PV{T: "nil"}}}}, Names: []string{"f", "g", "h"}},
		{Phase: "A", Source: SourceD{K: "mapRefl", KeyExact: false, Elem: "iface", Entries: []EntryD{}}, Names: []string{"f"}},
		{Phase: "A", Source: SourceD{K: "mapIface", Entries: []EntryD{{"f", PV{T: "func0", ID: 7}}, {"g", PV{T: "funcOther", ID: 8}}, {"h", PV{T: "funcOther", ID: 9}}, {"n", PV{T: "nil"}}}}, Names: []string{"f", "g", "h", "n", "zz"}},
	}
}
