// C02 (unit c02overlap): fragment TOPOLOGIES against the overlap rule, the cycle rule and the unused-fragment rule.
//
// Every directed graph on N fragments (N <= 3 quick, N <= 4 thorough; self loops included, so chains, fans, diamonds
// and cycles are all there) is enumerated; for each graph several documents are drawn: each fragment gets a type
// condition (interface I or one of its implementers A, B — conditions on different object types are mutually
// exclusive), one or two items from a small pool of field selections (same / different field under one alias,
// differing arguments, scalar vs object vs list shapes, nested sub-selections, inline fragments on A / B, a meta
// field) and one spread per edge, placed at the top level, inside a sub-selection or inside an inline fragment.
// The real side runs graphql.ValidateDocument with exactly one rule (OverlappingFieldsCanBeMergedRule,
// NoFragmentCyclesRule, NoUnusedFragmentsRule); the model side is drv_c02overlap (Lean): M = the algorithms as coded,
// S = the declarative rules. Compared: per rule the full error list (locations, order) real vs M, accept/reject
// real vs S, and for the overlap rule the three `verifCount` step counters real vs M (equality).
//
// Second family, cyclicMixedExclusive (harness/cycfam): tables of 2-3 fragments on A / B / I spread side by side below
// `i`, bodies = subsets of { x: c { ...Fj }, ...Fj, n }: the fragment pair memo is asked about one pair with and
// without mutual exclusivity in the middle of a cycle. Same comparisons. The overlap rule runs under a watchdog on the step counters (a
// recursion without end would otherwise take the harness down with a fatal stack overflow), and the case in flight is
// kept in <replaydir>/inflight-c02overlap.json.
package main

import (
	"encoding/json"
	"fmt"
	"os"
	"path/filepath"
	"strings"
	"time"

	"github.com/graphql-go/graphql"
	"github.com/graphql-go/graphql/language/ast"
	"github.com/graphql-go/graphql/language/parser"

	"verif/harness/astjson"
	"verif/harness/cycfam"
	"verif/harness/gq"
	"verif/harness/hx"
)

// ---------------------------------------------------------------- fixed schema

func baseFields(extra ...gq.FieldDesc) []gq.FieldDesc {
	fs := []gq.FieldDesc{
		{Name: "n", Type: "Int", Args: []gq.ArgDesc{}},
		{Name: "s", Type: "String", Args: []gq.ArgDesc{}},
		{Name: "k", Type: "Int", Args: []gq.ArgDesc{{Name: "x", Type: "Int"}}},
		{Name: "r", Type: "Int", Args: []gq.ArgDesc{{Name: "x", Type: "Int!"}}},
		{Name: "c", Type: "I", Args: []gq.ArgDesc{}},
		{Name: "l", Type: "[I]", Args: []gq.ArgDesc{}},
	}
	return append(fs, extra...)
}

// every wrapper variation of one named type
func variations(t string) []string {
	return []string{t, t + "!", "[" + t + "]", "[" + t + "]!", "[" + t + "!]", "[" + t + "!]!"}
}

// fields wL0..wL5 (leaf Int) and wC0..wC5 (composite I): on A the k-th variation, on B the (k+shift)-th, so that
// same-named fields of the two implementers differ only in wrappers, and (through an alias) every ordered pair of
// variations can meet under one response key below mutually exclusive parents
func wrapperFields(shift int) []gq.FieldDesc {
	var fs []gq.FieldDesc
	for _, p := range []struct{ tag, t string }{{"L", "Int"}, {"C", "I"}} {
		vs := variations(p.t)
		for k := range vs {
			fs = append(fs, gq.FieldDesc{Name: fmt.Sprintf("w%s%d", p.tag, k), Type: vs[(k+shift)%len(vs)], Args: []gq.ArgDesc{}})
		}
	}
	return fs
}

// selections of the wrapper fields under the response key `x`, below A resp. B
func wrapperPool() []string {
	var out []string
	for _, side := range []string{"A", "B"} {
		for k := 0; k < 6; k++ {
			out = append(out, fmt.Sprintf("... on %s { x: wL%d }", side, k))
			out = append(out, fmt.Sprintf("... on %s { x: wC%d { n } }", side, k))
		}
	}
	return out
}

var wpool = wrapperPool()

// typeless wraps a selection into an inline fragment WITHOUT type condition (bare or with a directive); for an item of
// the form `... on T { SEL }` the typeless fragment goes INSIDE the typed one, otherwise around the whole item. The
// fields keep the parent type of the enclosing selection (getFieldsAndFragmentNames: inlineFragmentType := parentType).
func typeless(r *hx.Rng, item string) string {
	head := "..."
	switch r.Intn(4) {
	case 1:
		head = "... @include(if: true)"
	case 2:
		head = "... @skip(if: $v)"
	}
	wrap := func(sel string) string {
		if r.Chance(1, 4) { // nested in one another
			return head + " { ... { " + sel + " } }"
		}
		return head + " { " + sel + " }"
	}
	for _, t := range []string{"A", "B"} {
		pre := "... on " + t + " { "
		if strings.HasPrefix(item, pre) && strings.HasSuffix(item, " }") {
			return pre + wrap(item[len(pre):len(item)-2]) + " }"
		}
	}
	return wrap(item)
}

// one pool selection; a third of the picks are wrapper-variation selections; a quarter of all picks are put into a
// typeless inline fragment
func pick(r *hx.Rng) string {
	item := ""
	if r.Chance(1, 3) {
		item = r.Pick(wpool)
	} else {
		item = r.Pick(pool)
	}
	if r.Chance(1, 4) {
		item = typeless(r, item)
	}
	return item
}

func schemaDesc() *gq.SchemaDesc {
	return &gq.SchemaDesc{Query: "Q", Directives: []gq.DirectiveDesc{}, Types: []gq.TypeDesc{
		{Kind: "SCALAR", Name: "Int", Builtin: "Int"},
		{Kind: "SCALAR", Name: "String", Builtin: "String"},
		{Kind: "INTERFACE", Name: "I", Fields: baseFields(), ResolveType: true},
		{Kind: "OBJECT", Name: "A", Interfaces: []string{"I"}, Fields: append(baseFields(gq.FieldDesc{Name: "a", Type: "Int", Args: []gq.ArgDesc{}}), wrapperFields(0)...), IsTypeOf: true},
		{Kind: "OBJECT", Name: "B", Interfaces: []string{"I"}, Fields: append(baseFields(gq.FieldDesc{Name: "b", Type: "String", Args: []gq.ArgDesc{}}), wrapperFields(1)...), IsTypeOf: true},
		{Kind: "OBJECT", Name: "Q", Fields: []gq.FieldDesc{{Name: "i", Type: "I", Args: []gq.ArgDesc{}}, {Name: "n", Type: "Int", Args: []gq.ArgDesc{}}}},
	}}
}

// ---------------------------------------------------------------- document generator

var pool = []string{
	"n", "s", "x: n", "x: s",
	"x: k(x: 1)", "x: k(x: 2)", "k(x: 1)", "k(x: 2)", "k",
	"x: c { n }", "x: l { n }",
	"c { x: n }", "c { x: s }", "c { n }", "l { x: n }", "c { c { x: n } }", "c { c { x: s } }",
	"... on A { x: n }", "... on B { x: s }", "... on A { x: a }", "... on B { x: b }",
	"... on A { c { x: n } }", "... on B { c { x: s } }",
	"x: __typename",
	"k(x: $v)", "x: k(x: $w)", "c { k(x: $v) }", "y: k(x: $u)", "r(x: $v)", "... on A { z: r(x: $w) }", "n @skip(if: $v)",
}

// variable definitions of an operation (the pool uses $v, $w, $u; k's argument is an Int)
var varDefs = []string{"", "", "($v: Int)", "($v: Int, $w: Int)", "($w: String)", "($v: Int!, $u: [Int])", "($z: Int)", "($v: Int = 1, $w: Int)"}

var conds = []string{"I", "A", "B"}

type topo struct {
	N   int
	Adj [][]bool
}

func (t topo) String() string {
	var b strings.Builder
	fmt.Fprintf(&b, "N=%d:", t.N)
	for i := 0; i < t.N; i++ {
		for j := 0; j < t.N; j++ {
			if t.Adj[i][j] {
				fmt.Fprintf(&b, " %d>%d", i, j)
			}
		}
	}
	return b.String()
}

func topoFromBits(n int, bits uint64) topo {
	t := topo{N: n, Adj: make([][]bool, n)}
	for i := 0; i < n; i++ {
		t.Adj[i] = make([]bool, n)
		for j := 0; j < n; j++ {
			t.Adj[i][j] = bits&(1<<uint(i*n+j)) != 0
		}
	}
	return t
}

func (t topo) edges() int {
	e := 0
	for i := range t.Adj {
		for j := range t.Adj[i] {
			if t.Adj[i][j] {
				e++
			}
		}
	}
	return e
}

func (t topo) cyclic() bool {
	// reach[i][j] by Warshall
	r := make([][]bool, t.N)
	for i := range r {
		r[i] = append([]bool{}, t.Adj[i]...)
	}
	for k := 0; k < t.N; k++ {
		for i := 0; i < t.N; i++ {
			for j := 0; j < t.N; j++ {
				if r[i][k] && r[k][j] {
					r[i][j] = true
				}
			}
		}
	}
	for i := 0; i < t.N; i++ {
		if r[i][i] {
			return true
		}
	}
	return false
}

func placeSpread(r *hx.Rng, name string) string {
	switch r.Intn(6) {
	case 0:
		return "c { ..." + name + " }"
	case 1:
		return "... on " + conds[1+r.Intn(2)] + " { ..." + name + " }"
	case 2:
		return "l { ..." + name + " }"
	default:
		return "..." + name
	}
}

// document text for a topology; single line, so that column = byte offset + 1
func genDoc(r *hx.Rng, t topo) string { return genDocNamed(r, t, nil) }

// genDocNamed = genDoc with the fragment names given (nil: F0, F1, ...); the random stream does not depend on the names
func genDocNamed(r *hx.Rng, t topo, names []string) string {
	fname := func(j int) string {
		if names != nil {
			return names[j]
		}
		return fmt.Sprintf("F%d", j)
	}
	var parts []string
	// operation(s)
	nOps := 1
	if r.Chance(1, 8) {
		nOps = 2
	}
	for o := 0; o < nOps; o++ {
		var sel []string
		if r.Chance(1, 3) {
			sel = append(sel, pick(r))
		}
		for j := 0; j < t.N; j++ {
			use := j == 0
			if j > 0 {
				use = r.Chance(1, 3)
			} else if r.Chance(1, 10) {
				use = false
			}
			if use {
				sel = append(sel, placeSpread(r, fname(j)))
			}
		}
		if len(sel) == 0 {
			sel = append(sel, "n")
		}
		name := ""
		vd := r.Pick(varDefs)
		if nOps > 1 || vd != "" {
			name = fmt.Sprintf("query O%d%s ", o, vd)
		}
		parts = append(parts, name+"{ i { "+strings.Join(sel, " ")+" } }")
	}
	for i := 0; i < t.N; i++ {
		var sel []string
		nItems := r.Range(0, 2)
		for k := 0; k < nItems; k++ {
			sel = append(sel, pick(r))
		}
		for j := 0; j < t.N; j++ {
			if t.Adj[i][j] {
				sp := placeSpread(r, fname(j))
				if r.Chance(1, 2) {
					sel = append(sel, sp)
				} else {
					sel = append([]string{sp}, sel...)
				}
			}
		}
		if len(sel) == 0 {
			sel = append(sel, pick(r))
		}
		parts = append(parts, fmt.Sprintf("fragment %s on %s { %s }", fname(i), conds[r.Intn(3)], strings.Join(sel, " ")))
	}
	// fragments in random rotation relative to the operation: definitions may precede their uses
	if r.Chance(1, 3) {
		parts = append(parts[1:], parts[0])
	}
	return strings.Join(parts, " ")
}

// ---------------------------------------------------------------- model answer

type errLocs = [][][2]int // per error: [start, stop] of each node

type modelResp struct {
	Overlap struct {
		M    errLocs `json:"M"`
		S    errLocs `json:"S"`
		SlkM errLocs `json:"SlkM"`
		Soof bool    `json:"Soof"`
		Oof  bool    `json:"oof"`
		NFC  uint64  `json:"nFC"`
		NFF  uint64  `json:"nFF"`
		NBF  uint64  `json:"nBF"`
	} `json:"overlap"`
	Cycles struct {
		M   errLocs `json:"M"`
		S   errLocs `json:"S"`
		Oof bool    `json:"oof"`
	} `json:"cycles"`
	Unused struct {
		M errLocs `json:"M"`
		S errLocs `json:"S"`
	} `json:"unused"`
	UndefVar        msPair `json:"undefVar"`
	UnusedVar       msPair `json:"unusedVar"`
	VarPos          msPair `json:"varPos"`
	UniqueFragNames bool   `json:"uniqueFragNames"`
	LocsDistinct    bool   `json:"locsDistinct"`
	Coherent        bool   `json:"coherent"`
	Complete        bool   `json:"complete"`
	Bounds          struct {
		Sets        uint64 `json:"sets"`
		SpreadNames uint64 `json:"spreadNames"`
		Frags       uint64 `json:"frags"`
		Fuel        uint64 `json:"fuel"`
	} `json:"bounds"`
}

type msPair struct {
	M errLocs `json:"M"`
	S errLocs `json:"S"`
}

// starts of an error list of the model: per error the start offsets
func starts(es errLocs) [][]int {
	out := [][]int{}
	for _, e := range es {
		row := []int{}
		for _, l := range e {
			row = append(row, l[0])
		}
		out = append(out, row)
	}
	return out
}

type realOut struct {
	Errs     [][]int  `json:"errs"` // per error: start offsets (line 1, column-1)
	Panic    string   `json:"panic,omitempty"`
	Counters []uint64 `json:"counters,omitempty"`
	Slow     bool     `json:"slow,omitempty"`
}

func runRule(schema *graphql.Schema, doc *ast.Document, rule graphql.ValidationRuleFn, counters bool) (out realOut) {
	defer func() {
		if r := recover(); r != nil {
			out.Panic = fmt.Sprint(r)
		}
	}()
	if counters {
		graphql.VerifResetCounters()
	}
	t0 := time.Now()
	res := graphql.ValidateDocument(schema, doc, []graphql.ValidationRuleFn{rule})
	if time.Since(t0) > 5*time.Second {
		out.Slow = true
	}
	if counters {
		out.Counters = graphql.VerifCounters()
	}
	out.Errs = [][]int{}
	for _, e := range res.Errors {
		row := []int{}
		for _, l := range e.Locations {
			if l.Line != 1 {
				row = append(row, -1)
			} else {
				row = append(row, l.Column-1)
			}
		}
		out.Errs = append(out.Errs, row)
	}
	return out
}

// runOverlapWatched = runRule(OverlappingFieldsCanBeMergedRule) in a goroutine, watched every 10 ms: hung != "" when the
// rule is still running and EITHER a memo body counter already exceeds the proved bound (memo_body_at_most_once:
// betweenFragments bodies <= 2*F^2, fieldsAndFragment bodies <= 2*S*F; F, S over-approximated from the text: number of
// `...` plus number of definitions, number of `{`; the counters only grow, so this is the final comparison made early and independent of the
// machine's load) OR limit has passed. The goroutine cannot be stopped and a runaway recursion ends in a fatal stack
// overflow after a few seconds: the caller reports and ends the process.
func runOverlapWatched(schema *graphql.Schema, doc *ast.Document, src string, limit time.Duration) (out realOut, hung string) {
	f := uint64(strings.Count(src, "...") + strings.Count(src, "fragment ") + 1) // >= spread names, >= fragment definitions
	sets := uint64(strings.Count(src, "{") + 1)
	ch := make(chan realOut, 1)
	go func() { ch <- runRule(schema, doc, graphql.OverlappingFieldsCanBeMergedRule, true) }()
	tick := time.NewTicker(10 * time.Millisecond)
	defer tick.Stop()
	deadline := time.Now().Add(limit)
	for {
		select {
		case out = <-ch:
			return out, ""
		case <-tick.C:
			c := graphql.VerifCounters()
			ff, bf := c[graphql.VerifSiteFieldsAndFragment], c[graphql.VerifSiteBetweenFragments]
			if bf > 2*f*f || ff > 2*sets*f {
				return realOut{Counters: c}, fmt.Sprintf("is still running after %d betweenFragments and %d fieldsAndFragment memo bodies (memo_body_at_most_once bounds them by 2*F^2 <= %d and 2*S*F <= %d)", bf, ff, 2*f*f, 2*sets*f)
			}
			if time.Now().After(deadline) {
				return realOut{Counters: c}, fmt.Sprintf("did not return within %v (overlap_no_fuel_exhaustion says the memoised comparison terminates)", limit)
			}
		}
	}
}

// family cyclicMixedExclusive on this schema: A and B are the two object types, I the interface; c: I and l: [I]
// exist on all three
var cyclicVocab = cycfam.Vocab{Root: []string{"i"}, Conds: []string{"A", "B", "I"}, NObj: 2, Sub: []string{"c", "l"}, Leaf: "n"}

type caseT struct {
	Src  string   `json:"src"`
	Topo string   `json:"topo"`
	Tags []string `json:"tags,omitempty"`
}

func main() {
	run := hx.Begin("C02")
	drv, err := hx.StartDriver(run.DriverBin)
	if err != nil {
		run.CheckError("cannot start driver: " + err.Error())
		run.Finish()
		return
	}
	defer drv.Close()
	run.Res.Rule = "every directed graph (self loops allowed) on N<=3 (quick) / N<=4 (thorough) fragments, each with several random decorations (type condition I/A/B, 0-2 pool selections per fragment, spread placement top-level / inside sub-selection / inside inline fragment, operation spreading F0 and a random subset); operations declare and the pool uses variables $v $w $u; rules OverlappingFieldsCanBeMerged, NoFragmentCycles, NoUnusedFragments, NoUndefinedVariables, NoUnusedVariables, VariablesInAllowedPosition each run alone; plus family cyclicMixedExclusive (harness/cycfam): tables of 2-3 fragments on A / B / I spread side by side below `i`, bodies = subsets of { x: c { ...Fj }, ...Fj, n } (two-fragment tables: 500 of 8649 quick / all thorough; three-fragment tables: seeded random); plus family collidingNames (colliding.go): fragment NAMES from an alphabet in which different pairs of names concatenate (given or sorted order; separators _, none, __) to the same string: fixed four-fragment shapes, every collision quadruple of the alphabet (conflict-free pair spread side by side first, conflicting pair x: n / x: s on the same parent later, at spread depth 0-3, six layouts), and random graphs of 3-5 fragments with genDoc's decorations and such names; non-trivial = the graph has at least one edge or some rule rejects or the document is of the second or third family; distinct by document text"

	desc := schemaDesc()
	built, err := gq.Build(desc, gq.Hooks{
		IsTypeOf: func(string) graphql.IsTypeOfFn { return func(graphql.IsTypeOfParams) bool { return true } },
		ResolveType: func(string, map[string]*graphql.Object) graphql.ResolveTypeFn {
			return func(graphql.ResolveTypeParams) *graphql.Object { return nil }
		},
	})
	if err != nil {
		run.CheckError("schema build: " + err.Error())
		run.Finish()
		return
	}
	schema := &built.Schema

	maxFC, maxFF, maxBF := uint64(0), uint64(0), uint64(0)

	inflight := ""
	if run.ReplayDir != "" && run.ReplayIn == "" {
		os.MkdirAll(run.ReplayDir, 0o755)
		inflight = filepath.Join(run.ReplayDir, "inflight-c02overlap.json")
	}
	one := func(c caseT) {
		doc, err := parser.Parse(parser.ParseParams{Source: c.Src})
		if err != nil {
			run.CheckError("generator produced unparsable text: " + c.Src)
			return
		}
		if inflight != "" { // a fatal error in the library (stack overflow) kills this process: keep the input
			b, _ := json.Marshal(map[string]interface{}{"property": "C02", "note": "case in flight when the harness process died", "replay": map[string]interface{}{"case": c}})
			os.WriteFile(inflight, b, 0o644)
		}
		ov, hung := runOverlapWatched(schema, doc, c.Src, 10*time.Second)
		if hung != "" {
			run.Case(c.Src, true, nil)
			run.Violation(fmt.Sprintf("OverlappingFieldsCanBeMerged %s on a document of %d bytes: %s", hung, len(c.Src), c.Src),
				map[string]interface{}{"case": c, "real_overlap": ov, "real_overlap_status": hung}, false)
			run.Finish()
			os.Exit(0) // the comparison is still recursing in its goroutine and cannot be stopped
		}
		cy := runRule(schema, doc, graphql.NoFragmentCyclesRule, false)
		un := runRule(schema, doc, graphql.NoUnusedFragmentsRule, false)
		uv := runRule(schema, doc, graphql.NoUndefinedVariablesRule, false)
		nv := runRule(schema, doc, graphql.NoUnusedVariablesRule, false)
		vp := runRule(schema, doc, graphql.VariablesInAllowedPositionRule, false)

		var m modelResp
		if err := drv.Ask(map[string]interface{}{"schema": desc, "doc": astjson.Document(doc)}, &m); err != nil {
			run.CheckError(err.Error())
			return
		}
		rep := func(extra map[string]interface{}) map[string]interface{} {
			o := map[string]interface{}{"case": c, "real_overlap": ov, "real_cycles": cy, "real_unused": un,
				"real_undefined_vars": uv, "real_unused_vars": nv, "real_var_positions": vp, "model": m}
			for k, v := range extra {
				o[k] = v
			}
			return o
		}
		rejected := len(ov.Errs) > 0 || len(cy.Errs) > 0 || len(un.Errs) > 0
		run.Case(c.Src, strings.Contains(c.Topo, ">") || rejected || strings.HasPrefix(c.Topo, cycfam.Tag) || strings.HasPrefix(c.Topo, collTag), map[string]interface{}{"src": c.Src, "topo": c.Topo,
			"overlap_errors": len(ov.Errs), "cycle_errors": len(cy.Errs), "unused_errors": len(un.Errs), "counters": ov.Counters})
		run.Tag(fmt.Sprintf("overlap:%v", verdict(len(ov.Errs))))
		for _, t := range c.Tags {
			run.Tag(t)
		}
		if strings.HasPrefix(c.Topo, cycfam.Tag) && len(ov.Errs) > 0 {
			run.Tag(cycfam.Tag + ":overlap-conflict-reported")
		}
		if strings.HasPrefix(c.Topo, collTag) && len(ov.Errs) > 0 {
			run.Tag(collTag + ":overlap-conflict-reported")
		}
		run.Tag(fmt.Sprintf("cycles:%v", verdict(len(cy.Errs))))
		run.Tag(fmt.Sprintf("unused:%v", verdict(len(un.Errs))))
		if len(ov.Errs) > 0 && len(cy.Errs) > 0 {
			run.Tag("overlap-conflict-in-cyclic-doc")
		}

		for _, p := range []struct {
			name string
			o    realOut
		}{{"OverlappingFieldsCanBeMerged", ov}, {"NoFragmentCycles", cy}, {"NoUnusedFragments", un},
			{"NoUndefinedVariables", uv}, {"NoUnusedVariables", nv}, {"VariablesInAllowedPosition", vp}} {
			if p.o.Panic != "" {
				run.Violation(p.name+" panicked: "+p.o.Panic, rep(nil), false)
				return
			}
			if p.o.Slow {
				run.Violation(p.name+" took more than 5 s on a document of a few hundred bytes", rep(nil), false)
				return
			}
		}
		if m.Overlap.Oof || m.Cycles.Oof || m.Overlap.Soof {
			run.CheckError("model ran out of fuel (theorems cycleRun_no_oof / overlap fuel bound contradicted) on " + c.Src)
			return
		}
		if m.Coherent {
			run.Tag("overlap_sound-hypothesis-holds")
		} else {
			run.Tag("overlap_sound-hypothesis-fails")
		}
		if m.Complete {
			run.Tag("overlap_iff_naive_acyclic-hypothesis-holds")
		}
		if !m.LocsDistinct || !m.UniqueFragNames {
			run.CheckError("generator invariant broken (distinct selection-set locations, unique fragment names): " + c.Src)
			return
		}

		// ---- real vs M: full error lists
		if hx.Canon(cy.Errs) != hx.Canon(starts(m.Cycles.M)) {
			run.Violation("NoFragmentCycles: errors of the real rule differ from the model of detectCycleRecursive", rep(nil), false)
			return
		}
		if hx.Canon(un.Errs) != hx.Canon(starts(m.Unused.M)) {
			run.Violation("NoUnusedFragments: errors of the real rule differ from the model", rep(nil), false)
			return
		}
		if hx.Canon(ov.Errs) != hx.Canon(starts(m.Overlap.M)) {
			run.Violation("OverlappingFieldsCanBeMerged: errors of the real rule differ from the model of the memoised algorithm", rep(nil), false)
			return
		}
		// ---- the three variable rules (usages through fragments reachable from the operation): real vs M exactly,
		// real vs S accept/reject and number of errors
		for _, p := range []struct {
			name string
			o    realOut
			m    msPair
		}{{"NoUndefinedVariables", uv, m.UndefVar}, {"NoUnusedVariables", nv, m.UnusedVar}, {"VariablesInAllowedPosition", vp, m.VarPos}} {
			run.Tag(fmt.Sprintf("%s:%v", p.name, verdict(len(p.o.Errs))))
			if hx.Canon(p.o.Errs) != hx.Canon(starts(p.m.M)) {
				run.Violation(p.name+": errors of the real rule differ from the model (RecursiveVariableUsages)", rep(nil), false)
				return
			}
			if len(p.o.Errs) != len(p.m.S) {
				run.Violation(p.name+": real rule and the declarative rule (usages in the operation's reachable selection) disagree", rep(nil), false)
				return
			}
		}
		// ---- real vs M: step counters (equality at every site)
		goFC, goFF, goBF := ov.Counters[graphql.VerifSiteFindConflict], ov.Counters[graphql.VerifSiteFieldsAndFragment], ov.Counters[graphql.VerifSiteBetweenFragments]
		if goFC != m.Overlap.NFC || goFF != m.Overlap.NFF || goBF != m.Overlap.NBF {
			run.Violation(fmt.Sprintf("overlap step counters differ: go findConflict/fieldsAndFragment/betweenFragments = %d/%d/%d, model = %d/%d/%d",
				goFC, goFF, goBF, m.Overlap.NFC, m.Overlap.NFF, m.Overlap.NBF), rep(nil), false)
			return
		}
		// the proved bounds, re-checked on the real counters
		if goFF > 2*m.Bounds.Sets*m.Bounds.SpreadNames || goBF > 2*m.Bounds.Frags*m.Bounds.Frags {
			run.Violation(fmt.Sprintf("memo bound exceeded: fieldsAndFragment bodies %d > 2*S*F = %d or betweenFragments bodies %d > 2*F^2 = %d",
				goFF, 2*m.Bounds.Sets*m.Bounds.SpreadNames, goBF, 2*m.Bounds.Frags*m.Bounds.Frags), rep(nil), false)
			return
		}
		if goFC > maxFC {
			maxFC = goFC
		}
		if goFF > maxFF {
			maxFF = goFF
		}
		if goBF > maxBF {
			maxBF = goBF
		}

		// ---- real vs S: accept / reject
		if (len(cy.Errs) > 0) != (len(m.Cycles.S) > 0) {
			run.Violation("NoFragmentCycles: real rule and the declarative spread-graph cycle predicate disagree", rep(nil), false)
			return
		}
		if (len(un.Errs) > 0) != (len(m.Unused.S) > 0) || len(un.Errs) != len(m.Unused.S) {
			run.Violation("NoUnusedFragments: real rule and the declarative reachability predicate disagree", rep(nil), false)
			return
		}
		if (len(ov.Errs) > 0) != (len(m.Overlap.S) > 0) {
			run.Violation("OverlappingFieldsCanBeMerged: real rule and FieldsInSetCanMerge (brute force over the flattened field sets) disagree", rep(nil), false)
			return
		}
		if (len(m.Overlap.SlkM) > 0) != (len(m.Overlap.M) > 0) {
			run.Violation("model M and spec S (same field lookup) disagree: overlap_memo_iff_naive contradicted (model fault or defect of the algorithm)", rep(nil), true)
			return
		}
	}

	if run.ReplayIn != "" {
		var rp struct {
			Case caseT `json:"case"`
		}
		if err := hx.LoadReplay(run.ReplayIn, &rp); err != nil {
			run.CheckError(err.Error())
		} else {
			one(rp.Case)
		}
		run.Finish()
		return
	}

	maxN := 3
	perTopo := map[int]int{1: 16, 2: 10, 3: 3}
	acyclicBoost := 8
	if run.Thorough() {
		maxN = 4
		perTopo = map[int]int{1: 200, 2: 100, 3: 30, 4: 1}
		acyclicBoost = 15
	}
	idx := 0
	if os.Getenv("VERIF_C02OVERLAP_ONLY") == "cyclic" { // targeted runs of the second family alone
		maxN = 0
	}
	for n := 1; n <= maxN; n++ {
		for bits := uint64(0); bits < 1<<uint(n*n); bits++ {
			t := topoFromBits(n, bits)
			draws := perTopo[n]
			if !t.cyclic() {
				draws *= acyclicBoost // acyclic graphs are the valid documents; random digraphs are mostly cyclic
			}
			for k := 0; k < draws && !run.TooManyViolations(); k++ {
				r := hx.Fork(run.Seed, idx)
				idx++
				src := genDoc(r, t)
				run.Tag(fmt.Sprintf("N=%d", n))
				if t.cyclic() {
					run.Tag("topology-cyclic")
				} else if t.edges() > 0 {
					run.Tag("topology-acyclic-with-edges")
				}
				one(caseT{Src: src, Topo: t.String()})
			}
		}
	}
	// ---- family cyclicMixedExclusive: two-fragment tables (quick: 500 of the 8649, a stride through the index space;
	// thorough: all), then seeded random tables with three (one time in four: two) fragments and the richer alphabet
	n2 := cycfam.Count2(cyclicVocab)
	take2, takeRnd := run.N(500, n2), run.N(250, 20000)
	for k := 0; k < take2 && !run.TooManyViolations(); k++ {
		i := k
		if take2 < n2 {
			i = int((uint64(k)*7919 + run.Seed*131) % uint64(n2)) // 7919 is coprime to 8649: no index twice
		}
		d := cycfam.Exhaustive2(cyclicVocab, i)
		one(caseT{Src: d.Src, Topo: fmt.Sprintf("%s:N=2 #%d", cycfam.Tag, i), Tags: d.Tags})
	}
	for k := 0; k < takeRnd && !run.TooManyViolations(); k++ {
		r := hx.Fork(run.Seed^0xC1C11C, k)
		nf := 3
		if r.Chance(1, 4) {
			nf = 2
		}
		d := cycfam.Random(cyclicVocab, r, nf)
		one(caseT{Src: d.Src, Topo: fmt.Sprintf("%s:random N=%d", cycfam.Tag, nf), Tags: d.Tags})
	}
	// ---- family collidingNames (colliding.go): fragment names that collide under concatenation. The fixed shapes, then
	// every collision quadruple of the alphabet with several draws, then random graphs with names of the alphabet
	nColl := 0
	if os.Getenv("VERIF_C02OVERLAP_ONLY") != "cyclic" {
		for _, d := range collidingFixed() {
			if run.TooManyViolations() {
				break
			}
			one(caseT{Src: d.Src, Topo: d.Topo, Tags: d.Tags})
			nColl++
		}
		perColl, takeTopo := run.N(4, 60), run.N(300, 20000)
		for ci, c := range collAll {
			for k := 0; k < perColl && !run.TooManyViolations(); k++ {
				d := collidingPairs(hx.Fork(run.Seed^0xC011D0, ci*1000+k), c)
				one(caseT{Src: d.Src, Topo: d.Topo, Tags: d.Tags})
				nColl++
			}
		}
		for k := 0; k < takeTopo && !run.TooManyViolations(); k++ {
			r := hx.Fork(run.Seed^0xC011D1, k)
			d := collidingTopo(r, r.Range(3, 5))
			one(caseT{Src: d.Src, Topo: d.Topo, Tags: d.Tags})
			nColl++
		}
	}
	run.Res.Extra["collidingNames_collision_quadruples_in_alphabet"] = len(collAll)
	run.Res.Extra["collidingNames_documents"] = nColl
	if inflight != "" {
		os.Remove(inflight)
	}
	run.Res.Extra["cyclicMixedExclusive_two_fragment_tables"] = fmt.Sprintf("%d of %d", take2, n2)
	run.Res.Extra["cyclicMixedExclusive_random_tables"] = takeRnd
	run.Res.Exhaustive = false // topologies are exhaustive, decorations are sampled
	run.Res.Extra["topologies_enumerated_exhaustively_up_to_N"] = maxN
	run.Res.Extra["max_counters_findConflict_fieldsAndFragment_betweenFragments"] = []uint64{maxFC, maxFF, maxBF}
	_ = json.Marshal
	run.Finish()
}

func verdict(n int) string {
	if n == 0 {
		return "accept"
	}
	return "reject"
}
