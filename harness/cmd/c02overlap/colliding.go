// Family collidingNames: the NAME-ASSIGNMENT dimension of the fragment topologies.
//
// The overlap rule remembers which pairs of fragments it has compared (comparedFragmentPairs, keyed by the PAIR of
// names, with the mutual-exclusivity flag). Whether that memo really separates two different pairs depends on nothing
// but the fragment names, and F0, F1, ... never put it to the test. Here the names come from an alphabet in which
// different pairs of names become the same string when the two names are written one after the other (in the given or in
// sorted order) with a separator between them: "A_B"+"_"+"C" = "A"+"_"+"B_C", "A"+""+"BC" = "AB"+""+"C",
// "A_"+"_"+"B" = "A"+"_"+"_B", ... (separators tried: "_", "", "__", and ":", ",", " " which cannot collide because
// they cannot occur in a name).
//
// Three generators, all compared exactly like every other document of this harness (error lists real = M,
// accept/reject real = S, the three step counters real = M):
//   - collidingFixed:  the shapes of a four-fragment document in which a conflict-free pair (P1, Q1) is spread side by
//     side first and a conflicting pair (P2, Q2: `x: n` vs `x: s` on the same parent) later, in two selection sets, in
//     one selection set, and with the conflicting fragment reached through a chain of spreads;
//   - collidingPairs:  the same shape over every collision quadruple of the alphabet, conflicting fragments at spread
//     depth 0-3 on either side, several layouts, bodies and type conditions;
//   - collidingTopo:   the random decorations of genDoc on random directed graphs of 3-5 fragments with names of the
//     alphabet (half of the time a collision quadruple among them).
package main

import (
	"fmt"
	"sort"
	"strings"

	"verif/harness/hx"
)

const collTag = "collidingNames"

var collAlphabet = []string{"A", "B", "C", "A_B", "B_C", "A_B_C", "_", "A_", "_B", "AB", "BC", "ABC", "A__B", "_A", "B_", "__", "A_B_", "_B_C", "P", "Q_R", "P_Q", "R"}

var collSeps = []string{"_", "", "__", ":", ",", " "}

// a collision: the pairs {P1, Q1} and {P2, Q2} are different sets of four distinct names, and written with Sep between
// them (Sorted: smaller name first; otherwise in the order given) they are the same string
type collision struct {
	P1, Q1, P2, Q2 string
	Sep            string
	Sorted         bool
}

func joinPair(a, b, sep string, sorted bool) string {
	if sorted && b < a {
		a, b = b, a
	}
	return a + sep + b
}

func collisions() []collision {
	var out []collision
	seen := map[string]bool{}
	al := collAlphabet
	for _, a := range al {
		for _, b := range al {
			for _, c := range al {
				for _, d := range al {
					if a == b || a == c || a == d || b == c || b == d || c == d {
						continue
					}
					for _, sep := range collSeps {
						for _, sorted := range []bool{true, false} {
							if joinPair(a, b, sep, sorted) != joinPair(c, d, sep, sorted) {
								continue
							}
							// one representative per ordered pair of unordered pairs
							x, y := []string{a, b}, []string{c, d}
							sort.Strings(x)
							sort.Strings(y)
							k := strings.Join(x, " ") + "|" + strings.Join(y, " ") + "|" + sep + fmt.Sprint(sorted)
							if seen[k] {
								continue
							}
							seen[k] = true
							out = append(out, collision{a, b, c, d, sep, sorted})
						}
					}
				}
			}
		}
	}
	return out
}

var collAll = collisions()

type collDoc struct {
	Src  string
	Topo string
	Tags []string
}

// the fixed shapes (on this schema: `i: I`, `n: Int`, `s: String`)
func collidingFixed() []collDoc {
	mk := func(name, src string) collDoc {
		return collDoc{Src: src, Topo: collTag + ":fixed " + name, Tags: []string{collTag, collTag + ":fixed"}}
	}
	return []collDoc{
		mk("two selection sets", "{ first: i { ...A_B ...C } second: i { ...A ...B_C } } fragment A_B on I { n } fragment C on I { s } fragment A on I { x: n } fragment B_C on I { x: s }"),
		mk("two selection sets, plain names", "{ first: i { ...AB ...C } second: i { ...A ...BC } } fragment AB on I { n } fragment C on I { s } fragment A on I { x: n } fragment BC on I { x: s }"),
		mk("one selection set", "{ i { ...A_B ...C ...A ...B_C } } fragment A_B on I { n } fragment C on I { s } fragment A on I { x: n } fragment B_C on I { x: s }"),
		mk("nested spreads", "{ i { ...P_Q ...R ...Outer ...P } } fragment P_Q on I { n } fragment R on I { s } fragment Outer on I { ...Mid } fragment Mid on I { ...Q_R } fragment Q_R on I { x: s } fragment P on I { x: n }"),
		mk("two selection sets, object type", "{ first: i { ...A_B ...C } second: i { ...A ...B_C } } fragment A_B on A { n } fragment C on A { s } fragment A on A { x: n } fragment B_C on A { x: s }"),
		mk("concatenation without separator", "{ first: i { ...AB ...C } second: i { ...A ...BC } } fragment AB on I { x: n } fragment C on I { x: n } fragment A on I { x: k(x: 1) } fragment BC on I { x: k(x: 2) }"),
	}
}

// pairs of bodies that conflict under one response key on the same parent type
var collConflicts = [][2]string{
	{"x: n", "x: s"},
	{"x: s", "x: n"},
	{"x: k(x: 1)", "x: k(x: 2)"},
	{"x: n", "x: c { n }"},
	{"c { x: n }", "c { x: s }"},
	{"n x: n", "s x: s"},
}

// pairs of bodies that do not conflict
var collHarmless = [][2]string{
	{"n", "s"},
	{"x: n", "x: n"},
	{"n", "n"},
	{"c { x: n }", "c { x: n }"},
	{"y: n", "z: s"},
}

// collidingPairs: document for collision c. Layout of the operation, depth of the chains above P2 and Q2, bodies, type
// conditions and the order inside the pairs are drawn from r.
func collidingPairs(r *hx.Rng, c collision) collDoc {
	p1, q1, p2, q2 := c.P1, c.Q1, c.P2, c.Q2
	if r.Chance(1, 2) {
		p1, q1 = q1, p1
	}
	if r.Chance(1, 2) {
		p2, q2 = q2, p2
	}
	// one type condition for the conflicting pair (same parent type: no mutual exclusivity); the harmless pair gets the
	// same, except one time in six two different object types (then the memo holds the pair as mutually exclusive)
	cond := "I"
	if r.Chance(1, 4) {
		cond = conds[1+r.Intn(2)]
	}
	c1p, c1q := cond, cond
	if r.Chance(1, 6) {
		c1p, c1q = "A", "B"
	}
	hb := collHarmless[r.Intn(len(collHarmless))]
	cb := collConflicts[r.Intn(len(collConflicts))]

	used := map[string]bool{p1: true, q1: true, p2: true, q2: true}
	wrapNo := 0
	fresh := func() string {
		// names of the chain fragments: plain (W0, W1, ...) or again from the alphabet
		if r.Chance(1, 3) {
			for try := 0; try < 8; try++ {
				n := r.Pick(collAlphabet)
				if !used[n] {
					used[n] = true
					return n
				}
			}
		}
		for {
			n := fmt.Sprintf("W%d", wrapNo)
			wrapNo++
			if !used[n] {
				used[n] = true
				return n
			}
		}
	}
	var chainDefs []string
	// chain of depth d above name: returns the name to spread in the operation
	chain := func(name string, d int) string {
		top := name
		for k := 0; k < d; k++ {
			w := fresh()
			body := "..." + top
			switch r.Intn(5) {
			case 0:
				body = "... on " + cond + " { ..." + top + " }"
			case 1:
				body = "... { ..." + top + " }"
			}
			chainDefs = append(chainDefs, fmt.Sprintf("fragment %s on %s { %s }", w, cond, body))
			top = w
		}
		return top
	}
	dp, dq := 0, 0
	switch r.Intn(4) {
	case 1:
		dq = r.Range(1, 3)
	case 2:
		dp = r.Range(1, 3)
	case 3:
		dp, dq = r.Range(0, 3), r.Range(0, 3)
	}
	tp, tq := chain(p2, dp), chain(q2, dq)

	first := "..." + p1 + " ..." + q1
	second := "..." + tp + " ..." + tq
	layout := r.Intn(6)
	op := ""
	switch layout {
	case 0: // two selection sets under two aliases
		op = "{ first: i { " + first + " } second: i { " + second + " } }"
	case 1: // one selection set
		op = "{ i { " + first + " " + second + " } }"
	case 2: // the conflicting pair one field deeper
		op = "{ i { " + first + " c { " + second + " } } }"
	case 3: // two operations
		op = "query O0 { i { " + first + " } } query O1 { i { " + second + " } }"
	case 4: // interleaved in one selection set
		op = "{ i { ..." + p1 + " ..." + tp + " ..." + q1 + " ..." + tq + " } }"
	default: // control: the conflicting pair first
		op = "{ first: i { " + second + " } second: i { " + first + " } }"
	}
	defs := []string{
		fmt.Sprintf("fragment %s on %s { %s }", p1, c1p, hb[0]),
		fmt.Sprintf("fragment %s on %s { %s }", q1, c1q, hb[1]),
		fmt.Sprintf("fragment %s on %s { %s }", p2, cond, cb[0]),
		fmt.Sprintf("fragment %s on %s { %s }", q2, cond, cb[1]),
	}
	defs = append(defs, chainDefs...)
	// the order of the definitions is irrelevant to the rule's traversal of the operation but not to the traversal of the
	// fragment definitions themselves: rotate
	if k := r.Intn(len(defs)); k > 0 {
		defs = append(defs[k:], defs[:k]...)
	}
	parts := append([]string{op}, defs...)
	if r.Chance(1, 4) {
		parts = append(parts[1:], parts[0])
	}
	depth := dp
	if dq > depth {
		depth = dq
	}
	sepName := map[string]string{"_": "underscore", "": "none", "__": "two-underscores", ":": "colon", ",": "comma", " ": "space"}[c.Sep]
	return collDoc{
		Src:  strings.Join(parts, " "),
		Topo: fmt.Sprintf("%s:pairs {%s,%s}~{%s,%s} sep=%q sorted=%v layout=%d depth=%d/%d", collTag, c.P1, c.Q1, c.P2, c.Q2, c.Sep, c.Sorted, layout, dp, dq),
		Tags: []string{collTag, collTag + ":pairs", fmt.Sprintf("%s:depth=%d", collTag, depth), collTag + ":sep=" + sepName, fmt.Sprintf("%s:layout=%d", collTag, layout)},
	}
}

// collidingTopo: genDoc's decorations on a random directed graph of n fragments named from the alphabet
func collidingTopo(r *hx.Rng, n int) collDoc {
	var t topo
	for try := 0; try < 4; try++ { // prefer acyclic graphs (the valid documents)
		bits := r.U64() & r.U64() // sparse
		if n*n < 64 {
			bits &= (uint64(1) << uint(n*n)) - 1
		}
		t = topoFromBits(n, bits)
		if !t.cyclic() {
			break
		}
	}
	names := make([]string, 0, n)
	used := map[string]bool{}
	if n >= 4 && len(collAll) > 0 && r.Chance(1, 2) {
		c := collAll[r.Intn(len(collAll))]
		for _, x := range []string{c.P1, c.Q1, c.P2, c.Q2} {
			names = append(names, x)
			used[x] = true
		}
	}
	for len(names) < n {
		x := r.Pick(collAlphabet)
		if !used[x] {
			used[x] = true
			names = append(names, x)
		}
	}
	for i := len(names) - 1; i > 0; i-- { // shuffle
		j := r.Intn(i + 1)
		names[i], names[j] = names[j], names[i]
	}
	src := genDocNamed(r, t, names)
	tags := []string{collTag, collTag + ":topo", fmt.Sprintf("%s:topo N=%d", collTag, n)}
	if t.cyclic() {
		tags = append(tags, collTag+":topo-cyclic")
	}
	return collDoc{Src: src, Topo: fmt.Sprintf("%s:topo %s names=%s", collTag, t.String(), strings.Join(names, ",")), Tags: tags}
}
