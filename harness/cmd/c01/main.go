// C01 harness: the real executor against the execution-algorithm model on valid documents.
package main

import (
	"verif/harness/execharness"
	"verif/harness/hx"
)

func main() {
	execharness.Main(execharness.Mode{Prop: "C01", Knobs: func(r *hx.Rng) execharness.Knobs {
		k := execharness.DefaultKnobs
		if r.Chance(1, 4) {
			k = execharness.CalmKnobs
		}
		if r.Chance(1, 2) { // half of the worlds have no deferred values: there the comparison is exact
			k.Thunk, k.BadThunk = 0, 0
		}
		return k
	}, CompareLog: true, PlanReuse: true, PlanModel: true}, 1200, 120000)
}
