// C03 (lexer half) harness: runs the real lexer the way the parser does (lexer.Lex(source), then
// lex(0) until EOF or error) and compares token kinds, Start/End, Value bytes, error position and
// error call site with the Lean model M (bug-faithful; must agree on everything) and with the
// spec tokeniser S (must agree unless a known-finding predicate evaluated by the driver holds).
// Also checks that lexing leaves Source.Body untouched.
package main

import (
	"bytes"
	"encoding/base64"
	"encoding/json"
	"fmt"
	"strings"

	"github.com/graphql-go/graphql/gqlerrors"
	"github.com/graphql-go/graphql/language/ast"
	"github.com/graphql-go/graphql/language/lexer"
	"github.com/graphql-go/graphql/language/printer"
	"github.com/graphql-go/graphql/language/source"

	"verif/harness/gen"
	"verif/harness/hx"
)

type tok struct {
	Kind  int
	Start int
	End   int
	Value []byte
}

type lexOut struct {
	Tokens  []tok
	HasErr  bool
	ErrPos  int
	ErrKind int
}

func (o lexOut) render() map[string]interface{} {
	ts := []interface{}{}
	for _, t := range o.Tokens {
		ts = append(ts, []interface{}{t.Kind, t.Start, t.End, fmt.Sprintf("%q", string(t.Value))})
	}
	m := map[string]interface{}{"tokens": ts}
	if o.HasErr {
		m["err"] = []int{o.ErrPos, o.ErrKind}
	}
	return m
}

func sameTokens(a, b lexOut) bool {
	if len(a.Tokens) != len(b.Tokens) {
		return false
	}
	for i := range a.Tokens {
		x, y := a.Tokens[i], b.Tokens[i]
		if x.Kind != y.Kind || x.Start != y.Start || x.End != y.End || !bytes.Equal(x.Value, y.Value) {
			return false
		}
	}
	return true
}

func same(a, b lexOut) bool {
	return sameTokens(a, b) && a.HasErr == b.HasErr && (!a.HasErr || a.ErrPos == b.ErrPos && a.ErrKind == b.ErrKind)
}

// errKindOf maps the description of a lexer syntax error to the NewSyntaxError call site
// (same numbering as Driver/C03Lex.lean errKindNat).
func errKindOf(msg string) int {
	i := strings.Index(msg, ") ")
	if i < 0 {
		return -1
	}
	d := msg[i+2:]
	switch {
	case strings.HasPrefix(d, "Invalid character within String"):
		return 4
	case strings.HasPrefix(d, `Invalid character escape sequence: \u`):
		return 6
	case strings.HasPrefix(d, `Invalid character escape sequence: \\`):
		return 5
	case strings.HasPrefix(d, "Invalid character "):
		return 0
	case strings.HasPrefix(d, "Unexpected character"):
		return 1
	case strings.HasPrefix(d, "Invalid number, unexpected digit after 0"):
		return 2
	case strings.HasPrefix(d, "Invalid number, expected digit but got"):
		return 3
	case strings.HasPrefix(d, "Unterminated string."):
		return 7
	}
	return -1
}

// lexReal iterates the Lex closure like parser.advance does (resume at the previous token's End).
func lexReal(src []byte) (out lexOut, modified bool, fault string) {
	defer func() {
		if r := recover(); r != nil {
			fault = fmt.Sprint("panic: ", r)
		}
	}()
	body := make([]byte, len(src), len(src)+8)
	copy(body, src)
	s := source.NewSource(&source.Source{Body: body})
	lx := lexer.Lex(s)
	for i := 0; ; i++ {
		if i > len(src)+2 {
			return out, !bytes.Equal(s.Body, src), "no progress: more tokens than bytes"
		}
		t, err := lx(0)
		if err != nil {
			out.HasErr = true
			out.ErrPos, out.ErrKind = -1, -1
			if ge, ok := err.(*gqlerrors.Error); ok && len(ge.Positions) == 1 {
				out.ErrPos = ge.Positions[0]
				out.ErrKind = errKindOf(ge.Message)
			}
			break
		}
		out.Tokens = append(out.Tokens, tok{int(t.Kind), t.Start, t.End, []byte(t.Value)})
		if t.Kind == lexer.EOF {
			break
		}
	}
	return out, !bytes.Equal(s.Body, src), ""
}

type wireRes struct {
	Tokens [][]interface{} `json:"tokens"`
	Err    []int           `json:"err"`
}

type modelResp struct {
	M    wireRes  `json:"M"`
	S    wireRes  `json:"S"`
	KF   []string `json:"kf"`
	MeqS bool     `json:"MeqS"`
}

func decodeWire(w wireRes) (lexOut, error) {
	var o lexOut
	for _, t := range w.Tokens {
		if len(t) != 4 {
			return o, fmt.Errorf("token entry of length %d", len(t))
		}
		var n [3]int
		for i := 0; i < 3; i++ {
			v, err := t[i].(json.Number).Int64()
			if err != nil {
				return o, err
			}
			n[i] = int(v)
		}
		vs, _ := t[3].(string)
		val, err := base64.StdEncoding.DecodeString(vs)
		if err != nil {
			return o, err
		}
		o.Tokens = append(o.Tokens, tok{n[0], n[1], n[2], val})
	}
	if len(w.Err) == 2 {
		o.HasErr, o.ErrPos, o.ErrKind = true, w.Err[0], w.Err[1]
	}
	return o, nil
}

var kindNames = map[int]string{1: "EOF", 2: "!", 3: "$", 4: "(", 5: ")", 6: "...", 7: ":", 8: "=", 9: "@", 10: "[", 11: "]", 12: "{", 13: "|", 14: "}", 15: "Name", 16: "Int", 17: "Float", 18: "String", 19: "BlockString", 20: "&"}
var errNames = map[int]string{0: "invalidChar", 1: "unexpectedChar", 2: "digitAfterZero", 3: "expectedDigit", 4: "invalidCharInString", 5: "badEscape", 6: "badUnicodeEscape", 7: "unterminated", -1: "unclassified", 99: "model-out-of-fuel"}

type caseT struct {
	SrcB64 string `json:"src_b64"`
	Stream string `json:"stream"`
}

func main() {
	run := hx.Begin("C03")
	drv, err := hx.StartDriver(run.DriverBin)
	if err != nil {
		run.CheckError("cannot start driver: " + err.Error())
		run.Finish()
		return
	}
	defer drv.Close()
	run.Res.Rule = "lexer: (a) ALL byte strings of <= 4 (quick) / <= 5 (thorough) symbols over the 16-symbol alphabet {a 1 0 . e - \" \\ n u SP LF # { $ é} (thorough adds <= 4 over a 26-symbol alphabet with CR , BOM 0xFF 0x01 E + / _ :), enumerated exhaustively; (b) grammar-generated documents (Exotic on) and their mutations (byte flip/insert/delete, BOM / multi-byte / invalid UTF-8 injected into comments, strings and Ignored positions, CR/LF/CRLF rewrites, truncation); (c) targeted streams for string escapes (all valid, malformed, \\u incl. surrogates and short forms), block strings (indentation, CR/LF mixes, escaped triple quotes, unterminated) and numeric edge forms. Non-trivial = at least one non-EOF token, or an error that is not 'unexpected character' at offset 0; distinct by source bytes. (e) block strings built line by line ({indent 0..4 spaces/tabs} x {empty, whitespace-only of length 0..6, content}, 2..6 lines, LF/CRLF/CR, with and without first-line content, standalone / as argument values / as descriptions of nested definitions); (d) quoteString: every single byte and random byte strings as a StringValue: printer output = the Lean model of quoteString, and lexing it gives the value back. Compared per case: kinds, Start, End, Value bytes, error position and error call site, real vs M (always) and real vs S (unless a driver-evaluated KF predicate holds); Source.Body unchanged."

	one := func(c caseT) {
		src, err := base64.StdEncoding.DecodeString(c.SrcB64)
		if err != nil {
			run.CheckError("bad replay source: " + err.Error())
			return
		}
		g, modified, fault := lexReal(src)
		var m modelResp
		if err := drv.Ask(map[string]interface{}{"src": c.SrcB64}, &m); err != nil {
			run.CheckError(err.Error())
			return
		}
		mo, err1 := decodeWire(m.M)
		so, err2 := decodeWire(m.S)
		if err1 != nil || err2 != nil {
			run.CheckError(fmt.Sprint("cannot decode driver answer: ", err1, err2))
			return
		}
		run.Tag("stream:" + c.Stream)
		nonEOF := 0
		for _, t := range g.Tokens {
			if t.Kind != 1 {
				nonEOF++
			}
			run.Tag("tok:" + kindNames[t.Kind])
		}
		if g.HasErr {
			run.Tag("err:" + errNames[g.ErrKind])
		} else {
			run.Tag("lexes-to-EOF")
		}
		hasHigh := false
		for _, b := range src {
			if b >= 0x80 {
				hasHigh = true
			}
		}
		if hasHigh {
			run.Tag("has-byte>=0x80")
		}
		nontrivial := nonEOF > 0 || g.HasErr && !(g.ErrKind == 1 && g.ErrPos == 0)
		run.Case(c.SrcB64, nontrivial, map[string]interface{}{"src": fmt.Sprintf("%q", gen.Describe(string(src))), "real": g.render()})
		rp := func() map[string]interface{} {
			return map[string]interface{}{"case": c, "src_quoted": fmt.Sprintf("%q", string(src)), "real": g.render(), "M": mo.render(), "S": so.render(), "kf": m.KF}
		}
		if fault != "" {
			run.Violation("real lexer fault: "+fault, rp(), false)
			return
		}
		if modified {
			run.Violation("lexing modified Source.Body", rp(), false)
			return
		}
		if mo.HasErr && mo.ErrKind == 99 {
			run.CheckError("model ran out of fuel on " + c.SrcB64)
			return
		}
		if g.HasErr && g.ErrKind == -1 {
			run.CheckError("cannot classify lexer error message for " + c.SrcB64)
			return
		}
		if !m.MeqS && len(m.KF) == 0 {
			run.Violation("model M and spec S disagree outside every KF predicate (theorem model_eq_spec contradicted: model/driver fault)", rp(), true)
			return
		}
		if !same(g, mo) {
			if same(g, so) && len(m.KF) > 0 {
				// DESIGN §0, row "differ | holds | listed": the defect was repaired in the tree; the known: line is stale
				run.Tag("stale-known:" + m.KF[0])
				run.Res.Extra["stale_known"] = "real lexer agrees with the spec on inputs of class " + m.KF[0] + ": the known: line is stale"
				return
			}
			run.Violation("real lexer differs from the model M (kinds / Start / End / Value bytes / error position / error site)", rp(), false)
			return
		}
		if !same(g, so) {
			kfName, kfErr := false, false
			for _, k := range m.KF {
				if k == "nameAfterMultibyteIgnored" {
					kfName = true
				}
				if k == "errorAfterMultibyte" {
					kfErr = true
				}
			}
			switch {
			case kfName:
				run.Tag("kf:nameAfterMultibyteIgnored")
				run.KnownFinding("nameAfterMultibyteIgnored", "D-03a: readName reports rune offsets and the next scan resumes there as a byte offset; canonical input `{ a #é\\n bc }` lexes to names a, bc, c")
			case kfErr && sameTokens(g, so) && g.HasErr && so.HasErr && g.ErrKind == so.ErrKind:
				run.Tag("kf:errorAfterMultibyte")
				run.KnownFinding("errorAfterMultibyte", "D-03a (error offsets): lexical error offsets count runes from the byte offset of the previous token's end; canonical input `\"é\\q\"` reports offset 3, the offending byte is at 4")
			default:
				run.Violation("real lexer differs from the spec tokeniser S and no known-finding predicate covers it", rp(), false)
			}
		}
	}

	// ---- quoteString: the Lean model of printer.go's quoting function (theorem unquote_quote is about it) against the
	// real printer, and the real round trip lexer(printer(s)) = s, for every single byte and random byte strings
	quoteCase := func(val []byte) {
		if run.TooManyViolations() {
			return
		}
		var printed string
		func() {
			defer func() {
				if r := recover(); r != nil {
					printed = fmt.Sprint("!panic: ", r)
				}
			}()
			printed = fmt.Sprint(printer.Print(ast.NewStringValue(&ast.StringValue{Value: string(val)})))
		}()
		var q struct {
			Q string `json:"q"`
		}
		if err := drv.Ask(map[string]interface{}{"quote": base64.StdEncoding.EncodeToString(val)}, &q); err != nil {
			run.CheckError(err.Error())
			return
		}
		mq, _ := base64.StdEncoding.DecodeString(q.Q)
		run.Tag("stream:quote")
		run.Case("quote:"+base64.StdEncoding.EncodeToString(val), len(val) > 0, nil)
		rpq := map[string]interface{}{"quote_value_b64": base64.StdEncoding.EncodeToString(val), "printed": fmt.Sprintf("%q", printed), "model_quoteString": fmt.Sprintf("%q", string(mq))}
		if printed != string(mq) {
			run.Violation("printer output for a StringValue differs from the model's quoteString", rpq, false)
			return
		}
		g, _, fault := lexReal([]byte(printed))
		if fault != "" || g.HasErr || len(g.Tokens) != 2 || g.Tokens[0].Kind != 18 || !bytes.Equal(g.Tokens[0].Value, val) || g.Tokens[0].End != len(printed) {
			rpq["relexed"] = g.render()
			run.Violation("lexing the printed StringValue does not give the value back (theorem unquote_quote contradicted on the real code)", rpq, false)
		}
	}
	if run.ReplayIn != "" {
		var rp struct {
			Case  caseT  `json:"case"`
			Quote string `json:"quote_value_b64"`
		}
		if err := hx.LoadReplay(run.ReplayIn, &rp); err != nil {
			run.CheckError(err.Error())
		} else if rp.Case.SrcB64 == "" && rp.Quote != "" {
			val, _ := base64.StdEncoding.DecodeString(rp.Quote)
			quoteCase(val)
		} else {
			one(rp.Case)
		}
		run.Finish()
		return
	}
	emit := func(stream string, b []byte) {
		if run.TooManyViolations() {
			return
		}
		one(caseT{SrcB64: base64.StdEncoding.EncodeToString(b), Stream: stream})
	}

	// ---- the recorded defect's canonical inputs, replayed on every run
	for _, s := range []string{"{ a #é\n bc }", "\xef\xbb\xbf a", "\"é\\q\"", "#é\n\x01"} {
		emit("canonical", []byte(s))
	}

	// ---- (a) exhaustive short strings
	alpha := [][]byte{[]byte("a"), []byte("1"), []byte("0"), []byte("."), []byte("e"), []byte("-"), []byte("\""), []byte("\\"),
		[]byte("n"), []byte("u"), []byte(" "), []byte("\n"), []byte("#"), []byte("{"), []byte("$"), []byte("é")}
	var enum func(alpha [][]byte, stream string, prefix []byte, left int)
	enum = func(alpha [][]byte, stream string, prefix []byte, left int) {
		emit(stream, prefix)
		if left == 0 {
			return
		}
		for _, sym := range alpha {
			enum(alpha, stream, append(append([]byte{}, prefix...), sym...), left-1)
		}
	}
	enum(alpha, "exhaustive16", nil, run.N(4, 5))
	if run.Thorough() {
		ext := append(append([][]byte{}, alpha...), []byte("\r"), []byte(","), []byte("\xef\xbb\xbf"), []byte("\xff"), []byte("\x01"),
			[]byte("E"), []byte("+"), []byte("/"), []byte("_"), []byte(":"))
		enum(ext, "exhaustive26", nil, 4)
	}
	run.Res.Exhaustive = false // the enumerated part is exhaustive; streams (b), (c) are sampled

	if run.ReplayIn == "" {
		for b := 0; b < 256; b++ {
			quoteCase([]byte{byte(b)})
			quoteCase([]byte{'a', byte(b), '"'})
		}
		nq := run.N(2000, 100000)
		for i := 0; i < nq; i++ {
			r := hx.Fork(run.Seed, 2000000+i)
			val := make([]byte, r.Intn(12))
			for k := range val {
				switch r.Intn(4) {
				case 0:
					val[k] = byte(r.Intn(32))
				case 1:
					val[k] = []byte{'"', '\\', '/', 0x7f, 'u', 'n', 0xc3, 0xa9, 0xff}[r.Intn(9)]
				default:
					val[k] = byte(r.Intn(256))
				}
			}
			quoteCase(val)
		}
	}

	// ---- (c) targeted streams
	strPieces := []string{"a", "é", "😀", "\xff", "\xc3", "\xe2\x82", " ", "\t", "\\\"", "\\\\", "\\/", "\\b", "\\f", "\\n", "\\r", "\\t",
		"\\u0041", "\\u00e9", "\\u20AC", "\\uD83D", "\\uDE00", "\\uFFFF", "\\u0000", "\\u12", "\\u12G4", "\\uXYZW", "\\u", "\\x", "\\a", "\\ ", "\\é", "\\",
		"\n", "\r", "\x00", "\x07", "\x1f", "\x7f", "#", "\"", "\"\""}
	blkPieces := []string{"a", "b c", " ", "  ", "    ", "\t", "\n", "\r\n", "\r", "\n\n", "\"", "\"\"", "\\\"\"\"", "\\\"\"", "\\", "\\n", "é", "\xff", "\x07", "\x00", "\"\"\""}
	numPieces := []string{"0", "1", "9", "00", "-", "-0", "--", ".", "..", "...", "e", "E", "+", "-", "e+", "E-", "1.", ".5", "1e", "1e5", "1.5e-3", "a", "x", "_", " ", ",", "0x1F", "1.2.3", "1e2e3", "٣", "é"}
	n := run.N(6000, 600000)
	for i := 0; i < n && !run.TooManyViolations(); i++ {
		r := hx.Fork(run.Seed, i)
		var b strings.Builder
		switch r.Intn(3) {
		case 0:
			b.WriteString(r.Pick([]string{"", " ", "x ", "é ", "#é\n"}))
			b.WriteString("\"")
			for k := r.Intn(6); k > 0; k-- {
				b.WriteString(r.Pick(strPieces))
			}
			if r.Chance(5, 6) {
				b.WriteString("\"")
			}
			b.WriteString(r.Pick([]string{"", " ", " a", "a", "\"", " 1"}))
			emit("strings", []byte(b.String()))
		case 1:
			b.WriteString(r.Pick([]string{"", " ", "x ", "é\n"}))
			b.WriteString("\"\"\"")
			for k := r.Intn(8); k > 0; k-- {
				b.WriteString(r.Pick(blkPieces))
			}
			if r.Chance(5, 6) {
				b.WriteString("\"\"\"")
			}
			b.WriteString(r.Pick([]string{"", " ", " a", "a", "\"", "\"\""}))
			emit("blockstrings", []byte(b.String()))
		default:
			for k := r.Range(1, 5); k > 0; k-- {
				b.WriteString(r.Pick(numPieces))
			}
			emit("numbers", []byte(b.String()))
		}
	}

	// ---- (e) block strings built line by line: {indent of 0..4 spaces/tabs} x {empty, whitespace-only of length 0..6, content},
	// 2..6 lines, LF / CRLF / CR, with and without first-line content; standalone, as an argument value, and as descriptions
	// of (nested) definitions. Covers common indent > 0 together with interior blank lines shorter, equal and LONGER than it.
	ws := func(r *hx.Rng, n int) string {
		var b strings.Builder
		tabs := r.Chance(1, 5)
		for k := 0; k < n; k++ {
			if tabs && r.Chance(1, 2) {
				b.WriteByte('\t')
			} else {
				b.WriteByte(' ')
			}
		}
		return b.String()
	}
	blockLines := func(r *hx.Rng) string {
		var b strings.Builder
		b.WriteString("\"\"\"")
		nl := r.Range(2, 6)
		base := r.Intn(5) // the indent most content lines share, so that a common indent > 0 is frequent
		for i := 0; i < nl; i++ {
			if i > 0 {
				b.WriteString(r.Pick([]string{"\n", "\n", "\r\n", "\r"}))
			}
			if i == 0 && r.Chance(1, 2) {
				continue // no first-line content
			}
			switch r.Intn(5) {
			case 0: // empty
			case 1, 2: // whitespace-only, length 0..6
				b.WriteString(ws(r, r.Intn(7)))
			default: // content
				ind := base
				if r.Chance(1, 3) {
					ind = r.Intn(5)
				}
				b.WriteString(ws(r, ind))
				b.WriteString(r.Pick([]string{"a", "first", "second", "x y", "é", "b  ", "\\\"\"\"", "q\"", "#", "\\n"}))
			}
		}
		b.WriteString("\"\"\"")
		return b.String()
	}
	nb := run.N(5000, 400000)
	for i := 0; i < nb && !run.TooManyViolations(); i++ {
		r := hx.Fork(run.Seed, 3000000+i)
		bs := blockLines(r)
		switch r.Intn(6) {
		case 0:
			emit("blocklines", []byte(bs))
		case 1:
			emit("blocklines", []byte("{ f(a: "+bs+", b: "+blockLines(r)+") }"))
		case 2:
			emit("blocklines", []byte(bs+"\ntype T {\n  "+blockLines(r)+"\n  f(\n    "+blockLines(r)+"\n    a: Int): Int\n}"))
		case 3:
			emit("blocklines", []byte("enum E {\n\t"+bs+"\n\tA\n}\n"+blockLines(r)+" scalar S"))
		case 4:
			emit("blocklines", []byte("\xef\xbb\xbf"+bs+" "+blockLines(r)))
		default:
			emit("blocklines", []byte("x "+bs+" y"))
		}
	}

	// ---- (b) documents and mutations
	inject := []string{"\xef\xbb\xbf", "é", "😀", "\xff", "\xc3", "\xed\xa0\x80", "\xf4\x90\x80\x80", "\xc0\xaf", "#é\n", "# \xff\n", ",", "\r", "\r\n", "\n", "\t", "\x00", "\x0b", "\"", "\"\"\"", "\\", "\\u12", "0", "1.", "-", "e", "..."}
	nd := run.N(2500, 250000)
	for i := 0; i < nd && !run.TooManyViolations(); i++ {
		r := hx.Fork(run.Seed, 1000000+i)
		g := &gen.DocGen{R: r, Size: r.Range(1, 5), Exec: r.Chance(3, 4), TypeSystem: r.Chance(1, 2), Exotic: true}
		doc := []byte(g.Document())
		emit("doc", doc)
		for k := r.Range(1, 3); k > 0; k-- {
			mut := append([]byte{}, doc...)
			for j := r.Range(1, 3); j > 0 && len(mut) > 0; j-- {
				p := r.Intn(len(mut) + 1)
				switch r.Intn(7) {
				case 0: // byte flip
					if p < len(mut) {
						mut[p] ^= byte(1 << uint(r.Intn(8)))
					}
				case 1: // delete
					if p < len(mut) {
						mut = append(mut[:p], mut[p+1:]...)
					}
				case 2, 3: // insert an interesting piece
					ins := []byte(r.Pick(inject))
					mut = append(mut[:p], append(ins, mut[p:]...)...)
				case 4: // line-end rewrite
					le := r.Pick([]string{"\r\n", "\r", "\n"})
					mut = bytes.ReplaceAll(mut, []byte("\n"), []byte(le))
				case 5: // truncate
					mut = mut[:p]
				case 6: // random byte
					if p < len(mut) {
						mut[p] = byte(r.Intn(256))
					}
				}
			}
			emit("doc-mutated", mut)
		}
	}
	run.Res.Extra["exhaustive_part"] = fmt.Sprintf("all strings of <= %d symbols over the 16-symbol alphabet were enumerated", run.N(4, 5))
	run.Finish()
}
