// C08 harness: print / re-parse round trip of the real printer and parser, and byte-for-byte correspondence of
// printer.Print with the Lean model M.print (lean/GqlModel/Printer.lean).
//
// For every generated document the real parser accepts:
//
//	d  := parser.Parse(src)            t1 := printer.Print(d)
//	(1) astjson(d) is the same before and after Print            (Print never modifies the AST)
//	(2) M.print(astjson(d)) == t1 byte for byte                  (correspondence of the model)
//	(3) d2 := parser.Parse(t1) succeeds and astjson(d2) == astjson(d) with locations stripped   (round trip)
//	(4) printer.Print(d2) == t1                                  (stability)
//
// (3)/(4) failing on the unchanged tree is a library defect (violation with a minimised replay). D-08b (descriptions
// that a block string cannot carry) was repaired in /repo (c6d8e12): such descriptions are printed as quoted strings.
// The predicate that selects the form (printer.go blockStringSafe = GqlModel.Printer.descBlockSafe) is re-implemented
// here for the histogram and cross-checked against the driver's verdict on every case.
// (2) failing while (3),(4) hold is a broken correspondence without a failing input for the property itself:
// run.Violation(…, noFailingInput = true).
package main

import (
	"encoding/base64"
	"fmt"
	"reflect"
	"sort"
	"strconv"
	"strings"
	"time"
	"unicode/utf8"

	"github.com/graphql-go/graphql/language/ast"
	"github.com/graphql-go/graphql/language/lexer"
	"github.com/graphql-go/graphql/language/parser"
	"github.com/graphql-go/graphql/language/printer"
	"github.com/graphql-go/graphql/language/source"

	"verif/harness/astjson"
	"verif/harness/gen"
	"verif/harness/hx"
)

type caseT struct {
	SrcB64 string `json:"src_b64"` // the source may hold invalid UTF-8, so the replay keeps it as base64
	SrcQ   string `json:"src_quoted"`
	Stream string `json:"stream"`
}

func mkCase(src, stream string) caseT {
	return caseT{SrcB64: base64.StdEncoding.EncodeToString([]byte(src)), SrcQ: strconv.Quote(src), Stream: stream}
}

func (c caseT) src() string {
	b, _ := base64.StdEncoding.DecodeString(c.SrcB64)
	return string(b)
}

// ---------------------------------------------------------------- real code, guarded

func parse(src string) (d *ast.Document, err error) {
	defer func() {
		if r := recover(); r != nil {
			d, err = nil, fmt.Errorf("PANIC in parser.Parse: %v", r)
		}
	}()
	return parser.Parse(parser.ParseParams{Source: src})
}

func isPanic(err error) bool { return err != nil && strings.HasPrefix(err.Error(), "PANIC") }

func gprint(d *ast.Document) (s string, ok bool, what string) {
	defer func() {
		if r := recover(); r != nil {
			s, ok, what = "", false, fmt.Sprintf("panic: %v", r)
		}
	}()
	done := make(chan interface{}, 1)
	go func() {
		defer func() {
			if r := recover(); r != nil {
				done <- fmt.Errorf("panic: %v", r)
			}
		}()
		done <- printer.Print(d)
	}()
	select {
	case v := <-done:
		switch x := v.(type) {
		case string:
			return x, true, ""
		case error:
			return "", false, x.Error()
		default:
			return "", false, fmt.Sprintf("printer.Print returned %T, not a string", v)
		}
	case <-time.After(20 * time.Second):
		return "", false, "printer.Print did not return within 20 s"
	}
}

// ---------------------------------------------------------------- astjson helpers

// stripLoc removes every location from an astjson tree (keys "l" and "vl").
func stripLoc(v interface{}) interface{} {
	switch x := v.(type) {
	case astjson.M:
		out := astjson.M{}
		for k, e := range x {
			if k == "l" || k == "vl" {
				continue
			}
			out[k] = stripLoc(e)
		}
		return out
	case []interface{}:
		out := make([]interface{}, len(x))
		for i, e := range x {
			out[i] = stripLoc(e)
		}
		return out
	}
	return v
}

// descriptions lists every description value of the document ("desc" members that are strings).
func descriptions(v interface{}, acc *[]string) {
	switch x := v.(type) {
	case astjson.M:
		keys := make([]string, 0, len(x))
		for k := range x {
			keys = append(keys, k)
		}
		sort.Strings(keys)
		for _, k := range keys {
			if k == "desc" {
				if s, ok := x[k].(string); ok {
					*acc = append(*acc, s)
				}
				continue
			}
			descriptions(x[k], acc)
		}
	case []interface{}:
		for _, e := range x {
			descriptions(e, acc)
		}
	}
}

func countNodes(v interface{}) int {
	n := 0
	switch x := v.(type) {
	case astjson.M:
		n = 1
		for _, e := range x {
			n += countNodes(e)
		}
	case []interface{}:
		for _, e := range x {
			n += countNodes(e)
		}
	}
	return n
}

// hasMalformedType: a nil type inside a type reference or a variable definition (parseType leak, D-03b, owned by
// C03). The shared Lean AST cannot hold a nil list element type, so such documents are outside this check.
func hasMalformedType(v interface{}) bool {
	switch x := v.(type) {
	case astjson.M:
		// every "t" member is a type reference that the grammar makes mandatory (list / non-null element type,
		// variable, field, input value and operation type definitions); nil means parseType let a malformed one through
		if t, has := x["t"]; has && t == nil {
			return true
		}
		for _, e := range x {
			if hasMalformedType(e) {
				return true
			}
		}
	case []interface{}:
		for _, e := range x {
			if hasMalformedType(e) {
				return true
			}
		}
	}
	return false
}

// sanitize replaces every byte that is not part of a valid UTF-8 sequence by U+FFFD — what encoding/json does to
// the strings of the request. The printer copies such bytes unchanged and every delimiter around them is ASCII, so
// sanitize(Print(d)) is what the model must produce from the sanitized AST.
func sanitize(s string) string {
	if utf8.ValidString(s) {
		return s
	}
	var b strings.Builder
	for i := 0; i < len(s); {
		r, n := utf8.DecodeRuneInString(s[i:])
		if r == utf8.RuneError && n == 1 {
			b.WriteString("\uFFFD")
		} else {
			b.WriteString(s[i : i+n])
		}
		i += n
	}
	return b.String()
}

// ---------------------------------------------------------------- mirror of printer.go blockStringSafe / GqlModel.Printer.descBlockSafe

func blankLine(l string) bool {
	for i := 0; i < len(l); i++ {
		if l[i] != ' ' && l[i] != '\t' {
			return false
		}
	}
	return true
}

// descBlockSafe: the description survives being printed as `"""` + d + `"""` (with newlines around it when it has a
// newline, continuation lines indented by the enclosing blocks) and read back by readBlockString + blockStringValue.
// Returns the first reason why not.
func descBlockSafe(d string) (bool, string) {
	if d == "" {
		return false, "empty"
	}
	if strings.Contains(d, `"""`) {
		return false, "triple-quote"
	}
	for i := 0; i < len(d); i++ {
		if d[i] < 0x20 && d[i] != '\t' && d[i] != '\n' {
			if d[i] == '\r' {
				return false, "carriage-return"
			}
			return false, "control-char"
		}
	}
	if !strings.Contains(d, "\n") {
		if blankLine(d) {
			return false, "blank"
		}
		switch d[len(d)-1] {
		case '"':
			return false, "ends-in-quote"
		case '\\':
			return false, "ends-in-backslash"
		}
		return true, ""
	}
	lines := strings.Split(d, "\n")
	if blankLine(lines[0]) {
		return false, "first-line-blank"
	}
	if blankLine(lines[len(lines)-1]) {
		return false, "last-line-blank"
	}
	for _, l := range lines {
		if !blankLine(l) && l[0] != ' ' && l[0] != '\t' {
			return true, ""
		}
	}
	return false, "common-indent"
}

// ---------------------------------------------------------------- one case

type outcome struct {
	class string // "", or a failure class used by the minimiser
}

type modelResp struct {
	Text    string          `json:"text"`
	Unsafe  []string        `json:"unsafe"`
	Tokens  [][]interface{} `json:"tokens"`
	BlockOK *bool           `json:"block_model_ok"`
}

func askModel(drv *hx.Driver, j interface{}) (string, int, [][2]string, error) {
	var m modelResp
	if err := drv.Ask(map[string]interface{}{"ast": j}, &m); err != nil {
		return "", 0, nil, err
	}
	b, err := base64.StdEncoding.DecodeString(m.Text)
	if err != nil {
		return "", 0, nil, err
	}
	if m.BlockOK == nil || !*m.BlockOK {
		return "", 0, nil, fmt.Errorf("the byte-level description model (GqlModel/PrinterBlock.lean, used by description_block_token) disagrees with the printer model on a description of this document")
	}
	toks := make([][2]string, 0, len(m.Tokens))
	for _, t := range m.Tokens {
		if len(t) != 2 {
			return "", 0, nil, fmt.Errorf("bad token %v", t)
		}
		v, _ := t[1].(string)
		toks = append(toks, [2]string{fmt.Sprint(t[0]), v})
	}
	return string(b), len(m.Unsafe), toks, nil
}

// realTokens lexes text with the real lexer the way the parser advances: (kind number, value) up to EOF.
func realTokens(text string) (toks [][2]string, err error) {
	defer func() {
		if r := recover(); r != nil {
			err = fmt.Errorf("PANIC in lexer: %v", r)
		}
	}()
	lex := lexer.Lex(source.NewSource(&source.Source{Body: []byte(text)}))
	for i := 0; i <= len(text)+1; i++ {
		t, e := lex(0)
		if e != nil {
			return toks, e
		}
		if t.Kind == lexer.EOF {
			return toks, nil
		}
		toks = append(toks, [2]string{fmt.Sprint(int(t.Kind)), sanitize(t.Value)})
	}
	return toks, fmt.Errorf("lexer did not reach EOF")
}

type result struct {
	parsed        bool
	class         string // "" = pass; otherwise the failure class
	detail        map[string]interface{}
	noFailing     bool
	checkErr      string
	t1            string
	nodes         int
	unsafeDescs   []string
	allDescs      []string
	safeDescs     int
	malformed     bool
	tokenMismatch bool
	invalidUTF8   bool
	roundTripOK   bool
	unsafeReason  []string
}

// evaluate runs all comparisons for one source; drv may be nil (minimiser: real code only).
func evaluate(drv *hx.Driver, src string) (res result) {
	res.detail = map[string]interface{}{}
	d, err := parse(src)
	if isPanic(err) {
		res.parsed = true
		res.class = "parser-panic"
		res.detail["error"] = err.Error()
		return
	}
	if err != nil {
		return
	}
	res.parsed = true
	res.invalidUTF8 = !utf8.ValidString(src)
	j0 := astjson.Document(d)
	res.nodes = countNodes(j0)
	if hasMalformedType(j0) {
		res.malformed = true
		return
	}
	var descs []string
	descriptions(j0, &descs)
	res.allDescs = descs
	for _, s := range descs {
		if ok, why := descBlockSafe(s); ok {
			res.safeDescs++
		} else {
			res.unsafeDescs = append(res.unsafeDescs, s)
			res.unsafeReason = append(res.unsafeReason, why)
		}
	}

	t1, ok, what := gprint(d)
	if !ok {
		res.class = "print-failed"
		res.detail["print"] = what
		return
	}
	res.t1 = t1
	res.detail["go_print"] = strconv.Quote(t1)

	// (1) Print never modifies the AST
	if j1 := astjson.Document(d); !reflect.DeepEqual(j0, j1) {
		res.class = "ast-modified-by-print"
		res.detail["ast_before"] = j0
		res.detail["ast_after"] = j1
		return
	}

	// (3) round trip, (4) stability
	rtClass := ""
	d2, err2 := parse(t1)
	if err2 != nil {
		rtClass = "printed-text-does-not-parse"
		res.detail["reparse_error"] = err2.Error()
	} else {
		j2 := astjson.Document(d2)
		if !reflect.DeepEqual(stripLoc(j0), stripLoc(j2)) {
			rtClass = "reparsed-ast-differs"
			res.detail["ast"] = stripLoc(j0)
			res.detail["ast_reparsed"] = stripLoc(j2)
		}
		t2, ok2, what2 := gprint(d2)
		if !ok2 {
			rtClass = "second-print-failed"
			res.detail["print2"] = what2
		} else if t2 != t1 && rtClass == "" {
			rtClass = "print-not-stable"
			res.detail["go_print2"] = strconv.Quote(t2)
		}
	}
	res.roundTripOK = rtClass == ""

	// (2) model correspondence
	byteMismatch := false
	if drv != nil {
		mtext, unsafeN, mtoks, err := askModel(drv, j0)
		if err != nil {
			res.checkErr = "driver: " + err.Error()
			return
		}
		if unsafeN != len(res.unsafeDescs) {
			res.checkErr = fmt.Sprintf("descBlockSafe disagrees between Lean (%d not block-safe) and the harness mirror (%d) on %s", unsafeN, len(res.unsafeDescs), strconv.Quote(src))
			return
		}
		if mtext != sanitize(t1) {
			byteMismatch = true
			res.detail["model_print"] = strconv.Quote(mtext)
		} else if rtoks, lerr := realTokens(t1); lerr == nil && !reflect.DeepEqual(rtoks, mtoks) {
			// the token view of the model (printTokens) against the real lexer on the printed text
			byteMismatch = true
			res.detail["model_tokens"] = mtoks
			res.detail["lexer_tokens"] = rtoks
			res.tokenMismatch = true
		}
	}

	if rtClass != "" {
		res.class = rtClass
		return
	}
	if byteMismatch {
		res.class = "model-differs"
		res.noFailing = true
	}
	return
}

var notes = map[string]string{
	"parser-panic":                "parser.Parse panicked",
	"print-failed":                "printer.Print panicked, hung or did not return a string for a document the parser accepted",
	"ast-modified-by-print":       "printer.Print modified the AST it was given",
	"printed-text-does-not-parse": "round trip broken: the text printer.Print produced for an accepted document is rejected by parser.Parse",
	"reparsed-ast-differs":        "round trip broken: parsing the printed text yields a structurally different AST (locations aside)",
	"second-print-failed":         "printer.Print failed on the re-parsed document",
	"print-not-stable":            "printing is not stable: print(parse(print(d))) differs from print(d)",
	"model-differs":               "printer.Print output differs byte-wise from the Lean model M.print (or the real lexer's tokens of the printed text differ from M.printTokens) while the round trip itself holds: the model no longer corresponds to the code (no failing input for the property)",
}

func note(class string) string { return notes[class] }

// minimise: greedy chunk removal on the source, keeping the failure class (real code only).
func minimise(src, class string) string {
	same := func(s string) bool {
		r := evaluate(nil, s)
		return r.parsed && r.class == class
	}
	if class == "model-differs" {
		return src
	}
	cur := src
	budget := 3000
	for chunk := len(cur) / 2; chunk >= 1; chunk /= 2 {
		for i := 0; i+chunk <= len(cur) && budget > 0; {
			cand := cur[:i] + cur[i+chunk:]
			budget--
			if same(cand) {
				cur = cand
			} else {
				i += chunk
			}
		}
	}
	return cur
}

func main() {
	run := hx.Begin("C08")
	drv, err := hx.StartDriver(run.DriverBin)
	if err != nil {
		run.CheckError("cannot start driver: " + err.Error())
		run.Finish()
		return
	}
	defer drv.Close()
	run.Res.Rule = "documents the real parser accepts, from (a) gen.DocGen (executable + type-system, Exotic on), (b2) descriptions of chosen length classes (1..59, 60..70, 71..80, 81..200, 201..1024, > 1 KB bytes; single- and multi-line; leading / trailing spaces and tabs, internal runs of spaces, whitespace-only lines, whitespace only) and multi-line descriptions built line by line (interior lines empty / 1..5 spaces / tabs / mixed whitespace / content with leading or trailing spaces) in every description slot of every describable node kind at nesting levels 0, 1, 2, (b) a string-content stream (string values and descriptions built from quotes, backslashes, every control character, DEL, non-BMP / non-printable code points, invalid UTF-8, block strings with quotes / escaped triple quotes / newlines / indentation, placed in arguments, defaults, nested lists/objects, directive arguments on every definition kind), (c) a fixed corpus of edge documents; non-trivial = the AST has >= 6 astjson nodes; distinct by source text"

	one := func(c caseT) {
		src := c.src()
		res := evaluate(drv, src)
		if !res.parsed {
			run.Tag("parse-rejected:" + c.Stream)
			if c.Stream == "corpus" {
				rej, _ := run.Res.Extra["corpus_entries_rejected_by_parser"].([]string)
				run.Res.Extra["corpus_entries_rejected_by_parser"] = append(rej, strconv.Quote(src))
			}
			return
		}
		if res.malformed {
			run.Tag("skipped:malformed-type-reference(D-03b)")
			return
		}
		run.Tag("stream:" + c.Stream)
		if res.invalidUTF8 {
			run.Tag("src:invalid-utf8")
		}
		tagDocument(run, src, res)
		run.Case(src, res.nodes >= 6, map[string]interface{}{"src": gen.Describe(strconv.Quote(src)), "printed": gen.Describe(strconv.Quote(res.t1)), "stream": c.Stream})
		if res.checkErr != "" {
			run.CheckError(res.checkErr)
			return
		}
		if res.class == "" {
			return
		}
		rp := map[string]interface{}{"case": c, "class": res.class, "detail": res.detail}
		if !res.noFailing {
			min := minimise(src, res.class)
			if min != src {
				rp["minimised_src_quoted"] = strconv.Quote(min)
				rp["minimised_src_b64"] = base64.StdEncoding.EncodeToString([]byte(min))
				if mr := evaluate(nil, min); mr.t1 != "" {
					rp["minimised_go_print"] = strconv.Quote(mr.t1)
				}
			}
		}
		run.Violation(note(res.class)+" ["+res.class+"]", rp, res.noFailing)
	}

	if run.ReplayIn != "" {
		var rp struct {
			Case      caseT   `json:"case"`
			ValueText *string `json:"value_text"`
		}
		if err := hx.LoadReplay(run.ReplayIn, &rp); err != nil {
			run.CheckError(err.Error())
		} else if rp.ValueText != nil {
			// a reference-reader case: the literal is kept Go-quoted
			if t, err := strconv.Unquote(*rp.ValueText); err != nil {
				run.CheckError("bad value_text in replay: " + err.Error())
			} else {
				readerCase(run, drv, t)
			}
		} else {
			one(rp.Case)
		}
		run.Finish()
		return
	}

	// (c) fixed corpus
	for _, s := range corpus {
		one(mkCase(s, "corpus"))
	}
	// (a) grammar generator
	n := run.N(2000, 120000)
	for i := 0; i < n && !run.TooManyViolations(); i++ {
		r := hx.Fork(run.Seed, i)
		g := &gen.DocGen{R: r, Size: r.Range(1, 6), Exec: r.Chance(3, 4), TypeSystem: r.Chance(3, 4), Exotic: true}
		one(mkCase(g.Document(), "docgen"))
	}
	// (b) string-content stream
	m := run.N(2000, 120000)
	for i := 0; i < m && !run.TooManyViolations(); i++ {
		r := hx.Fork(run.Seed^0x5bd1e995, i)
		one(mkCase(stringDoc(r), "strings"))
	}
	// (b2) multi-line descriptions on every describable node kind at every nesting level
	md := run.N(4000, 120000)
	for i := 0; i < md && !run.TooManyViolations(); i++ {
		r := hx.Fork(run.Seed^0x165667b1, i)
		one(mkCase(descDoc(r), "descriptions"))
	}
	// (d) the reference reader of the value round-trip theorem against the real parser.ParseValue
	k := run.N(1200, 60000)
	for i := 0; i < k && !run.TooManyViolations(); i++ {
		r := hx.Fork(run.Seed^0x27d4eb2f, i)
		readerCase(run, drv, valueText(r))
	}
	for _, t := range readerCorpus {
		readerCase(run, drv, t)
	}
	run.Finish()
}

// ---------------------------------------------------------------- (d) reference reader vs parser.ParseValue

type readResp struct {
	OK      bool        `json:"ok"`
	Value   interface{} `json:"value"`
	Rest    string      `json:"rest"`
	Reprint string      `json:"reprint"`
}

// valueText: a value literal without block strings, comments or BOM (the reader covers what the printer emits),
// written with arbitrary separators; sometimes the printed form of such a literal.
func valueText(r *hx.Rng) string {
	var gen func(d int) string
	sep := func() string { return r.Pick([]string{", ", " ", ",", "\n", " , ", "\t"}) }
	gen = func(d int) string {
		k := r.Intn(11)
		if d <= 0 && k >= 9 {
			k = r.Intn(9)
		}
		switch k {
		case 0:
			return "$" + r.Pick([]string{"a", "_b1", "on", "true", "null"})
		case 1:
			return r.Pick([]string{"0", "-0", "7", "-12", "2147483647", "123456789012", "10", "01", "-", "1a"})
		case 2:
			return r.Pick([]string{"1.5", "-0.0", "0.0e-0", "1e3", "2E+2", "3.25e-1", "6.0221413e23", "1.", "1.e3", "1e", "1e+", ".5", "0.5.1"})
		case 3, 4, 5:
			return regularLiteral(r, content(r))
		case 6:
			return r.Pick([]string{"true", "false", "null", "RED", "A_b", "on", "truex", "nul"})
		case 7:
			return r.Pick([]string{"[]", "{}", "[ ]", "{ , }"})
		case 8:
			return r.Pick([]string{"\"a", "\"\\x\"", "\"\\u12\"", "\"\\u00zz\"", "[1", "{a 1}", "{a:}", "{1: 2}", "]", "}", ":", "!", "@", "\"a\nb\""})
		case 9:
			n := r.Range(1, 3)
			p := []string{}
			for i := 0; i < n; i++ {
				p = append(p, gen(d-1))
			}
			return "[" + strings.Join(p, sep()) + "]"
		default:
			n := r.Range(1, 3)
			p := []string{}
			for i := 0; i < n; i++ {
				p = append(p, r.Pick([]string{"k", "l", "on", "true", "null", "_x9"})+r.Pick([]string{": ", ":", " : "})+gen(d-1))
			}
			return "{" + strings.Join(p, sep()) + "}"
		}
	}
	return gen(r.Range(0, 3))
}

var readerCorpus = []string{
	`1`, `-1.5e+3`, `"x"`, `""`, `[1, [2, [3, []]]]`, `{a: {b: {c: "d"}}}`, `$v`, `$ v`, `true`, `false`, `null`, `RED`,
	`[1 2 3]`, `[,1,,2,]`, `{a:1,b:2}`, `"\u0041\u00e9\ud83d\ude00\/"`, "\"tab\there\"", "\"\x7f\"",
	`01`, `1.`, `-`, `[`, `{`, `{a}`, `"unterminated`, "\"line\nbreak\"", `"\q"`, `"\u12"`, `1.5.5`, `[1,]`, ``, ` `,
}

func readerCase(run *hx.Run, drv *hx.Driver, text string) {
	if !utf8.ValidString(text) || strings.Contains(text, `"""`) || strings.ContainsAny(text, "#\ufeff") {
		run.Tag("reader:skipped(invalid-utf8/block-string/comment/BOM)")
		return
	}
	var gv ast.Value
	var gerr error
	func() {
		defer func() {
			if r := recover(); r != nil {
				gerr = fmt.Errorf("PANIC in parser.ParseValue: %v", r)
			}
		}()
		gv, gerr = parser.ParseValue(parser.ParseParams{Source: text})
	}()
	var m readResp
	if err := drv.Ask(map[string]interface{}{"readValue": text}, &m); err != nil {
		run.CheckError("driver: " + err.Error())
		return
	}
	// ParseValue lexes one token beyond the value; the reader stops after the value. They are comparable when the
	// rest holds only Ignored characters.
	restIgnored := strings.Trim(m.Rest, " ,\n\r\t") == ""
	gok := gerr == nil && gv != nil && !reflect.ValueOf(gv).IsNil()
	run.Case("readValue|"+text, gok && len(text) >= 3, map[string]interface{}{"value_text": gen.Describe(strconv.Quote(text)), "stream": "reader"})
	if isPanic(gerr) {
		run.Violation("parser.ParseValue panicked", map[string]interface{}{"value_text": strconv.Quote(text), "error": gerr.Error()}, false)
		return
	}
	if m.OK && !restIgnored {
		run.Tag("reader:trailing-tokens(not compared)")
		return
	}
	if gok != m.OK {
		run.Tag("reader:accept-mismatch")
		run.Violation("the reference reader of the value round-trip theorem (GqlModel.Reader.readValue) and parser.ParseValue disagree on accepting a value literal: the reader no longer describes the real lexer/parser (no failing input for the property)",
			map[string]interface{}{"value_text": strconv.Quote(text), "go_accepts": gok, "go_error": fmt.Sprint(gerr), "reader_accepts": m.OK}, true)
		return
	}
	if !gok {
		run.Tag("reader:both-reject")
		return
	}
	run.Tag("reader:both-accept")
	want := stripLoc(astjson.Value(gv))
	if hx.Canon(want) != hx.Canon(m.Value) {
		run.Violation("the reference reader (GqlModel.Reader.readValue) and parser.ParseValue return different values for the same literal: the reader no longer describes the real lexer/parser (no failing input for the property)",
			map[string]interface{}{"value_text": strconv.Quote(text), "go_value": want, "reader_value": m.Value}, true)
		return
	}
	// and the printed form of what was read agrees with the real printer on the real value
	if gp, ok := printer.Print(gv).(string); ok && gp != m.Reprint {
		run.Violation("printer.Print of a value differs from M.printValue [model-differs]",
			map[string]interface{}{"value_text": strconv.Quote(text), "go_print": strconv.Quote(gp), "model_print": strconv.Quote(m.Reprint)}, true)
	}
}

// ---------------------------------------------------------------- histogram

func tagDocument(run *hx.Run, src string, res result) {
	for _, kw := range []string{"query", "mutation", "subscription", "fragment", "schema", "scalar", "type", "interface", "union", "enum", "input", "extend", "directive"} {
		if strings.Contains(res.t1, kw+" ") {
			run.Tag("printed-has:" + kw)
		}
	}
	if strings.HasPrefix(res.t1, "{") || strings.Contains(res.t1, "\n\n{") {
		run.Tag("printed-has:query-short-form")
	}
	if strings.Contains(res.t1, "[]") || strings.Contains(res.t1, "{}") {
		run.Tag("printed-has:empty-list-or-object-or-block")
	}
	if strings.Contains(res.t1, `\u00`) {
		run.Tag("printed-has:\\u00XX-escape")
	}
	if strings.Contains(res.t1, `\"`) {
		run.Tag("printed-has:escaped-quote")
	}
	if strings.Contains(res.t1, `\\`) {
		run.Tag("printed-has:escaped-backslash")
	}
	if strings.Contains(res.t1, "\x7f") {
		run.Tag("printed-has:raw-DEL(description)")
	}
	for _, r := range res.t1 {
		if r > 0xFFFF {
			run.Tag("printed-has:non-BMP")
			break
		}
	}
	if strings.Contains(res.t1, ` = `) {
		run.Tag("printed-has:default-value")
	}
	if strings.Contains(res.t1, "(\n") {
		run.Tag("printed-has:multi-line-argument-definitions")
	}
	if res.safeDescs > 0 {
		run.Tag("descriptions:block-safe(printed as block string)")
	}
	if len(res.unsafeDescs) > 0 {
		run.Tag("descriptions:not-block-safe(printed as quoted string)")
		seen := map[string]bool{}
		for _, why := range res.unsafeReason {
			if !seen[why] {
				seen[why] = true
				run.Tag("description-not-block-safe:" + why)
			}
		}
	}
	if strings.Contains(res.t1, "\"\"\"\n") {
		run.Tag("printed-has:multi-line-description")
	}
	tagBlockDescriptions(run, res.t1)
	tagDescriptionShapes(run, res.allDescs)
}

// tagDescriptionShapes: per document, which description shapes occur — length class (bytes; 70 and 80 are common
// wrap thresholds of printers), single line or several, block-safe or not, leading / trailing whitespace.
func tagDescriptionShapes(run *hx.Run, descs []string) {
	seen := map[string]bool{}
	for _, d := range descs {
		var lc string
		switch n := len(d); {
		case n == 0:
			lc = "0"
		case n < 60:
			lc = "1-59"
		case n <= 70:
			lc = "60-70"
		case n <= 80:
			lc = "71-80"
		case n <= 200:
			lc = "81-200"
		case n <= 1024:
			lc = "201-1024"
		default:
			lc = ">1KB"
		}
		lines := "single-line"
		if strings.Contains(d, "\n") {
			lines = "multi-line"
		}
		safe, _ := descBlockSafe(d)
		form := "quoted"
		if safe {
			form = "block"
		}
		seen["description-shape:"+lines+":len-"+lc+":"+form] = true
		if d != "" && (d[0] == ' ' || d[0] == '\t') {
			seen["description-shape:"+lines+":len-"+lc+":"+form+":leading-whitespace"] = true
		}
		if d != "" && (d[len(d)-1] == ' ' || d[len(d)-1] == '\t') {
			seen["description-shape:"+lines+":"+form+":trailing-whitespace"] = true
		}
		if strings.Contains(d, "   ") {
			seen["description-shape:"+lines+":"+form+":internal-run-of-spaces"] = true
		}
		if d != "" && strings.Trim(d, " \t\n") == "" {
			seen["description-shape:whitespace-only"] = true
		}
	}
	for k := range seen {
		run.Tag(k)
	}
}

// tagBlockDescriptions looks at the printed multi-line block strings: nesting level (indentation of the opening
// quotes) and whether an interior line holds only whitespace beyond that indentation / is completely empty.
func tagBlockDescriptions(run *hx.Run, t string) {
	lines := strings.Split(t, "\n")
	seen := map[string]bool{}
	for i := 0; i < len(lines); i++ {
		trim := strings.TrimLeft(lines[i], " ")
		if trim != `"""` {
			continue
		}
		ind := len(lines[i]) - len(trim)
		j := i + 1
		for j < len(lines) && strings.TrimLeft(lines[j], " ") != `"""` {
			j++
		}
		if j >= len(lines) {
			break
		}
		seen[fmt.Sprintf("block-description:indent-%d", ind)] = true
		for _, l := range lines[i+1 : j] {
			body := l
			if len(l) >= ind {
				body = l[ind:]
			}
			switch {
			case l == "" || body == "":
				seen[fmt.Sprintf("block-description:indent-%d:interior-empty-line", ind)] = true
			case strings.Trim(body, " \t") == "":
				seen[fmt.Sprintf("block-description:indent-%d:interior-whitespace-only-line", ind)] = true
			case body[0] == ' ' || body[0] == '\t':
				seen[fmt.Sprintf("block-description:indent-%d:interior-indented-content", ind)] = true
			}
		}
		i = j
	}
	for k := range seen {
		run.Tag(k)
	}
}

// ---------------------------------------------------------------- (b) string-content stream

var contentPieces = []string{
	"a", "hello", "x y", " ", "  ", "\t", "\n", "\n\n", "\n  ", "\r", "\r\n",
	`"`, `""`, `"""`, `\`, `\\`, `\"`, `\"""`, "/", `\n`, `\u0041`, "u0041", "#", ",", "{", "}", "$", "@", "...",
	"\x7f", "é", "日本", "😀", "\U0001F600\U0001F3FD", "\u200b", "\ufeff", "\u0085", "\u00a0", "\u2028", "\u2029", "\ue000", "\ufffd", "\ufffe", "\U0010ffff", "\u0080", "\u009f",
	"\xff", "\xc0\xaf", "\xed\xa0\x80", "\xe2\x82", "\xf8", "\x80",
}

func content(r *hx.Rng) string {
	n := r.Intn(5)
	if r.Chance(1, 10) {
		n = r.Range(5, 12)
	}
	var b strings.Builder
	for i := 0; i < n; i++ {
		switch r.Intn(8) {
		case 0: // any control character or DEL
			c := r.Intn(33)
			if c == 32 {
				c = 0x7f
			}
			b.WriteByte(byte(c))
		case 1:
			b.WriteByte(byte(r.Intn(256)))
		default:
			b.WriteString(r.Pick(contentPieces))
		}
	}
	return b.String()
}

// regularLiteral writes content as a "…" literal that decodes to exactly these bytes, choosing randomly among the
// spellings the lexer accepts.
func regularLiteral(r *hx.Rng, content string) string {
	var b strings.Builder
	b.WriteByte('"')
	hex := func(c rune) string {
		if r.Chance(1, 2) {
			return fmt.Sprintf(`\u%04x`, c)
		}
		return fmt.Sprintf(`\u%04X`, c)
	}
	for i := 0; i < len(content); {
		c, n := utf8.DecodeRuneInString(content[i:])
		if c == utf8.RuneError && n == 1 {
			b.WriteByte(content[i]) // invalid byte: raw
			i++
			continue
		}
		i += n
		switch {
		case c == '"':
			b.WriteString(`\"`)
		case c == '\\':
			b.WriteString(`\\`)
		case c == '\t' && r.Chance(1, 3):
			b.WriteByte('\t')
		case c < 0x20:
			short := map[rune]string{'\b': `\b`, '\f': `\f`, '\n': `\n`, '\r': `\r`, '\t': `\t`}
			if s, ok := short[c]; ok && r.Chance(2, 3) {
				b.WriteString(s)
			} else {
				b.WriteString(hex(c))
			}
		case c == '/' && r.Chance(1, 2):
			b.WriteString(`\/`)
		case c < 0x10000 && !(c >= 0xD800 && c <= 0xDFFF) && r.Chance(1, 6):
			b.WriteString(hex(c))
		default:
			b.WriteRune(c)
		}
	}
	b.WriteByte('"')
	return b.String()
}

var blockPieces = []string{"a", "hello", "x y", " ", "  ", "    ", "\t", "\n", "\n\n", "\r\n", "\r", `"`, `""`, `\"""`, `\`, `\n`, `\u0041`, "é", "😀", "\x7f", "\u2028", "\xff", "\xe2\x82", "#", ","}

func blockLiteral(r *hx.Rng) string {
	n := r.Intn(8)
	s := ""
	for i := 0; i < n; i++ {
		s += r.Pick(blockPieces)
	}
	for {
		t := strings.ReplaceAll(s, `""""`, `"""`)
		if t == s {
			break
		}
		s = t
	}
	// unescaped """ inside the body would end the literal early: turn it into the escaped form
	var b strings.Builder
	for i := 0; i < len(s); {
		if strings.HasPrefix(s[i:], `\"""`) {
			b.WriteString(`\"""`)
			i += 4
		} else if strings.HasPrefix(s[i:], `"""`) {
			b.WriteString(`\"""`)
			i += 3
		} else {
			b.WriteByte(s[i])
			i++
		}
	}
	s = b.String()
	for strings.HasSuffix(s, `"`) || strings.HasSuffix(s, `\`) {
		s = s[:len(s)-1]
	}
	return `"""` + s + `"""`
}

func strLit(r *hx.Rng) string {
	if r.Chance(1, 4) {
		return blockLiteral(r)
	}
	return regularLiteral(r, content(r))
}

// multiLineDesc: a multi-line description built line by line. First and last line mostly carry content (so that many
// are block-safe and printed as block strings); interior lines are drawn from {empty, 1..5 spaces, tabs, mixed
// whitespace, content, content with leading spaces / tabs, content with trailing spaces}. Written as an ordinary "…"
// literal (newlines as \n), so the description value is exactly these lines.
func multiLineDesc(r *hx.Rng) string {
	word := func() string {
		return r.Pick([]string{"a", "first", "last", "x y", "say \"hi\"", "é", "t\tab", "#", "\\"})
	}
	interior := func() string {
		switch r.Intn(10) {
		case 0:
			return ""
		case 1:
			return strings.Repeat(" ", r.Range(1, 5))
		case 2:
			return strings.Repeat("\t", r.Range(1, 2))
		case 3:
			return r.Pick([]string{" \t", "\t ", "  \t  ", " \t \t"})
		case 4, 5:
			return strings.Repeat(" ", r.Range(1, 5)) + word()
		case 6:
			return "\t" + word()
		case 7:
			return word() + strings.Repeat(" ", r.Range(1, 3))
		default:
			return word()
		}
	}
	edge := func() string {
		switch r.Intn(12) {
		case 0:
			return interior() // sometimes blank or indented: not block-safe, printed as a quoted string
		case 1:
			return strings.Repeat(" ", r.Range(1, 3)) + word()
		default:
			return word()
		}
	}
	n := r.Range(2, 6)
	lines := []string{edge()}
	for i := 0; i < n-2; i++ {
		lines = append(lines, interior())
	}
	lines = append(lines, edge())
	return regularLiteral(r, strings.Join(lines, "\n")) + r.Pick([]string{" ", "\n"})
}

// sizedDesc: a description of a chosen length class — around and beyond the widths at which printers wrap (60..200
// bytes), and > 1 KB — single line or several, with leading / trailing spaces and tabs, internal runs of spaces,
// leading whitespace on the first line, whitespace-only lines, or whitespace only.
func sizedDesc(r *hx.Rng) string {
	target := 0
	switch r.Intn(8) {
	case 0:
		target = r.Range(1, 59)
	case 1:
		target = r.Range(60, 70)
	case 2:
		target = r.Range(71, 80)
	case 3, 4:
		target = r.Range(81, 200)
	case 5:
		target = r.Range(201, 1024)
	case 6:
		target = r.Range(1025, 3000)
	default:
		target = []int{69, 70, 71, 72, 79, 80, 81, 100, 120, 121}[r.Intn(10)]
	}
	ws := func() string {
		return r.Pick([]string{" ", "  ", "    ", "\t", " \t", "\t "})
	}
	if r.Chance(1, 25) { // whitespace only
		var b strings.Builder
		for b.Len() < target {
			b.WriteString(r.Pick([]string{" ", "\t", "  ", "\n", " \n "}))
		}
		return regularLiteral(r, b.String()) + "\n"
	}
	words := []string{"a", "the", "description", "of", "field", "x y", "é", "say \"hi\"", "#", "1,2", "{}", "日本", "\\"}
	var b strings.Builder
	multi := r.Chance(1, 3)
	if r.Chance(1, 3) {
		b.WriteString(ws()) // leading whitespace (on the first line)
	}
	for b.Len() < target {
		b.WriteString(r.Pick(words))
		if b.Len() >= target {
			break
		}
		switch k := r.Intn(12); {
		case k == 0:
			b.WriteString(strings.Repeat(" ", r.Range(2, 6))) // internal run of spaces
		case k == 1:
			b.WriteString("\t")
		case k == 2 && multi:
			b.WriteString("\n")
			if r.Chance(1, 3) {
				b.WriteString(ws()) // indented continuation line
			}
		case k == 3 && multi:
			b.WriteString("\n" + ws() + "\n") // whitespace-only line
		default:
			b.WriteString(" ")
		}
	}
	if r.Chance(1, 5) {
		b.WriteString(ws()) // trailing whitespace
	}
	return regularLiteral(r, b.String()) + r.Pick([]string{" ", "\n"})
}

// descDoc: a type-system definition with a multi-line description in every description slot (definition, field,
// argument, enum value, input field, directive argument: nesting levels 0, 1 and 2).
func descDoc(r *hx.Rng) string {
	d := func() string {
		if r.Chance(1, 8) {
			return ""
		}
		if r.Chance(2, 5) {
			return sizedDesc(r)
		}
		return multiLineDesc(r)
	}
	args := func() string {
		if r.Chance(1, 3) {
			return ""
		}
		n := r.Range(1, 2)
		p := []string{}
		for i := 0; i < n; i++ {
			p = append(p, d()+r.Pick([]string{"a", "b"})+": Int"+r.Pick([]string{"", " = 1", " @d"}))
		}
		return "(" + strings.Join(p, ", ") + ")"
	}
	fields := func() string {
		n := r.Range(1, 3)
		p := []string{}
		for i := 0; i < n; i++ {
			p = append(p, d()+r.Pick([]string{"f", "g"})+args()+": T"+r.Pick([]string{"", " @d"}))
		}
		return "{ " + strings.Join(p, " ") + " }"
	}
	switch r.Intn(8) {
	case 0:
		return d() + "type T " + fields()
	case 1:
		return d() + "interface I " + fields()
	case 2:
		n := r.Range(1, 3)
		p := []string{}
		for i := 0; i < n; i++ {
			p = append(p, d()+r.Pick([]string{"A", "B", "C"})+r.Pick([]string{"", " @d"}))
		}
		return d() + "enum E { " + strings.Join(p, " ") + " }"
	case 3:
		n := r.Range(1, 3)
		p := []string{}
		for i := 0; i < n; i++ {
			p = append(p, d()+r.Pick([]string{"a", "b"})+": String"+r.Pick([]string{"", " = \"x\""}))
		}
		return d() + "input In { " + strings.Join(p, " ") + " }"
	case 4:
		return "extend " + d() + "type T " + fields()
	case 5:
		return d() + "directive @x" + args() + " on FIELD"
	case 6:
		return d() + "scalar S"
	default:
		return d() + "union U = A | B"
	}
}

// descLit: an optional description followed by a separator
func descLit(r *hx.Rng) string {
	switch r.Intn(7) {
	case 6:
		return sizedDesc(r)
	case 5:
		return multiLineDesc(r)
	case 0:
		return ""
	case 1:
		return blockLiteral(r) + r.Pick([]string{" ", "\n"})
	case 2: // a plausible human-written description
		return r.Pick([]string{`"The thing."`, "\"\"\"\n  Multi\n    line\n  text\n  \"\"\"", `"say \"hi\""`, "\"\"\"ends with quote\\\"\"\"\"\"", `"a\nb"`, `" padded "`, `"tab\tin"`, "\"\"\"\n\n  blank lines around\n\n\"\"\"", `" a\n b"`, `"\tx\n\ty\n\tz"`, `"  all\n   indented\n  lines"`, `"first\n  second\n\n  fourth"`}) + "\n"
	default:
		return regularLiteral(r, content(r)) + r.Pick([]string{" ", "\n"})
	}
}

func dirs(r *hx.Rng) string {
	switch r.Intn(4) {
	case 0:
		return ""
	case 1:
		return " @d"
	case 2:
		return " @d(s: " + strLit(r) + ")"
	default:
		return " @d(s: " + strLit(r) + ", l: [" + strLit(r) + "]) @e"
	}
}

func constValue(r *hx.Rng, depth int) string {
	switch k := r.Intn(8); {
	case k < 3 || depth <= 0:
		return strLit(r)
	case k == 3:
		return r.Pick([]string{"[]", "{}", "1", "-0.5e3", "true", "RED", "null"})
	case k < 6:
		n := r.Range(1, 3)
		p := []string{}
		for i := 0; i < n; i++ {
			p = append(p, constValue(r, depth-1))
		}
		return "[" + strings.Join(p, r.Pick([]string{", ", " ", ","})) + "]"
	default:
		n := r.Range(1, 3)
		p := []string{}
		for i := 0; i < n; i++ {
			p = append(p, r.Pick([]string{"k", "l", "on", "true"})+": "+constValue(r, depth-1))
		}
		return "{" + strings.Join(p, r.Pick([]string{", ", " "})) + "}"
	}
}

func stringDoc(r *hx.Rng) string {
	argDef := func() string {
		s := descLit(r) + r.Pick([]string{"a", "b"}) + ": " + r.Pick([]string{"String", "[String!]", "Int!"})
		if r.Chance(1, 2) {
			s += " = " + constValue(r, 2)
		}
		return s + dirs(r)
	}
	argDefs := func() string {
		if r.Chance(1, 2) {
			return ""
		}
		n := r.Range(1, 3)
		p := []string{}
		for i := 0; i < n; i++ {
			p = append(p, argDef())
		}
		return "(" + strings.Join(p, ", ") + ")"
	}
	fieldDefs := func() string {
		n := r.Range(0, 3)
		p := []string{}
		for i := 0; i < n; i++ {
			p = append(p, descLit(r)+r.Pick([]string{"f", "g"})+argDefs()+": "+r.Pick([]string{"T", "[T]!"})+dirs(r))
		}
		return "{ " + strings.Join(p, " ") + " }"
	}
	var defs []string
	nd := r.Range(1, 3)
	for i := 0; i < nd; i++ {
		switch r.Intn(14) {
		case 0:
			defs = append(defs, "{ f(a: "+constValue(r, 2)+")"+dirs(r)+" }")
		case 1:
			defs = append(defs, "query Q($v: String = "+constValue(r, 2)+", $w: [Int!]! = [])"+dirs(r)+" { f(a: $v, b: "+strLit(r)+") { g"+dirs(r)+" } }")
		case 2:
			defs = append(defs, "fragment F on T"+dirs(r)+" { ... on U"+dirs(r)+" { f } ..."+dirs(r)+" { g } ...G"+dirs(r)+" }")
		case 3:
			defs = append(defs, r.Pick([]string{"mutation", "subscription", "query"})+dirs(r)+" { a: f(o: {s: "+strLit(r)+", t: ["+strLit(r)+"]}) }")
		case 4:
			defs = append(defs, "schema"+dirs(r)+" { query: Q mutation: M }")
		case 5:
			defs = append(defs, descLit(r)+"scalar S"+dirs(r))
		case 6:
			defs = append(defs, descLit(r)+"type T"+r.Pick([]string{"", " implements I", " implements I & J"})+dirs(r)+" "+fieldDefs())
		case 7:
			defs = append(defs, descLit(r)+"interface I"+dirs(r)+" "+fieldDefs())
		case 8:
			defs = append(defs, descLit(r)+"union U"+dirs(r)+" = A | B")
		case 9:
			n := r.Range(0, 3)
			p := []string{}
			for i := 0; i < n; i++ {
				p = append(p, descLit(r)+r.Pick([]string{"A", "B", "C"})+dirs(r))
			}
			defs = append(defs, descLit(r)+"enum E"+dirs(r)+" { "+strings.Join(p, " ")+" }")
		case 10:
			n := r.Range(0, 3)
			p := []string{}
			for i := 0; i < n; i++ {
				p = append(p, argDef())
			}
			defs = append(defs, descLit(r)+"input In"+dirs(r)+" { "+strings.Join(p, " ")+" }")
		case 11:
			defs = append(defs, "extend "+descLit(r)+"type T"+dirs(r)+" "+fieldDefs())
		case 12:
			defs = append(defs, descLit(r)+"directive @x"+argDefs()+" on FIELD | QUERY")
		default:
			defs = append(defs, "{ f(a: "+strLit(r)+", b: "+strLit(r)+") }")
		}
	}
	return strings.Join(defs, "\n")
}

// ---------------------------------------------------------------- (c) fixed corpus

var corpus = []string{
	`{a}`,
	`query { a }`,
	`query Q { a }`,
	`query @d { a }`,
	`query ($a: Int) { a }`,
	`mutation { a }`,
	`subscription S($a: [Int!]! = [1, 2] , $b: T = {k: "v", l: []}) @d(a: 1) @e { a: b(x: 1, y: $a) @skip(if: true) { c } ...F @d ... on T @d { x } ... @d { y } ... { z } }`,
	`fragment F on T @d(a: 1) @e { a }`,
	`{ a(i: 0, j: -0, f: -1.5e-3, g: 2E+2, s: "", t: "x", b: true, c: false, e: RED, n: NULL, l: [], o: {}, ll: [[], [[]]], oo: {a: {b: {}}}, v: $v) }`,
	`schema @d(a: 1) { query: Q mutation: M subscription: S }`,
	`"desc" scalar S @d(a: 1) @e`,
	"\"\"\"de\nsc\"\"\" type T implements A & B @d(a: [1]) { \"fd\" f(\"ad\" a: Int = 1 @x, b: Int): Int @y(z: 1) g: [Int] }",
	`type T implements & A { f(a: Int = 1 @x, b: Int): Int }`,
	`type T {}`,
	`type T @d {}`,
	`interface I @d(a: 1) { f: Int }`,
	`interface I {}`,
	`union U @d(a: 1) = A | B`,
	`union U = A`,
	`enum E @d(a: 1) { "x" A @d(a: 1) B }`,
	`enum E {}`,
	`input I @d(a: 1) { "x" a: Int = 1 @d(a: 1) b: Int }`,
	`input I {}`,
	`extend "d" type T @d(a: 1) { f: Int }`,
	`extend type T { "x" f("y" a: Int): Int }`,
	`"d" directive @x("ad" a: Int = 1 @d(a: 1), b: Int) on FIELD | QUERY`,
	`directive @x(a: Int) on FIELD`,
	`directive @x on FIELD`,
	`type T { f("a" x: Int, "b" y: Int = 2 @d): Int  g(x: Int): Int }`,
	"type T { \"line1\\nline2\" f(\"l1\\n  l2\" x: Int): Int }",
	"\"\"\"\n  block\n    indented\n  \"\"\" scalar S",
	`"" scalar S`,
	`" " scalar S`,
	`"a\"" scalar S`,
	`"a\\" scalar S`,
	`"a\"\"\"b" scalar S`,
	`"\ta\n\tb" scalar S`,
	`"a\rb" scalar S`,
	`"a\u0007b" scalar S`,
	`{ a(s: "\u0000\u0001\u0002\u0003\u0004\u0005\u0006\u0007\b\t\n\u000b\f\r\u000e\u000f\u0010\u0011\u0012\u0013\u0014\u0015\u0016\u0017\u0018\u0019\u001a\u001b\u001c\u001d\u001e\u001f` + "\x7f" + `") }`,
	`{ a(s: "\" \\ \/ \u00e9 é 😀 \uD83D\uDE00 \ud800") }`,
	"{ a(s: \"\xff\xfe \xc0\xaf \xed\xa0\x80\") }",
	"{ a(s: \"\"\"x\n  y\n   z\"\"\", t: \"\"\"\\\"\"\" \" \"\" \\n\"\"\") }",
	"# comment\n{ a , , b }",
}
