package main

import (
	"fmt"
	"regexp"

	"github.com/graphql-go/graphql"

	"verif/harness/gq"
	"verif/harness/hx"
)

// mutCase is the configuration history of the object type MutX. The description sent to the model holds its FINAL
// configuration; the real object is created with graphql.Fields (a map, the form AddFieldConfig works on) holding an
// initial configuration, then brought to the final one with AddFieldConfig: fields named in Replaced exist from the
// start with an older config that differs in the aspects given by the bit set (1 type, 2 description, 4 deprecation
// reason, 8 arguments), fields named in Added do not exist at first. FieldsFirst says what happens before the
// AddFieldConfig calls: 0 nothing, 1 obj.Fields() is called (definitions computed and cached), 2 a first schema is
// built with the object and introspected. Introspection of the final schema must describe the final configuration.
type mutCase struct {
	FieldsFirst int            `json:"fieldsFirst"`
	Replaced    map[string]int `json:"replaced"`
	Added       []string       `json:"added"`
}

func addMutObject(r *hx.Rng, s *gq.SchemaDesc, maxLayers int) *mutCase {
	outs := outputNamed(s)
	o := gq.TypeDesc{Kind: "OBJECT", Name: "MutX", Desc: pickDesc(r)}
	m := &mutCase{FieldsFirst: r.Intn(3), Replaced: map[string]int{}, Added: []string{}}
	n := r.Range(2, 5)
	for j := 0; j < n; j++ {
		f := gq.FieldDesc{Name: fmt.Sprintf("m%d", j), Type: wrapDeep(r, r.Pick(outs), maxLayers), Desc: pickDesc(r)}
		for k := 0; k < r.Intn(3); k++ {
			f.Args = append(f.Args, mkArg(r, s, fmt.Sprintf("p%d", k), 3, true))
		}
		if r.Chance(1, 3) {
			f.Deprecation = r.Pick([]string{"new reason", "x"})
		}
		o.Fields = append(o.Fields, f)
		switch {
		case j == 0 || r.Chance(1, 2):
			m.Replaced[f.Name] = 1 + r.Intn(15)
		case r.Chance(1, 2):
			m.Added = append(m.Added, f.Name)
		}
	}
	s.Types = append(s.Types, o)
	return m
}

func fieldConfig(b *gq.Built, f gq.FieldDesc) *graphql.Field {
	te, _ := gq.ParseType(f.Type)
	out := &graphql.Field{Type: goType(b, te).(graphql.Output), Description: f.Desc, DeprecationReason: f.Deprecation, Args: graphql.FieldConfigArgument{}}
	for _, a := range f.Args {
		ae, _ := gq.ParseType(a.Type)
		ac := &graphql.ArgumentConfig{Type: goType(b, ae).(graphql.Input), Description: a.Desc}
		if a.HasDef {
			ac.DefaultValue = gq.FromWire(a.Default)
		}
		out.Args[a.Name] = ac
	}
	return out
}

// olderVersion is a configuration of the same field that differs from the final one in the chosen aspects.
func olderVersion(f gq.FieldDesc, bits int) gq.FieldDesc {
	old := f
	if bits&1 != 0 {
		old.Type = "Boolean"
		if f.Type == "Boolean" {
			old.Type = "[String!]"
		}
	}
	if bits&2 != 0 {
		old.Desc = "old description of " + f.Name
	}
	if bits&4 != 0 {
		old.Deprecation = "old reason"
		if f.Deprecation != "" {
			old.Deprecation = ""
		}
	}
	if bits&8 != 0 {
		old.Args = []gq.ArgDesc{{Name: "oldarg", Type: "String", HasDef: true, Default: "old", Desc: "gone"}}
		if len(f.Args) > 0 {
			old.Args = append(old.Args, gq.ArgDesc{Name: f.Args[0].Name, Type: "[Boolean]", Desc: "old"})
		}
	}
	return old
}

// buildMut creates the real MutX through its configuration history.
func buildMut(c caseT, b *gq.Built) (obj *graphql.Object, err error) {
	td := c.Desc.Type("MutX")
	added := map[string]bool{}
	for _, n := range c.Mut.Added {
		added[n] = true
	}
	initial := graphql.Fields{}
	for _, f := range td.Fields {
		switch {
		case added[f.Name]:
		case c.Mut.Replaced[f.Name] != 0:
			initial[f.Name] = fieldConfig(b, olderVersion(f, c.Mut.Replaced[f.Name]))
		default:
			initial[f.Name] = fieldConfig(b, f)
		}
	}
	obj = graphql.NewObject(graphql.ObjectConfig{Name: "MutX", Description: td.Desc, Fields: initial})
	switch c.Mut.FieldsFirst {
	case 1:
		obj.Fields()
	case 2:
		first, e := graphql.NewSchema(graphql.SchemaConfig{Query: b.Objects[c.Desc.Query], Types: []graphql.Type{obj}})
		if e != nil {
			return nil, fmt.Errorf("first schema with MutX: %v", e)
		}
		if _, errs, pan := do(first, `{ __type(name: "MutX") { fields(includeDeprecated: true) { name description isDeprecated args { name } type { kind name } } } }`); pan != nil || len(errs) > 0 {
			return nil, fmt.Errorf("introspection of the first schema with MutX: %v %v", pan, errs)
		}
	}
	for _, f := range td.Fields {
		if added[f.Name] || c.Mut.Replaced[f.Name] != 0 {
			obj.AddFieldConfig(f.Name, fieldConfig(b, f))
		}
	}
	return obj, obj.Error()
}

var scrubRe = regexp.MustCompile(`\b(Int|Float|ID)\b`)

// scrubScalars removes every use of the chosen built-in scalars (a non-empty subset of Int, Float, ID) from a
// description by turning it into String; defaults of re-typed arguments / input fields are dropped. Such a schema
// does not contain the scalar: `__schema.types` must not list it and `__type(name:)` must be null for it.
func scrubScalars(r *hx.Rng, s *gq.SchemaDesc) []string {
	gone := map[string]bool{}
	for _, n := range []string{"Int", "Float", "ID"} {
		if r.Chance(2, 3) {
			gone[n] = true
		}
	}
	if len(gone) == 0 {
		gone["ID"] = true
	}
	fix := func(t string) (string, bool) {
		changed := false
		out := scrubRe.ReplaceAllStringFunc(t, func(m string) string {
			if gone[m] {
				changed = true
				return "String"
			}
			return m
		})
		return out, changed
	}
	fixArgs := func(as []gq.ArgDesc) {
		for i := range as {
			if t, ch := fix(as[i].Type); ch {
				as[i].Type, as[i].HasDef, as[i].Default = t, false, nil
			}
		}
	}
	for i := range s.Types {
		t := &s.Types[i]
		for j := range t.Fields {
			t.Fields[j].Type, _ = fix(t.Fields[j].Type)
			fixArgs(t.Fields[j].Args)
		}
		fixArgs(t.InputFields)
	}
	for i := range s.Directives {
		fixArgs(s.Directives[i].Args)
	}
	out := []string{}
	for n := range gone {
		out = append(out, n)
	}
	return sortedCopy(out)
}
