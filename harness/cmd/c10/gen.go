package main

import (
	"fmt"
	"sort"

	"verif/harness/gen"
	"verif/harness/gq"
	"verif/harness/hx"
)

// caseT is everything a case needs to be re-run: the schema description, which types are handed to
// NewSchema (in which order), which are appended afterwards (in which order), the ofType depth of the
// query's TypeRef fragment, and the salt of the runtime-type choices for the __typename check.
type caseT struct {
	// Invalid names a construction rule the description breaks on purpose ("" = valid): NewSchema must reject it.
	Invalid  string         `json:"invalid,omitempty"`
	Mut      *mutCase       `json:"mut,omitempty"`      // configuration history of the object MutX (mutobj.go)
	Scrubbed []string       `json:"scrubbed,omitempty"` // built-in scalars removed from the description (information only)
	Desc     *gq.SchemaDesc `json:"schema"`
	Initial  []string       `json:"initial"`
	Appended []string       `json:"appended"`
	Depth    int            `json:"depth"`
	Salt     uint64         `json:"salt"`
}

var descPool = []string{"", "plain text", "with \"quotes\" and \\ backslash", "two\nlines", "tab\there", "unicode é ✓ 😀", "  leading and trailing  ", "ends with quote\"", "\"\"\"", "a", "control \x07 char"}

func pickDesc(r *hx.Rng) string {
	if r.Chance(1, 2) {
		return ""
	}
	return descPool[r.Intn(len(descPool))]
}

var leafScalars = []string{"Int", "Float", "String", "Boolean", "ID"}

// wrapDeep wraps a named type in up to maxLayers list / non-null layers (never non-null of non-null).
func wrapDeep(r *hx.Rng, named string, maxLayers int) string {
	t := named
	n := r.Intn(maxLayers + 1)
	nonNull := false
	for i := 0; i < n; i++ {
		if !nonNull && r.Chance(1, 3) {
			t += "!"
			nonNull = true
		} else {
			t = "[" + t + "]"
			nonNull = false
		}
	}
	return t
}

func wrapDepth(t string) int {
	te, err := gq.ParseType(t)
	if err != nil {
		return 0
	}
	d := 0
	for te.Kind != "named" {
		d++
		te = te.Of
	}
	return d
}

// valueGen generates defaults. Conformant mode produces values in the image of input coercion (lists for list
// types, every input-object field that carries a default or is non-null present, no nulls inside); otherwise it
// may leave defaulted fields out, put nulls into lists or give a single value for a list type.
type valueGen struct {
	r *hx.Rng
	s *gq.SchemaDesc
}

func (g *valueGen) value(te *gq.TypeExpr, depth int, conformant bool) interface{} {
	r := g.r
	switch te.Kind {
	case "nonNull":
		return g.value(te.Of, depth, conformant)
	case "list":
		if !conformant && r.Chance(1, 6) {
			return g.value(te.Of, depth-1, conformant) // single value for a list type
		}
		n := r.Intn(3)
		if depth <= 0 {
			n = r.Intn(2)
		}
		out := []interface{}{}
		for i := 0; i < n; i++ {
			if !conformant && r.Chance(1, 5) {
				out = append(out, nil)
				continue
			}
			v := g.value(te.Of, depth-1, conformant)
			if v == nil {
				continue
			}
			out = append(out, v)
		}
		return out
	}
	switch te.Name {
	case "Int":
		return r.Range(-50, 1000)
	case "Float":
		switch r.Intn(3) {
		case 0:
			return r.Range(-9, 99)
		default:
			den := []int{2, 4, 8}[r.Intn(3)]
			num := r.Range(-40, 40)*den + 1 + 2*r.Intn(den/2)
			switch den {
			case 2:
				return dec(num*5, 1)
			case 4:
				return dec(num*25, 2)
			}
			return dec(num*125, 3)
		}
	case "String":
		return r.Pick([]string{"s", "hello world", "", "quote\" backslash\\", "line\nbreak", "é✓", "true", "123", "tab\t", "\x01ctl"})
	case "ID":
		return r.Pick([]string{"id1", "42", "", "a b"})
	case "Boolean":
		return r.Chance(1, 2)
	}
	td := g.s.Type(te.Name)
	if td == nil {
		return nil
	}
	switch td.Kind {
	case "ENUM":
		ev := td.Values[r.Intn(len(td.Values))]
		if ev.Internal == nil {
			return ev.Name
		}
		return ev.Internal
	case "INPUT_OBJECT":
		out := map[string]interface{}{}
		for _, f := range td.InputFields {
			fe, _ := gq.ParseType(f.Type)
			need := fe.Kind == "nonNull" || (f.HasDef && f.Default != nil)
			take := need || r.Chance(1, 2)
			if !conformant && f.HasDef && r.Chance(1, 2) {
				take = false
			}
			if depth <= 0 && !need {
				take = false
			}
			if depth <= -2 && fe.Kind != "nonNull" {
				take = false // recursive input types: stop (the value is then not conformant if the field has a default)
			}
			if !take {
				continue
			}
			v := g.value(fe, depth-1, conformant)
			if v == nil {
				continue
			}
			out[f.Name] = v
		}
		return out
	case "SCALAR":
		if len(td.ParseValue) > 0 {
			return td.ParseValue[r.Intn(len(td.ParseValue))][1]
		}
	}
	return nil
}

func dec(m, e int) interface{} {
	for e > 0 && m%10 == 0 {
		m /= 10
		e--
	}
	if e == 0 {
		return m
	}
	return map[string]interface{}{"$dec": []interface{}{m, e}}
}

// inputNamed lists the named input types of the description (leaf scalars, enums, custom scalars, input objects).
func inputNamed(s *gq.SchemaDesc, withObjects bool) []string {
	c := append([]string{}, leafScalars...)
	for _, t := range s.Types {
		switch t.Kind {
		case "ENUM":
			c = append(c, t.Name)
		case "SCALAR":
			if t.Builtin == "" {
				c = append(c, t.Name)
			}
		case "INPUT_OBJECT":
			if withObjects {
				c = append(c, t.Name, t.Name)
			}
		}
	}
	return c
}

func outputNamed(s *gq.SchemaDesc) []string {
	c := append([]string{}, leafScalars...)
	for _, t := range s.Types {
		switch t.Kind {
		case "ENUM", "OBJECT", "INTERFACE", "UNION":
			c = append(c, t.Name)
		case "SCALAR":
			if t.Builtin == "" {
				c = append(c, t.Name)
			}
		}
	}
	return c
}

func mkArg(r *hx.Rng, s *gq.SchemaDesc, name string, maxLayers int, allowRequired bool) gq.ArgDesc {
	vg := &valueGen{r: r, s: s}
	a := gq.ArgDesc{Name: name, Type: wrapDeep(r, r.Pick(inputNamed(s, true)), maxLayers), Desc: pickDesc(r)}
	te, _ := gq.ParseType(a.Type)
	if te.Kind == "nonNull" && !allowRequired || r.Chance(3, 5) {
		a.HasDef = true
		a.Default = vg.value(te, 2, !r.Chance(1, 6))
		if a.Default == nil {
			a.HasDef = false
			if te.Kind == "nonNull" && !allowRequired {
				a.Type = a.Type[:len(a.Type)-1]
			}
		}
	}
	return a
}

// decorate extends a description from gen.SchemaGen with what C10 quantifies over and the shared generator
// does not produce: descriptions everywhere, extra enums (internal values: names, ints, non-name strings, nil),
// extra input objects whose fields have defaults of every kind, deep list/non-null nests on new fields of objects
// and interfaces (mirrored on the implementers), arguments with defaults of every input kind, more deprecations,
// custom directives, a subscription root, object types reachable only through SchemaConfig.Types.
func decorate(r *hx.Rng, s *gq.SchemaDesc, maxLayers int) {
	// extra enum
	if r.Chance(2, 3) {
		td := gq.TypeDesc{Kind: "ENUM", Name: "Color", Desc: pickDesc(r)}
		names := []string{"RED", "GREEN", "BLUE", "dark_grey"}
		style := r.Intn(4)
		for j := 0; j < r.Range(1, 4); j++ {
			var internal interface{}
			switch style {
			case 0:
				internal = nil // library uses the name
			case 1:
				internal = j
			case 2:
				internal = []string{"green", "RED", "not a name", "9lives"}[j] // a permutation-like clash: GREEN's value is "RED"
			case 3:
				internal = names[j]
			}
			ev := gq.EnumValDesc{Name: names[j], Internal: internal, Desc: pickDesc(r)}
			if r.Chance(1, 4) {
				ev.Deprecation = r.Pick([]string{"gone", "use BLUE", "x"})
			}
			td.Values = append(td.Values, ev)
		}
		s.Types = append(s.Types, td)
	}
	// extra input objects, the second may refer to the first and to itself
	nExtra := r.Intn(3)
	for i := 0; i < nExtra; i++ {
		s.Types = append(s.Types, gq.TypeDesc{Kind: "INPUT_OBJECT", Name: fmt.Sprintf("Arg%d", i), Desc: pickDesc(r)})
	}
	for i := 0; i < nExtra; i++ {
		td := s.Type(fmt.Sprintf("Arg%d", i))
		for j := 0; j < r.Range(1, 4); j++ {
			named := r.Pick(inputNamed(s, false))
			if i > 0 && r.Chance(1, 3) {
				named = fmt.Sprintf("Arg%d", r.Intn(i+1))
			}
			f := gq.ArgDesc{Name: fmt.Sprintf("x%d", j), Type: wrapDeep(r, named, maxLayers), Desc: pickDesc(r)}
			te, _ := gq.ParseType(f.Type)
			if named == td.Name {
				// self reference: nullable, no default, else the type has no finite value
				f.Type = named
				if r.Chance(1, 2) {
					f.Type = "[" + named + "]"
				}
			} else if r.Chance(1, 2) {
				vg := &valueGen{r: r, s: s}
				f.Default = vg.value(te, 2, !r.Chance(1, 6))
				f.HasDef = f.Default != nil
			}
			td.InputFields = append(td.InputFields, f)
		}
	}
	// descriptions and deprecations on what exists
	for i := range s.Types {
		t := &s.Types[i]
		if t.Desc == "" {
			t.Desc = pickDesc(r)
		}
		for j := range t.Fields {
			if r.Chance(1, 3) {
				t.Fields[j].Desc = pickDesc(r)
			}
		}
		for j := range t.Values {
			if r.Chance(1, 3) {
				t.Values[j].Desc = pickDesc(r)
			}
		}
		for j := range t.InputFields {
			if r.Chance(1, 3) {
				t.InputFields[j].Desc = pickDesc(r)
			}
		}
	}
	// new fields with deep types and rich arguments; on an interface they are mirrored on its implementers
	outs := outputNamed(s)
	for i := range s.Types {
		t := &s.Types[i]
		if t.Kind != "OBJECT" && t.Kind != "INTERFACE" {
			continue
		}
		n := r.Intn(3)
		for j := 0; j < n; j++ {
			f := gq.FieldDesc{Name: fmt.Sprintf("%s_d%d", t.Name, j), Type: wrapDeep(r, r.Pick(outs), maxLayers), Desc: pickDesc(r)}
			for k := 0; k < r.Intn(3); k++ {
				f.Args = append(f.Args, mkArg(r, s, fmt.Sprintf("p%d", k), maxLayers, t.Kind == "OBJECT"))
			}
			if r.Chance(1, 4) {
				f.Deprecation = r.Pick([]string{"no longer", "use other", "-"})
			}
			t.Fields = append(t.Fields, f)
			if t.Kind == "INTERFACE" {
				for k := range s.Types {
					o := &s.Types[k]
					if o.Kind == "OBJECT" && contains(o.Interfaces, t.Name) {
						o.Fields = append(o.Fields, f)
					}
				}
			}
		}
	}
	// user fields named like the meta fields (the name only has to match the identifier syntax, NewSchema accepts
	// them): `__typename` on objects and on interfaces (mirrored on the implementers), `__type` / `__schema` on the
	// query root, with and without an argument called `name`. Introspection lists them as ordinary fields; at execution
	// the meta fields win at every position.
	if r.Chance(1, 3) {
		impostor := func() gq.FieldDesc {
			f := gq.FieldDesc{Name: "__typename", Type: r.Pick([]string{"String", "String!", "Int", "[String]"}), Desc: pickDesc(r)}
			if r.Chance(1, 3) {
				f.Args = []gq.ArgDesc{{Name: "name", Type: "String"}}
			}
			return f
		}
		theImpostor := impostor() // one declaration per schema: an object may implement several of the interfaces
		for i := range s.Types {
			t := &s.Types[i]
			if (t.Kind != "OBJECT" && t.Kind != "INTERFACE") || !r.Chance(1, 2) {
				continue
			}
			has := false
			for _, f := range t.Fields {
				has = has || f.Name == "__typename"
			}
			if has {
				continue
			}
			f := theImpostor
			t.Fields = append(t.Fields, f)
			if t.Kind == "INTERFACE" {
				for k := range s.Types {
					o := &s.Types[k]
					if o.Kind == "OBJECT" && contains(o.Interfaces, t.Name) {
						kept := []gq.FieldDesc{}
						for _, of := range o.Fields {
							if of.Name != "__typename" {
								kept = append(kept, of)
							}
						}
						o.Fields = append(kept, f)
					}
				}
			}
		}
		if q := s.Type(s.Query); q != nil {
			for _, n := range []string{"__type", "__schema"} {
				if !r.Chance(2, 3) {
					continue
				}
				f := gq.FieldDesc{Name: n, Type: r.Pick(append([]string{"String", "String", "Int!"}, outs...)), Desc: pickDesc(r)}
				switch r.Intn(3) {
				case 0:
					f.Args = []gq.ArgDesc{{Name: "name", Type: "String!"}}
				case 1:
					f.Args = []gq.ArgDesc{{Name: "name", Type: "Int"}, {Name: "other", Type: "Boolean", HasDef: true, Default: true}}
				}
				q.Fields = append(q.Fields, f)
			}
		}
	}
	// an object type nothing refers to (only SchemaConfig.Types / AppendType can bring it in), implementing an interface
	if r.Chance(1, 2) {
		o := gq.TypeDesc{Kind: "OBJECT", Name: "Lonely", Desc: pickDesc(r), IsTypeOf: true}
		for _, t := range s.Types {
			if t.Kind == "INTERFACE" && r.Chance(1, 2) {
				o.Interfaces = append(o.Interfaces, t.Name)
				o.Fields = append(o.Fields, t.Fields...)
			}
		}
		o.Fields = append(o.Fields, gq.FieldDesc{Name: "own", Type: wrapDeep(r, r.Pick(outs), maxLayers)})
		s.Types = append(s.Types, o)
	}
	// a chain in which every kind of reference is the only way to a type: Q.viaU2 -> union U2 -> member ViaUnion ->
	// its interface ViaImpl; ViaUnion.vf(arg: ViaArgIn) -> input field -> enum ViaEnum; ViaImpl.vi -> scalar only
	if r.Chance(1, 2) {
		s.Types = append(s.Types,
			gq.TypeDesc{Kind: "ENUM", Name: "ViaEnum", Values: []gq.EnumValDesc{{Name: "ONE", Internal: 1}, {Name: "TWO", Internal: "two"}}},
			gq.TypeDesc{Kind: "INPUT_OBJECT", Name: "ViaArgIn", InputFields: []gq.ArgDesc{{Name: "e", Type: wrapDeep(r, "ViaEnum", 3), HasDef: false}, {Name: "n", Type: "Int", HasDef: true, Default: 3}}},
			gq.TypeDesc{Kind: "INTERFACE", Name: "ViaImpl", ResolveType: true, Fields: []gq.FieldDesc{{Name: "vi", Type: "Int"}}},
			gq.TypeDesc{Kind: "OBJECT", Name: "ViaUnion", IsTypeOf: true, Interfaces: []string{"ViaImpl"}, Fields: []gq.FieldDesc{
				{Name: "vi", Type: "Int"},
				{Name: "vf", Type: "String", Args: []gq.ArgDesc{{Name: "arg", Type: wrapDeep(r, "ViaArgIn", 2)}}}}},
			gq.TypeDesc{Kind: "UNION", Name: "U2", ResolveType: true, Members: []string{"ViaUnion"}})
		if q := s.Type(s.Query); q != nil {
			q.Fields = append(q.Fields, gq.FieldDesc{Name: "viaU2", Type: wrapDeep(r, "U2", 2)})
		}
	}
	// late group: objects implementing an EXISTING interface that nothing refers to except a union / an object field /
	// an interface field of three wrapper types which nothing refers to either. genCase withholds the implementers and
	// appends (or supplies, or withholds) the wrappers: appending a non-object type must bring the new implementers into
	// the possible types of the interfaces the schema already has.
	ifaceNames := []string{}
	for _, t := range s.Types {
		if t.Kind == "INTERFACE" && t.Name != "ViaImpl" {
			ifaceNames = append(ifaceNames, t.Name)
		}
	}
	if len(ifaceNames) > 0 && r.Chance(1, 2) {
		mk := func(name string) gq.TypeDesc {
			o := gq.TypeDesc{Kind: "OBJECT", Name: name, IsTypeOf: true, Desc: pickDesc(r)}
			for _, in := range ifaceNames {
				if r.Chance(1, 2) || len(o.Interfaces) == 0 {
					o.Interfaces = append(o.Interfaces, in)
					o.Fields = append(o.Fields, s.Type(in).Fields...)
				}
			}
			o.Fields = append(o.Fields, gq.FieldDesc{Name: "late", Type: "Int"})
			return o
		}
		s.Types = append(s.Types, mk("LateA"), mk("LateB"), mk("LateC"),
			gq.TypeDesc{Kind: "UNION", Name: "LateU", ResolveType: true, Members: []string{"LateA"}},
			gq.TypeDesc{Kind: "OBJECT", Name: "LateHolder", IsTypeOf: true, Fields: []gq.FieldDesc{{Name: "h", Type: wrapDeep(r, "LateB", 3)}}},
			gq.TypeDesc{Kind: "INTERFACE", Name: "LateI", ResolveType: true, Fields: []gq.FieldDesc{{Name: "x", Type: wrapDeep(r, "LateC", 2)}}})
	}
	// sole-reference groups: named input types (enum, input object whose field is the only use of another enum,
	// custom scalar; list / non-null wrapped) that occur ONLY as the type of (a) an argument of a field of an interface
	// that is reachable from a Query field and has no implementer in the type map (none declared, or the only one
	// withheld: prefix Held), (b) an argument of a Query field, (c) an argument of a directive. genCase mostly
	// withholds these types from SchemaConfig.Types, so the argument is the only path into the type map.
	soleIn := func(prefix string) (enum, in string) {
		enum, in = prefix+"Enum", prefix+"In"
		vg := &valueGen{r: r, s: s}
		s.Types = append(s.Types,
			gq.TypeDesc{Kind: "ENUM", Name: enum, Desc: pickDesc(r), Values: []gq.EnumValDesc{{Name: "P", Internal: 7}, {Name: "Q", Internal: "q q"}, {Name: "R"}}},
			gq.TypeDesc{Kind: "ENUM", Name: enum + "2", Values: []gq.EnumValDesc{{Name: "X", Internal: "X"}, {Name: "Y", Internal: 0}}})
		f := gq.ArgDesc{Name: "e2", Type: wrapDeep(r, enum+"2", 3), Desc: pickDesc(r)}
		if r.Chance(1, 2) {
			te, _ := gq.ParseType(f.Type)
			f.Default = vg.value(te, 2, true)
			f.HasDef = f.Default != nil
		}
		s.Types = append(s.Types, gq.TypeDesc{Kind: "INPUT_OBJECT", Name: in, Desc: pickDesc(r), InputFields: []gq.ArgDesc{f, {Name: "n", Type: "Int"}}})
		return enum, in
	}
	soleArgs := func(prefix string, withScalar bool) []gq.ArgDesc {
		enum, in := soleIn(prefix)
		vg := &valueGen{r: r, s: s}
		named := []string{enum, in}
		if withScalar {
			s.Types = append(s.Types, gq.TypeDesc{Kind: "SCALAR", Name: prefix + "Scalar", Desc: pickDesc(r),
				Serialize:    [][2]interface{}{{5, 5}, {"five", 5}},
				ParseValue:   [][2]interface{}{{5, 5}, {"5", 5}},
				ParseLiteral: [][2]interface{}{{5, 5}, {"5", 5}}})
			named = append(named, prefix+"Scalar")
		}
		args := []gq.ArgDesc{}
		for i, n := range named {
			a := gq.ArgDesc{Name: fmt.Sprintf("s%d", i), Type: wrapDeep(r, n, 3), Desc: pickDesc(r)}
			te, _ := gq.ParseType(a.Type)
			if te.Kind == "nonNull" || r.Chance(1, 2) {
				a.Default = vg.value(te, 2, true)
				a.HasDef = a.Default != nil
				if !a.HasDef && te.Kind == "nonNull" {
					a.Type = a.Type[:len(a.Type)-1]
				}
			}
			args = append(args, a)
		}
		return args
	}
	if r.Chance(2, 3) { // (a) interface field arguments
		fld := gq.FieldDesc{Name: "g", Type: wrapDeep(r, "Int", 2), Args: soleArgs("Ao", true), Desc: pickDesc(r)}
		s.Types = append(s.Types, gq.TypeDesc{Kind: "INTERFACE", Name: "AoI", ResolveType: true, Desc: pickDesc(r), Fields: []gq.FieldDesc{fld}})
		if r.Chance(1, 2) {
			s.Types = append(s.Types, gq.TypeDesc{Kind: "OBJECT", Name: "HeldImpl", IsTypeOf: true, Interfaces: []string{"AoI"}, Fields: []gq.FieldDesc{fld, {Name: "own", Type: "Int"}}})
		}
		if q := s.Type(s.Query); q != nil {
			q.Fields = append(q.Fields, gq.FieldDesc{Name: "viaAoI", Type: wrapDeep(r, "AoI", 2)})
		}
	}
	if r.Chance(1, 2) { // (b) object field arguments
		args := soleArgs("Oo", r.Chance(1, 2))
		if q := s.Type(s.Query); q != nil {
			q.Fields = append(q.Fields, gq.FieldDesc{Name: "viaOo", Type: "Int", Args: args})
		}
	}
	if r.Chance(1, 2) { // (c) directive arguments
		s.Directives = append(s.Directives, gq.DirectiveDesc{Name: "onlyarg", Locations: []string{"FIELD", "QUERY"}, Args: soleArgs("Do", r.Chance(1, 2)), Desc: pickDesc(r)})
	}
	// objects that took the fields of several interfaces may have taken `__typename` more than once
	for i := range s.Types {
		t := &s.Types[i]
		seen := map[string]bool{}
		kept := t.Fields[:0:0]
		for _, f := range t.Fields {
			if !seen[f.Name] {
				kept = append(kept, f)
			}
			seen[f.Name] = true
		}
		t.Fields = kept
	}
	// subscription root
	if r.Chance(1, 4) {
		sub := gq.TypeDesc{Kind: "OBJECT", Name: "S", Desc: pickDesc(r)}
		for j := 0; j < r.Range(1, 2); j++ {
			sub.Fields = append(sub.Fields, gq.FieldDesc{Name: fmt.Sprintf("s%d", j), Type: wrapDeep(r, r.Pick(outs), 2)})
		}
		s.Types = append(s.Types, sub)
		n := "S"
		s.Subscription = &n
	}
	// custom directives (gq.Build then configures skip, include, deprecated + these)
	if r.Chance(1, 2) {
		locs := []string{"QUERY", "MUTATION", "SUBSCRIPTION", "FIELD", "FRAGMENT_DEFINITION", "FRAGMENT_SPREAD", "INLINE_FRAGMENT", "SCHEMA", "SCALAR", "OBJECT", "FIELD_DEFINITION", "ARGUMENT_DEFINITION", "INTERFACE", "UNION", "ENUM", "ENUM_VALUE", "INPUT_OBJECT", "INPUT_FIELD_DEFINITION"}
		for i := 0; i < r.Range(1, 3); i++ {
			d := gq.DirectiveDesc{Name: []string{"zeta", "alpha", "mid"}[i], Desc: pickDesc(r)}
			for _, l := range locs {
				if r.Chance(1, 5) {
					d.Locations = append(d.Locations, l)
				}
			}
			if len(d.Locations) == 0 {
				d.Locations = []string{r.Pick(locs)}
			}
			for k := 0; k < r.Intn(3); k++ {
				d.Args = append(d.Args, mkArg(r, s, fmt.Sprintf("z%d", 2-k), maxLayers, true))
			}
			s.Directives = append(s.Directives, d)
		}
	}
}

func contains(xs []string, x string) bool {
	for _, y := range xs {
		if y == x {
			return true
		}
	}
	return false
}

// genCase draws a case: schema, split of its types into initially supplied / appended / withheld, query depth.
func genCase(r *hx.Rng) caseT {
	g := &gen.SchemaGen{R: r, Size: r.Range(1, 5)}
	s := g.Schema()
	maxLayers := []int{2, 3, 5, 9}[r.Intn(4)]
	decorate(r, s, maxLayers)
	c := caseT{Desc: s, Salt: r.U64()}
	if r.Chance(1, 3) {
		c.Mut = addMutObject(r, s, maxLayers)
	}
	if r.Chance(1, 4) {
		c.Scrubbed = scrubScalars(r, s)
	}
	if r.Chance(1, 12) {
		c.Invalid = breakSchema(r, s)
	}
	names := []string{}
	for _, t := range s.Types {
		names = append(names, t.Name)
	}
	// order of SchemaConfig.Types is arbitrary
	shuffle(r, names)
	mode := r.Intn(4)
	for _, n := range names {
		switch {
		case mode == 0: // everything supplied up front
			c.Initial = append(c.Initial, n)
		case mode == 1: // nothing supplied: only what the roots reach
		case mode == 2: // some withheld, some appended later
			switch r.Intn(3) {
			case 0:
				c.Initial = append(c.Initial, n)
			case 1:
				c.Appended = append(c.Appended, n)
			}
		default: // everything appended after construction
			c.Appended = append(c.Appended, n)
		}
	}
	// late group (see decorate): implementers never supplied directly, wrappers mostly appended
	if s.Type("LateU") != nil {
		drop := func(xs []string) []string {
			out := []string{}
			for _, x := range xs {
				if len(x) < 4 || x[:4] != "Late" {
					out = append(out, x)
				}
			}
			return out
		}
		c.Initial, c.Appended = drop(c.Initial), drop(c.Appended)
		wrappers := []string{"LateU", "LateHolder", "LateI"}
		shuffle(r, wrappers)
		for _, wn := range wrappers {
			switch r.Intn(5) {
			case 0:
				c.Initial = append(c.Initial, wn)
			case 1: // withheld
			default:
				c.Appended = append(c.Appended, wn)
			}
		}
		shuffle(r, c.Appended)
	}
	// sole-reference groups (see decorate): the argument-only types are mostly not handed to SchemaConfig.Types /
	// AppendType, the implementer of AoI never is
	dropPrefix := func(pre string) {
		keep := func(xs []string) []string {
			out := []string{}
			for _, x := range xs {
				if len(x) < len(pre) || x[:len(pre)] != pre {
					out = append(out, x)
				}
			}
			return out
		}
		c.Initial, c.Appended = keep(c.Initial), keep(c.Appended)
	}
	dropPrefix("Held")
	if c.Mut != nil { // nothing refers to MutX: it has to be supplied one way or the other
		dropPrefix("MutX")
		if r.Chance(1, 2) {
			c.Initial = append(c.Initial, "MutX")
		} else {
			c.Appended = append(c.Appended, "MutX")
			shuffle(r, c.Appended)
		}
	}
	for _, pre := range []string{"Ao", "Oo", "Do"} {
		if r.Chance(3, 4) {
			dropPrefix(pre)
		}
	}
	if c.Initial == nil {
		c.Initial = []string{}
	}
	if c.Appended == nil {
		c.Appended = []string{}
	}
	// query depth: the standard query (7) mostly; sometimes exactly what the schema needs, sometimes too little
	maxDepth := 0
	for _, t := range s.Types {
		for _, f := range t.Fields {
			maxDepth = maxInt(maxDepth, wrapDepth(f.Type))
			for _, a := range f.Args {
				maxDepth = maxInt(maxDepth, wrapDepth(a.Type))
			}
		}
		for _, f := range t.InputFields {
			maxDepth = maxInt(maxDepth, wrapDepth(f.Type))
		}
	}
	switch r.Intn(4) {
	case 0, 1:
		c.Depth = 7
	case 2:
		c.Depth = maxInt(maxDepth, 1)
	default:
		c.Depth = r.Range(1, 4)
	}
	return c
}

func maxInt(a, b int) int {
	if a > b {
		return a
	}
	return b
}

func shuffle(r *hx.Rng, xs []string) {
	for i := len(xs) - 1; i > 0; i-- {
		j := r.Intn(i + 1)
		xs[i], xs[j] = xs[j], xs[i]
	}
}

func sortedCopy(xs []string) []string {
	out := append([]string{}, xs...)
	sort.Strings(out)
	return out
}

// breakSchema damages a valid description in one of the ways the well-formedness hypotheses of the C10 theorems
// exclude (an object listing an interface twice, a union listing a member twice, an enum value called like a
// literal); the library has to refuse such a configuration. Returns "" when the description offers no opportunity.
func breakSchema(r *hx.Rng, s *gq.SchemaDesc) string {
	switch r.Intn(3) {
	case 0:
		for i := range s.Types {
			t := &s.Types[i]
			if t.Kind == "OBJECT" && len(t.Interfaces) > 0 {
				t.Interfaces = append(t.Interfaces, t.Interfaces[r.Intn(len(t.Interfaces))])
				return "interface-listed-twice"
			}
		}
	case 1:
		for i := range s.Types {
			t := &s.Types[i]
			if t.Kind == "UNION" && len(t.Members) > 0 {
				t.Members = append(t.Members, t.Members[r.Intn(len(t.Members))])
				return "union-member-listed-twice"
			}
		}
	default:
		for i := range s.Types {
			t := &s.Types[i]
			if t.Kind == "ENUM" {
				t.Values = append(t.Values, gq.EnumValDesc{Name: r.Pick([]string{"true", "false", "null"}), Internal: "lit"})
				return "enum-value-named-like-a-literal"
			}
		}
	}
	return ""
}
