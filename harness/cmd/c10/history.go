package main

import (
	"fmt"

	"github.com/graphql-go/graphql"
	"github.com/graphql-go/graphql/language/ast"
	"github.com/graphql-go/graphql/language/parser"
	"github.com/graphql-go/graphql/language/source"

	"verif/harness/hx"
)

// Held-plan histories: plans for introspection queries are made (PlanQuery and PlanCache.Get) before, between and
// after the AppendType steps of a case and kept; after every checkpoint ALL plans held so far are executed
// (ExecutePlan) and must describe the schema as it is NOW, i.e. equal the model's description of
// SchemaConfig.Types ++ the types appended so far — a plan is bound to the caller's *Schema, not to a snapshot of it.

const linksQuery = `{ __schema { types { name kind interfaces { name } possibleTypes { name } } } }`

type heldPlan struct {
	madeAt int
	how    string // PlanQuery | PlanCache.Get
	query  string // full | links
	plan   *graphql.Plan
	doc    *ast.Document
}

type history struct {
	c           caseT
	w           *world
	drv         *hx.Driver
	checkpoints map[int]bool
	held        []heldPlan
	cache       *graphql.PlanCache
	violation   string
	extra       obj
	executed    int
}

func newHistory(c caseT, w *world, drv *hx.Driver) *history {
	n := len(c.Appended)
	if n == 0 || hash(c.Salt, "history")%3 != 0 {
		return nil
	}
	h := &history{c: c, w: w, drv: drv, checkpoints: map[int]bool{0: true, n: true}, cache: graphql.NewPlanCache(graphql.PlanCacheOptions{})}
	if n >= 2 {
		h.checkpoints[1+int(hash(c.Salt, "mid")%uint64(n-1))] = true
	}
	return h
}

func linksOf(tree interface{}) interface{} {
	proj := func(v interface{}) interface{} {
		if v == nil {
			return nil
		}
		out := []interface{}{}
		for _, e := range asArr(v) {
			out = append(out, obj{"name": asObj(e)["name"]})
		}
		return out
	}
	types := []interface{}{}
	for _, t := range asArr(asObj(asObj(tree)["__schema"])["types"]) {
		to := asObj(t)
		types = append(types, obj{"name": to["name"], "kind": to["kind"], "interfaces": proj(to["interfaces"]), "possibleTypes": proj(to["possibleTypes"])})
	}
	return obj{"__schema": obj{"types": types}}
}

// modelViews: the model's tree as delivered (order) and canonicalised (content), computed once per checkpoint.
type modelViews struct{ raw, canon, links interface{} }

func viewsOf(tree interface{}) *modelViews {
	mc := roundJSON(tree)
	order := map[string][2]int{}
	d := []string{}
	canonicalise(mc, order, &d, "")
	return &modelViews{raw: tree, canon: mc, links: roundJSON(linksOf(tree))}
}

// diffFull compares a full introspection result (consumed) with the model: duplicates, content (sorted by name), order.
func diffFull(real interface{}, m *modelViews) string {
	raw := roundJSON(real)
	order := map[string][2]int{}
	dups := []string{}
	canonicalise(real, order, &dups, "")
	if len(dups) > 0 {
		return "a name is listed twice: " + fmt.Sprint(dups)
	}
	if d := firstDiff(real, m.canon, ""); d != "" {
		return d
	}
	if d := firstDiff(raw, m.raw, ""); d != "" {
		return "(order) " + d
	}
	return ""
}

func (h *history) fail(note string, extra obj) {
	if h.violation == "" {
		h.violation, h.extra = note, extra
	}
}

func (h *history) queryText(q string) string {
	if q == "full" {
		return fullQuery(h.c.Depth)
	}
	return linksQuery
}

func (h *history) exec(p heldPlan, k int, mv *modelViews) {
	var data interface{}
	var errs []string
	var pan interface{}
	func() {
		defer func() {
			if r := recover(); r != nil {
				pan = fmt.Sprint(r)
			}
		}()
		res := graphql.ExecutePlan(p.plan, graphql.ExecuteParams{Schema: h.w.schema, AST: p.doc})
		for _, e := range res.Errors {
			errs = append(errs, e.Message)
		}
		data = roundJSON(res.Data)
	}()
	h.executed++
	where := fmt.Sprintf("plan of the %s introspection query made by %s after %d AppendType steps, executed after %d steps", p.query, p.how, p.madeAt, k)
	if pan != nil || len(errs) > 0 {
		h.fail(fmt.Sprintf("%s: panic=%v errors=%v", where, pan, errs), obj{"made_at": p.madeAt, "executed_at": k})
		return
	}
	var d string
	var want interface{}
	if p.query == "full" {
		want = mv.raw
		d = diffFull(data, mv) // data is left canonicalised (sorted by name)
	} else {
		want = mv.links
		d = firstDiff(data, want, "")
	}
	if d != "" {
		h.fail(where+" does not describe the current schema: "+d, obj{"made_at": p.madeAt, "executed_at": k, "how": p.how, "query": h.queryText(p.query), "real": data, "model": want})
	}
}

// at runs checkpoint k (k types appended so far) against the model's tree for that state.
func (h *history) at(k int, modelTree interface{}) {
	if h.violation != "" {
		return
	}
	mv := viewsOf(modelTree)
	for _, p := range h.held {
		h.exec(p, k, mv)
	}
	for _, q := range []string{"full", "links"} {
		text := h.queryText(q)
		doc, err := parser.Parse(parser.ParseParams{Source: source.NewSource(&source.Source{Body: []byte(text)})})
		if err != nil {
			h.fail("introspection query does not parse: "+err.Error(), nil)
			return
		}
		plan, err := graphql.PlanQuery(&h.w.schema, doc, "")
		if err != nil || plan == nil {
			h.fail(fmt.Sprintf("PlanQuery of the %s introspection query failed after %d AppendType steps: %v", q, k, err), nil)
			return
		}
		np := heldPlan{madeAt: k, how: "PlanQuery", query: q, plan: plan, doc: doc}
		h.exec(np, k, mv)
		h.held = append(h.held, np)
		// the cache hands back the plan it stored at an earlier checkpoint (same *Schema, same text)
		res := h.cache.Get(&h.w.schema, text, "")
		if len(res.Errors) > 0 || res.Plan == nil {
			h.fail(fmt.Sprintf("PlanCache.Get of the %s introspection query failed after %d AppendType steps: %v", q, k, res.Errors), nil)
			return
		}
		cp := heldPlan{madeAt: k, how: "PlanCache.Get", query: q, plan: res.Plan, doc: doc}
		h.exec(cp, k, mv)
		if k == 0 {
			h.held = append(h.held, cp) // later Gets return this very plan (cache hit on the same *Schema and text)
		}
	}
}

// step is called by build after NewSchema (k = 0) and after every AppendType (k = number of types appended).
// Intermediate checkpoints ask the model themselves; the last one is run by the caller with the final model answer.
func (h *history) step(k int) {
	if h == nil || !h.checkpoints[k] || k == len(h.c.Appended) || h.violation != "" {
		return
	}
	supplied := append(append([]string{}, h.c.Initial...), h.c.Appended[:k]...)
	var m modelResp
	if err := h.drv.Ask(map[string]interface{}{"schema": h.c.Desc, "supplied": supplied, "depth": h.c.Depth}, &m); err != nil {
		h.fail("driver: "+err.Error(), nil)
		return
	}
	h.at(k, m.Tree)
}
