package main

import (
	"fmt"
	"sort"
	"strings"

	"verif/harness/gq"
	"verif/harness/hx"
)

func modelType(modelFull interface{}, name string) obj {
	return findNamed(asArr(asObj(asObj(modelFull)["__schema"])["types"]), name)
}

func namesOf(arr []interface{}, keep func(obj) bool) []string {
	out := []string{}
	for _, e := range arr {
		o := asObj(e)
		if keep == nil || keep(o) {
			out = append(out, asStr(o["name"]))
		}
	}
	sort.Strings(out)
	return out
}

func hasRequiredArg(f gq.FieldDesc) bool {
	for _, a := range f.Args {
		if strings.HasSuffix(a.Type, "!") { // ProvidedNonNullArguments does not look at defaults
			return true
		}
	}
	return false
}

// selection / expectation of the runtime __typename check -------------------------------------------

func (w *world) compositeFields(d *gq.SchemaDesc, td *gq.TypeDesc) []gq.FieldDesc {
	out := []gq.FieldDesc{}
	for _, f := range td.Fields {
		te, err := gq.ParseType(f.Type)
		if err != nil || hasRequiredArg(f) || strings.HasPrefix(f.Name, "__") {
			continue // a user field named like a meta field cannot be selected: the meta field wins
		}
		ft := d.Type(te.NamedName())
		if ft == nil {
			continue
		}
		switch ft.Kind {
		case "OBJECT":
		case "INTERFACE", "UNION":
			if len(w.possible[ft.Name]) == 0 {
				continue
			}
		default:
			continue
		}
		out = append(out, f)
	}
	return out
}

func (w *world) selection(d *gq.SchemaDesc, named string, depth int) string {
	td := d.Type(named)
	sub := func(o *gq.TypeDesc) string {
		if depth == 0 {
			return ""
		}
		var b strings.Builder
		for _, f := range w.compositeFields(d, o) {
			te, _ := gq.ParseType(f.Type)
			fmt.Fprintf(&b, "%s__%s: %s %s ", o.Name, f.Name, f.Name, w.selection(d, te.NamedName(), depth-1))
		}
		return b.String()
	}
	switch td.Kind {
	case "OBJECT":
		return "{ __typename " + sub(td) + "}"
	default:
		var b strings.Builder
		b.WriteString("{ __typename ")
		for _, p := range w.possible[td.Name] {
			if s := sub(d.Type(p)); s != "" {
				fmt.Fprintf(&b, "... on %s { %s} ", p, s)
			}
		}
		b.WriteString("}")
		return b.String()
	}
}

func (w *world) expectation(d *gq.SchemaDesc, te *gq.TypeExpr, key string, depth int) interface{} {
	switch te.Kind {
	case "nonNull":
		return w.expectation(d, te.Of, key, depth)
	case "list":
		out := []interface{}{}
		for i := 0; i < listLen(key); i++ {
			out = append(out, w.expectation(d, te.Of, fmt.Sprintf("%s/%d", key, i), depth))
		}
		return out
	}
	_, e := w.runtimeValue(d, te, key)
	exp, _ := e.(map[string]interface{})
	if exp == nil {
		return nil
	}
	rt := asStr(exp["__typename"])
	out := obj{"__typename": rt}
	if depth > 0 {
		o := d.Type(rt)
		for _, f := range w.compositeFields(d, o) {
			fe, _ := gq.ParseType(f.Type)
			out[o.Name+"__"+f.Name] = w.expectation(d, fe, o.Name+"."+f.Name, depth-1)
		}
	}
	return out
}

// partial runs the partial queries of a case; false = a violation was recorded.
func partial(run *hx.Run, c caseT, w *world, m *modelResp, realFull, modelFull interface{}, replay func(obj) obj) bool {
	d := c.Desc
	inClosure := map[string]bool{}
	for _, n := range m.Closure {
		inClosure[n] = true
	}
	r := hx.NewRng(c.Salt)

	// ---- (a) __type(name:) for a few names: described types, a meta type, unknown and withheld names
	metaNames := []string{"__Schema", "__Type", "__TypeKind", "__Field", "__InputValue", "__EnumValue", "__Directive", "__DirectiveLocation"}
	names := []string{"Int", "Float", "String", "Boolean", "ID", metaNames[r.Intn(len(metaNames))], metaNames[r.Intn(len(metaNames))],
		"Nope", "__Nope", "int", "Strin", d.Query}
	user := []string{}
	for _, t := range d.Types {
		user = append(user, t.Name)
		if !inClosure[t.Name] {
			names = append(names, t.Name) // declared, but not part of this schema: must be null
		}
	}
	for i := 0; i < 3 && len(user) > 0; i++ {
		names = append(names, user[r.Intn(len(user))])
	}
	var q strings.Builder
	q.WriteString("{ ")
	for i, n := range names {
		fmt.Fprintf(&q, "t%d: __type(name: %q) { ...FullType } ", i, n)
	}
	q.WriteString("}\n" + fullTypeFragment + typeRefFragment(c.Depth))
	data, errs, pan := do(w.schema, q.String())
	if pan != nil || len(errs) > 0 {
		run.Violation(fmt.Sprintf("__type(name:) query failed: panic=%v errors=%v", pan, errs), replay(obj{"query": q.String()}), false)
		return false
	}
	order := map[string][2]int{}
	dups := []string{}
	canonicalise(data, order, &dups, "")
	realTypes := asArr(asObj(asObj(realFull)["__schema"])["types"])
	for i, n := range names {
		got := asObj(data)[fmt.Sprintf("t%d", i)]
		var want interface{}
		if o := findNamed(realTypes, n); o != nil {
			want = o
		}
		mt := modelType(modelFull, n)
		if (mt != nil) != (got != nil) {
			run.Violation(fmt.Sprintf("__type(name: %q): real present=%v, the model's type set (typesClosure) says present=%v", n, got != nil, mt != nil), replay(obj{"name": n, "real": got, "closure": m.Closure}), false)
			return false
		}
		if hx.Canon(got) != hx.Canon(want) {
			run.Violation(fmt.Sprintf("__type(name: %q) differs from the entry of __schema.types at %s", n, firstDiff(got, want, "")), replay(obj{"name": n, "by_name": got, "in_types": want}), false)
			return false
		}
		if got == nil {
			run.Tag("__type:null")
		} else {
			run.Tag("__type:found")
		}
	}
	if len(dups) > 0 {
		run.Violation("a collection of a __type(name:) result lists a name twice: "+strings.Join(dups, "; "), replay(obj{"real": data}), false)
		return false
	}

	// ---- (b) includeDeprecated omitted / false / true
	cands := []string{"__Directive"}
	for _, n := range m.Closure {
		mt := modelType(modelFull, n)
		dep := false
		for _, f := range asArr(mt["fields"]) {
			dep = dep || asObj(f)["isDeprecated"] == true
		}
		for _, f := range asArr(mt["enumValues"]) {
			dep = dep || asObj(f)["isDeprecated"] == true
		}
		if dep && n != "__Directive" {
			cands = append(cands, n)
		}
	}
	if len(cands) > 4 {
		cands = cands[:4]
	}
	q.Reset()
	q.WriteString("{ ")
	for i, n := range cands {
		fmt.Fprintf(&q, `d%d: __type(name: %q) { fOmit: fields { name isDeprecated } fFalse: fields(includeDeprecated: false) { name } fTrue: fields(includeDeprecated: true) { name isDeprecated deprecationReason } eOmit: enumValues { name } eFalse: enumValues(includeDeprecated: false) { name } eTrue: enumValues(includeDeprecated: true) { name isDeprecated deprecationReason } } `, i, n)
	}
	q.WriteString("}")
	data, errs, pan = do(w.schema, q.String())
	if pan != nil || len(errs) > 0 {
		run.Violation(fmt.Sprintf("includeDeprecated query failed: panic=%v errors=%v", pan, errs), replay(obj{"query": q.String()}), false)
		return false
	}
	for i, n := range cands {
		got := asObj(asObj(data)[fmt.Sprintf("d%d", i)])
		mt := modelType(modelFull, n)
		notDep := func(o obj) bool { return o["isDeprecated"] != true }
		for _, chk := range []struct {
			alias, coll string
			keep        func(obj) bool
		}{{"fOmit", "fields", notDep}, {"fFalse", "fields", notDep}, {"fTrue", "fields", nil}, {"eOmit", "enumValues", notDep}, {"eFalse", "enumValues", notDep}, {"eTrue", "enumValues", nil}} {
			var want interface{}
			if mt[chk.coll] != nil {
				want = namesOf(asArr(mt[chk.coll]), chk.keep)
			}
			var have interface{}
			if got[chk.alias] != nil {
				have = namesOf(asArr(got[chk.alias]), nil)
			}
			if hx.Canon(have) != hx.Canon(want) {
				run.Violation(fmt.Sprintf("%s of %s (includeDeprecated %s): real %s, model %s", chk.coll, n, chk.alias, hx.Canon(have), hx.Canon(want)), replay(obj{"type": n, "real": got, "model": mt}), false)
				return false
			}
			if chk.keep == nil && want != nil {
				// flags and reasons under includeDeprecated: true
				for _, e := range asArr(got[chk.alias]) {
					eo := asObj(e)
					me := findNamed(asArr(mt[chk.coll]), asStr(eo["name"]))
					if hx.Canon(eo["isDeprecated"]) != hx.Canon(me["isDeprecated"]) || hx.Canon(eo["deprecationReason"]) != hx.Canon(me["deprecationReason"]) {
						run.Violation(fmt.Sprintf("deprecation of %s.%s: real %s/%s, model %s/%s", n, asStr(eo["name"]), hx.Canon(eo["isDeprecated"]), hx.Canon(eo["deprecationReason"]), hx.Canon(me["isDeprecated"]), hx.Canon(me["deprecationReason"])), replay(obj{"type": n, "real": got, "model": mt}), false)
						return false
					}
				}
			}
		}
		run.Tag("includeDeprecated:type-checked")
	}

	// ---- (c) __typename on the introspection objects themselves
	data, errs, pan = do(w.schema, `{ __typename __schema { __typename queryType { __typename name } types { __typename } directives { __typename args { __typename type { __typename ofType { __typename } } } } } t: __type(name: "__Field") { __typename fields { __typename type { __typename } } } e: __type(name: "__TypeKind") { enumValues { __typename } } }`)
	if pan != nil || len(errs) > 0 {
		run.Violation(fmt.Sprintf("meta __typename query failed: panic=%v errors=%v", pan, errs), replay(nil), false)
		return false
	}
	bad := ""
	var walk func(v interface{}, want string, path string)
	expectKey := map[string]string{"__schema": "__Schema", "queryType": "__Type", "types": "__Type", "directives": "__Directive", "args": "__InputValue", "type": "__Type", "ofType": "__Type", "t": "__Type", "e": "__Type", "fields": "__Field", "enumValues": "__EnumValue"}
	walk = func(v interface{}, want string, path string) {
		switch x := v.(type) {
		case map[string]interface{}:
			if tn, ok := x["__typename"]; ok && asStr(tn) != want && bad == "" {
				bad = fmt.Sprintf("%s: __typename %q, want %q", path, asStr(tn), want)
			}
			for k, c := range x {
				if k != "__typename" {
					walk(c, expectKey[k], path+"/"+k)
				}
			}
		case []interface{}:
			for _, e := range x {
				walk(e, want, path)
			}
		}
	}
	walk(data, d.Query, "")
	if bad != "" {
		run.Violation("__typename on introspection objects: "+bad, replay(obj{"real": data}), false)
		return false
	}

	// ---- (d) __typename names the runtime object type behind object / interface / union positions
	root := d.Type(d.Query)
	q.Reset()
	q.WriteString("{ __typename ")
	want := obj{"__typename": d.Query}
	nSel := 0
	for _, f := range w.compositeFields(d, root) {
		te, _ := gq.ParseType(f.Type)
		fmt.Fprintf(&q, "%s__%s: %s %s ", root.Name, f.Name, f.Name, w.selection(d, te.NamedName(), 2))
		want[root.Name+"__"+f.Name] = w.expectation(d, te, root.Name+"."+f.Name, 2)
		nSel++
	}
	q.WriteString("}")
	data, errs, pan = do(w.schema, q.String())
	if pan != nil || len(errs) > 0 {
		run.Violation(fmt.Sprintf("runtime __typename query failed: panic=%v errors=%v", pan, errs), replay(obj{"query": q.String()}), false)
		return false
	}
	if hx.Canon(data) != hx.Canon(roundJSON(want)) {
		run.Violation("__typename does not name the runtime object type at "+firstDiff(data, roundJSON(want), ""), replay(obj{"query": q.String(), "real": data, "expected": want}), false)
		return false
	}
	if nSel > 0 {
		run.Tag("__typename:runtime-checked")
	}
	return true
}
