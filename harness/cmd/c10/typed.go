package main

import (
	"reflect"

	"github.com/graphql-go/graphql"

	"verif/harness/gq"
)

// typedForm turns the generic Go form of a default ([]interface{} / map[string]interface{} trees, as gq.FromWire
// builds them) into what a Go program would typically configure: typed slices ([]string, []int, []float64, []bool,
// [][]int …, []map[string]interface{}) wherever all elements of a slice have one Go type. pick decides per slice
// (by a path key) whether to convert, so that both forms occur. The value denotes the same default; the literal
// introspection reports must be the same.
func typedForm(v interface{}, key string, pick func(string) bool) interface{} {
	switch x := v.(type) {
	case map[string]interface{}:
		out := map[string]interface{}{}
		for k, e := range x {
			out[k] = typedForm(e, key+"."+k, pick)
		}
		return out
	case []interface{}:
		elems := make([]interface{}, len(x))
		for i, e := range x {
			elems[i] = typedForm(e, key+"/", pick)
		}
		if !pick(key) {
			return elems
		}
		var et reflect.Type
		for _, e := range elems {
			if e == nil {
				return elems // a nil element has no typed form
			}
			t := reflect.TypeOf(e)
			if et == nil {
				et = t
			} else if et != t {
				return elems // mixed element types (e.g. int and float64 in a Float list) stay generic
			}
		}
		if et == nil {
			et = reflect.TypeOf("") // empty list: any element type will do
			if pick(key + "#int") {
				et = reflect.TypeOf(0)
			}
		}
		out := reflect.MakeSlice(reflect.SliceOf(et), 0, len(elems))
		for _, e := range elems {
			out = reflect.Append(out, reflect.ValueOf(e))
		}
		return out.Interface()
	}
	return v
}

// retypeDefaults replaces, in the built type objects, the configured defaults by their typed form.
func retypeDefaults(d *gq.SchemaDesc, b *gq.Built, salt uint64) (changed int) {
	pick := func(key string) bool { return hash(salt, "typed", key)%2 == 0 }
	conv := func(owner string, cur interface{}) interface{} {
		if cur == nil {
			return nil
		}
		n := typedForm(cur, owner, pick)
		if !reflect.DeepEqual(reflect.TypeOf(n), reflect.TypeOf(cur)) || !reflect.DeepEqual(n, cur) {
			changed++
		}
		return n
	}
	for _, td := range d.Types {
		switch t := b.Types[td.Name].(type) {
		case *graphql.Object:
			for fname, f := range t.Fields() {
				for _, a := range f.Args {
					a.DefaultValue = conv(td.Name+"."+fname+"("+a.PrivateName+")", a.DefaultValue)
				}
			}
		case *graphql.Interface:
			for fname, f := range t.Fields() {
				for _, a := range f.Args {
					a.DefaultValue = conv(td.Name+"."+fname+"("+a.PrivateName+")", a.DefaultValue)
				}
			}
		case *graphql.InputObject:
			for fname, f := range t.Fields() {
				f.DefaultValue = conv(td.Name+"."+fname, f.DefaultValue)
			}
		}
	}
	for _, dir := range b.Schema.Directives() {
		if dir.Name == "skip" || dir.Name == "include" || dir.Name == "deprecated" {
			continue // shared library objects
		}
		for _, a := range dir.Args {
			a.DefaultValue = conv("@"+dir.Name+"("+a.PrivateName+")", a.DefaultValue)
		}
	}
	return changed
}

// untype is the inverse view: typed slices / maps back to the generic form gq.ToWire understands (a coerced input
// object may contain a field default, which is now a typed slice).
func untype(v interface{}) interface{} {
	if v == nil {
		return nil
	}
	rv := reflect.ValueOf(v)
	switch rv.Kind() {
	case reflect.Slice:
		out := make([]interface{}, rv.Len())
		for i := 0; i < rv.Len(); i++ {
			out[i] = untype(rv.Index(i).Interface())
		}
		return out
	case reflect.Map:
		if rv.Type().Key().Kind() == reflect.String {
			out := map[string]interface{}{}
			for _, k := range rv.MapKeys() {
				out[k.String()] = untype(rv.MapIndex(k).Interface())
			}
			return out
		}
	}
	return v
}
