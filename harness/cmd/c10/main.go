// C10 harness: introspection describes the schema exactly.
//
// For generated schemas (gen.SchemaGen + decorate: arbitrary wrapping depth, defaults of every input kind, enums with
// non-name internal values, deprecations, descriptions, custom directives, subscription root, thunked members) built
// with arbitrary splits of the named types into SchemaConfig.Types / AppendType (random orders) / withheld, the real
// result of the full introspection query is compared with the Lean model `introspect` (driver drv_c10), both
// canonicalised by sorting every collection of named things by name. Partial queries (__type(name:), includeDeprecated
// on/off/omitted, __typename on meta objects and on runtime objects behind object / interface / union fields) are
// compared with the corresponding projection of the model. Every reported defaultValue is parsed with the real
// parser and coerced with graphql.VerifValueFromAST against the argument's type; the result must be the configured
// default (round-trip clause).
package main

import (
	"encoding/json"
	"fmt"
	"sort"
	"strings"
	"time"

	"github.com/graphql-go/graphql"
	"github.com/graphql-go/graphql/language/ast"
	"github.com/graphql-go/graphql/language/parser"
	"github.com/graphql-go/graphql/language/source"
	"github.com/graphql-go/graphql/testutil"

	"verif/harness/gq"
	"verif/harness/hx"
)

// ---------------------------------------------------------------- queries

func typeRefFragment(depth int) string {
	var b strings.Builder
	b.WriteString("fragment TypeRef on __Type { kind name ")
	for i := 0; i < depth; i++ {
		b.WriteString("ofType { kind name ")
	}
	for i := 0; i < depth; i++ {
		b.WriteString("} ")
	}
	b.WriteString("}")
	return b.String()
}

const fullTypeFragment = `fragment FullType on __Type { kind name description
 fields(includeDeprecated: true) { name description args { ...InputValue } type { ...TypeRef } isDeprecated deprecationReason }
 inputFields { ...InputValue } interfaces { ...TypeRef }
 enumValues(includeDeprecated: true) { name description isDeprecated deprecationReason }
 possibleTypes { ...TypeRef } }
fragment InputValue on __InputValue { name description type { ...TypeRef } defaultValue }
`

func fullQuery(depth int) string {
	if depth == 7 {
		return testutil.IntrospectionQuery // the standard query, verbatim
	}
	return `query IntrospectionQuery { __schema { queryType { name } mutationType { name } subscriptionType { name }
 types { ...FullType } directives { name description locations args { ...InputValue } onOperation onFragment onField } } }
` + fullTypeFragment + typeRefFragment(depth)
}

// ---------------------------------------------------------------- JSON helpers

type obj = map[string]interface{}

func asObj(v interface{}) obj {
	m, _ := v.(map[string]interface{})
	return m
}
func asArr(v interface{}) []interface{} {
	a, _ := v.([]interface{})
	return a
}
func asStr(v interface{}) string {
	s, _ := v.(string)
	return s
}

// roundJSON turns any Go value into generic JSON data (json.Number for numbers).
func roundJSON(v interface{}) interface{} {
	b, err := json.Marshal(v)
	if err != nil {
		return "!marshal:" + err.Error()
	}
	dec := json.NewDecoder(strings.NewReader(string(b)))
	dec.UseNumber()
	var out interface{}
	if err := dec.Decode(&out); err != nil {
		return "!decode:" + err.Error()
	}
	return out
}

var namedCollections = map[string]bool{"types": true, "fields": true, "inputFields": true, "enumValues": true,
	"possibleTypes": true, "interfaces": true, "args": true, "directives": true}

// canonicalise sorts every collection of named things by name (in place), recording for each kind of collection
// whether the order it arrived in was already sorted, and reporting duplicate names.
func canonicalise(v interface{}, order map[string][2]int, dups *[]string, path string) {
	switch x := v.(type) {
	case map[string]interface{}:
		for k, c := range x {
			if arr, ok := c.([]interface{}); ok && namedCollections[k] {
				names := make([]string, len(arr))
				for i, e := range arr {
					names[i] = asStr(asObj(e)["name"])
				}
				if len(arr) >= 2 {
					o := order[k]
					if sort.StringsAreSorted(names) {
						o[0]++
					} else {
						o[1]++
					}
					order[k] = o
				}
				seen := map[string]bool{}
				for _, n := range names {
					if seen[n] {
						*dups = append(*dups, path+"/"+k+": "+n)
					}
					seen[n] = true
				}
				sort.SliceStable(arr, func(i, j int) bool { return asStr(asObj(arr[i])["name"]) < asStr(asObj(arr[j])["name"]) })
			}
			canonicalise(c, order, dups, path+"/"+k)
		}
	case []interface{}:
		for _, e := range x {
			p := path
			if n := asStr(asObj(e)["name"]); n != "" {
				p = path + "[" + n + "]"
			}
			canonicalise(e, order, dups, p)
		}
	}
}

func findNamed(arr []interface{}, name string) obj {
	for _, e := range arr {
		if asStr(asObj(e)["name"]) == name {
			return asObj(e)
		}
	}
	return nil
}

func firstDiff(a, b interface{}, path string) string {
	switch x := a.(type) {
	case map[string]interface{}:
		y, ok := b.(map[string]interface{})
		if !ok {
			return path + ": object vs " + hx.Canon(b)
		}
		keys := map[string]bool{}
		for k := range x {
			keys[k] = true
		}
		for k := range y {
			keys[k] = true
		}
		ks := []string{}
		for k := range keys {
			ks = append(ks, k)
		}
		sort.Strings(ks)
		for _, k := range ks {
			xv, xo := x[k]
			yv, yo := y[k]
			if xo != yo {
				return fmt.Sprintf("%s/%s: present real=%v model=%v", path, k, xo, yo)
			}
			if d := firstDiff(xv, yv, path+"/"+k); d != "" {
				return d
			}
		}
		return ""
	case []interface{}:
		y, ok := b.([]interface{})
		if !ok {
			return path + ": array vs " + hx.Canon(b)
		}
		// collections of named things: report a difference of the name lists as such
		xn, yn := []string{}, []string{}
		for _, e := range x {
			if n := asStr(asObj(e)["name"]); n != "" {
				xn = append(xn, n)
			}
		}
		for _, e := range y {
			if n := asStr(asObj(e)["name"]); n != "" {
				yn = append(yn, n)
			}
		}
		if len(xn) == len(x) && len(yn) == len(y) && len(x)+len(y) > 0 && hx.Canon(xn) != hx.Canon(yn) {
			return fmt.Sprintf("%s: names real=%s model=%s", path, hx.Canon(xn), hx.Canon(yn))
		}
		for i := 0; i < len(x) && i < len(y); i++ {
			p := fmt.Sprintf("%s[%d]", path, i)
			if n := asStr(asObj(x[i])["name"]); n != "" {
				p = path + "[" + n + "]"
			}
			if d := firstDiff(x[i], y[i], p); d != "" {
				return d
			}
		}
		if len(x) != len(y) {
			return fmt.Sprintf("%s: length real=%d model=%d", path, len(x), len(y))
		}
		return ""
	}
	if hx.Canon(a) != hx.Canon(b) {
		return fmt.Sprintf("%s: real=%s model=%s", path, hx.Canon(a), hx.Canon(b))
	}
	return ""
}

// ---------------------------------------------------------------- building the real schema

type world struct {
	hist     *history
	retyped  int
	built    *gq.Built
	schema   graphql.Schema
	possible map[string][]string // abstract type name -> possible type names (from the model), for runtime choices
	salt     uint64
}

func goType(b *gq.Built, te *gq.TypeExpr) graphql.Type {
	switch te.Kind {
	case "list":
		return graphql.NewList(goType(b, te.Of))
	case "nonNull":
		return graphql.NewNonNull(goType(b, te.Of))
	}
	if t, ok := b.Types[te.Name]; ok {
		return t
	}
	switch te.Name {
	case "Int":
		return graphql.Int
	case "Float":
		return graphql.Float
	case "String":
		return graphql.String
	case "Boolean":
		return graphql.Boolean
	case "ID":
		return graphql.ID
	}
	return nil
}

func hash(salt uint64, parts ...string) uint64 {
	h := salt ^ 0xcbf29ce484222325
	for _, p := range parts {
		for i := 0; i < len(p); i++ {
			h ^= uint64(p[i])
			h *= 0x100000001b3
		}
		h ^= 0xff
		h *= 0x100000001b3
	}
	return h
}

// listLen: two elements in the outermost list of a field, one in the lists nested inside it (deep nests stay small).
func listLen(key string) int {
	if strings.Contains(key, "/") {
		return 1
	}
	return 2
}

// runtimeValue builds the value a resolver returns for a composite-typed field: objects are tagged with their
// runtime type name, abstract positions pick one of the possible types, the outermost list of a field has two elements.
func (w *world) runtimeValue(d *gq.SchemaDesc, te *gq.TypeExpr, key string) (val interface{}, expect interface{}) {
	switch te.Kind {
	case "nonNull":
		return w.runtimeValue(d, te.Of, key)
	case "list":
		vals, exps := []interface{}{}, []interface{}{}
		for i := 0; i < listLen(key); i++ {
			v, e := w.runtimeValue(d, te.Of, fmt.Sprintf("%s/%d", key, i))
			vals = append(vals, v)
			exps = append(exps, e)
		}
		return vals, exps
	}
	td := d.Type(te.Name)
	if td == nil {
		return nil, nil
	}
	rt := ""
	switch td.Kind {
	case "OBJECT":
		rt = td.Name
	case "INTERFACE", "UNION":
		ps := w.possible[td.Name]
		if len(ps) == 0 {
			return nil, nil
		}
		rt = ps[hash(w.salt, key)%uint64(len(ps))]
	default:
		return nil, nil
	}
	return map[string]interface{}{"__rt": rt}, map[string]interface{}{"__typename": rt}
}

func (w *world) hooks(d *gq.SchemaDesc) gq.Hooks {
	rtOf := func(v interface{}) string {
		m, _ := v.(map[string]interface{})
		s, _ := m["__rt"].(string)
		return s
	}
	return gq.Hooks{
		Resolve: func(typeName, fieldName string) graphql.FieldResolveFn {
			return func(p graphql.ResolveParams) (interface{}, error) {
				td := d.Type(typeName)
				if td == nil {
					return nil, nil
				}
				for _, f := range td.Fields {
					if f.Name == fieldName {
						te, err := gq.ParseType(f.Type)
						if err != nil {
							return nil, nil
						}
						if te.NamedName() == "String" && te.Kind != "list" {
							return "user field " + typeName + "." + fieldName, nil // never the answer to a meta field
						}
						v, _ := w.runtimeValue(d, te, typeName+"."+fieldName)
						return v, nil
					}
				}
				return nil, nil
			}
		},
		ResolveType: func(abstractName string, objects map[string]*graphql.Object) graphql.ResolveTypeFn {
			return func(p graphql.ResolveTypeParams) *graphql.Object { return objects[rtOf(p.Value)] }
		},
		IsTypeOf: func(objName string) graphql.IsTypeOfFn {
			return func(p graphql.IsTypeOfParams) bool { return rtOf(p.Value) == objName }
		},
	}
}

// build constructs the real schema of a case: NewSchema with the initial types, then AppendType in order.
func build(c caseT, w *world) (err error) {
	defer func() {
		if r := recover(); r != nil {
			err = fmt.Errorf("panic while building: %v", r)
		}
	}()
	b, e := gq.Build(c.Desc, w.hooks(c.Desc))
	if e != nil {
		return e
	}
	w.built = b
	// the same defaults, configured the way Go programs do: typed slices instead of []interface{} (per slice, at random)
	w.retyped = retypeDefaults(c.Desc, b, c.Salt)
	if c.Mut != nil {
		// MutX is not gq's (thunked) object but one configured through its AddFieldConfig history
		mine, e := buildMut(c, b)
		if e != nil {
			return e
		}
		b.Types["MutX"], b.Objects["MutX"] = mine, mine
	}
	all := len(c.Appended) == 0 && len(c.Initial) == len(c.Desc.Types) && c.Mut == nil
	if all {
		inOrder := true
		for i, t := range c.Desc.Types {
			if c.Initial[i] != t.Name {
				inOrder = false
			}
		}
		if inOrder {
			w.schema = b.Schema // exactly what gq.Build configured (thunks forced by this very NewSchema)
			return nil
		}
	}
	cfg := graphql.SchemaConfig{Query: b.Objects[c.Desc.Query]}
	if c.Desc.Mutation != nil {
		cfg.Mutation = b.Objects[*c.Desc.Mutation]
	}
	if c.Desc.Subscription != nil {
		cfg.Subscription = b.Objects[*c.Desc.Subscription]
	}
	for _, n := range c.Initial {
		if t, ok := b.Types[n]; ok {
			cfg.Types = append(cfg.Types, t)
		}
	}
	if len(c.Desc.Directives) > 0 {
		cfg.Directives = b.Schema.Directives()
	}
	s, e := graphql.NewSchema(cfg)
	if e != nil {
		return e
	}
	w.schema = s // from here on the one Schema value of the case: plans are bound to &w.schema
	w.hist.step(0)
	for i, n := range c.Appended {
		if t, ok := b.Types[n]; ok {
			if e := w.schema.AppendType(t); e != nil {
				return fmt.Errorf("AppendType(%s): %v", n, e)
			}
		}
		w.hist.step(i + 1)
	}
	return nil
}

func do(s graphql.Schema, q string) (data interface{}, errs []string, panicked interface{}) {
	defer func() {
		if r := recover(); r != nil {
			panicked = fmt.Sprint(r)
		}
	}()
	res := graphql.Do(graphql.Params{Schema: s, RequestString: q})
	for _, e := range res.Errors {
		errs = append(errs, e.Message)
	}
	return roundJSON(res.Data), errs, nil
}

// ---------------------------------------------------------------- literals

func parseLiteral(text string) (v ast.Value, ok bool) {
	defer func() {
		if r := recover(); r != nil {
			v, ok = nil, false
		}
	}()
	val, err := parser.ParseValue(parser.ParseParams{Source: source.NewSource(&source.Source{Body: []byte(text)})})
	if err != nil || val == nil {
		return nil, false
	}
	loc := val.GetLoc()
	if loc == nil || strings.TrimRight(text, " \t\n\r,") != text[:minInt(loc.End, len(text))] {
		return nil, false // ParseValue does not look at what follows the value: the whole text must be one literal
	}
	return val, true
}

func minInt(a, b int) int {
	if a < b {
		return a
	}
	return b
}

func litJSON(v ast.Value) interface{} {
	switch x := v.(type) {
	case *ast.IntValue:
		return obj{"num": x.Value}
	case *ast.FloatValue:
		return obj{"num": x.Value}
	case *ast.StringValue:
		return obj{"str": x.Value}
	case *ast.BooleanValue:
		return obj{"bool": x.Value}
	case *ast.EnumValue:
		return obj{"enum": x.Value}
	case *ast.ListValue:
		out := []interface{}{}
		for _, e := range x.Values {
			out = append(out, litJSON(e))
		}
		return obj{"list": out}
	case *ast.ObjectValue:
		out := []interface{}{}
		for _, f := range x.Fields {
			out = append(out, []interface{}{f.Name.Value, litJSON(f.Value)})
		}
		return obj{"obj": out}
	}
	return obj{"other": fmt.Sprintf("%T", v)}
}

func canonWire(v interface{}) string { return hx.Canon(gq.ToWire(gq.FromWire(untype(v)))) }

// ---------------------------------------------------------------- model response

type reread struct {
	OK bool        `json:"ok"`
	V  interface{} `json:"v"`
}

type modelDefault struct {
	Owner      string      `json:"owner"`
	Type       string      `json:"type"`
	Value      interface{} `json:"value"`
	Text       *string     `json:"text"` // null: the value has no literal, the resolver reports null
	Lit        interface{} `json:"lit"`
	Reread     reread      `json:"reread"`
	Conformant bool        `json:"conformant"`
	ScalarLike bool        `json:"scalarLike"`
	PinnedText string      `json:"pinnedText"`
}

type modelResp struct {
	WF       bool           `json:"wf"`
	Tree     interface{}    `json:"tree"`
	Closure  []string       `json:"closure"`
	Defaults []modelDefault `json:"defaults"`
}

// locate finds the reported defaultValue of an owner ("T.f(a)", "T.f", "@d(a)") in a canonical tree.
func locate(tree interface{}, owner string) (interface{}, bool) {
	sch := asObj(asObj(tree)["__schema"])
	var holder obj
	if strings.HasPrefix(owner, "@") {
		i := strings.Index(owner, "(")
		d := findNamed(asArr(sch["directives"]), owner[1:i])
		holder = findNamed(asArr(d["args"]), owner[i+1:len(owner)-1])
	} else {
		dot := strings.Index(owner, ".")
		t := findNamed(asArr(sch["types"]), owner[:dot])
		rest := owner[dot+1:]
		if i := strings.Index(rest, "("); i >= 0 {
			f := findNamed(asArr(t["fields"]), rest[:i])
			holder = findNamed(asArr(f["args"]), rest[i+1:len(rest)-1])
		} else {
			holder = findNamed(asArr(t["inputFields"]), rest)
		}
	}
	if holder == nil {
		return nil, false
	}
	v, ok := holder["defaultValue"]
	return v, ok
}

func main() {
	run := hx.Begin("C10")
	drv, err := hx.StartDriver(run.DriverBin)
	if err != nil {
		run.CheckError("cannot start driver: " + err.Error())
		run.Finish()
		return
	}
	defer drv.Close()
	run.Res.Rule = "schemas from gen.SchemaGen extended by decorate (descriptions, enums with nil/int/non-name/clashing internal values, input objects with defaults of every kind, list/non-null nests up to 9 layers, deprecations, custom directives, subscription root, an object reachable only through Types); named types split at random into SchemaConfig.Types (shuffled) / AppendType (shuffled) / withheld; full introspection query with TypeRef depth 7 (standard text), exactly-needed, or too small; a schema case is non-trivial when the described type map has an abstract type with >= 1 possible type and >= 1 configured default, distinct by (schema, split, depth); every reported default is counted as a case of the round-trip clause as well, non-trivial when conformant and of enum / input-object / list kind, distinct by (type, value, text); one in three cases with AppendType steps also runs a held-plan history (plans of the full and a partial introspection query made by PlanQuery and PlanCache.Get after 0 / some / all steps, each executed after every later checkpoint against the model of the schema at that point), counted as one more case"

	orderTotals := map[string][2]int{}
	var tDriver time.Duration
	stage := map[string]float64{}

	one := func(c caseT) {
		w := &world{salt: c.Salt, possible: map[string][]string{}}
		tb := time.Now()
		defer func() { stage["total"] += time.Since(tb).Seconds() }()
		if c.Invalid == "" {
			w.hist = newHistory(c, w, drv)
		}
		err := build(c, w)
		stage["build"] += time.Since(tb).Seconds()
		if c.Invalid != "" {
			// the configuration breaks a construction rule the theorems assume: it must not become a schema
			run.Case(hx.Canon(c), true, nil)
			if err == nil {
				run.Violation("NewSchema accepted a configuration that is not well-formed ("+c.Invalid+"): the hypotheses of possibleTypes_nodup / default_roundtrip are not consequences of construction", map[string]interface{}{"case": c}, false)
				return
			}
			run.Tag("invalid-config-rejected:" + c.Invalid)
			return
		}
		if err != nil {
			run.Tag("schema-rejected")
			if run.Res.Histogram["schema-rejected"] <= 3 {
				run.Res.Extra[fmt.Sprintf("schema-rejected-%d", run.Res.Histogram["schema-rejected"])] = err.Error()
			}
			return
		}
		supplied := append(append([]string{}, c.Initial...), c.Appended...)
		var m modelResp
		req := map[string]interface{}{"schema": c.Desc, "supplied": supplied, "depth": c.Depth}
		t0 := time.Now()
		if err := drv.Ask(req, &m); err != nil {
			run.CheckError(err.Error())
			return
		}
		tDriver += time.Since(t0)
		replay := func(extra obj) obj {
			out := obj{"case": c}
			for k, v := range extra {
				out[k] = v
			}
			return out
		}

		if w.hist != nil {
			// last checkpoint of the held-plan history: every plan made so far against the final schema
			modelCopy := roundJSON(m.Tree)
			w.hist.at(len(c.Appended), modelCopy)
			run.Tag("held-plan-history")
			run.Case("history|"+hx.Canon(c), true, nil)
			run.Res.Extra["held_plan_executions"] = toInt(run.Res.Extra["held_plan_executions"]) + w.hist.executed
			if w.hist.violation != "" {
				run.Violation(w.hist.violation, replay(w.hist.extra), false)
				return
			}
		}
		if !m.WF {
			run.Violation("NewSchema built a schema that violates the well-formedness hypotheses of the C10 theorems (wfInputTypes / membersOnce)", replay(nil), false)
			return
		}

		// ---- full query
		tq := time.Now()
		data, errs, pan := do(w.schema, fullQuery(c.Depth))
		stage["fullquery"] += time.Since(tq).Seconds()
		if pan != nil || len(errs) > 0 {
			run.Violation(fmt.Sprintf("the full introspection query failed: panic=%v errors=%v", pan, errs), replay(obj{"errors": errs, "panic": pan}), false)
			return
		}
		order := map[string][2]int{}
		dups := []string{}
		modelTree := m.Tree
		mOrder := map[string][2]int{}
		mDups := []string{}
		realRaw := roundJSON(data)    // order as delivered
		modelRaw := roundJSON(m.Tree) // order as the model has it
		canonicalise(data, order, &dups, "")
		canonicalise(modelTree, mOrder, &mDups, "")
		realFull, modelFull := data, modelTree
		for k, v := range order {
			t := orderTotals[k]
			t[0] += v[0]
			t[1] += v[1]
			orderTotals[k] = t
			if v[1] > 0 {
				run.Tag("order:" + k + ":unsorted-seen")
			} else {
				run.Tag("order:" + k + ":sorted")
			}
		}

		sch := asObj(asObj(realFull)["__schema"])
		nAbstract, nDefaults := 0, len(m.Defaults)
		for _, t := range asArr(asObj(asObj(modelFull)["__schema"])["types"]) {
			to := asObj(t)
			if pts := asArr(to["possibleTypes"]); len(pts) > 0 {
				nAbstract++
				names := []string{}
				for _, p := range pts {
					names = append(names, asStr(asObj(p)["name"]))
				}
				w.possible[asStr(to["name"])] = names
			}
		}
		key := hx.Canon(c)
		run.Case(key, nAbstract > 0 && nDefaults > 0, obj{"types": len(asArr(sch["types"])), "closure": len(m.Closure), "defaults": nDefaults,
			"initial": len(c.Initial), "appended": len(c.Appended), "declared": len(c.Desc.Types), "depth": c.Depth})
		run.Tag(fmt.Sprintf("depth:%d", c.Depth))
		switch {
		case len(c.Appended) > 0 && len(c.Initial) > 0:
			run.Tag("split:initial+appended")
		case len(c.Appended) > 0:
			run.Tag("split:appended-only")
		case len(c.Initial) == 0:
			run.Tag("split:roots-only")
		default:
			run.Tag("split:all-initial")
		}
		inMap := map[string]bool{}
		for _, n := range m.Closure {
			inMap[n] = true
		}
		for _, t := range c.Desc.Types {
			if !inMap[t.Name] {
				run.Tag("some-declared-type-not-in-type-map")
				break
			}
		}
		if c.Desc.Subscription != nil {
			run.Tag("has-subscription")
		}
		for _, n := range c.Appended {
			if n == "LateU" || n == "LateHolder" || n == "LateI" {
				run.Tag("appended-non-implementer-brings-in-implementers-of-existing-interfaces")
				break
			}
		}
		// sole-reference groups: the argument is the only path of these types into the type map
		suppliedSet := map[string]bool{}
		for _, n := range supplied {
			suppliedSet[n] = true
		}
		for _, g := range []struct{ pre, tag string }{
			{"Ao", "sole-path:interface-field-argument-types(no-implementer-in-type-map)"},
			{"Oo", "sole-path:object-field-argument-types"},
			{"Do", "sole-path:directive-argument-types"}} {
			if c.Desc.Type(g.pre+"In") == nil {
				continue
			}
			only := true
			for _, t := range c.Desc.Types {
				if strings.HasPrefix(t.Name, g.pre) && suppliedSet[t.Name] && t.Name != "AoI" {
					only = false
				}
			}
			if only && inMap[g.pre+"Enum"] && inMap[g.pre+"In"] && inMap[g.pre+"Enum2"] {
				run.Tag(g.tag)
				if g.pre == "Ao" && c.Desc.Type("HeldImpl") != nil {
					run.Tag(g.tag + ":implementer-withheld")
				}
			}
		}
		for _, t := range c.Desc.Types {
			for _, f := range t.Fields {
				if f.Name == "__typename" || (t.Name == c.Desc.Query && (f.Name == "__type" || f.Name == "__schema")) {
					run.Tag("user-field-named-like-meta-field:" + f.Name)
				}
			}
		}
		if c.Mut != nil {
			run.Tag(fmt.Sprintf("AddFieldConfig-history:fieldsFirst=%d", c.Mut.FieldsFirst))
			if len(c.Mut.Added) > 0 {
				run.Tag("AddFieldConfig-history:new-field-added")
			}
		}
		for _, n := range c.Scrubbed {
			if !inMap[n] {
				run.Tag("built-in-scalar-absent-from-type-map:" + n)
			}
		}
		if w.retyped > 0 {
			run.Tag("has-defaults-configured-as-typed-slices")
		}
		if len(c.Desc.Directives) > 0 {
			run.Tag("has-custom-directives")
		}

		if len(dups) > 0 {
			run.Violation("a collection of the introspection result lists a name twice: "+strings.Join(dups, "; "), replay(obj{"real": realRaw, "model": modelRaw}), false)
			return
		}
		if d := firstDiff(realFull, modelFull, ""); d != "" {
			run.Violation("full introspection result differs from the model at "+d, replay(obj{"real": realFull, "model": modelFull, "diff": d}), false)
			return
		}
		// ---- order: same content; now the order as delivered against the model's order. The library sorts types,
		// fields, args, inputFields, enumValues and the possibleTypes of an interface by name (repairs 95d672d, 1a391ce,
		// cc74aef, 541f50e) and keeps interfaces, union members, directives and locations as configured.
		if d := firstDiff(realRaw, modelRaw, ""); d != "" {
			run.Violation("introspection result has the model's content but not its order, at "+d, replay(obj{"real": realRaw, "model": modelRaw, "diff": d}), false)
			return
		}

		// ---- defaults: text (already compared above), literal, coercion, round trip
		for _, md := range m.Defaults {
			realV, found := locate(realFull, md.Owner)
			if !found {
				run.Violation("default owner not found in the real result: "+md.Owner, replay(obj{"real": realFull}), false)
				return
			}
			te, _ := gq.ParseType(md.Type)
			gt := goType(w.built, te)
			kindTag := "scalarLike"
			if !md.ScalarLike {
				kindTag = "enumOrObjectKind"
			}
			if !md.Conformant {
				kindTag += "/nonconformant"
			}
			tag := "default:" + kindTag
			realText, isStr := realV.(string)
			if (md.Text == nil) != !isStr || (isStr && realText != *md.Text) {
				run.Violation(fmt.Sprintf("defaultValue of %s is %s, the model says %s", md.Owner, hx.Canon(realV), hx.Canon(md.Text)), replay(obj{"default": md, "real_text": realV}), false)
				return
			}
			if !isStr {
				// the configured value has no literal (not a value of the enum, not a map for an input object …)
				if md.Conformant {
					run.Violation("a conformant default is reported as null: "+md.Owner, replay(obj{"default": md}), false)
					return
				}
				run.Tag(tag + ":reported-null(outside the quantifier)")
				continue
			}
			if realText != md.PinnedText {
				run.Tag("default:text-differs-from-pinned-tree(D-10a repaired)")
			}
			val, ok := parseLiteral(realText)
			var gotLit interface{}
			if ok {
				gotLit = roundJSON(litJSON(val))
			}
			if hx.Canon(gotLit) != hx.Canon(md.Lit) {
				run.Violation("parser.ParseValue and the model's reader disagree on a reported default: "+md.Owner, replay(obj{"default": md, "real_lit": gotLit}), false)
				return
			}
			roundtrip := false
			var coerced interface{}
			if ok && gt != nil {
				func() {
					defer func() {
						if r := recover(); r != nil {
							coerced = obj{"$panic": fmt.Sprint(r)}
						}
					}()
					coerced = graphql.VerifValueFromAST(val, gt.(graphql.Input), nil)
				}()
				if !md.Reread.OK || canonWire(coerced) != canonWire(md.Reread.V) {
					run.Violation("valueFromAST of a reported default differs from the model's coerceLit: "+md.Owner, replay(obj{"default": md, "real_coerced": gq.ToWire(untype(coerced))}), false)
					return
				}
				roundtrip = canonWire(coerced) == canonWire(md.Value)
			}
			run.Case("default|"+md.Type+"|"+hx.Canon(md.Value)+"|"+realText, md.Conformant && (!md.ScalarLike || strings.Contains(md.Type, "[")), nil)
			switch {
			case roundtrip:
				run.Tag(tag + ":roundtrip-ok")
			case !md.Conformant:
				run.Tag(tag + ":no-roundtrip(outside the quantifier)")
			default:
				run.Violation(fmt.Sprintf("a conformant default does not round-trip: %s : %s = %s reported as %q reads back as %s", md.Owner, md.Type, hx.Canon(md.Value), realText, describeReread(ok, coerced)), replay(obj{"default": md, "real_text": realText, "real_coerced": gq.ToWire(untype(coerced))}), false)
				return
			}
		}

		// ---- partial queries
		tp := time.Now()
		defer func() { stage["partial"] += time.Since(tp).Seconds() }()
		if !partial(run, c, w, &m, realFull, modelFull, replay) {
			return
		}
	}

	if run.ReplayIn != "" {
		var rp struct {
			Case caseT `json:"case"`
		}
		if err := hx.LoadReplay(run.ReplayIn, &rp); err != nil {
			run.CheckError(err.Error())
		} else if rp.Case.Desc == nil {
			run.CheckError("replay file has no case")
		} else {
			one(rp.Case)
		}
		run.Finish()
		return
	}

	n := run.N(100, 6000)
	for i := 0; i < n && !run.TooManyViolations(); i++ {
		r := hx.Fork(run.Seed, i)
		c := genCase(r)
		// wire-normalise the description so that a replayed case is byte-identical to the generated one
		var c2 caseT
		b, _ := json.Marshal(c)
		dec := json.NewDecoder(strings.NewReader(string(b)))
		dec.UseNumber()
		if err := dec.Decode(&c2); err != nil {
			run.CheckError("case does not survive JSON: " + err.Error())
			continue
		}
		one(c2)
	}
	run.Res.Extra["order_observed(sorted,unsorted)"] = orderTotals
	run.Res.Extra["driver_wall_s"] = tDriver.Seconds()
	run.Res.Extra["stage_wall_s"] = stage
	run.Finish()
}

func toInt(v interface{}) int {
	i, _ := v.(int)
	return i
}

func describeReread(ok bool, coerced interface{}) string {
	if !ok {
		return "no literal"
	}
	return canonWire(coerced)
}
