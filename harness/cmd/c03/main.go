// C03 harness, parser half: parser.Parse on source text against the Lean model M (token-level
// recursive descent, bug-faithful) and the grammar recogniser S. The tokens given to the model come
// from the REAL lexer, iterated exactly as the parser's advance() does, so this unit is independent of
// the lexer model.
//
// Streams: (a) every token sequence up to length 3 (quick) / 4 (thorough) over the full alphabet;
// (b) every sequence over a reduced 12-symbol alphabet up to length 6 / 8, placed in five contexts,
// enumerated as the tree of viable prefixes (a prefix the real parser rejects strictly before its end is
// run once and not extended); (c) documents from gen.DocGen; (d) token-level mutations of those.
package main

import (
	"bytes"
	"encoding/json"
	"fmt"
	"strings"

	"github.com/graphql-go/graphql/gqlerrors"
	"github.com/graphql-go/graphql/language/ast"
	"github.com/graphql-go/graphql/language/lexer"
	"github.com/graphql-go/graphql/language/parser"
	"github.com/graphql-go/graphql/language/source"

	"verif/harness/astjson"
	"verif/harness/gen"
	"verif/harness/hx"
)

type tok = []interface{} // [kind, start, end, value]

// lexAll iterates the real lexer the way the parser does: first lex(0), then lex(previous.End).
func lexAll(src string) (toks []tok, raw []lexer.Token, lexErrPos int, ok bool) {
	s := source.NewSource(&source.Source{Body: []byte(src)})
	lx := lexer.Lex(s)
	t, err := lx(0)
	for n := 0; ; n++ {
		if err != nil {
			pos := -1
			if ge, isGe := err.(*gqlerrors.Error); isGe && len(ge.Positions) > 0 {
				pos = ge.Positions[0]
			}
			return toks, raw, pos, false
		}
		toks = append(toks, tok{int(t.Kind), t.Start, t.End, t.Value})
		raw = append(raw, t)
		if t.Kind == lexer.EOF {
			return toks, raw, -1, true
		}
		if n > len(src)+2 {
			return toks, raw, -2, false // the lexer does not make progress
		}
		t, err = lx(t.End)
	}
}

type realOut struct {
	OK      bool        `json:"ok"`
	ErrPos  int         `json:"errPos"`
	Err     string      `json:"err,omitempty"`
	Panic   string      `json:"panic,omitempty"`
	Ast     interface{} `json:"ast,omitempty"`
	BodyMod bool        `json:"bodyModified,omitempty"`
	// Description.Loc of every described node, in document order (the shared AST JSON carries description VALUES only)
	DescLocs [][]int `json:"descLocs"`
}

func realParse(src string) (out realOut) {
	body := []byte(src)
	s := source.NewSource(&source.Source{Body: body})
	defer func() {
		if r := recover(); r != nil {
			out = realOut{Panic: fmt.Sprint(r)}
		}
	}()
	doc, err := parser.Parse(parser.ParseParams{Source: s})
	if !bytes.Equal(s.Body, []byte(src)) {
		out.BodyMod = true
	}
	if err != nil {
		out.ErrPos = -1
		if ge, ok := err.(*gqlerrors.Error); ok && len(ge.Positions) > 0 {
			out.ErrPos = ge.Positions[0]
		}
		msg := err.Error()
		if i := strings.Index(msg, "\n"); i >= 0 {
			msg = msg[:i]
		}
		out.Err = msg
		return out
	}
	out.OK = true
	out.Ast = patchNilTypes(astjson.Document(doc))
	out.DescLocs = descLocs(doc)
	return out
}

// descLocs lists the Loc of every Description child in document order: the definition's own, then (fields: own, then
// their arguments') / enum values' / input fields' / directive arguments'. A nil Loc is rendered [-1,-1].
func descLocs(doc *ast.Document) [][]int {
	out := [][]int{}
	add := func(d *ast.StringValue) {
		if d == nil {
			return
		}
		if d.Loc == nil {
			out = append(out, []int{-1, -1})
			return
		}
		out = append(out, []int{d.Loc.Start, d.Loc.End})
	}
	ivds := func(ds []*ast.InputValueDefinition) {
		for _, d := range ds {
			if d != nil {
				add(d.Description)
			}
		}
	}
	fields := func(fs []*ast.FieldDefinition) {
		for _, f := range fs {
			if f != nil {
				add(f.Description)
				ivds(f.Arguments)
			}
		}
	}
	object := func(x *ast.ObjectDefinition) {
		if x != nil {
			add(x.Description)
			fields(x.Fields)
		}
	}
	if doc == nil {
		return out
	}
	for _, d := range doc.Definitions {
		switch x := d.(type) {
		case *ast.ScalarDefinition:
			add(x.Description)
		case *ast.ObjectDefinition:
			object(x)
		case *ast.InterfaceDefinition:
			add(x.Description)
			fields(x.Fields)
		case *ast.UnionDefinition:
			add(x.Description)
		case *ast.EnumDefinition:
			add(x.Description)
			for _, v := range x.Values {
				if v != nil {
					add(v.Description)
				}
			}
		case *ast.InputObjectDefinition:
			add(x.Description)
			ivds(x.Fields)
		case *ast.TypeExtensionDefinition:
			object(x.Definition)
		case *ast.DirectiveDefinition:
			add(x.Description)
			ivds(x.Arguments)
		}
	}
	return out
}

// Go's nil ast.Type (known finding D-03b) is sent as the sentinel the model uses for it:
// Named "" at [0,0]. VariableDefinition keeps null (the Lean AST has an Option there).
var nilType = astjson.M{"k": "Named", "n": "", "l": []int{0, 0}}

func patchNilTypes(v interface{}) interface{} {
	switch x := v.(type) {
	case astjson.M:
		for k, c := range x {
			x[k] = patchNilTypes(c)
		}
		if t, has := x["t"]; has && t == nil {
			_, isType := x["k"]
			_, isDef := x["desc"]
			if isType || isDef {
				x["t"] = nilType
			}
		}
		return x
	case []interface{}:
		for i, c := range x {
			x[i] = patchNilTypes(c)
		}
		return x
	}
	return v
}

type modelResp struct {
	M struct {
		OK     bool   `json:"ok"`
		ErrPos *int   `json:"errPos"`
		Fuel   bool   `json:"fuel"`
		AstEq  *bool  `json:"astEq"`
		MAst   string `json:"mAst"`
		GAst   string `json:"gAst"`
		NoEOF  bool   `json:"noEOF"`
	} `json:"M"`
	S struct {
		Accept *bool `json:"accept"`
		Fuel   bool  `json:"fuel"`
	} `json:"S"`
	KF         []string        `json:"kf"`
	Blame      *int            `json:"blame"`
	Completion json.RawMessage `json:"completion"`
	Certified  *bool           `json:"certified"`
}

type lazyResp struct {
	Lazy struct {
		Kind string `json:"kind"`
		Pos  *int   `json:"pos"`
	} `json:"lazy"`
	Blame      *int            `json:"blame"`
	Completion json.RawMessage `json:"completion"`
	Certified  *bool           `json:"certified"`
}

type caseT struct {
	Src    string `json:"src"`
	Stream string `json:"stream"`
}

// ---------------------------------------------------------------- alphabets

var punctuators = []string{"!", "$", "(", ")", "...", ":", "=", "@", "[", "]", "{", "|", "}", "&"}
var keywords = []string{"query", "mutation", "subscription", "fragment", "on", "true", "false", "null", "schema", "scalar",
	"type", "interface", "union", "enum", "input", "extend", "directive", "implements"}
var generic = []string{"a", "1", "1.5", "\"s\"", "\"\"\"b\"\"\""}

func fullAlphabet() []string {
	a := append([]string{}, punctuators...)
	a = append(a, keywords...)
	return append(a, generic...)
}

var reducedAlphabet = []string{"[", "]", "!", "{", "}", "(", ")", ":", "$", "=", "a", "1"}

type context struct{ pre, post string }

var contexts = []context{
	{"", ""},
	{"query ( $ a :", ") { a }"},
	{"{ a ( b :", ") }"},
	{"type A { f :", "}"},
	{"query ( $ a : a =", ") { a }"},
}

// lexemes the lexer rejects, one or more per class of lexical error
var badLexemes = []struct{ cls, text string }{
	{"bad-character", "?"}, {"bad-character", "~"}, {"control-character", "\x07"}, {"unterminated-string", "\"abc"},
	{"bad-escape", "\"a\\qb\""}, {"bad-unicode-escape", "\"\\u12G4\""}, {"bad-number", "1."}, {"bad-number", "01"},
	{"bad-number", "1e"}, {"bad-number", "-"}, {"bad-dots", ".."}, {"unterminated-block-string", "\"\"\"abc"},
	{"line-break-in-string", "\"a\nb\""},
}

// contexts for the full alphabet: one hole per kind of production
var fullContexts = []context{
	{"query ( $ a :", ") { a }"},
	{"query ( $ a : a =", ") { a }"},
	{"{ a ( b :", ") }"},
	{"{", "}"},
	{"{ ...", "}"},
	{"{ ...", "{ a } }"},
	{"{ a", "}"},
	{"query", "{ a }"},
	{"fragment", "{ a }"},
	{"type A", "{ a : a }"},
	{"type A { a", "}"},
	{"type A { a ( b :", ") : a }"},
	{"union A =", ""},
	{"enum A {", "}"},
	{"input A {", "}"},
	{"schema {", "}"},
	{"directive @ a", ""},
	{"directive @ a on", ""},
	{"extend", "{ a : a }"},
	{"\"d\"", ""},
}

func main() {
	run := hx.Begin("C03")
	drv, err := hx.StartDriver(run.DriverBin)
	if err != nil {
		run.CheckError("cannot start driver: " + err.Error())
		run.Finish()
		return
	}
	defer drv.Close()
	run.Res.Rule = "source texts: (a) all token sequences over the 37-symbol alphabet (14 punctuators, 18 keywords, name, int, float, string, block string) up to length 3 quick / 4 thorough, single-space separated; (b) all sequences over the 12-symbol alphabet [ ] ! { } ( ) : $ = a 1 up to length 6 / 8 inside 5 contexts (raw, variable type, argument value, field type, variable default), enumerated as the viable-prefix tree; (b') all sequences over the 37-symbol alphabet plus the strings \"on\" and \"implements\" up to length 2 / 3 inside 20 production contexts (variable type/default, argument value, selection, spread, field tail, operation head, fragment head, object head/field/argument definition, union members, enum/input/schema bodies, directive head/locations, extend, after a description); (c) gen.DocGen documents (executable and type-system, Exotic); (d) 1-3 token-level mutations (insert/delete/swap/replace) of (c); (f) described type-system definitions: 13 templates (every definition kind that takes a description, `extend` included) x quoted / block / empty descriptions x glue x inner descriptions (fields, arguments, enum values, input fields, directive arguments) x 12 preceding and 4 following contexts (document start, after plain / described / executable definitions, comment, BOM), pairs of described definitions, and 1-2 token-level mutations of each; (e) a malformed lexeme of each lexical error class (bad character, control character, unterminated string / block string, bad escape, bad unicode escape, bad number, `..`, line break in string) placed right after every token sequence up to length 2 / 3 over the 39-symbol alphabet and after every sequence up to length 1 / 2 inside the 20 production contexts, tokens separated by space / LF / CR / CRLF, with and without trailing tokens, and after a random cut of every mutated document: the offset parser.Parse reports (its own rejection at the current token, or the lexical error of the next lexeme) must be the one the model's lazy-lexing layer selects. Compared: accept/reject real vs M and vs S, AST incl. every location real vs M (the Loc of every Description child too: collected from the Go AST in document order and compared with the extent of the token the described node starts with, GqlModel/DescLoc.lean), error offset real vs M, source body unchanged; on every rejected case outside D-03b (typeRefMalformed): the model's grammar must certify a completion of the tokens before the blamed one (recogniser accepts prefix ++ completion) and parser.Parse must accept the text before the blamed token followed by that completion (ASCII texts). non-trivial = the token list has >= 2 tokens before EOF and the real parser got past the first token (accepted, or error offset > start of the first token); distinct by source text"

	lexErrors := 0
	staleKF := 0
	one := func(c caseT) {
		toks, raw, lexErrPos, lexOK := lexAll(c.Src)
		g := realParse(c.Src)
		run.Tag("stream:" + c.Stream)
		if g.Panic != "" {
			run.Case(c.Src, true, nil)
			run.Violation("parser.Parse panicked: "+g.Panic, map[string]interface{}{"case": c, "real": g}, false)
			return
		}
		if g.BodyMod {
			run.Violation("parser.Parse modified source.Body", map[string]interface{}{"case": c}, false)
			return
		}
		if !lexOK {
			// a malformed lexeme follows the tokens that lexed: parser.Parse lexes one token ahead, so its own rejection at
			// the current token competes with the lexical error of the next one. The model's lazy-lexing layer says which
			// of the two is reported; the offsets must agree.
			lexErrors++
			run.Tag("lex-error")
			if g.OK {
				run.Case(c.Src, true, nil)
				run.Violation("parser.Parse accepted a text on which iterating the lexer fails", map[string]interface{}{"case": c, "lexErrPos": lexErrPos}, false)
				return
			}
			if toks == nil {
				toks = []tok{}
			}
			var lz lazyResp
			if err := drv.Ask(map[string]interface{}{"tokens": toks, "lazy": true}, &lz); err != nil {
				run.CheckError(err.Error())
				return
			}
			want := lexErrPos
			switch lz.Lazy.Kind {
			case "syntax":
				run.Tag("lex-error:parser-rejection-wins")
				if lz.Lazy.Pos == nil {
					run.CheckError("driver: lazy syntax verdict without position")
					return
				}
				want = *lz.Lazy.Pos
			case "lex":
				run.Tag("lex-error:lexical-error-wins")
			default:
				run.Violation("model parser ran out of fuel on a text with a malformed lexeme (model/driver fault)", map[string]interface{}{"case": c, "tokens": toks}, true)
				return
			}
			run.Case(c.Src, len(raw) >= 1, nil)
			lzBad := string(lz.Completion) == "null" || len(lz.Completion) == 0 // D-03b flag up: the prefix went through a malformed type reference
			if lz.Blame != nil && !lzBad && (lz.Certified == nil || !*lz.Certified) {
				run.Violation(fmt.Sprintf("the model blames token %d but the grammar, run as a program, certifies no completion of the tokens before it (Props/C18Syntax.lean certified_completion_viable does not apply)", *lz.Blame), map[string]interface{}{"case": c, "tokens": toks, "model": lz}, true)
				return
			}
			if lz.Blame != nil && !lzBad {
				run.Tag("viable-prefix-certified")
			}
			if g.ErrPos == want && lz.Blame != nil && string(lz.Completion) != "null" && len(lz.Completion) > 0 && isASCII(c.Src) {
				// NOT EARLIER, also here: the tokens before the blamed one (all of them when the lexical error wins) are viable
				k := *lz.Blame
				var comp [][]interface{}
				if string(lz.Completion) == `"none"` || json.Unmarshal(lz.Completion, &comp) != nil {
					run.Violation(fmt.Sprintf("the model blames token %d (malformed lexeme after %d tokens) but the grammar finds no completion of the tokens before it", k, len(raw)), map[string]interface{}{"case": c, "tokens": toks, "model": lz}, true)
					return
				}
				cut := 0
				if k < len(raw) {
					cut = raw[k].Start
				} else if len(raw) > 0 {
					cut = raw[len(raw)-1].End
				}
				parts := []string{}
				for _, t := range comp {
					kind, _ := t[0].(float64)
					val, _ := t[1].(string)
					parts = append(parts, renderTok(lexer.Token{Kind: lexer.TokenKind(int(kind)), Value: val}))
				}
				full := c.Src[:cut] + " " + strings.Join(parts, " ")
				run.Tag("viable-prefix-completion")
				if g2 := realParse(full); !g2.OK {
					run.Violation(fmt.Sprintf("parser.Parse rejects the text before the reported token (index %d) followed by the grammar's completion of it: %q", k, full),
						map[string]interface{}{"case": c, "tokens": toks, "model": lz, "prefix_plus_completion": full, "real_on_completion": g2}, false)
					return
				}
			}
			if g.ErrPos != want {
				run.Violation(fmt.Sprintf("error offset differs on a text with a malformed lexeme: parser.Parse reports %d (%s), the model expects %d (%s error; lexical error at %d): a parser rejection at the current token must be reported before advancing lexes the next token, and only then",
					g.ErrPos, g.Err, want, lz.Lazy.Kind, lexErrPos), map[string]interface{}{"case": c, "tokens": toks, "real": g, "model": lz, "lexErrPos": lexErrPos}, false)
			}
			return
		}
		req := map[string]interface{}{"tokens": toks, "goAst": nil}
		if g.OK {
			req["goAst"] = g.Ast
			req["descLocs"] = g.DescLocs
			if len(g.DescLocs) > 0 {
				run.Tag("description-locs-compared")
			}
			if c.Stream == "described" {
				run.Tag("described:accepted")
			}
		}
		var m modelResp
		if err := drv.Ask(req, &m); err != nil {
			run.CheckError(err.Error())
			return
		}
		nontrivial := len(raw) >= 3 && (g.OK || g.ErrPos > raw[0].Start)
		var sample interface{}
		if nontrivial && g.OK && len(raw) > 6 {
			sample = map[string]interface{}{"src": gen.Describe(c.Src), "stream": c.Stream, "accepted": g.OK, "tokens": len(raw)}
		}
		run.Case(c.Src, nontrivial, sample)
		replay := func() map[string]interface{} {
			return map[string]interface{}{"case": c, "tokens": toks, "real": g, "model": m}
		}
		if g.OK {
			run.Tag("real:accept")
		} else {
			run.Tag("real:reject")
		}
		if m.M.Fuel || m.M.NoEOF {
			run.Violation("model parser ran out of fuel or saw no EOF (theorem parse_progress contradicted: model/driver fault)", replay(), true)
			return
		}
		if m.S.Accept == nil {
			run.CheckError("grammar recogniser ran out of fuel on " + c.Src)
			return
		}
		if g.OK != m.M.OK {
			if !g.OK && m.M.OK && len(m.KF) > 0 && !*m.S.Accept {
				// DESIGN section 0, row "differ / holds / listed": the tree rejects what bug-faithful M lets through and the
				// grammar rejects too, i.e. D-03b was repaired in the tree; the known: line is stale, not a violation
				run.Tag("kf-stale:typeRefMalformed")
				staleKF++
				return
			}
			run.Violation(fmt.Sprintf("accept/reject differs: parser.Parse ok=%v, model ok=%v", g.OK, m.M.OK), replay(), false)
			return
		}
		if g.OK {
			if m.M.AstEq == nil || !*m.M.AstEq {
				note := "AST (shape, values or a node location) of parser.Parse differs from the model's"
				if i, j := strings.LastIndex(m.M.MAst, " descLocs["), strings.LastIndex(m.M.GAst, " descLocs["); i >= 0 && j >= 0 && m.M.MAst[:i] == m.M.GAst[:j] {
					note = fmt.Sprintf("the Loc of a Description child differs (document order; want = extent of the token the described node starts with): parser.Parse%s, model%s", m.M.GAst[j:], m.M.MAst[i:])
				}
				run.Violation(note, replay(), false)
				return
			}
		} else {
			if m.M.ErrPos != nil && len(m.KF) > 0 && g.ErrPos < *m.M.ErrPos {
				// the model let a malformed type reference through before failing later; the tree stops earlier:
				// D-03b repaired in the tree (stale known: line), not a violation
				run.Tag("kf-stale:typeRefMalformed")
				staleKF++
				return
			}
			if m.M.ErrPos == nil || *m.M.ErrPos != g.ErrPos {
				run.Violation(fmt.Sprintf("syntax error offset differs: parser.Parse %d, model %v", g.ErrPos, fmtPtr(m.M.ErrPos)), replay(), false)
				return
			}
			// NOT EARLIER, certificate: for THIS input the model's grammar accepts (tokens before the blamed one) ++ completion,
			// so certified_completion_viable proves the prefix viable (not under D-03b: a prefix that went through a malformed
			// type reference is NOT viable in the grammar, the error surfaces late - NOT EARLIER carries the side condition bad = false)
			if len(m.KF) == 0 && m.Blame != nil && (m.Certified == nil || !*m.Certified) {
				run.Violation(fmt.Sprintf("the model blames token %d but the grammar, run as a program, certifies no completion of the %d tokens before it (Props/C18Syntax.lean certified_completion_viable does not apply)", *m.Blame, *m.Blame), replay(), true)
				return
			}
			if len(m.KF) == 0 && m.Blame != nil {
				run.Tag("viable-prefix-certified")
			}
			// NOT EARLIER: the tokens before the blamed one are the beginning of a valid document - the grammar-side
			// completion of that prefix must exist and the REAL parser must accept prefix + completion (ASCII texts only:
			// token offsets after a multi-byte character are rune-based, D-03a)
			if len(m.KF) == 0 && m.Blame != nil && isASCII(c.Src) {
				k := *m.Blame
				var comp [][]interface{}
				if string(m.Completion) == `"none"` || json.Unmarshal(m.Completion, &comp) != nil {
					run.Violation(fmt.Sprintf("the model blames token %d but the grammar finds no completion of the %d tokens before it: the reported token is not the first at which the text stops being viable", k, k), replay(), true)
					return
				}
				cut := len(c.Src)
				if k < len(raw)-1 {
					cut = raw[k].Start
				}
				parts := []string{}
				for _, t := range comp {
					kind, _ := t[0].(float64)
					val, _ := t[1].(string)
					parts = append(parts, renderTok(lexer.Token{Kind: lexer.TokenKind(int(kind)), Value: val}))
				}
				full := c.Src[:cut] + " " + strings.Join(parts, " ")
				run.Tag("viable-prefix-completion")
				if g2 := realParse(full); !g2.OK {
					rp := replay()
					rp["prefix_plus_completion"] = full
					rp["real_on_completion"] = g2
					run.Violation(fmt.Sprintf("parser.Parse rejects the text before the reported token (index %d) followed by the grammar's completion of it: %q", k, full), rp, false)
					return
				}
			}
		}
		kf := len(m.KF) > 0 && m.M.OK
		if kf {
			run.Tag("kf:typeRefMalformed")
		}
		if g.OK != *m.S.Accept {
			if kf && g.OK && !*m.S.Accept {
				run.KnownFinding("typeRefMalformed", "parseType lets a malformed type reference through (no default case, leading `]`, any token as closing bracket); the grammar rejects, e.g. "+gen.Describe(c.Src))
				return
			}
			run.Violation(fmt.Sprintf("parser.Parse ok=%v but the grammar recogniser says %v (no known-finding predicate holds)", g.OK, *m.S.Accept), replay(), false)
			return
		}
		if kf {
			run.Violation("typeRefMalformed flagged by the model although the grammar accepts the text (KF predicate too wide: model fault)", replay(), true)
		}
	}

	if run.ReplayIn != "" {
		var rp struct {
			Case caseT `json:"case"`
		}
		if err := hx.LoadReplay(run.ReplayIn, &rp); err != nil {
			run.CheckError(err.Error())
		} else {
			one(rp.Case)
		}
		run.Finish()
		return
	}

	// the three canonical inputs of D-03b, replayed on every run
	for _, s := range []string{"query($a: [Int}) {f}", "query($a: ]) {f}", "query($a: ) {f}", "type A { f: }", "query($a: !) {f}"} {
		one(caseT{Src: s, Stream: "d03b"})
	}

	// ---- (a) exhaustive over the full alphabet
	full := fullAlphabet()
	maxA := run.N(3, 4)
	exhaustiveA := true
	var rec func(prefix []string, depth int)
	rec = func(prefix []string, depth int) {
		if run.TooManyViolations() {
			exhaustiveA = false
			return
		}
		one(caseT{Src: strings.Join(prefix, " "), Stream: "full"})
		if depth == maxA {
			return
		}
		for _, s := range full {
			rec(append(prefix, s), depth+1)
		}
	}
	rec(nil, 0)
	run.Res.Extra["full_alphabet"] = map[string]interface{}{"symbols": len(full), "max_len": maxA, "complete": exhaustiveA}

	// ---- (b) reduced alphabet in contexts, viable-prefix tree
	maxB := run.N(6, 8)
	type bstat struct {
		Viable, DeadFrontier int
		PrunedBelow          float64
	}
	bstats := map[string]*bstat{}
	completeB := true
	for _, ctx := range contexts {
		st := &bstat{}
		bstats[ctx.pre+" _ "+ctx.post] = st
		var recB func(seq []string, depth int)
		recB = func(seq []string, depth int) {
			if run.TooManyViolations() {
				completeB = false
				return
			}
			body := strings.Join(seq, " ")
			one(caseT{Src: strings.TrimSpace(ctx.pre + " " + body + " " + ctx.post), Stream: "reduced"})
			if depth == maxB {
				return
			}
			// viable = the real parser does not reject pre+seq strictly before its end
			p := strings.TrimSpace(ctx.pre + " " + body)
			g := realParse(p)
			if !g.OK && g.ErrPos < len(p) {
				st.DeadFrontier++
				n := 1.0
				for d := depth; d < maxB; d++ {
					n *= float64(len(reducedAlphabet))
					st.PrunedBelow += n
				}
				return
			}
			st.Viable++
			for _, s := range reducedAlphabet {
				recB(append(seq, s), depth+1)
			}
		}
		recB(nil, 0)
	}
	run.Res.Extra["reduced_alphabet"] = map[string]interface{}{"symbols": reducedAlphabet, "max_len": maxB, "contexts": contexts2(), "stats": bstats, "complete": completeB,
		"note": "a sequence whose context-prefixed text the real parser rejects strictly before its end is run once (with the context suffix) and not extended: a recursive-descent parser with one token of lookahead cannot be influenced by tokens after the offending one"}
	run.Res.Exhaustive = exhaustiveA && completeB

	// ---- (b') every full-alphabet sequence up to length 2 / 3 inside each production context
	maxC := run.N(2, 3)
	// plus string tokens whose VALUE is a keyword (the parser must look at the kind, not only at the value)
	fullPlus := append(append([]string{}, full...), "\"on\"", "\"implements\"")
	completeC := true
	for _, ctx := range fullContexts {
		var recC func(seq []string, depth int)
		recC = func(seq []string, depth int) {
			if run.TooManyViolations() {
				completeC = false
				return
			}
			one(caseT{Src: strings.TrimSpace(ctx.pre + " " + strings.Join(seq, " ") + " " + ctx.post), Stream: "ctxfull"})
			if depth == maxC {
				return
			}
			for _, s := range fullPlus {
				recC(append(seq, s), depth+1)
			}
		}
		recC(nil, 0)
	}
	run.Res.Extra["full_alphabet_in_contexts"] = map[string]interface{}{"contexts": len(fullContexts), "max_len": maxC, "complete": completeC}
	run.Res.Exhaustive = run.Res.Exhaustive && completeC

	// ---- (e) a malformed lexeme right after every token sequence: which error is reported
	// classes of lexical errors, each in every line-terminator layout
	maxE := run.N(2, 3)
	layouts := []string{" ", "\n", "\r", "\r\n"}
	tails := []string{"", "a }"}
	nE := 0
	emit := func(seq []string, pre, post string) {
		for bi, b := range badLexemes {
			for li, sep := range layouts {
				// full product for short sequences, a rotating quarter of it for the others
				if len(seq) > 1 && (bi+li+nE)%4 != 0 {
					continue
				}
				parts := []string{}
				if pre != "" {
					parts = append(parts, strings.Fields(pre)...)
				}
				parts = append(parts, seq...)
				parts = append(parts, b.text)
				src := strings.Join(parts, sep)
				tail := tails[(bi+li+nE)%2]
				if post != "" {
					tail = post
				}
				if tail != "" {
					src += sep + strings.Join(strings.Fields(tail), sep)
				}
				one(caseT{Src: src, Stream: "lexafter:" + b.cls})
			}
		}
		nE++
	}
	var recE func(seq []string, depth int)
	recE = func(seq []string, depth int) {
		if run.TooManyViolations() {
			return
		}
		emit(seq, "", "")
		if depth == maxE {
			return
		}
		for _, s := range fullPlus {
			recE(append(seq, s), depth+1)
		}
	}
	recE(nil, 0)
	for _, ctx := range fullContexts {
		emit(nil, ctx.pre, ctx.post)
		for _, s := range fullPlus {
			if run.TooManyViolations() {
				break
			}
			emit([]string{s}, ctx.pre, ctx.post)
			if run.Thorough() {
				for _, s2 := range fullPlus {
					emit([]string{s, s2}, ctx.pre, ctx.post)
				}
			}
		}
	}
	run.Res.Extra["malformed_lexeme_after"] = map[string]interface{}{"classes": len(badLexemes), "layouts": layouts, "max_len": maxE, "contexts": len(fullContexts)}

	// ---- (f) described type-system definitions: every definition kind that takes a description (and `extend`), quoted /
	// block / empty descriptions, glued to or separated from the keyword, first in the document / after another
	// definition / after a described definition / after an operation / after a comment, inner descriptions on fields,
	// arguments, enum values, input fields and directive arguments; then pairs of described definitions and
	// token-level mutations of all of these
	describedDocs := describedStream(run.Thorough())
	for i, src := range describedDocs {
		if run.TooManyViolations() {
			break
		}
		one(caseT{Src: src, Stream: "described"})
		_, raw, _, ok := lexAll(src)
		if !ok || len(raw) < 2 {
			continue
		}
		r := hx.Fork(run.Seed, 7000000+i)
		texts := []string{}
		for _, t := range raw[:len(raw)-1] {
			texts = append(texts, renderTok(t))
		}
		for k := r.Range(1, 2); k > 0; k-- {
			texts = mutate(r, texts, full)
		}
		one(caseT{Src: strings.Join(texts, []string{" ", "\n", "  "}[r.Intn(3)]), Stream: "described-mutation"})
	}
	run.Res.Extra["described_definitions"] = len(describedDocs)

	// ---- (c) generated documents, (d) token-level mutations
	n := run.N(2500, 400000)
	for i := 0; i < n && !run.TooManyViolations(); i++ {
		r := hx.Fork(run.Seed, i)
		g := &gen.DocGen{R: r, Size: r.Range(1, 6), Exec: r.Chance(3, 4), TypeSystem: r.Chance(1, 2), Exotic: true}
		src := g.Document()
		one(caseT{Src: src, Stream: "docgen"})
		_, raw, _, ok := lexAll(src)
		if !ok || len(raw) < 2 {
			continue
		}
		texts := []string{}
		for _, t := range raw[:len(raw)-1] {
			texts = append(texts, renderTok(t))
		}
		for k := r.Range(1, 3); k > 0; k-- {
			texts = mutate(r, texts, full)
		}
		one(caseT{Src: strings.Join(texts, " "), Stream: "mutation"})
		// the document cut after a random token (or right after a token-level mutation), followed by a malformed lexeme
		cut := r.Intn(len(texts) + 1)
		b := badLexemes[r.Intn(len(badLexemes))]
		sep := []string{" ", "\n", "\r", "\r\n"}[r.Intn(4)]
		one(caseT{Src: strings.Join(append(append([]string{}, texts[:cut]...), b.text), sep) + sep + strings.Join(texts[cut:], sep), Stream: "lexafter-doc:" + b.cls})
	}
	run.Res.Extra["lex_errors_skipped"] = lexErrors
	if staleKF > 0 {
		run.Res.Extra["stale_known_finding_typeRefMalformed"] = staleKF
		run.Res.Assumptions = append(run.Res.Assumptions, fmt.Sprintf("known finding typeRefMalformed looks repaired in this tree: %d inputs the bug-faithful model accepts are rejected by parser.Parse and by the grammar (stale known: line)", staleKF))
	}
	run.Finish()
}

// describedStream: see stream (f)
func describedStream(thorough bool) []string {
	descs := []string{"\"the doc\"", "\"\"\"block\n  doc\"\"\"", "\"\"", "\"\"\"\"\"\""}
	inner := []string{"", "\"inner\" ", "\"\"\"inner block\"\"\"\n"}
	// %D top-level description slot, %I inner description slots
	templates := []string{
		"%Dscalar Date",
		"%Dscalar Date @a",
		"%Dtype T { %Ia: Int }",
		"%Dtype T implements I & J @a { %Ia(%Ix: Int = 1, %Iy: [T!]): Int %Ib: T }",
		"%Dinterface I { %Ia(%Ix: Int): Int }",
		"%Dunion U = A | B",
		"%Dunion U @a = A",
		"%Denum E { %IRED %IGREEN @a }",
		"%Dinput In { %Ia: Int = 1 %Ib: [In] }",
		"%Ddirective @d(%Ix: Int, %Iy: T) on FIELD | QUERY",
		"%Ddirective @d on FIELD",
		"extend %Dtype T { %Ia: Int }",
		"extend %Dtype T @a { %Ia(%Ix: Int): Int }",
	}
	befores := []string{"", "scalar Before ", "\"first\" scalar Before\n", "{ a } ", "# comment\n", "type X { a: Int }\n", "enum E0 { A }\n\n", "schema { query: Q } ",
		"directive @b on FIELD ", "union V = A ", "\ufeff", "  \n\t"}
	afters := []string{"", " scalar After", "\n\"last\" scalar After", " { a }"}
	glue := []string{" ", "\n", ""}
	out := []string{}
	fill := func(tpl, d, in string) string {
		return strings.ReplaceAll(strings.ReplaceAll(tpl, "%D", d), "%I", in)
	}
	for _, tpl := range templates {
		for _, d := range descs {
			for _, gl := range glue {
				for ii, in := range inner {
					for bi, b := range befores {
						for ai, a := range afters {
							if !thorough && (ii+bi+ai)%3 != 0 && !(ii == 0 && ai == 0) {
								continue
							}
							out = append(out, b+fill(tpl, d+gl, in)+a)
						}
					}
				}
			}
		}
		// no top-level description, inner ones only
		for _, in := range inner[1:] {
			out = append(out, fill(tpl, "", in))
		}
	}
	// pairs of described definitions
	for i, t1 := range templates {
		for j, t2 := range templates {
			d1, d2 := descs[(i+j)%len(descs)], descs[(i+2*j+1)%len(descs)]
			out = append(out, fill(t1, d1+" ", inner[(i+j)%3])+"\n"+fill(t2, d2+"\n", inner[(i+2*j)%3]))
		}
	}
	return out
}

func contexts2() []string {
	out := []string{}
	for _, c := range contexts {
		out = append(out, c.pre+" _ "+c.post)
	}
	return out
}

func isASCII(s string) bool {
	for i := 0; i < len(s); i++ {
		if s[i] >= 0x80 {
			return false
		}
	}
	return true
}

func fmtPtr(p *int) string {
	if p == nil {
		return "null"
	}
	return fmt.Sprint(*p)
}

// renderTok gives a source text that lexes back to a token of the same kind and value (block strings
// become ordinary strings).
func renderTok(t lexer.Token) string {
	switch t.Kind {
	case lexer.NAME, lexer.INT, lexer.FLOAT:
		return t.Value
	case lexer.STRING, lexer.BLOCK_STRING:
		var b strings.Builder
		b.WriteByte('"')
		for _, r := range t.Value {
			switch {
			case r == '"':
				b.WriteString("\\\"")
			case r == '\\':
				b.WriteString("\\\\")
			case r < 0x20 || r == 0x7f || r == 0xFFFD:
				fmt.Fprintf(&b, "\\u%04X", r)
			default:
				b.WriteRune(r)
			}
		}
		b.WriteByte('"')
		return b.String()
	}
	return t.Kind.String()
}

func mutate(r *hx.Rng, ts []string, alphabet []string) []string {
	out := append([]string{}, ts...)
	switch r.Intn(4) {
	case 0: // insert
		i := r.Intn(len(out) + 1)
		out = append(out[:i], append([]string{r.Pick(alphabet)}, out[i:]...)...)
	case 1: // delete
		if len(out) > 0 {
			i := r.Intn(len(out))
			out = append(out[:i], out[i+1:]...)
		}
	case 2: // swap neighbours
		if len(out) > 1 {
			i := r.Intn(len(out) - 1)
			out[i], out[i+1] = out[i+1], out[i]
		}
	default: // replace
		if len(out) > 0 {
			out[r.Intn(len(out))] = r.Pick(alphabet)
		}
	}
	return out
}

var _ = ast.NewDocument
